#!/usr/bin/env python3
"""Driver for the /verif property checks (see DESIGN.md section 2).

  ./check <ID> quick|thorough      run the property's check, write evidence/<ID>.json
  ./check <ID> --replay <path>     re-run a saved failing case
  ./check setup                    pre-build everything (offline)
  ./check manifest                 regenerate MANIFEST.json from tools/props.py
  ./check selftest [ID ...]        apply each mutants/<ID>/*.patch to /repo, expect exit 1, undo

Exit codes: 0 held (possibly with KNOWN-FINDING lines), 1 VIOLATION, 2 inconclusive
(build failure, worker death, time-out, failed health check).
"""
import atexit
import glob
import hashlib
import json
import os
import re
import resource
import shutil
import signal
import subprocess
import sys
import time

VERIF = os.path.dirname(os.path.dirname(os.path.abspath(__file__)))
HARNESS = os.path.join(VERIF, "harness")
REPO = "/repo"
sys.path.insert(0, os.path.join(VERIF, "tools"))
from props import PROPS, TAG  # noqa: E402

GOENV = {
    "GOFLAGS": "-mod=mod",
    "GOPROXY": "off",
    "GOSUMDB": "off",
    "GOTOOLCHAIN": "local",
    "GONOSUMDB": "*",
    "GONOSUMCHECK": "1",
    "GOFLAGS_EXTRA": "",
}

WORK = None


def log(*a):
    print(*a, flush=True)


def mkwork():
    global WORK
    base = os.path.join(VERIF, ".work")
    os.makedirs(base, exist_ok=True)
    WORK = os.path.join(base, "%d-%d" % (os.getpid(), int(time.time())))
    os.makedirs(WORK)
    for d in ("bin", "stats", "run", "tmp", "logs"):
        os.makedirs(os.path.join(WORK, d))
    if os.environ.get("VERIF_KEEP") != "1":
        atexit.register(lambda: shutil.rmtree(WORK, ignore_errors=True))
    return WORK


def goenv(extra=None):
    e = dict(os.environ)
    e.update({k: v for k, v in GOENV.items() if k != "GOFLAGS_EXTRA"})
    e.pop("GOFLAGS_EXTRA", None)
    if extra:
        e.update(extra)
    return e


def run_cmd(cmd, cwd, env=None, timeout=1800):
    try:
        p = subprocess.run(cmd, cwd=cwd, env=env or goenv(), stdout=subprocess.PIPE,
                           stderr=subprocess.STDOUT, timeout=timeout)
        return p.returncode, p.stdout.decode("utf-8", "replace")
    except subprocess.TimeoutExpired as ex:
        return 124, (ex.stdout or b"").decode("utf-8", "replace") + "\n[driver] build timed out"


def build(prop_id, cfg):
    """Build the property's test binary and helper binaries from /repo's current tree."""
    t0 = time.time()
    out_bin = os.path.join(WORK, "bin", prop_id.lower() + ".test")
    rc, out = run_cmd(["go", "test", "-c", "-tags", TAG, "-o", out_bin, cfg["pkg"]], HARNESS)
    if rc != 0 or not os.path.exists(out_bin):
        log("[driver] build of %s failed (rc=%d):\n%s" % (cfg["pkg"], rc, out[-4000:]))
        return None
    for helper in cfg.get("helpers", []):
        hb = os.path.join(WORK, "bin", helper)
        rc, out = run_cmd(["go", "build", "-tags", TAG, "-o", hb, "./cmd/" + helper], HARNESS)
        if rc != 0:
            log("[driver] build of helper %s failed:\n%s" % (helper, out[-4000:]))
            return None
    log("[driver] built %s in %.1fs" % (cfg["pkg"], time.time() - t0))
    return out_bin


def known_findings(prop_id):
    """Parse KNOWN_FINDINGS.txt -> list of (key, text) for 'known:' lines of this property."""
    res = []
    path = os.path.join(VERIF, "KNOWN_FINDINGS.txt")
    for line in (open(path) if os.path.exists(path) else []):
        line = line.strip()
        m = re.match(r"known:\s+property=(\S+)\s+key=(\S+)\s+(.*)$", line)
        if m and m.group(1) == prop_id:
            res.append((m.group(2), m.group(3)))
    # development aid only: look behind a finding that is not (yet) listed
    for k in os.environ.get("VERIF_EXTRA_KNOWN", "").split(","):
        if k.strip():
            res.append((k.strip(), "(development override VERIF_EXTRA_KNOWN)"))
    return res


def shard_seed(seed, shard, salt=""):
    h = hashlib.sha256(("%d/%d/%s" % (seed, shard, salt)).encode()).digest()
    v = int.from_bytes(h[:8], "big") >> 1
    return v or 1


def limit_child():
    try:
        resource.setrlimit(resource.RLIMIT_AS, (48 << 30, 48 << 30))
        resource.setrlimit(resource.RLIMIT_CORE, (0, 0))
    except Exception:
        pass
    os.setsid()


FAIL_RE = re.compile(r"VERIF-FAIL (\{.*\})\s*$")


def parse_fail(line):
    m = FAIL_RE.search(line)
    if not m:
        return None
    try:
        return json.loads(m.group(1))
    except Exception:
        return {"key": "unparsable", "message": line.strip()[:2000]}


FATAL_OOM_RE = re.compile(r"^(fatal error: (runtime: )?out of memory|fatal error: runtime: cannot allocate memory|runtime: out of memory: cannot allocate|fatal error: stack overflow)", re.M)


def analyse_crash(text, prop_id):
    """A worker that the Go runtime ended with a fatal out-of-memory error: when the goroutine that asked
    for the memory is inside notation-go (called from the harness with a small input), the death of the
    process IS the robustness violation, not an infrastructure problem. Returns a failure dict or None."""
    m = FATAL_OOM_RE.search(text)
    if not m:
        return None
    rest = text[m.start():]
    g = re.search(r"^goroutine \d+ (?:gp=\S+ m=\S+(?: mp=\S+)? )?\[running[^\]]*\]:\n(.*?)(?:\n\n|\Z)", rest, re.M | re.S)
    if not g:
        return None
    frames = re.findall(r"^([A-Za-z0-9_./\-]+(?:\.[^\s(]+|\([^)]*\)[^\s(]*)*)\(", g.group(1), re.M)
    lib = [f for f in frames if f.startswith("github.com/notaryproject/notation-go")]
    if not lib:
        return None
    first = re.sub(r"\(\*?([A-Za-z0-9_]+)\)", r"\1", lib[0].replace("github.com/notaryproject/notation-go/", ""))
    stack = "\n".join(l for l in g.group(1).splitlines() if not l.startswith("\t"))[:1500]
    what = "fatal-stack-overflow" if "stack overflow" in m.group(0) else "fatal-out-of-memory"
    return {"key": "%s:%s:%s" % (prop_id, what, first), "kind": "crash", "test": None, "failfile": None,
            "message": "the worker process was ended by the Go runtime (%s) while library code was running; frames of the goroutine:\n%s" % (m.group(0).strip(), stack)}


def analyse_output(text):
    """Return list of failures found in one shard's output.
    Each: dict(key, message, case, test, failfile, kind)."""
    fails = []
    lines = text.splitlines()
    cur_test = None
    i = 0
    rapid_seen = set()
    plain = []
    while i < len(lines):
        ln = lines[i]
        m = re.match(r"\s*=== RUN\s+(\S+)", ln)
        if m:
            cur_test = m.group(1)
        m = re.match(r"\s*--- FAIL: (\S+)", ln)
        if m:
            cur_test = m.group(1)
        if "[rapid] failed after" in ln or "[rapid] panic after" in ln or "[rapid] flaky test" in ln or "[rapid] failed:" in ln or "[rapid] panic:" in ln:
            f = parse_fail(ln)
            kind = "rapid"
            if f is None and "harness:" in ln:
                f = {"key": "harness", "message": ln.strip()[:3000], "infra": True}
            if f is None:
                if "panic" in ln:
                    f = {"key": "panic", "message": ln.strip()[:3000]}
                elif "flaky" in ln:
                    ctx = " ".join(lines[i:i + 6])
                    if re.search(r"Original traceback \(harness:", ctx):
                        # the failure rapid could not reproduce was an infrastructure failure of the harness
                        f = {"key": "harness", "message": ("not reproducible: " + ctx)[:3000], "infra": True}
                    else:
                        f = {"key": "flaky", "message": "rapid could not reproduce a failure (schedule/time dependent): " + ctx[:3000]}
                else:
                    f = {"key": "unkeyed", "message": ln.strip()[:3000]}
            # find the reproduction hint in the following lines
            failfile, test = None, cur_test
            for j in range(i, min(i + 6, len(lines))):
                mm = re.search(r'-run="([^"]+)"', lines[j])
                if mm:
                    test = mm.group(1).replace("\\", "").strip("^$")
                mm = re.search(r'-rapid\.failfile="([^"]+)"', lines[j])
                if mm:
                    failfile = mm.group(1)
            f.update(test=test, failfile=failfile, kind=kind)
            fails.append(f)
            rapid_seen.add(test)
        else:
            f = parse_fail(ln)
            if f is not None:
                f.update(test=cur_test, failfile=None, kind="plain")
                plain.append(f)
        i += 1
    # plain failures from tests that have no rapid report (enumerations / stress tests)
    rapid_keys = {(f.get("key"), f.get("message")) for f in fails}
    for f in plain:
        if (f.get("key"), f.get("message")) in rapid_keys:
            continue
        if any(g["kind"] == "plain" and g.get("key") == f.get("key") for g in fails):
            continue
        # a plain VERIF-FAIL line repeated by rapid's re-run of the minimal case carries the same key
        if any(g["kind"] == "rapid" and g.get("key") == f.get("key") for g in fails):
            continue
        fails.append(f)
    return fails


def merge_stats(stats_dir):
    agg = {"evaluations": 0, "nontrivial": 0, "classes": {}, "fps": set(), "capped": False,
           "samples": {}, "known_hits": {}, "extra": {}, "tests": {}, "rules": [], "exhaustive": []}
    for path in sorted(glob.glob(os.path.join(stats_dir, "*", "*.json"))):
        try:
            d = json.load(open(path))
        except Exception:
            continue
        agg["evaluations"] += d.get("evaluations", 0)
        agg["nontrivial"] += d.get("nontrivial", 0)
        for k, v in d.get("classes", {}).items():
            agg["classes"][k] = agg["classes"].get(k, 0) + v
        test = d.get("test", "?")
        for fp in d.get("fingerprints", []):
            agg["fps"].add(test + ":" + fp)
        agg["capped"] = agg["capped"] or d.get("fingerprints_capped", False)
        for k, v in d.get("samples", {}).items():
            s = agg["samples"].setdefault(test + "/" + k, [])
            if len(s) < 1:
                s.extend(v[:1])
        for k, v in d.get("known_hits", {}).items():
            agg["known_hits"][k] = agg["known_hits"].get(k, 0) + v
        for k, v in d.get("extra", {}).items():
            if isinstance(v, (int, float)) and not isinstance(v, bool):
                if k.startswith(("count_", "n_", "sum_")):
                    agg["extra"][k] = agg["extra"].get(k, 0) + v
                else:
                    agg["extra"][k] = max(agg["extra"].get(k, v), v)
            else:
                agg["extra"][k] = v
        t = agg["tests"].setdefault(test, {"evaluations": 0, "nontrivial": 0})
        t["evaluations"] += d.get("evaluations", 0)
        t["nontrivial"] += d.get("nontrivial", 0)
        if d.get("rule") and d["rule"] not in agg["rules"]:
            agg["rules"].append(d["rule"])
        if d.get("exhaustive") and test not in agg["exhaustive"]:
            agg["exhaustive"].append(test)
    return agg


def write_evidence(prop_id, cfg, tier, seed, agg, wall, violations, notes, fuzz=None):
    samples = []
    for k in sorted(agg["samples"]):
        for s in agg["samples"][k]:
            if len(samples) < 24:
                samples.append({"class": k, "case": s})
    cov = {
        "evaluations": agg["evaluations"],
        "distinct_nontrivial": len(agg["fps"]),
        "nontrivial_evaluations": agg["nontrivial"],
        "rule": " | ".join(agg["rules"]) or cfg.get("rule", ""),
        "samples": samples,
        "classes": dict(sorted(agg["classes"].items())),
        "per_test": agg["tests"],
        "known_findings_hit": agg["known_hits"],
        "distinct_count_is_lower_bound": agg["capped"],
        "exhaustive_subspaces": agg["exhaustive"],
    }
    if agg["exhaustive"] and cfg.get("exhaustive_all"):
        cov["exhaustive"] = True
    cov.update(agg["extra"])
    if fuzz:
        cov["native_fuzz"] = fuzz
    if notes:
        cov["notes"] = notes
    ev = {
        "property_id": prop_id,
        "tier": tier,
        "seed": seed,
        "level": cfg["level"],
        "coverage": cov,
        "assumptions": cfg.get("assumptions", []),
        "wall_s": round(wall, 2),
        "violations": violations,
    }
    # VERIF_EVIDENCE_DIR: runs against a deliberately broken /repo (selftest, seeded changes) write elsewhere,
    # so that the committed evidence always comes from the unchanged tree
    evdir = os.environ.get("VERIF_EVIDENCE_DIR") or os.path.join(VERIF, "evidence")
    os.makedirs(evdir, exist_ok=True)
    path = os.path.join(evdir, prop_id + ".json")
    tmp = path + ".tmp%d" % os.getpid()
    with open(tmp, "w") as f:
        json.dump(ev, f, indent=1, sort_keys=False, default=str)
        f.write("\n")
    os.replace(tmp, path)
    return path


def save_replay(prop_id, f, shard_cwd, shard_log, tier, seed):
    rd = os.path.join(os.environ.get("VERIF_REPLAYS_DIR") or os.path.join(VERIF, "replays"), prop_id)
    os.makedirs(rd, exist_ok=True)
    stamp = time.strftime("%Y%m%d-%H%M%S")
    safe_key = re.sub(r"[^A-Za-z0-9_.-]+", "_", f.get("key", "x"))[:60]
    base = "%s-%s-%s" % (safe_key, stamp, hashlib.sha1(json.dumps(f, sort_keys=True, default=str).encode()).hexdigest()[:8])
    desc = {"property": prop_id, "test": f.get("test"), "kind": f.get("kind"), "key": f.get("key"),
            "message": f.get("message"), "case": f.get("case"), "tier": tier, "seed": seed}
    if f.get("failfile"):
        src = f["failfile"] if os.path.isabs(f["failfile"]) else os.path.join(shard_cwd, f["failfile"])
        if os.path.exists(src):
            dst = os.path.join(rd, base + ".fail")
            shutil.copy(src, dst)
            desc["failfile"] = os.path.relpath(dst, VERIF)
    try:
        shutil.copy(shard_log, os.path.join(rd, base + ".log"))
        desc["log"] = os.path.relpath(os.path.join(rd, base + ".log"), VERIF)
    except Exception:
        pass
    path = os.path.join(rd, base + ".json")
    with open(path, "w") as fh:
        json.dump(desc, fh, indent=1, default=str)
    return os.path.relpath(path, VERIF)


def run_shards(prop_id, cfg, binpath, tier, seed, run_regex, extra_env=None, extra_args=None, shards=None, timeout=None, only_shard=None):
    nsh = shards or cfg.get("shards", {}).get(tier, 8)
    known = known_findings(prop_id)
    procs = []
    for i in range(nsh):
        if only_shard is not None and i != only_shard:
            continue
        cwd = os.path.join(WORK, "run", "shard%d" % i)
        sdir = os.path.join(WORK, "stats", "shard%d" % i)
        tmpd = os.path.join(WORK, "tmp", "shard%d" % i)
        for d in (cwd, sdir, tmpd):
            os.makedirs(d, exist_ok=True)
        env = goenv({
            "VERIF_STATS_DIR": sdir, "VERIF_SHARD": str(i), "VERIF_SHARDS": str(nsh),
            "VERIF_SHARD_SEED": str(shard_seed(seed, i)), "VERIF_TIER": tier, "VERIF_SEED": str(seed),
            "VERIF_KNOWN": ",".join(k for k, _ in known), "VERIF_BIN_DIR": os.path.join(WORK, "bin"),
            "VERIF_HARNESS_DIR": HARNESS, "VERIF_DIR": VERIF, "TMPDIR": tmpd, "GOMEMLIMIT": "6GiB",
            "VERIF_REPO": REPO,
        })
        if extra_env:
            env.update(extra_env)
        logp = os.path.join(WORK, "logs", "shard%d.log" % i)
        args = [binpath, "-test.run", run_regex, "-test.timeout", "0", "-test.v", "-test.count", "1"]
        if extra_args:
            args += extra_args
        fh = open(logp, "wb")
        p = subprocess.Popen(args, cwd=cwd, env=env, stdout=fh, stderr=subprocess.STDOUT, preexec_fn=limit_child)
        procs.append((i, p, fh, logp, cwd))
    deadline = time.time() + (timeout or cfg.get("timeout", {}).get(tier, 900 if tier == "quick" else 5400))
    results = []
    timed_out = False
    for i, p, fh, logp, cwd in procs:
        try:
            p.wait(timeout=max(1, deadline - time.time()))
        except subprocess.TimeoutExpired:
            timed_out = True
            try:
                os.killpg(p.pid, signal.SIGKILL)
            except Exception:
                p.kill()
            p.wait()
        fh.close()
        try:  # kill stray descendants of the shard (its own process group)
            os.killpg(p.pid, signal.SIGKILL)
        except Exception:
            pass
        results.append((i, p.returncode, logp, cwd))
    return results, timed_out


def run_fuzz(prop_id, cfg, tier, budget_notes):
    """Native fuzz campaigns (thorough tier only). Returns (fails, info)."""
    fails, info = [], []
    for tgt in cfg.get("fuzz", []):
        name, secs = tgt["name"], tgt.get("seconds", 90)
        pkgdir = os.path.join(HARNESS, cfg["pkg"].lstrip("./"))
        crash_dir = os.path.join(pkgdir, "testdata", "fuzz", name)
        before = set(os.listdir(crash_dir)) if os.path.isdir(crash_dir) else set()
        cache = os.path.join(WORK, "fuzzcache")
        env = goenv({"VERIF_TIER": tier, "VERIF_HARNESS_DIR": HARNESS, "VERIF_DIR": VERIF,
                     "VERIF_BIN_DIR": os.path.join(WORK, "bin"), "TMPDIR": os.path.join(WORK, "tmp"),
                     "VERIF_KNOWN": ",".join(k for k, _ in known_findings(prop_id))})
        cmd = ["go", "test", "-tags", TAG, "-run", "^$", "-fuzz", "^" + name + "$", "-fuzztime", "%ds" % secs,
               cfg["pkg"], "-test.fuzzcachedir", cache]
        t0 = time.time()
        rc, out = run_cmd(cmd, HARNESS, env=env, timeout=secs + 600)
        execs = 0
        for m in re.finditer(r"execs: (\d+)", out):
            execs = max(execs, int(m.group(1)))
        newint = 0
        for m in re.finditer(r"new interesting: (\d+)", out):
            newint = max(newint, int(m.group(1)))
        info.append({"target": name, "seconds": round(time.time() - t0, 1), "execs": execs, "new_interesting": newint, "exit": rc})
        logp = os.path.join(WORK, "logs", "fuzz-%s.log" % name)
        open(logp, "w").write(out)
        after = set(os.listdir(crash_dir)) if os.path.isdir(crash_dir) else set()
        new = sorted(after - before)
        if rc != 0:
            f = None
            for ln in out.splitlines():
                g = parse_fail(ln)
                if g:
                    f = g
            if f is None and new:
                m = re.search(r"panic: (.*)", out)
                f = {"key": "fuzz-crash:" + name, "message": (m.group(1) if m else out[-1500:])}
            if f is None:
                if rc == 124 or "context deadline exceeded" in out[-600:]:
                    budget_notes.append("fuzz target %s ended inconclusively (rc=%d)" % (name, rc))
                    continue
                budget_notes.append("fuzz target %s exited rc=%d without a recorded failure: %s" % (name, rc, out[-400:]))
                f = {"key": "fuzz-infra:" + name, "message": out[-1500:], "infra": True}
            f.update(test=name, kind="fuzz", failfile=None)
            rd = os.path.join(VERIF, "replays", prop_id)
            os.makedirs(rd, exist_ok=True)
            for n in new:
                dst = os.path.join(rd, "fuzz-%s-%s" % (name, n))
                shutil.move(os.path.join(crash_dir, n), dst)
                f["fuzzinput"] = os.path.relpath(dst, VERIF)
            fails.append((f, logp))
    return fails, info


def health_check(cfg, agg, tier):
    problems = []
    for cls, minimum in cfg.get("health", {}).items():
        if isinstance(minimum, dict):
            minimum = minimum.get(tier, 1)
        if agg["classes"].get(cls, 0) < minimum:
            problems.append("class %r has %d cases, need >= %d" % (cls, agg["classes"].get(cls, 0), minimum))
    if agg["evaluations"] < 1:
        problems.append("no cases were evaluated")
    if len(agg["fps"]) < 2:
        problems.append("fewer than 2 distinct non-trivial cases")
    return problems


def do_check(prop_id, tier, seed):
    cfg = PROPS[prop_id]
    mkwork()
    t0 = time.time()
    binpath = build(prop_id, cfg)
    if binpath is None:
        log("[driver] INCONCLUSIVE: the harness does not build against /repo's current tree")
        return 2
    results, timed_out = run_shards(prop_id, cfg, binpath, tier, seed, cfg.get("run", "^Test" + prop_id + "_"))
    notes = []
    all_fails = []
    infra = []
    for i, rc, logp, cwd in results:
        text = open(logp, errors="replace").read()
        fails = analyse_output(text) if rc != 0 else []
        if rc != 0 and not fails and cfg.get("crash_is_violation"):
            cf = analyse_crash(text, prop_id)
            if cf:
                cf["case"] = {"shard": i, "shards": len(results), "tier": tier, "seed": seed, "note": "re-run this shard: the case that killed the worker could not be saved by the dying process"}
                fails = [cf]
        if rc != 0 and not fails:
            infra.append((i, rc, logp))
        for f in fails:
            if f.get("infra"):
                infra.append((i, rc, logp))
            else:
                all_fails.append((f, logp, cwd))
    fuzz_info = None
    if tier == "thorough" and cfg.get("fuzz") and not all_fails:
        ff, fuzz_info = run_fuzz(prop_id, cfg, tier, notes)
        for f, logp in ff:
            if f.get("infra"):
                infra.append((-1, 1, logp))
            else:
                all_fails.append((f, logp, HARNESS))
    agg = merge_stats(os.path.join(WORK, "stats"))
    wall = time.time() - t0
    known = known_findings(prop_id)
    # distinct violations by key
    seen = {}
    for f, logp, cwd in all_fails:
        seen.setdefault(f.get("key", "?"), (f, logp, cwd))
    write_evidence(prop_id, cfg, tier, seed, agg, wall, len(seen), notes, fuzz_info)
    for key, text in known:
        log("KNOWN-FINDING: property=%s %s [key=%s, hit %d times in this run]" % (prop_id, text, key, agg["known_hits"].get(key, 0)))
    if seen:
        for key, (f, logp, cwd) in seen.items():
            rp = save_replay(prop_id, f, cwd, logp, tier, seed)
            log("[driver] %s failed: key=%s test=%s\n         %s" % (prop_id, key, f.get("test"), str(f.get("message"))[:1500]))
            log("VIOLATION property=%s replay=%s" % (prop_id, rp))
        return 1
    if timed_out:
        log("[driver] INCONCLUSIVE: time budget exhausted before all shards finished (no violation seen)")
        return 2
    if infra:
        for i, rc, logp in infra:
            tail = open(logp, errors="replace").read()[-3000:]
            log("[driver] shard %d ended with rc=%s without a property failure; tail of its log:\n%s" % (i, rc, tail))
        log("[driver] INCONCLUSIVE: harness/infrastructure failure")
        return 2
    problems = health_check(cfg, agg, tier)
    if problems:
        for p in problems:
            log("[driver] health check: " + p)
        log("[driver] INCONCLUSIVE: the run was (partly) vacuous")
        return 2
    log("[driver] %s %s: held on %d cases (%d distinct non-trivial) in %.1fs" % (prop_id, tier, agg["evaluations"], len(agg["fps"]), wall))
    return 0


def do_replay(prop_id, path):
    cfg = PROPS[prop_id]
    mkwork()
    if not os.path.isabs(path):
        path = os.path.join(VERIF, path)
    desc = json.load(open(path)) if path.endswith(".json") else {"kind": "rapid", "failfile": path, "test": None}
    binpath = build(prop_id, cfg)
    if binpath is None:
        return 2
    if desc.get("kind") == "crash" and isinstance(desc.get("case"), dict):
        c = desc["case"]
        results, timed_out = run_shards(prop_id, cfg, binpath, c.get("tier", "quick"), int(c.get("seed") or 1), cfg.get("run", "^Test" + prop_id + "_"),
                                        shards=int(c.get("shards") or 1), only_shard=int(c.get("shard") or 0), timeout=3600)
        i, rc, logp, cwd = results[0]
        text = open(logp, errors="replace").read()
        sys.stdout.write(text[-4000:])
        if rc != 0 and (analyse_output(text) or analyse_crash(text, prop_id)):
            log("VIOLATION property=%s replay=%s" % (prop_id, os.path.relpath(path, VERIF)))
            return 1
        if rc != 0:
            return 2
        log("[driver] replay passed (the violation does not reproduce on the current tree)")
        return 0
    test = desc.get("test") or ""
    top = test.split("/")[0] if test else "^Test" + prop_id + "_"
    extra_args, extra_env = [], {"VERIF_REPLAY": path}
    if desc.get("kind") == "fuzz" and desc.get("fuzzinput"):
        extra_env["VERIF_FUZZ_INPUT"] = os.path.join(VERIF, desc["fuzzinput"])
    if desc.get("failfile"):
        ff = desc["failfile"] if os.path.isabs(desc["failfile"]) else os.path.join(VERIF, desc["failfile"])
        extra_args += ["-rapid.failfile", ff]
    if desc.get("case") is not None:
        cp = os.path.join(WORK, "case.json")
        json.dump(desc["case"], open(cp, "w"))
        extra_env["VERIF_REPLAY_CASE"] = cp
    results, timed_out = run_shards(prop_id, cfg, binpath, "quick", int(desc.get("seed") or 1), "^" + top + "$" if test else top,
                                    extra_env=extra_env, extra_args=extra_args, shards=1, timeout=1800)
    i, rc, logp, cwd = results[0]
    text = open(logp, errors="replace").read()
    sys.stdout.write(text[-6000:])
    fails = analyse_output(text) if rc != 0 else []
    if fails:
        log("VIOLATION property=%s replay=%s" % (prop_id, os.path.relpath(path, VERIF)))
        return 1
    if rc != 0:
        return 2
    log("[driver] replay passed (the violation does not reproduce on the current tree)")
    return 0


def do_setup():
    rc, out = run_cmd(["go", "version"], HARNESS)
    log(out.strip())
    rc, out = run_cmd(["go", "build", "./..."], HARNESS)
    if rc != 0:
        log(out)
        return 1
    rc, out = run_cmd(["go", "vet", "-tags", TAG, "./internal/..."], HARNESS)
    rc, out = run_cmd(["go", "test", "-tags", TAG, "-run", "^$", "./..."], HARNESS, timeout=3600)
    log(out[-3000:])
    return 0 if rc == 0 else 1


def do_selftest(ids):
    ok = True
    for pid in ids or sorted(PROPS):
        for patch in sorted(glob.glob(os.path.join(VERIF, "mutants", pid, "*.patch"))):
            st = subprocess.run(["git", "-C", REPO, "status", "--porcelain"], stdout=subprocess.PIPE).stdout.decode().strip()
            if st:
                log("[selftest] /repo is not clean, refusing:\n" + st)
                return 2
            rc = subprocess.run(["git", "-C", REPO, "apply", patch]).returncode
            if rc != 0:
                log("[selftest] %s does not apply" % patch)
                ok = False
                continue
            try:
                t0 = time.time()
                env = dict(os.environ, VERIF_REPLAYS_DIR=os.path.join(VERIF, ".work", "selftest-replays"), VERIF_EVIDENCE_DIR=os.path.join(VERIF, ".work", "selftest-evidence"))
                p = subprocess.run([os.path.join(VERIF, "check"), pid, "quick"], stdout=subprocess.PIPE, stderr=subprocess.STDOUT, env=env)
                if os.environ.get("VERIF_SELFTEST_VERBOSE"):
                    log(p.stdout.decode("utf-8", "replace")[-3000:])
                verdict = "CAUGHT" if p.returncode == 1 else "MISSED(rc=%d)" % p.returncode
                if p.returncode != 1:
                    ok = False
                log("[selftest] %-6s %-50s %s %.0fs" % (pid, os.path.basename(patch), verdict, time.time() - t0))
            finally:
                subprocess.run(["git", "-C", REPO, "checkout", "--", "."])
                subprocess.run(["git", "-C", REPO, "clean", "-fdq"])
    return 0 if ok else 1


def do_manifest():
    from props import manifest
    m = manifest()
    with open(os.path.join(VERIF, "MANIFEST.json"), "w") as f:
        json.dump(m, f, indent=1)
        f.write("\n")
    log("wrote MANIFEST.json with %d checks" % len(m["checks"]))
    return 0


def main(argv):
    if len(argv) < 2:
        print(__doc__)
        return 2
    if argv[1] == "setup":
        return do_setup()
    if argv[1] == "manifest":
        return do_manifest()
    if argv[1] == "selftest":
        return do_selftest(argv[2:])
    pid = argv[1]
    if pid not in PROPS:
        log("unknown property %s" % pid)
        return 2
    if len(argv) >= 4 and argv[2] == "--replay":
        return do_replay(pid, argv[3])
    tier = argv[2] if len(argv) > 2 else os.environ.get("VERIF_TIER", "quick")
    if tier not in ("quick", "thorough"):
        log("tier must be quick or thorough")
        return 2
    try:
        seed = int(os.environ.get("VERIF_SEED", "") or cfg_default_seed())
    except ValueError:
        seed = cfg_default_seed()
    return do_check(pid, tier, seed)


def cfg_default_seed():
    return 20260926


if __name__ == "__main__":
    sys.exit(main(sys.argv))
