#!/usr/bin/env python3
"""Re-run a property's quick check against kept seeded changes and record the result in meta.json.
   seedrecheck.py <name> [<name> ...]   (names under /verif/seeded; 'all' for every one)"""
import json, os, subprocess, sys, time
names = sys.argv[1:]
if names == ["all"]:
    names = sorted(os.listdir("/verif/seeded"))
for name in names:
    d = os.path.join("/verif/seeded", name)
    meta = json.load(open(os.path.join(d, "meta.json")))
    if subprocess.run(["git", "-C", "/repo", "status", "--porcelain"], stdout=subprocess.PIPE).stdout.strip():
        print("repo not clean"); sys.exit(2)
    subprocess.run(["git", "-C", "/repo", "apply", os.path.join(d, "patch.diff")], check=True)
    try:
        t0 = time.time()
        env = dict(os.environ, VERIF_REPLAYS_DIR="/verif/.work/seed-replays", VERIF_EVIDENCE_DIR="/verif/.work/seed-evidence")
        p = subprocess.run(["/verif/check", meta["property"], "quick"], cwd="/verif", env=env, stdout=subprocess.PIPE, stderr=subprocess.STDOUT)
        out = p.stdout.decode("utf-8", "replace")
        keys = sorted(set(l.split("key=")[1].split(" ")[0] for l in out.splitlines() if "failed: key=" in l))
    finally:
        subprocess.run(["git", "-C", "/repo", "checkout", "--", "."])
    head = subprocess.run(["git", "-C", "/verif", "rev-parse", "--short", "HEAD"], stdout=subprocess.PIPE).stdout.decode().strip()
    meta.setdefault("rechecks", []).append({"at": time.strftime("%Y-%m-%d %H:%M:%S"), "verif_commit_or_later": head, "rc": p.returncode, "finding_keys": keys, "wall_s": round(time.time() - t0, 1)})
    meta["caught_by_quick_now"] = p.returncode == 1
    json.dump(meta, open(os.path.join(d, "meta.json"), "w"), indent=1)
    print("%-8s %-5s rc=%d %s (%.0fs)" % (name, meta["property"], p.returncode, keys, time.time() - t0))
