#!/usr/bin/env python3
"""Run /repo's test suite with the verif guard OFF and compare with BASELINE.json's stable_pass list."""
import json, subprocess, sys, os
b = json.load(open("/root/.vp/BASELINE.json"))
want = set(b["stable_pass"])
env = dict(os.environ, GOFLAGS="-mod=mod", GOPROXY="off", GOSUMDB="off", GOTOOLCHAIN="local")
p = subprocess.run(["go", "test", "-json", "-vet=off", "-count=1", "-timeout", "25m", "./..."], cwd="/repo", env=env, stdout=subprocess.PIPE, stderr=subprocess.STDOUT)
status = {}
for line in p.stdout.decode("utf-8", "replace").splitlines():
    try:
        ev = json.loads(line)
    except Exception:
        continue
    if ev.get("Test") and ev.get("Action") in ("pass", "fail", "skip"):
        status[ev["Package"] + "::" + ev["Test"]] = ev["Action"]
missing = sorted(t for t in want if status.get(t) != "pass")
newfail = sorted(t for t, a in status.items() if a == "fail" and t not in set(b["always_fail"]))
print("stable_pass: %d, passing now: %d, not passing: %d, new failures outside always_fail: %d" % (len(want), len(want) - len(missing), len(missing), len(newfail)))
for t in missing[:30]:
    print("  NOT PASSING:", t, status.get(t))
for t in newfail[:30]:
    print("  NEW FAIL:", t)
subprocess.run(["git", "-C", "/repo", "status", "--short"])
sys.exit(1 if missing or newfail else 0)
