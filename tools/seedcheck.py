#!/usr/bin/env python3
"""Confirm a seeded change and run the property's check against it.

  seedcheck.py <PROP> <srcdir> <name> <demo-pkg-dir> [--tier quick]

srcdir holds patch.diff + demo_test.go (+ README.md). Steps:
  1. scratch worktree of /repo HEAD: demo passes WITHOUT the patch;
  2. apply patch: builds, vets, existing suite still matches BASELINE stable_pass, demo FAILS;
  3. copy to /verif/seeded/<name>/, apply the patch to /repo, run ./check <PROP> quick, undo;
  4. write meta.json with everything that was run.
"""
import json, os, shutil, subprocess, sys, time

ENV = dict(os.environ, GOFLAGS="-mod=mod", GOPROXY="off", GOSUMDB="off", GOTOOLCHAIN="local")


def sh(cmd, cwd, timeout=1800):
    p = subprocess.run(cmd, cwd=cwd, env=ENV, shell=isinstance(cmd, str), stdout=subprocess.PIPE, stderr=subprocess.STDOUT, timeout=timeout)
    return p.returncode, p.stdout.decode("utf-8", "replace")


def suite(cwd):
    b = json.load(open("/root/.vp/BASELINE.json"))
    want = set(b["stable_pass"])
    rc, out = sh(["go", "test", "-json", "-vet=off", "-count=1", "-timeout", "25m", "./..."], cwd)
    status = {}
    for line in out.splitlines():
        try:
            ev = json.loads(line)
        except Exception:
            continue
        if ev.get("Test") and ev.get("Action") in ("pass", "fail", "skip"):
            status[ev["Package"] + "::" + ev["Test"]] = ev["Action"]
    missing = sorted(t for t in want if status.get(t) != "pass")
    return missing


def main():
    prop, src, name, pkgdir = sys.argv[1:5]
    phase = sys.argv[5] if len(sys.argv) > 5 else ""  # "", --confirm-only (parallelisable), --check-only (needs /repo)
    tier = "quick"
    if phase == "--check-only":
        return check_only(prop, name, tier)
    meta = {"property": prop, "name": name, "source": src, "demo_package_dir": pkgdir, "ran": [], "at": time.strftime("%Y-%m-%d %H:%M:%S")}
    wt = "/tmp/val-" + name
    subprocess.run(["git", "-C", "/repo", "worktree", "remove", "--force", wt], stdout=subprocess.DEVNULL, stderr=subprocess.DEVNULL)
    rc, out = sh(["git", "-C", "/repo", "worktree", "add", "-q", "--detach", wt, "HEAD"], "/repo")
    if rc != 0:
        print("worktree:", out); return 2
    ok = True
    try:
        demo_dst = os.path.join(wt, pkgdir, "zz_seeded_demo_test.go")
        shutil.copy(os.path.join(src, "demo_test.go"), demo_dst)
        rc0, out0 = sh(["go", "test", "-count=1", "-run", ".", "./" + pkgdir], wt, 900)
        # run only the demo's tests: find their names
        import re
        names = re.findall(r"^func (Test\w+)\(", open(demo_dst).read(), re.M)
        run = "^(" + "|".join(names) + ")$"
        rc_clean, out_clean = sh(["go", "test", "-count=1", "-run", run, "./" + pkgdir], wt, 900)
        meta["ran"].append({"cmd": "demo on clean tree: go test -run '%s' ./%s" % (run, pkgdir), "rc": rc_clean, "tail": out_clean[-600:]})
        print("[seed] demo on clean tree rc=%d" % rc_clean)
        if rc_clean != 0:
            ok = False
        rc, out = sh(["git", "apply", os.path.abspath(os.path.join(src, "patch.diff"))], wt)
        meta["ran"].append({"cmd": "git apply patch.diff", "rc": rc, "tail": out[-300:]})
        if rc != 0:
            print("[seed] patch does not apply:", out); ok = False
        else:
            rc, out = sh("go build ./... && go vet $(git diff --name-only | xargs -n1 dirname | sort -u | sed 's#^#./#')", wt)
            meta["ran"].append({"cmd": "go build ./... && go vet <touched packages>", "rc": rc, "tail": out[-600:]})
            print("[seed] build+vet rc=%d" % rc)
            if rc != 0:
                ok = False
            rc_mut, out_mut = sh(["go", "test", "-count=1", "-run", run, "./" + pkgdir], wt, 900)
            meta["ran"].append({"cmd": "demo with patch", "rc": rc_mut, "tail": out_mut[-1200:]})
            print("[seed] demo with patch rc=%d" % rc_mut)
            if rc_mut == 0:
                ok = False
            os.remove(demo_dst)
            missing = suite(wt)
            if missing and len(missing) <= 6:
                # a timing-sensitive test may flicker on a busy machine: re-run what failed, alone
                still = []
                for tname in missing:
                    pkg, test = tname.split("::", 1)
                    top = test.split("/")[0]
                    rel = "./" + pkg.replace("github.com/notaryproject/notation-go", "").lstrip("/")
                    rc1, out1 = sh(["go", "test", "-count=1", "-vet=off", "-run", "^" + top + "$", rel], wt, 900)
                    if rc1 != 0:
                        still.append(tname)
                if len(still) < len(missing):
                    meta["ran"].append({"cmd": "re-run of flickering suite tests alone", "first_run_not_passing": missing, "still_not_passing": still})
                missing = still
            meta["ran"].append({"cmd": "existing suite with patch vs BASELINE stable_pass", "not_passing": missing})
            print("[seed] suite with patch: %d stable tests not passing %s" % (len(missing), missing[:5]))
            if missing:
                ok = False
    finally:
        subprocess.run(["git", "-C", "/repo", "worktree", "remove", "--force", wt], stdout=subprocess.DEVNULL)
    meta["confirmed"] = ok
    if not ok:
        print("[seed] NOT CONFIRMED; nothing kept")
        print(json.dumps(meta, indent=1)[-3000:])
        return 1
    dst = os.path.join("/verif/seeded", name)
    os.makedirs(dst, exist_ok=True)
    for f in ("patch.diff", "demo_test.go", "README.md"):
        if os.path.exists(os.path.join(src, f)):
            shutil.copy(os.path.join(src, f), os.path.join(dst, f))
    if phase == "--confirm-only":
        json.dump(meta, open(os.path.join(dst, "meta.json"), "w"), indent=1)
        print("[seed] confirmed; check pending")
        return 0
    return run_check(prop, name, tier, meta, dst)


def check_only(prop, name, tier):
    dst = os.path.join("/verif/seeded", name)
    mp = os.path.join(dst, "meta.json")
    if not os.path.exists(mp):
        print("[seed] %s was not confirmed" % name); return 1
    meta = json.load(open(mp))
    if not meta.get("confirmed"):
        print("[seed] %s was not confirmed" % name); return 1
    return run_check(prop, name, tier, meta, dst)


def run_check(prop, name, tier, meta, dst):
    # run the check against it
    st = subprocess.run(["git", "-C", "/repo", "status", "--porcelain"], stdout=subprocess.PIPE).stdout.decode().strip()
    if st:
        print("[seed] /repo not clean:", st); return 2
    rc, out = sh(["git", "-C", "/repo", "apply", os.path.join(dst, "patch.diff")], "/repo")
    try:
        t0 = time.time()
        env = dict(ENV, VERIF_REPLAYS_DIR="/verif/.work/seed-replays", VERIF_EVIDENCE_DIR="/verif/.work/seed-evidence")
        # /tmp/verif_snap (a worktree of the committed /verif), when present, is what a "first run" is judged with,
        # so that the checks can be edited while a batch is running
        cdir = "/tmp/verif_snap" if os.path.isdir("/tmp/verif_snap/tools") else "/verif"
        p = subprocess.run([cdir + "/check", prop, tier], cwd=cdir, env=env, stdout=subprocess.PIPE, stderr=subprocess.STDOUT)
        out = p.stdout.decode("utf-8", "replace")
        keys = sorted(set(l.split("key=")[1].split(" ")[0] for l in out.splitlines() if "failed: key=" in l))
        meta["check"] = {"cmd": "./check %s %s (patch applied to /repo, undone afterwards)" % (prop, tier), "rc": p.returncode, "finding_keys": keys, "wall_s": round(time.time() - t0, 1), "tail": out[-1500:]}
        print("[seed] ./check %s %s -> rc=%d keys=%s (%.0fs)" % (prop, tier, p.returncode, keys, time.time() - t0))
    finally:
        subprocess.run(["git", "-C", "/repo", "checkout", "--", "."])
        subprocess.run(["git", "-C", "/repo", "clean", "-fdq"])
    meta["caught_by_quick"] = meta["check"]["rc"] == 1
    json.dump(meta, open(os.path.join(dst, "meta.json"), "w"), indent=1)
    return 0


if __name__ == "__main__":
    sys.exit(main())
