#!/usr/bin/env python3
"""Validate MANIFEST.json and evidence/*.json against the given schemas."""
import json, sys, glob, os
try:
    import jsonschema
except ImportError:
    sys.path.insert(0, "/opt/veriftools/pyvenv/lib/python3.11/site-packages")
    import jsonschema
ok = True
m = json.load(open("/verif/MANIFEST.json"))
try:
    jsonschema.validate(m, json.load(open("/root/.vp/MANIFEST.schema.json")))
    print("MANIFEST ok: %d checks, %d not_applicable" % (len(m["checks"]), len(m.get("not_applicable", []))))
except Exception as e:
    ok = False; print("MANIFEST INVALID:", e)
es = json.load(open("/root/.vp/EVIDENCE.schema.json"))
for p in sorted(glob.glob("/verif/evidence/*.json")):
    try:
        jsonschema.validate(json.load(open(p)), es); print("ok", os.path.basename(p))
    except Exception as e:
        ok = False; print("INVALID", p, str(e)[:300])
sys.exit(0 if ok else 1)
