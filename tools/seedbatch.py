#!/usr/bin/env python3
"""Run seedcheck for a list of seeded changes: confirmations in parallel (each in its own scratch
worktree), then the checks one after the other (they apply the patch to /repo).

  seedbatch.py <listfile> [workers]

listfile: one "<PROP> <srcdir> <name> <demo-pkg-dir>" per line.
"""
import subprocess, sys, os
from concurrent.futures import ThreadPoolExecutor

HERE = os.path.dirname(os.path.abspath(__file__))


def confirm(item):
    prop, src, name, pkg = item
    p = subprocess.run([sys.executable, os.path.join(HERE, "seedcheck.py"), prop, src, name, pkg, "--confirm-only"], stdout=subprocess.PIPE, stderr=subprocess.STDOUT)
    out = p.stdout.decode("utf-8", "replace")
    return name, p.returncode, "\n".join(l for l in out.splitlines() if l.startswith("[seed]"))[-600:], out[-1500:]


def main():
    items = [l.split() for l in open(sys.argv[1]) if l.strip() and not l.startswith("#")]
    workers = int(sys.argv[2]) if len(sys.argv) > 2 else 4
    confirmed = []
    with ThreadPoolExecutor(workers) as ex:
        for name, rc, brief, tail in ex.map(confirm, items):
            print("=== confirm %s rc=%d\n%s" % (name, rc, brief), flush=True)
            if rc == 0:
                confirmed.append(name)
            else:
                print(tail, flush=True)
    for prop, src, name, pkg in items:
        if name not in confirmed:
            continue
        p = subprocess.run([sys.executable, os.path.join(HERE, "seedcheck.py"), prop, src, name, pkg, "--check-only"], stdout=subprocess.PIPE, stderr=subprocess.STDOUT)
        print("=== check %s\n%s" % (name, "\n".join(l for l in p.stdout.decode("utf-8", "replace").splitlines() if l.startswith("[seed]"))), flush=True)
    print("BATCH-DONE")


if __name__ == "__main__":
    main()
