"""Per-property configuration of the driver and generator of MANIFEST.json."""

TAG = "verif"

PROPS = {}


def P(pid, **kw):
    kw.setdefault("pkg", "./props/" + pid.lower())
    kw.setdefault("level", "exploration")
    kw.setdefault("shards", {"quick": 8, "thorough": 16})
    PROPS[pid] = kw


P("C10",
  technique="model-based PBT: bounded-exhaustive enumeration + rapid random listings against a decision model, scripted repository/verifier call logs",
  level_text="Exploration with an exhaustively enumerated core: every listing of up to 5 (quick) / 7 (thorough) signatures x every page split x every limit x reference kinds is run through notation.Verify and compared with a model written from the statement, including exact fetch/verify call counts; larger listings are sampled with rapid.",
  level_note="Trusts the scripted Repository/Verifier mocks to record calls faithfully and oras' reference parser for what counts as a tag/digest reference.",
  design_ref="DESIGN.md section 5, C10",
  exhaustive_all=False,
  health={"success": 10, "success-after-invalid": 5, "multi-page": 10, "empty-page": 5, "skip": 5, "ref=mismatch": 5, "limit<=0": 5},
  assumptions=["scripted repository and verifier stand in for a registry; the real verifier + OCI store family is covered by C19/C07 round trips",
               "a verifier that returns an error together with a nil outcome is outside the statement and not generated"],
  )


def manifest():
    checks = []
    for pid in sorted(PROPS):
        c = PROPS[pid]
        checks.append({
            "property_id": pid,
            "quick_cmd": "./check %s quick" % pid,
            "thorough_cmd": "./check %s thorough" % pid,
            "evidence_file": "/verif/evidence/%s.json" % pid,
            "replay_cmd_template": "./check %s --replay {path}" % pid,
            "engine": "harness",
            "level_claimed": {"category": c["level"], "text": c["level_text"], "design_ref": c.get("design_ref", "DESIGN.md section 5")},
            "level_note": c["level_note"],
            "technique": c["technique"],
        })
    import json, os
    na_path = os.path.join(os.path.dirname(os.path.abspath(__file__)), "not_applicable.json")
    na = json.load(open(na_path)) if os.path.exists(na_path) else []
    na = [x for x in na if x["property_id"] not in PROPS]
    hooks_path = os.path.join(os.path.dirname(os.path.abspath(__file__)), "hook_commits.json")
    hook_commits = json.load(open(hooks_path)) if os.path.exists(hooks_path) else []
    return {
        "version": 1,
        "setup_cmd": "./check setup",
        "hooks": {
            "guard": "verif",
            "enable": "go build tag: every check builds /repo through the harness module's replace directive with `-tags verif`",
            "baseline_off_cmd": "cd /repo && go test -vet=off -count=1 -timeout 25m ./...",
            "source_commits": hook_commits,
            "add_only": True,
        },
        "engines": [{
            "name": "harness",
            "path": "/verif/harness",
            "serves_properties": sorted(PROPS),
            "kind_free_text": "Go module (replace notation-go => /repo) with rapid v1.3.0 properties/state machines, bounded-exhaustive enumerations, native go fuzz targets (thorough tier), porcupine linearizability oracle; driven by tools/check.py",
        }],
        "checks": checks,
        "notes": "Exit codes: 0 held, 1 VIOLATION (line printed), 2 inconclusive (build failure, time-out, vacuous run). KNOWN_FINDINGS.txt lists fixed and known findings. See DESIGN.md.",
        "not_applicable": na,
    }
