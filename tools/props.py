"""Per-property configuration of the driver and generator of MANIFEST.json."""

TAG = "verif"

PROPS = {}


def P(pid, **kw):
    kw.setdefault("pkg", "./props/" + pid.lower())
    kw.setdefault("level", "exploration")
    kw.setdefault("shards", {"quick": 8, "thorough": 16})
    PROPS[pid] = kw



_EXPL = "exploration"

P("C01",
  technique="PBT with independent oracle: rapid-generated envelopes (fresh / near-miss / re-assembled / byte-mutated) x policies x reader behaviours x decoy signatures listed first; own JWS+COSE verifier and own payload decoder decide what a success may be; payloads that lie about one field of the presented artifact; eight goroutines presenting matching and mismatching artifacts to one verifier; native fuzz in thorough",
  level_text="Exploration: every success reported by verifier.Verify/VerifyBlob and notation.Verify/VerifyBlob over generated envelopes, descriptors, metadata maps and all 24 enforcement maps is re-checked by an independent implementation of the envelope formats; cannot prove absence, but reaches the products of factors (mismatch x satisfied metadata, customised level x tampering) the unit tests never combine.",
  level_note="Trusts Go's crypto primitives, the harness's own JWS/COSE implementation (cross-validated against the library in both directions in every run) and fxamacker/cbor.",
  health={"success": 50, "src=fresh": 20, "src=descriptor-nearmiss": 20, "src=metadata-nearmiss": 20, "src=reassembled": 20, "src=bytemutated": 20, "src=wrong-payload-type": 5, "plugin-misbehaves=nil-response": 50, "src=payload-size-lies": 100, "concurrent-verifications-one-verifier": 1, "genuine-signature-verified-earlier-on-the-same-verifier": 200, "reassembled-from-signatures-verified-earlier": 50},
  fuzz=[{"name": "FuzzC01_VerifyJWS", "seconds": 120}, {"name": "FuzzC01_VerifyCOSE", "seconds": 120}],
  assumptions=["cryptographic soundness of RSASSA-PSS/ECDSA as implemented by Go", "valid = valid under the six supported algorithms"])

P("C02",
  technique="model-based PBT: exhaustive no-plugin grid + rapid plugin scenarios against a decision table written from the statement; metamorphic monotonicity (strict=>permissive=>audit) and action-tagging relations; call-log invariants of scripted collaborators; generated further listed stores around the judged one; in-process plugins that answer every metadata call with one shared slice; blob statements of the same name with other levels verified first",
  level_text="Exploration with an exhaustively enumerated core (all 24 enforcement maps x trust x identity x expiry x certificate-time x revocation situations without plugin) plus sampled plugin scenarios; the model restates the statement, the relations are model-independent.",
  level_note="Trusts the scripted trust store / revocation / plugin mocks and the harness's envelope builders; margins of >= 30 min around the wall clock.",
  health={"accept": 50, "reject": 50, "plugin": 50, "crit=unprocessed": 5, "crit=processed": 5, "rev=skip": 10, "logged-failure": 20, "noncritical-attr-before": 20, "noncritical-attr-not-reported-by-plugin": 20, "blob-statement-with-same-name": 200, "crit-key-extends-plugin-header-name": 100, "several-listed-stores": 500, "unloadable-store-beside-a-store-holding-the-root": 50, "plugin-answers-metadata-with-one-shared-slice": 500, "blob-twin-level=strict-revocation-skipped": 100},
  assumptions=["non-critical extended attributes are generated only as incidental filler (they must never decide anything, reported by the plugin or not); a non-critical plugin-name attribute is outside the statement and not generated"])

P("C03",
  technique="model-based PBT: generated placements of chain certificates into typed named stores x statement store lists; set-semantics oracle + call-log invariant of an instrumented trust store; scripted and real directory-backed stores; verifier instances reused across verifications; eight goroutines verifying through one verifier over the real store against the sequential model; generated store names that reach other directories (constructor, late edit, direct store call); blob statement selection by generated names against a three-statement document; store contents rotated under a living verifier",
  level_text="Exploration: authenticity verdict and the exact (type,name) sequence of trust-store loads compared with a set-semantics model over generated placements, multi-statement documents, both schemes and formats.",
  level_note="Trusts the instrumented trust store mock; a sub-family runs against the real directory-backed store.",
  health={"auth=pass": 30, "auth=fail": 30, "decoy-wrong-type": 10, "decoy-unlisted": 10, "decoy-other-statement": 10, "listed-store-error": 10, "real-directory-store": 10, "verification-plugin=ti": 100, "scope-case-twin-selected": 100, "plugin-runs-after-logged-authenticity-failure": 50, "concurrent-verifications": 1, "listed-store-is-symlink": 50, "listed-store-bundle-ends-in-leaf": 50, "store-name-reaching-elsewhere": 100, "name-route=late": 30, "name-route=direct": 15, "blob-unknown-name-with-global-statement-present": 30, "store-contents-rotated-on-long-lived-verifier": 200, "constructor=legacy-decoy": 200, "trust-withdrawn-by-rotation": 30, "listed-store-holds-sub-directory": 20, "listed-store-is-an-empty-directory": 20})

P("C04",
  technique="model-based + metamorphic PBT: structured subject/identity generators, own RFC 4514 renderer with generated spacing/alias/escaping; subset oracle on structured data; permutation/spacing/alias invariance; identity lists edited after construction (one-sided oracle); verifier reuse across an OCI and a same-named blob statement; eight goroutines verifying two signers under six statements of one verifier against the statement's table",
  level_text="Exploration: verdicts of the identity check on generated leaf/CA subjects and identity lists compared with a subset model evaluated on the structured form (the harness never parses DNs), plus metamorphic invariances.",
  level_note="Trusts Go's pkix RDN encoding and the harness's escaper (cross-checked by the exact-match positive class).",
  health={"class=match": 30, "class=subset": 30, "class=superset": 20, "class=nearmiss": 20, "class=ca-subject": 20, "class=uninterpretable": 10, "class=wildcard": 5, "class=no-x509-identity": 5, "reused-verifier": 20, "blob-statement-with-same-name": 100, "late-mixed-invalid-and-matching": 30, "identity-with-empty-value": 100, "identity-empty-value-against-valued-attribute": 10, "concurrent-verifications-one-verifier": 1},
  fuzz=[{"name": "FuzzC04_Identities", "seconds": 180}])

P("C05",
  technique="bounded-exhaustive enumeration of all result vectors {OK,NonRevokable,Unknown,Revoked}^n, n<=4 x action x interface x scheme, plus rapid-generated decorations; aggregation oracle + received-options check of a scripted validator; generated chain shapes (empty leaf subject, expired non-leaf), context cancelled by the scripted validator, optional identity-only plugin, trust anchors other than the root, a same-named blob statement with another revocation action verified first, signing times ahead of the clock, intermediates sharing a subject",
  level_text="Exhaustive over the 340 result vectors x {enforce,log,skip} x both validator interfaces x both schemes (finite space, fully enumerated), sampled over method annotations and server errors.",
  level_note="Trusts the scripted validator to record the options it received; result vectors have the chain's length (validator contract).",
  health={"final=ok": 10, "final=revoked": 10, "final=unknown": 10, "validator-error": 5, "action=skip": 10, "iface=client": 10, "subjects=empty-leaf": 100, "context-cancelled-during-check": 50, "validity=expired-nonleaf": 100, "identity-only-plugin": 100, "decor=6": 100, "trust-anchor-is-not-the-root": 200, "blob-twin-revocation=skip": 50, "signing-time-ahead-of-the-verifier": 200, "subjects=same-subject-cas": 50})

P("C06",
  technique="model-based PBT: generated expiry/signing-time/validity-window placements and RFC 3161 countersignatures from an in-process TSA; decision model of the statement; both-sides-data boundaries tested exactly; generated revocation action, constructor and trust-store implementation (scripted / directory-backed); countersignatures replayed from an envelope verified earlier; TSA paths through a purpose-restricted CA",
  level_text="Exploration over time placements (margins around the wall clock, exact boundaries where both sides are data) and countersignature situations produced by an in-process TSA.",
  level_note="Trusts the in-process TSA port and tspclient-go's CMS verification; no assertion at exact wall-clock instants.",
  health={"expiry=past": 10, "expiry=future": 10, "scheme=sa": 20, "tsa=applies": 30, "token=valid": 10, "token=absent": 5, "token=wrong-imprint": 5, "token=untrusted-tsa": 5, "ts=pass": 10, "ts=fail": 10, "token=ca-as-tsa": 10, "token=keyenc-only": 10, "token=replayed": 10, "token=tsa-under-codesigning-ca": 5, "revoked-tsa-under-revocation-skip": 5, "tsarev=revoked-later": 10, "constructor=legacy": 100, "real-directory-store": 100})

P("C07",
  technique="round-trip PBT: sign with the real signing API (local + honest in-process plugin signers) then verify; payload/digest/expiry/descriptor/metadata compared with the harness's own computation; reused plugin signer across keys, earlier untrusted signature of the other format, large metadata through the library's repository client, failing blob sources; overlapping descriptor and blob calls (eight goroutines, plain readers); a repository that retains resolved descriptors across two signing calls; plugins that answer one command once with a retryable error; overlapping Sign calls on one signer with the schedule owned through a yielding context logger and plugin",
  level_text="Exploration: full sign->verify round trips over key specs x formats x signer kinds x OCI/blob targets x metadata x expiry; every observable the statement names is recomputed independently.",
  level_note="Trusts Go's crypto and JSON; JWS descriptor sizes are bounded by 2^53 (known finding F13 in a dependency).",
  health={"kind=oci": 20, "kind=blob": 20, "signer=local": 10, "signer=plugin-raw": 10, "signer=plugin-envelope": 10, "format=jws": 20, "format=cose": 20, "artifact-annotations-empty-map": 20, "signer-reused-after-other-key": 20, "verify-omits=media-type": 10, "untrusted-signature-of-other-format-listed-first": 20, "large-metadata-through-registry-client": 6, "plugin-transient-error-after-blob-was-read": 10, "overlap-signer=local": 4, "overlap-signer=plugin-envelope": 4, "trust-store-content-rotated-on-long-lived-verifier": 50},
  shards={"quick": 12, "thorough": 16})

P("C08",
  technique="model-based + metamorphic PBT: confusable scope alphabet, all statement permutations, generated references; exact-membership model; mutation-isolation (private copy) oracle via deep snapshots; verifier objects reused across references of one artifact digest; documents with two fallback statements must be unusable; refusal through notation.Verify over an unreachable registry",
  level_text="Exploration (cheap, very many cases): selection compared with an exact-membership model on generated valid documents and references, permutation invariance, and deep-mutation of every returned statement followed by snapshot comparison.",
  level_note="Repository paths are known well-formed by construction; trusts reflect.DeepEqual for snapshots.",
  health={"hit=exact": 100, "hit=wildcard": 100, "hit=none": 100, "ref=nearmiss": 100, "ref=variant": 100, "ref=shape": 100,
          "blob": 100, "blobhit=exact": 100, "blobhit=global": 100, "blobhit=none": 100, "name=nearmiss": 100,
          "privacy-mutation": 100, "privacy=oci": 50, "privacy=blob": 50, "privacy=global": 50,
          "place=override-map/add-key": 50, "place=override-map/change-values": 50, "place=registryScopes/elements": 50,
          "place=trustStores/append": 50, "place=trustedIdentities/elements": 50,
          "via=verifier": 100, "via=verify": 50, "via=skipverify": 50, "via=verifyblob": 50, "verify=ok": 50, "verifier:refused": 50, "verifier:reused-for-other-references": 500, "two-fallback-statements:oci": 50, "two-fallback-statements:blob": 20, "via=notation.Verify-unreachable-registry": 100, "registry-entry:hit=none": 20})

P("C09",
  technique="grammar-based PBT with rule-violation operators: valid documents from a grammar + 0..2 labelled violating edits; accept iff zero edits (validity known by construction); native fuzz over policy JSON in thorough",
  level_text="Exploration: one mutation operator per structural rule, applied to generated valid documents of both kinds, fed as Go values and as JSON files; accepted documents are additionally checked to enforce integrity.",
  level_note="Validity of every component is known by construction; the harness never parses DNs or scopes to decide.",
  health=dict({"edits=0": 1000, "edits=1": 1000, "edits=2": 500, "kind=oci": 1000, "kind=blob": 1000, "outcome=accept": 1000, "outcome=reject": 1000,
               "via=value": 1000, "via=verifier": 1000, "via=json": 1000, "via=json-file": 500,
               "family=grammar": 1000, "family=assembled": 1000, "family=fuzz-seeds": 100,
               "assembled/model=valid": 500, "assembled/model=invalid": 500, "single-edit=exactly-its-rule": 1000},
              # every rule-violating operator of the statement must have been applied
              **{"op=" + o: 100 for o in (
                  "version-empty version-unsupported no-statements name-duplicate name-empty level-unknown level-empty "
                  "override-on-skip override-integrity override-skip-non-revocation verify-timestamp-unknown "
                  "nonskip-no-stores nonskip-no-identities skip-with-stores skip-with-identities "
                  "store-no-colon store-unknown-type store-bad-name wildcard-identity-with-company x509-empty-value "
                  "dn-unparsable dn-missing-c dn-missing-st dn-missing-o dn-duplicate-attribute dn-multivalued-rdn dn-hex-value "
                  "ids-overlap-equal ids-overlap-subset scope-invalid wildcard-scope-with-company scope-shared "
                  "two-globals global-statement-skip").split()}),
  fuzz=[{"name": "FuzzC09_PolicyJSON", "seconds": 120}])

P("C10",
  technique="model-based PBT: bounded-exhaustive enumeration + rapid random listings against a decision model, scripted repository/verifier call logs; repositories that wrap callback errors, repeat descriptors, and list descriptors carrying creation times in any order",
  level_text="Exploration with an exhaustively enumerated core: every listing of up to 5 (quick) / 8 (thorough) signatures x every page split x every limit x reference kinds is run through notation.Verify and compared with a model written from the statement, including exact fetch/verify call counts; larger listings are sampled with rapid; a second family realises the statuses with real signatures, the real verifier and an in-memory OCI store and evaluates the model on the order the store actually lists.",
  level_note="Trusts the scripted Repository/Verifier mocks to record calls faithfully and oras' reference parser for what counts as a tag/digest reference.",
  design_ref="DESIGN.md section 5, C10",
  health={"success": 10, "success-after-invalid": 5, "multi-page": 10, "empty-page": 5, "skip": 5, "ref=mismatch": 5, "limit<=0": 5, "real-verifier": 10, "ref=mismatch-sha512": 100, "listing-repeats-a-descriptor": 200, "repository-wraps-callback-errors": 1000, "listed-descriptors-carry-creation-times": 1000, "created=asc": 200},
  assumptions=["a verifier that returns an error together with a nil outcome is outside the statement and not generated"])

P("C11",
  technique="stateful PBT (rapid state machine of 1..3 SignOCI calls) over a retaining scripted repository, an in-memory store and an on-disk OCI layout; tree-diff and deep-snapshot oracles",
  level_text="Exploration over call sequences: signer input, pushed subject/annotations, and the complete before/after state of repository, descriptors and option maps are compared with pristine copies.",
  level_note="Trusts oras-go's OCI layout implementation and the harness's tree snapshot.",
  health={"repo=scripted": 20, "repo=oci-layout": 20, "calls>=2": 20, "meta=colliding": 5, "meta=reserved": 5, "ref=digest-mismatch": 5, "signer-annotations=clashing": 100, "plugin-backed-signer=envelope": 100, "plugin-backed-signer=envelope-drops-annotations": 50, "reference-moves-after-first-resolve": 50, "signing-key-with-other-hash-than-sha256": 100, "ref=digest-mismatch-other-algorithm": 20})

P("C12",
  technique="robustness PBT + fuzzing: structured mutations of valid inputs and the full verifier-configuration cross product run under recover with allocation accounting; hostile on-disk OCI layouts and an in-process hostile HTTP registry behind the real oras client; generated shapes of the trust-store directory tree x store names of any length; identities with hex-string values nested up to 300000 deep (stack growth accounted); a plugin that leaves a descendant holding its output under a context without deadline; four native fuzz targets in thorough",
  level_text="Exploration: every public entry point x input kind x verifier configuration is called under recover; a panic, a runaway allocation (explicit threshold) or an inconsistent (outcome, error) pair is a violation.",
  level_note="'Runaway allocation' is an explicit threshold (512 MiB for inputs < 4 MiB), not a proof of boundedness; a worker ended by the Go runtime's fatal out-of-memory error counts as a violation when the allocating goroutine's stack is inside notation-go (the driver reads the crash report; the replay re-runs the shard); other worker deaths (panics in goroutines the library might spawn) are reported as inconclusive.",
  crash_is_violation=True,
  health={"entry=verifier.Verify": 50, "entry=verifier.VerifyBlob": 50, "entry=notation.Verify": 20, "entry=notation.VerifyBlob": 20, "entry=SkipVerify": 20,
          "config-cross": 50, "parsed": 50, "envelope-content": 50, "outcome=ok": 50, "outcome=err": 50, "resigned": 50,
          "family=1": 1000, "family=2": 1000, "family=4": 100, "family=5": 1000, "family=6": 100, "family=5b": 100, "family=5c": 50, "dn-marker=escaped-backslash": 10, "dn-depth>=100000": 10, "tree-shape=type-dir-is-file": 5, "tree-name=longer-than-a-file-name": 20,
          "wrong-kind-verifier": 50, "skip-level:notation.VerifyBlob": 20, "skip-level:notation.Verify": 20, "skip-level:SkipVerify": 20, "construct=error": 10,
          "docs=oci": 50, "docs=blob": 50, "docs=both": 50, "level=strict": 50, "level=permissive": 50, "level=audit": 50, "level=skip": 50,
          "blobstmt=named": 50, "blobstmt=global": 50, "pm=nil": 50, "pm=scripted": 50, "sig=valid": 50, "sig=invalid": 50, "sig=plugin": 50,
          "media=jws": 50, "media=cose": 50, "media=empty": 10, "media=unknown": 10,
          "odd:ref=empty": 5, "odd:ref=nodigest": 5, "odd:policyName=empty": 5, "odd:policyName=unknown": 5, "odd:meta=empty": 5, "odd:pluginCfg=empty": 5, "odd:max=0": 5,
          "mutation=random": 20, "mutation=jws:outer": 20, "mutation=jws:protected": 20, "mutation=jws:payload": 20, "mutation=jws:attr": 20, "mutation=jws:der": 10,
          "mutation=cose:outer": 20, "mutation=cose:protected": 20, "mutation=cose:payload": 10, "mutation=cose:attr": 10, "mutation=cose:der": 10,
          "mode=layout": 50, "mode=remote": 50, "phase=reopened": 10, "manifest-fetched": 20, "listed>0": 20,
          "file=oci-policy": 50, "file=blob-policy": 50, "file=config": 50, "file=signingkeys": 50, "file=crl-cache": 50, "file=keypair": 20, "file=truststore": 20,
          "parsed:oci-policy": 10, "parsed:blob-policy": 10, "parsed:signingkeys": 10, "parsed:config": 10, "parsed:crl-cache": 5, "policy-accepted": 10,
          "plugin=cli": 10, "plugin=cli-signer": 5, "plugin=cli-verifier": 5, "plugin=inproc": 100, "fuzz-seed": 50, "nil-args": 20, "revocation-wiring-partial+tsa-store": 100, "invalid-policy-document-next-to-a-valid-one": 50, "plugin-floods-output": 2, "plugin-leaves-descendant-holding-output": 2},
  fuzz=[{"name": "FuzzC12_Envelope", "seconds": 90}, {"name": "FuzzC12_PolicyJSON", "seconds": 60}, {"name": "FuzzC12_ConfigJSON", "seconds": 60}, {"name": "FuzzC12_CacheEntry", "seconds": 60}])

P("C13",
  technique="model-based PBT over real directory trees: generated store type/name/directory shape/entries; all-or-nothing oracle on exact DER multiset and typed errors; store values reused across in-place content changes; >1 MiB bundles; stores of 300..2100 (thorough 9000) files with one bad entry; configuration roots whose names hold pattern characters; twelve goroutines loading twelve stores from one store value; contexts whose deadline passes at their n-th poll",
  level_text="Exploration: GetCertificates on generated trust-store trees compared with a model that knows every entry's validity by construction.",
  level_note="FIFOs/devices are excluded (would block); runs as root, so permission-denied classes are not generated.",
  health={"ok": 50, "fail": 50, "model=succeed": 50, "model=either": 5, "type=ca": 20, "type=signingAuthority": 20, "type=tsa": 20, "type=invalid": 10,
          "name=plain": 50, "name=dotted": 10, "name=long255": 2, "name=nonplain": 10, "name=dot": 2, "name=dotdot": 2, "name=slash": 5, "name=backslash": 3,
          "name=empty": 2, "name=toolong": 2, "name=otherchars": 5,
          "store=dir": 50, "store=symlink": 5, "store=file": 5, "store=absent": 5,
          "entry=pem-single": 20, "entry=pem-multi": 20, "entry=der-single": 20, "entry=der-concat": 20, "entry=root": 20, "entry=inter": 10, "entry=cross": 5,
          "entry=leaf": 10, "entry=ssleaf": 10, "entry=empty": 5, "entry=garbage": 5, "entry=pem-noncert": 5, "entry=pem-text": 5, "entry=subdir": 10,
          "entry=symlink": 10, "entry=dangling": 5,
          "reason=empty-store": 5, "reason=tsa-nonroot-inter": 5, "reason=tsa-nonroot-cross": 3, "reason=entry-leaf": 10,
          "bad-among-good": 20, "bad-after-good": 10, "decoy-sibling": 50, "decoy-sibling-same-type": 20, "decoy-stray-file": 50, "large-bundle": 10, "concurrent-loads": 1, "context-ends-during-load": 200, "context-ends-during-load-of-several-files": 20})

P("C14",
  level="fault_enumeration",
  technique="schedule and crash-point enumeration: hook-owned interleavings (bounded-exhaustive for 2 writers) with a read of every URL after every step, kill at every hook step of generated store sequences, strace kill injection at every cache syscall (thorough), strace error injection (the n-th write/close/renameat/... fails with ENOSPC, EIO, EACCES; quick and thorough), free-running goroutine/process stress incl. many URLs on one shared cache value; cache roots on another file system than $TMPDIR (/dev/shm) in the crash and free-running explorers; sequential histories over several cache values on one root; a read started after a store while an earlier read is still decoding 25 MiB; stores racing reads of an expired entry; porcupine register linearizability as the history oracle",
  level_text="Fault enumeration: every step boundary of a store (temp created / written / closed / renamed) is used as a pre-emption point and as a crash point; histories are checked for linearizability as a per-URL register and every read must be a miss or a byte-exact stored bundle.",
  level_note="Crash = SIGKILL of the writing process (no power loss / fsync semantics); scheduling inside a single write(2) is only sampled by the free-running explorer. Uses the verif-tag hooks in internal/file.WriteFile; the free-running and strace explorers do not depend on them.",
  helpers=["crlworker"],
  health={"explorer=schedules": 50, "explorer=crash-hook": 20, "explorer=free-running": 1, "explorer=fault-syscall": 20, "store-failed-or-unreported": 5, "explorer=shared-value-many-urls": 1, "explorer=cancelled-store-then-store": 6, "explorer=huge-entry": 1, "explorer=several-cache-values": 50, "same-value-stores-same-bundle-again-after-a-foreign-store": 5, "explorer=read-after-store-during-slow-read": 3, "explorer=store-racing-reads-of-an-expired-entry": 1},
  timeout={"quick": 1200, "thorough": 7200})

P("C15",
  technique="stateful model-based PBT (rapid state machine Set/Get/Corrupt/Reopen) against a map model with own entry decoder; native fuzz of cache files in thorough; real time crossing a next-update time between two reads of one cache value",
  level_text="Exploration over operation sequences on confusable URL sets with fresh/expired base and delta CRLs and every corruption operator; sandbox-escape and file-name invariants after every step.",
  level_note="Freshness classes keep >= 1 h margins from the wall clock; trusts crypto/x509 CRL parsing for the harness's own decoder.",
  health={"op=set": 100, "op=get-hit": 50, "op=get-miss": 50, "op=corrupt": 50, "op=reopen": 50, "expired": 20, "delta": 20,
          "expired=delta-only": 10, "expired=base-only": 10, "set-overwrite": 50, "corrupt-still-decodes": 20, "corrupt-bundle-returned": 10,
          "seq:touches>=2-urls": 100, "seq:url-is-file-name-of-member": 20,
          "url=plain": 20, "url=case": 20, "url=slash": 20, "url=pct": 20, "url=unicode": 20, "url=traversal": 20, "url=abs-path": 20,
          "url=empty": 20, "url=long": 20, "url=hex-of-other": 20,
          "corrupt=trunc-boundary": 5, "corrupt=trunc-random": 5, "corrupt=flip-json": 5, "corrupt=flip-base64": 5, "corrupt=flip-der": 5,
          "corrupt=swap-fields": 5, "corrupt=rename-field": 5, "corrupt=foreign-json": 5, "corrupt=empty": 5, "corrupt=dir": 5,
          "entry-mutation=trunc": 100, "entry-mutation=flip": 100, "entry-mutation=derflip": 100, "entry-get=bundle": 20, "entry=malformed": 100, "expiry-crossing": 1},
  fuzz=[{"name": "FuzzC15_CacheEntry", "seconds": 120}])

P("C16",
  technique="PBT over a path-traversal name grammar with planted sentinel executables and decoy directories inside a sacrificial tree; no-execution / no-change tree-diff oracle; end-to-end through verifier.Verify with the real CLIManager; listing over generated tree shapes with the plugin root spelt directly, through symlinks and uncleanly",
  level_text="Exploration: for every generated name and operation the whole sacrificial base is snapshotted before/after; a marker written by a sentinel or any tree change for a non-single-component name is a violation; positive control proves executions are observable.",
  level_note="Containment: '..' depth is bounded below the root depth and every case whose join would leave the sacrificial base is skipped and counted.",
  health={"name=traversal": 50, "name=plain": 20, "op=get": 20, "op=uninstall": 20, "op=install-file": 10, "op=install-dir": 10, "op=verify-e2e": 10, "op=list": 10, "namekind=long-then-traversal": 100, "plugin-directory-is-symlink": 50, "symlink-target-without-executable": 20, "no-other-plugin-in-root": 50, "list-root-via=symlink": 50, "list-root-via=symlink-chain": 20},
  shards={"quick": 8, "thorough": 16})

P("C17",
  technique="behaviour-product PBT over real child processes (scriptable fakeplugin): exit code x stdout x stderr x timing for the five commands; response/error-mapping oracle, allocation accounting for the cap, wide-margin time bound; calls interleaved at the library's own log statements (schedule owned through the context logger), free-running concurrent calls, fast-failing plugins under deadline judged by their own error; plugin objects reused after a complete metadata reply; structured errors of up to 5 MiB",
  level_text="Exploration over generated plugin behaviours with real processes; output cap judged by allocation accounting and by the impossibility of over-cap successes; time bound with a margin (10 s) far from the descendants' 40 s sleep.",
  level_note="The numeric time bound and allocation threshold are the harness's choices (the statement says 'bounded'); arbitrary plugin behaviour is sampled from the listed classes.",
  helpers=["fakeplugin"],
  health={"cmd=get-plugin-metadata": 20, "cmd=describe-key": 10, "cmd=generate-signature": 10, "cmd=generate-envelope": 10, "cmd=verify-signature": 10,
          "exit=0": 20, "exit!=0": 20, "exit=killed": 5, "outcome=success": 20, "outcome=error": 20,
          "stdout=valid": 20, "stdout=nonjson": 5, "stdout=empty": 5, "stdout=fieldtype": 5, "stdout=wrongname": 2, "stdout=badversion": 2,
          "stdout=missing-name": 2, "stdout=empty-url": 2, "stdout=missing-supportedContractVersions": 2, "stdout=empty-capabilities": 2,
          "stderr=structured": 20, "stderr=nonjson": 10, "stderr=empty": 10, "errcode=THROTTLED": 2,
          "stdout=overcap": 1, "stderr=overcap": 1, "timing=descendant": 1, "timing=slow": 1, "timing=cancel": 1, "timing=nodeadline": 1, "interleaved-calls": 10, "concurrent-calls": 1, "failing-fast-judged-in-full": 6, "descendant-left-the-process-group": 2, "plugin-object-served-a-complete-metadata-reply-before": 50, "structured-error-with-large-message": 5, "executable-is-a-link-to-a-differently-named-file": 2},
  timeout={"quick": 900, "thorough": 5400})

P("C18",
  technique="adversarial-collaborator PBT: scripted in-process signing plugin holding real keys answers with generated edit scripts of the honest answer; independent verifier + verifier-equivalent payload decoding as oracle; native fuzz of payload bytes in thorough; two overlapping signings on one signer ordered by the scripted plugin; edited payloads written into the request's own buffer",
  level_text="Exploration: whatever PluginSigner.Sign/SignBlob returns for generated adversarial plugin answers is re-verified independently and compared with the request; a panic or an unchecked signature is a violation.",
  level_note="Trusts the harness's own envelope implementation; the plugin holds real keys so that only the semantic edits differ from an honest answer.",
  health={"path=envelope": 50, "path=raw": 50, "honest": 10, "format=jws": 50, "format=cose": 50, "target=oci": 50, "target=blob": 50,
          "entry=blob/api": 20, "entry=blob/signer": 20,
          "keyspec=EC-256": 10, "keyspec=EC-384": 10, "keyspec=EC-521": 10, "keyspec=RSA-2048": 5, "keyspec=RSA-3072": 5, "keyspec=RSA-4096": 5,
          "editgroup=descriptor": 10, "editgroup=annotation": 10, "editgroup=extra-field": 10, "editgroup=key-spelling": 5,
          "editgroup=duplicate": 10, "editgroup=wrong-type": 10, "editgroup=envelope": 10,
          "editgroup=key-id": 10, "editgroup=key-spec": 10, "editgroup=signature": 10, "editgroup=chain": 10,
          "edit=spell-target": 5, "edit=dup-target-null-after": 5, "edit=echo-type-wrong": 5, "edit=format-other": 5,
          "edit=payload-type-wrong": 5, "edit=sig-corrupt": 5, "edit=key-mismatch": 5, "edit=extra-top-unknown": 5, "edit=extra-desc-unknown": 5,
          "edit=describe-keyid-wrong": 5, "edit=gensig-keyid-wrong": 5,
          "fuzz-payload": 10, "returned-signature": 10, "returned-error": 50, "overlapping-signs": 4, "payload-rewritten-in-request-buffer": 50},
  fuzz=[{"name": "FuzzC18_PluginPayload", "seconds": 120}])

P("C19",
  technique="stateful model-based PBT (rapid state machine of pushes / foreign and hostile referrers / reopen / list / fetch) over an on-disk OCI layout and an in-memory store; multiset model of signatures per subject; blob-cap boundary with real content; returned slices held across later calls; push descriptors that lie about the artifact type; second state machine over registry.NewOCIRepository with the layout read back through handles opened after the pushes",
  level_text="Exploration over push histories: listing and fetching compared with a model multiset per subject; hostile referrers must be refused before their content is read (blob-fetch log).",
  level_note="One oci.Store instance per session (oras behaviour); trusts oras-go's store for the non-notation parts.",
  health={"store=disk": 100, "store=memory": 100, "subjects>=2": 100, "subjects-same-content": 50, "reopened": 20, "layout-listed-through-another-handle-after-push": 30, "layout-pushed-through-several-handles": 20, "many-signatures": 20, "signature-pushed-for-descriptor-sharing-only-the-digest": 20, "signatures-of-one-artifact>=9": 5, "signatures-of-one-artifact>=33": 1,
          "op=push-signature": 500, "op=push-foreign": 300, "op=push-hostile": 300, "op=list": 1000, "op=fetch": 1000, "op=fetch:kept": 100,
          "op=fetch-hostile": 300, "op=reopen": 50, "env=1B": 20, "env=256KiB": 20,
          "op=push-foreign:other-type": 30, "op=push-foreign:legacy-other-type": 30, "op=push-foreign:legacy-notation": 30,
          "op=push-foreign:layer-ref-no-subject": 30, "op=push-foreign:layer-ref-other-subject": 15, "op=push-foreign:subject-off-digest": 30,
          "op=push-foreign:subject-off-size": 30, "op=push-foreign:subject-off-mediatype": 30,
          "op=push-hostile:zero-layers": 50, "op=push-hostile:two-layers": 50, "op=push-hostile:oversize-blob": 50,
          "op=push-hostile:oversize-manifest": 10, "op=push-signature:at-manifest-cap": 5, "list-refused:oversize-manifest": 10, "fetch-while-holding-earlier-envelopes": 100, "blob-cap-boundary": 3})

P("C20",
  technique="stateful model-based PBT (rapid state machine Install/Uninstall/Get/List) over a real plugin root with generated script plugins; own semver-precedence implementation; tree-snapshot oracle and metamorphic source-shape relations; sources rewritten in place after an installation (the installed tree must not follow); differential PBT and native fuzz of the version comparison (verif-tag export) against that implementation",
  level_text="Exploration over install/uninstall histories with versions chosen to separate precedence from string order and source shapes (file/dir, candidates, extra files, sub-directories); refused installs must leave the tree identical.",
  level_note="Plugins are generated shell scripts (the manager only needs an executable printing metadata); trusts the harness's semver implementation (written from semver.org section 11).",
  health={"op=install": 100, "install=refused": 30, "install=replaced": 20, "install=fresh": 30, "over-existing": 30,
          "src=dir": 30, "src=file": 30, "dir-extra-entries": 20, "dir-subdir": 20, "dir-subdir-named-like-source": 5,
          "dir-nested-name-collision": 10, "dir-nonexec-candidate": 10, "dir-two-candidates": 10,
          "op=uninstall": 20, "uninstall=installed": 10, "op=get": 20, "op=list": 20,
          "version-relation=lt": 10, "version-relation=eq": 10, "version-relation=gt": 10, "version-relation=invalid": 10,
          "shape:subdirs": 10, "shape:extra-files": 10, "semver-pair-valid": 5000, "semver-pair-with-invalid": 2000,
          "semver-equal-but-different-text": 200, "semver-with-prerelease": 2000, "source-path-spelling=double-slash": 20, "meta=trailing": 20, "meta=misnamed-case": 20, "source-rewritten-in-place-after-install": 50, "version-relation=old-invalid": 5, "plugin-root-spelt-relative": 50, "source-path-spelling=relative": 20},
  fuzz=[{"name": "FuzzC20_Semver", "seconds": 120}],
  timeout={"quick": 900, "thorough": 5400})


def manifest():
    import json, os
    here = os.path.dirname(os.path.abspath(__file__))
    claimed = json.load(open(os.path.join(here, "claimed.json")))
    checks = []
    for pid in sorted(PROPS):
        if pid not in claimed:
            continue
        c = PROPS[pid]
        checks.append({
            "property_id": pid,
            "quick_cmd": "./check %s quick" % pid,
            "thorough_cmd": "./check %s thorough" % pid,
            "evidence_file": "/verif/evidence/%s.json" % pid,
            "replay_cmd_template": "./check %s --replay {path}" % pid,
            "engine": "harness",
            "level_claimed": {"category": c["level"], "text": c["level_text"], "design_ref": c.get("design_ref", "DESIGN.md section 5")},
            "level_note": c["level_note"],
            "technique": c["technique"],
        })
    na_path = os.path.join(here, "not_applicable.json")
    na = json.load(open(na_path)) if os.path.exists(na_path) else []
    na = [x for x in na if x["property_id"] not in claimed]
    hooks_path = os.path.join(os.path.dirname(os.path.abspath(__file__)), "hook_commits.json")
    hook_commits = json.load(open(hooks_path)) if os.path.exists(hooks_path) else []
    return {
        "version": 1,
        "setup_cmd": "./check setup",
        "hooks": {
            "guard": "verif",
            "enable": "go build tag: every check builds /repo through the harness module's replace directive with `-tags verif`",
            "baseline_off_cmd": "cd /repo && go test -vet=off -count=1 -timeout 25m ./...",
            "source_commits": hook_commits,
            "add_only": True,
        },
        "engines": [{
            "name": "harness",
            "path": "/verif/harness",
            "serves_properties": sorted(claimed),
            "kind_free_text": "Go module (replace notation-go => /repo) with rapid v1.3.0 properties/state machines, bounded-exhaustive enumerations, native go fuzz targets (thorough tier), porcupine linearizability oracle; driven by tools/check.py",
        }],
        "checks": checks,
        "notes": "Exit codes: 0 held, 1 VIOLATION (line printed), 2 inconclusive (build failure, time-out, vacuous run). KNOWN_FINDINGS.txt lists fixed and known findings. See DESIGN.md.",
        "not_applicable": na,
    }
