#!/usr/bin/env python3
"""Write one prompt per property for a round of seeded changes (fresh sub-agents see only this text).

  seedprompts.py <outdir> [one]     -> <outdir>/prompt_<id>.txt   ("one": ask for one change instead of two)

The prompt holds the property's title, statement and quantifier (nothing else from /verif) and the list of mechanisms
earlier rounds already used, taken from the second column of the tables in DESIGN.md section 10.6."""
import collections, json, os, re, sys
HERE = os.path.dirname(os.path.abspath(__file__))
VERIF = os.path.dirname(HERE)
out = sys.argv[1]
one = len(sys.argv) > 2 and sys.argv[2] == "one"
rows = collections.defaultdict(list)
for l in open(os.path.join(VERIF, "DESIGN.md")):
    m = re.match(r"\| (c(\d\d)(r\d+)?-\d) \| ([^|]*) \|", l)
    if m:
        rows["c" + m.group(2)].append(m.group(4).strip().rstrip("."))
t = open(os.path.join(HERE, "seed_prompt_template.txt")).read()
if one:
    t = t.replace("produce TWO independent, realistic changes", "produce ONE realistic change").replace("each of which BREAKS", "which BREAKS")
    t = t.replace("The two changes should use different mechanisms / code sites. ", "").replace("For each change k = 1, 2 deliver in /tmp/wt/@ID@/out/k/ :", "Deliver in /tmp/wt/@ID@/out/1/ :")
os.makedirs(out, exist_ok=True)
for l in open(os.path.join(VERIF, "properties.jsonl")):
    p = json.loads(l)
    pid = p["id"].lower()
    q = p.get("quantifier")
    text = "Title: %s\n\nStatement: %s\n\nQuantifier (what it must hold for): %s" % (p["title"], p["statement"], q.get("text") if isinstance(q, dict) else q)
    open(os.path.join(out, "prompt_%s.txt" % pid), "w").write(t.replace("@ID@", pid).replace("@PROP@", text).replace("@COVERED@", "; ".join(rows[pid])))
print("wrote 20 prompts to", out)
