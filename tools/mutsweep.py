#!/usr/bin/env python3
"""Operator-mutation sweep: measures which small syntactic changes of /repo the checks notice.

Works on private copies only (a worktree of /repo and a worktree of /verif whose harness module is
pointed at the repo copy); /repo and /verif are never touched.

  mutsweep.py <out.jsonl> [--files f1,f2] [--max N] [--seed S]

For every generated mutant: build; run the tests of the mutated package and of the root package
(a mutant the existing suite already kills is not interesting); run the quick tier of every property
mapped to the file until one reports a VIOLATION. Result records: killed-by-suite / caught / missed.
"""
import json, os, random, re, shutil, subprocess, sys, time

ENV = dict(os.environ, GOFLAGS="-mod=mod", GOPROXY="off", GOSUMDB="off", GOTOOLCHAIN="local")
MUTREPO = "/tmp/mutrepo"
MUTVERIF = "/tmp/mutverif"

FILEMAP = {
    "verifier/verifier.go": ["C02", "C01", "C03", "C04", "C05", "C06", "C12"],
    "verifier/helpers.go": ["C02", "C03", "C06"],
    "notation.go": ["C10", "C01", "C07", "C11", "C12"],
    "verifier/trustpolicy/trustpolicy.go": ["C09", "C08", "C02"],
    "verifier/trustpolicy/oci.go": ["C08", "C09"],
    "verifier/trustpolicy/blob.go": ["C08", "C09"],
    "internal/pkix/pkix.go": ["C04", "C09"],
    "verifier/truststore/truststore.go": ["C13", "C03"],
    "verifier/crl/crl.go": ["C15", "C14"],
    "internal/file/file.go": ["C14", "C20", "C13", "C09"],
    "plugin/manager.go": ["C16", "C20"],
    "plugin/manager_unix.go": ["C20", "C16"],
    "plugin/plugin.go": ["C17", "C12"],
    "internal/io/limitedwriter.go": ["C17"],
    "signer/plugin.go": ["C18", "C07"],
    "signer/signer.go": ["C07", "C18"],
    "registry/repository.go": ["C19", "C11", "C12"],
    "internal/semver/semver.go": ["C20", "C02"],
    "internal/envelope/envelope.go": ["C07", "C01", "C11"],
    "plugin/proto/algorithm.go": ["C18", "C07"],
}

for _k, _v in FILEMAP.items():
    if "C12" not in _v:
        _v.append("C12")  # robustness is everybody's last resort (panics on error paths)

OPS = [
    (r"==", "!="), (r"!=", "=="),
    (r"<=", "<"), (r">=", ">"),
    (r"(?<![<>=!-])<(?![=<-])", "<="), (r"(?<![<>=!-])>(?![=>])", ">="),
    (r"&&", "||"), (r"\|\|", "&&"),
    (r"\bif !", "if "), (r"\btrue\b", "false"), (r"\bfalse\b", "true"),
    (r"\bbreak\b", "continue"), (r"\bcontinue\b", "break"),
    (r"\+ 1\b", "- 1"), (r"- 1\b", "+ 1"),
    (r"\bif err != nil \{", "if false {"),
    (r"\breturn nil\b", "return errors.New(\"mutant\")"),
]


def sh(cmd, cwd, timeout=1800, env=None):
    try:
        p = subprocess.run(cmd, cwd=cwd, env=env or ENV, shell=isinstance(cmd, str), stdout=subprocess.PIPE, stderr=subprocess.STDOUT, timeout=timeout)
        return p.returncode, p.stdout.decode("utf-8", "replace")
    except subprocess.TimeoutExpired:
        return 124, "timeout"


def outside_strings(line, start, end):
    """True when [start,end) is outside string/rune literals and comments (crude)."""
    in_s = None
    i = 0
    while i < start:
        ch = line[i]
        if in_s:
            if ch == "\\" and in_s != "`":
                i += 1
            elif ch == in_s:
                in_s = None
        else:
            if ch in "\"'`":
                in_s = ch
            elif line.startswith("//", i):
                return False
        i += 1
    return in_s is None


def mutants_of(path, text):
    out = []
    lines = text.split("\n")
    in_block_comment = False
    for ln, line in enumerate(lines):
        st = line.strip()
        if in_block_comment:
            if "*/" in st:
                in_block_comment = False
            continue
        if st.startswith("/*"):
            in_block_comment = "*/" not in st
            continue
        if not st or st.startswith("//") or st.startswith("import") or "logger." in st or st.startswith("package"):
            continue
        for pat, rep in OPS:
            for m in re.finditer(pat, line):
                if not outside_strings(line, m.start(), m.end()):
                    continue
                new = line[:m.start()] + rep + line[m.end():]
                if new == line:
                    continue
                if "errors.New(\"mutant\")" in new and "\"errors\"" not in text:
                    continue
                out.append({"file": path, "line": ln + 1, "op": "%s -> %s" % (pat, rep), "old": line.strip(), "new": new.strip(), "_new_line": new})
    return out


def setup():
    for d, repo in ((MUTREPO, "/repo"), (MUTVERIF, "/verif")):
        subprocess.run(["git", "-C", repo, "worktree", "remove", "--force", d], stdout=subprocess.DEVNULL, stderr=subprocess.DEVNULL)
        subprocess.run(["git", "-C", repo, "worktree", "prune"])
        rc, out = sh(["git", "-C", repo, "worktree", "add", "-q", "--detach", d, "HEAD"], repo)
        if rc != 0:
            print(out)
            sys.exit(2)
    gm = os.path.join(MUTVERIF, "harness", "go.mod")
    s = open(gm).read().replace("=> /repo", "=> " + MUTREPO)
    open(gm, "w").write(s)
    # warm the caches
    sh("go build ./...", MUTREPO)


def main():
    out_path = sys.argv[1]
    args = sys.argv[2:]
    files = list(FILEMAP)
    mx, seed = 10 ** 9, 1
    while args:
        a = args.pop(0)
        if a == "--files":
            files = args.pop(0).split(",")
        elif a == "--max":
            mx = int(args.pop(0))
        elif a == "--seed":
            seed = int(args.pop(0))
    setup()
    allm = []
    for f in files:
        text = open(os.path.join(MUTREPO, f)).read()
        for m in mutants_of(f, text):
            allm.append(m)
    random.Random(seed).shuffle(allm)
    done = set()
    if os.path.exists(out_path):
        for l in open(out_path):
            try:
                r = json.loads(l)
                done.add((r["file"], r["line"], r["op"], r["new"]))
            except Exception:
                pass
    print("mutants generated: %d, already done: %d" % (len(allm), len(done)), flush=True)
    n = 0
    for m in allm:
        if n >= mx:
            break
        key = (m["file"], m["line"], m["op"], m["new"])
        if key in done:
            continue
        n += 1
        path = os.path.join(MUTREPO, m["file"])
        orig = open(path).read()
        lines = orig.split("\n")
        lines[m["line"] - 1] = m["_new_line"]
        open(path, "w").write("\n".join(lines))
        rec = {k: v for k, v in m.items() if not k.startswith("_")}
        t0 = time.time()
        try:
            pkg = "./" + os.path.dirname(m["file"]) if os.path.dirname(m["file"]) else "."
            rc, out = sh(["go", "build", "./..."], MUTREPO, 600)
            if rc != 0:
                rec["verdict"] = "does-not-build"
                continue
            rc, out = sh(["go", "vet", pkg], MUTREPO, 600)
            pkgs = [pkg] if pkg == "." else [pkg, "."]
            rc, out = sh(["go", "test", "-json", "-vet=off", "-count=1", "-timeout", "10m"] + pkgs, MUTREPO, 900)
            status = {}
            for line in out.splitlines():
                try:
                    ev = json.loads(line)
                except Exception:
                    continue
                if ev.get("Test") and ev.get("Action") in ("pass", "fail"):
                    status[ev["Package"] + "::" + ev["Test"]] = ev["Action"]
            b = json.load(open("/root/.vp/BASELINE.json"))
            killed = [t for t in b["stable_pass"] if t in status and status[t] != "pass"]
            # a stable test of those packages that did not run at all (binary crashed) also counts
            ran_pkgs = set(k.split("::")[0] for k in status)
            crashed = [t for t in b["stable_pass"] if t.split("::")[0] in ran_pkgs and t not in status]
            if killed or crashed:
                rec["verdict"] = "killed-by-suite"
                rec["suite"] = (killed or crashed)[:3]
                continue
            rec["verdict"] = "missed"
            rec["checks"] = []
            for prop in FILEMAP[m["file"]]:
                env = dict(ENV, VERIF_REPLAYS_DIR=os.path.join(MUTVERIF, ".work", "rep"), VERIF_SEED=str(seed))
                rc, out = sh([os.path.join(MUTVERIF, "check"), prop, "quick"], MUTVERIF, 1500, env)
                keys = sorted(set(l.split("key=")[1].split(" ")[0] for l in out.splitlines() if "failed: key=" in l))
                rec["checks"].append({"prop": prop, "rc": rc, "keys": keys[:4]})
                if rc == 1:
                    rec["verdict"] = "caught"
                    rec["by"] = prop
                    break
        finally:
            open(path, "w").write(orig)
            rec["wall_s"] = round(time.time() - t0, 1)
            with open(out_path, "a") as f:
                f.write(json.dumps(rec) + "\n")
            print("%-16s %s:%d  %s   [%s => %s] %.0fs" % (rec.get("verdict"), m["file"], m["line"], rec.get("by", ""), m["old"][:60], m["new"][:60], rec["wall_s"]), flush=True)


if __name__ == "__main__":
    main()
