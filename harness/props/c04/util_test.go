package c04

import (
	"crypto/x509"

	"verifharness/internal/pki"
)

var leafEKU = []x509.ExtKeyUsage{x509.ExtKeyUsageCodeSigning}

func x509s(c *pki.Cert) []*x509.Certificate { return []*x509.Certificate{c.Cert} }
