// C04 — identity pinning matches only the signing certificate's own subject.
// Oracle: subset relation evaluated on the structured subjects/identities the generator
// built (the harness never parses a DN), plus metamorphic invariances. DESIGN.md section 5, C04.
package c04

import (
	"context"
	"crypto"
	"fmt"
	"sort"
	"strings"
	"sync"
	"testing"
	"unicode/utf8"

	"github.com/notaryproject/notation-go"
	"github.com/notaryproject/notation-go/verifier"
	pf "github.com/notaryproject/notation-plugin-framework-go/plugin"
	"github.com/opencontainers/go-digest"
	ocispec "github.com/opencontainers/image-spec/specs-go/v1"
	"pgregory.net/rapid"

	"verifharness/internal/envb"
	"verifharness/internal/kit"
	"verifharness/internal/mocks"
	"verifharness/internal/pki"
	"verifharness/internal/rp"
	"verifharness/internal/stats"
)

const rule = "case = (structured leaf subject, identity list derived from it / from a CA subject / unrelated, rendering choices: order, spacing, S/ST alias, hex escapes); non-trivial = pinned identities (no wildcard); distinct by leaf subject + rendered identity list"

// Ident is one identity of the list in structured form.
type Ident struct {
	Prefix string   `json:"prefix"` // x509.subject, other prefix, or "*" for the wildcard
	AVs    []pki.AV `json:"avs,omitempty"`
	Text   string   `json:"text"` // as rendered into the policy
	Kind   string   `json:"kind"` // match subset superset nearmiss swapped ca-subject decoy unknown-prefix wildcard
}

// Case is the replay format.
type Case struct {
	Leaf   [][]pki.AV `json:"leaf"` // RDNs of the leaf subject
	Idents []Ident    `json:"idents"`
	Format string     `json:"format"`
	Scheme string     `json:"scheme"`
	Warm   string     `json:"warm,omitempty"` // earlier verification on the same verifier: "", matching-leaf, unrelated-leaf, blob-same-name
	// (blob-same-name: the verifier also has a blob policy whose statement carries the SAME name
	// as the OCI statement but lists the judged leaf's exact subject; the judged envelope is first
	// verified as a blob under it)
	// Plugin "rev-only": the signature names a verification plugin that owns only the revocation check
	// (and answers success); the identity check stays notation's own and its verdict must not change
	Plugin string `json:"plugin,omitempty"`
	// LeafKey > 0: the leaf (and the warm-up leaf) is certified for the LeafKey-th key of a small pool
	// and carries that key's subject key identifier: certificates re-issued for one key under other
	// subjects. What a certificate says about its subject is that certificate's own affair
	LeafKey int `json:"leafKey,omitempty"`
	// TrustLeaf: the listed trust store holds the signing certificate itself - next to the root ("also")
	// or alone ("only"). A certificate that is trusted directly still has to match a listed identity
	TrustLeaf string `json:"trustLeaf,omitempty"`
}

func leafKeyOf(c Case) crypto.Signer {
	if c.LeafKey > 0 {
		return pki.Key("EC-256", 10+c.LeafKey)
	}
	return nil
}

var namedTypes = []string{"C", "ST", "O", "OU", "CN", "L", "STREET", "POSTALCODE", "SERIALNUMBER"}

var (
	once    sync.Once
	caChain *pki.Chain // [placeholder leaf, intermediate, root]; per-case leaves are minted under the intermediate
)

func setup() {
	once.Do(func() { caChain = pki.NewChain(pki.ChainOpts{Intermediates: 1, Name: "CA-ORG"}) })
}

// caSubject returns the structured subject of a CA of the chain (as pki.NewChain builds it).
func pluginAttr(c Case) []envb.Attr {
	if c.Plugin == "" {
		return nil
	}
	return []envb.Attr{{Key: envb.AttrPlugin, Critical: true, Value: "c04-plugin"}}
}

func caSubject(pos int) []pki.AV {
	cn := "CA-ORG root"
	if pos == 1 {
		cn = "CA-ORG inter 1"
	}
	return []pki.AV{{T: "C", V: "US"}, {T: "ST", V: "WA"}, {T: "O", V: "verif ca"}, {T: "CN", V: cn}}
}

// ---- rendering of identities (own RFC 4514 escaper with generated variation) ----

type renderOpts struct {
	perm     []int
	spaceA   []int // spaces before each attribute
	spaceEq  []int // 0: none, 1: before '=', 2: after '=', 3: both
	spaceEnd []int // spaces before the separator
	alias    bool  // render ST as S
	hexMask  []int // per attribute: 0 literal, k>0 hex-escape every k-th escapable rune
	semi     bool  // ';' as separator (RFC 2253 alternative accepted by parsers) -- not used: statement only speaks of spacing
}

func escapeValue(v string, hexEvery int) string {
	var b strings.Builder
	n := 0
	runes := []rune(v)
	for i, r := range runes {
		n++
		needs := strings.ContainsRune(`,+"\<>;=`, r) || (r == ' ' && (i == 0 || i == len(runes)-1)) || (r == '#' && i == 0)
		switch {
		case hexEvery > 0 && n%hexEvery == 0:
			buf := make([]byte, 4)
			k := utf8.EncodeRune(buf, r)
			for _, c := range buf[:k] {
				fmt.Fprintf(&b, `\%02x`, c)
			}
		case needs:
			b.WriteByte('\\')
			b.WriteRune(r)
		default:
			b.WriteRune(r)
		}
	}
	return b.String()
}

func render(avs []pki.AV, o renderOpts) string {
	var parts []string
	for k, idx := range o.perm {
		a := avs[idx]
		typ := a.T
		if typ == "ST" && o.alias {
			typ = "S"
		}
		eq := "="
		switch o.spaceEq[k] {
		case 1:
			eq = " ="
		case 2:
			eq = "= "
		case 3:
			eq = " = "
		}
		end := strings.Repeat(" ", o.spaceEnd[k])
		if strings.HasSuffix(a.V, `\`) {
			// go-ldap takes a space that follows an escaped backslash for an escaped space; spacing
			// after such a value is outside what the statement means by "spacing" (DESIGN C04 limits)
			end = ""
		}
		parts = append(parts, strings.Repeat(" ", o.spaceA[k])+typ+eq+escapeValue(a.V, o.hexMask[k])+end)
	}
	return strings.Join(parts, ",")
}

func drawRender(rt *rapid.T, n int, label string) renderOpts {
	o := renderOpts{perm: rapid.Permutation(seq(n)).Draw(rt, label+"perm"), alias: rapid.Bool().Draw(rt, label+"alias")}
	for i := 0; i < n; i++ {
		o.spaceA = append(o.spaceA, rapid.IntRange(0, 2).Draw(rt, label+"spA"))
		o.spaceEq = append(o.spaceEq, rp.Pick(rt, label+"spEq", 0, 0, 0, 1, 2, 3))
		o.spaceEnd = append(o.spaceEnd, rapid.IntRange(0, 1).Draw(rt, label+"spEnd"))
		o.hexMask = append(o.hexMask, rp.Pick(rt, label+"hex", 0, 0, 0, 1, 2, 3))
	}
	return o
}

// plainRender renders the attributes in order without any variation.
func plainRender(n int) renderOpts {
	return renderOpts{perm: seq(n), spaceA: make([]int, n), spaceEq: make([]int, n), spaceEnd: make([]int, n), hexMask: make([]int, n)}
}

func seq(n int) []int {
	s := make([]int, n)
	for i := range s {
		s[i] = i
	}
	return s
}

// ---- model ----

type leafInfo struct {
	flat          map[string]string
	interpretable bool
	either        bool // multi-valued RDN of distinct types: the statement allows both readings
	emptyDup      bool // an attribute type occurs several times and at least once with the empty value
	why           string
}

func analyse(leaf [][]pki.AV) leafInfo {
	li := leafInfo{flat: map[string]string{}, interpretable: true}
	count := map[string]int{}
	emptyOf := map[string]int{}
	for _, rdn := range leaf {
		if len(rdn) > 1 {
			li.either = true
		}
		for _, a := range rdn {
			if a.V == "" {
				emptyOf[a.T]++
				continue // as if absent
			}
			count[a.T]++
			li.flat[a.T] = a.V
			if a.T == "X" {
				li.interpretable, li.why = false, "unknown-attribute-type"
			}
			if strings.Contains(a.V, "=#") {
				li.interpretable, li.why = false, "value-contains-=#"
			}
		}
	}
	for t, n := range count {
		if n > 1 {
			if t == "CN" || t == "SERIALNUMBER" {
				// crypto/x509 keeps a single common name / serial number (the last one), so such a
				// subject is read as if it had one; the statement allows both readings
				li.either = true
				continue
			}
			li.interpretable, li.why = false, "duplicate-"+t
		}
	}
	for t, n := range emptyOf {
		if n+count[t] > 1 {
			li.emptyDup = true // "OU=" next to "OU=x" or to another "OU=": a duplicate, or absent attributes - not judged
		}
	}
	for _, m := range []string{"C", "ST", "O"} {
		if count[m] == 0 {
			li.interpretable, li.why = false, "missing-"+m
		}
	}
	if !li.interpretable {
		li.either = false
	}
	return li
}

func modelPass(c Case) (bool, bool) {
	li := analyse(c.Leaf)
	if li.emptyDup {
		return false, true
	}
	hasX509 := false
	for _, id := range c.Idents {
		if id.Prefix == "*" {
			return true, false
		}
		if id.Prefix == "x509.subject" {
			hasX509 = true
		}
	}
	if !hasX509 || !li.interpretable {
		return false, false
	}
	for _, id := range c.Idents {
		if id.Prefix != "x509.subject" {
			continue
		}
		ok := true
		for _, a := range id.AVs {
			// an attribute with the empty string as its value is treated like an absent one, on both
			// sides (crypto/x509 itself drops an empty common name when it renders a subject, so the
			// two cannot be told apart; the statement does not speak about empty values)
			if li.flat[a.T] != a.V {
				ok = false
			}
		}
		if ok {
			return true, li.either
		}
	}
	return false, false
}

// ---- execution ----

func run(c Case) (authErr error, herr error) {
	setup()
	leaf := pki.Mint(pki.Spec{RawSubject: pki.RDNs(c.Leaf), NotBefore: caChain.Certs[1].Cert.NotBefore, NotAfter: caChain.Certs[1].Cert.NotAfter,
		EKU: leafEKU, Key: leafKeyOf(c), SKI: c.LeafKey > 0}, caChain.Certs[1])
	scheme, storeType := envb.SchemeX509, "ca"
	if c.Scheme == "sa" {
		scheme, storeType = envb.SchemeSA, "signingAuthority"
	}
	desc := kit.Artifact("c04")
	env := envb.Build(envb.Spec{Format: c.Format, Payload: envb.PayloadFor(desc.MediaType, desc.Digest.String(), desc.Size, nil), ContentType: envb.PayloadType,
		Scheme: scheme, SigningTime: leaf.Cert.NotBefore.Add(23 * 3600 * 1e9), Chain: append(x509s(leaf), caChain.X509()[1:]...), Key: leaf.Key, Ext: pluginAttr(c)})
	var ids []string
	for _, id := range c.Idents {
		ids = append(ids, id.Text)
	}
	opts := kit.Options()
	opts.OCITrustPolicy = kit.OCIDoc("p", kit.Level{Base: "strict"}.SV(""), []string{storeType + ":x"}, ids)
	ts := mocks.NewTrustStore().Put(storeType, "x", caChain.Root().Cert)
	switch c.TrustLeaf {
	case "also":
		ts = mocks.NewTrustStore().Put(storeType, "x", caChain.Root().Cert, leaf.Cert)
	case "only":
		ts = mocks.NewTrustStore().Put(storeType, "x", leaf.Cert)
	}
	if c.Plugin == "rev-only" {
		opts.PluginManager = &mocks.Manager{Plugins: map[string]pf.Plugin{"c04-plugin": &mocks.Plugin{Name: "c04-plugin", Version: "1.0.0",
			Capabilities: []pf.Capability{pf.CapabilityRevocationCheckVerifier}}}}
	}
	if c.Warm == "blob-same-name" {
		blobID := "x509.subject:C=ZZ,ST=warm,O=warm-up org"
		if li := analyse(c.Leaf); li.interpretable && !li.either {
			var flat []pki.AV
			for _, rdn := range c.Leaf {
				flat = append(flat, rdn...)
			}
			blobID = "x509.subject:" + render(flat, plainRender(len(flat)))
		}
		opts.BlobTrustPolicy = kit.BlobDoc("p", kit.Level{Base: "strict"}.SV(""), []string{storeType + ":x"}, []string{blobID})
	}
	v, err := verifier.NewVerifierWithOptions(ts, opts)
	if err != nil {
		return nil, fmt.Errorf("policy with identities %q rejected: %v", ids, err)
	}
	if c.Warm == "blob-same-name" {
		v.VerifyBlob(context.Background(), func(digest.Algorithm) (ocispec.Descriptor, error) { return desc, nil }, env,
			notation.BlobVerifierVerifyOptions{SignatureMediaType: c.Format, TrustPolicyName: "p"})
	} else if c.Warm != "" {
		var wsub [][]pki.AV
		switch c.Warm {
		case "matching-leaf": // a leaf whose subject is exactly the first pinned identity
			for _, id := range c.Idents {
				if id.Prefix == "x509.subject" && wsub == nil {
					for _, a := range id.AVs {
						wsub = append(wsub, []pki.AV{a})
					}
				}
			}
		}
		if wsub == nil {
			wsub = [][]pki.AV{{{T: "C", V: "ZZ"}}, {{T: "ST", V: "warm"}}, {{T: "O", V: "warm-up org"}}}
		}
		wleaf := pki.Mint(pki.Spec{RawSubject: pki.RDNs(wsub), NotBefore: caChain.Certs[1].Cert.NotBefore, NotAfter: caChain.Certs[1].Cert.NotAfter, EKU: leafEKU, Key: leafKeyOf(c), SKI: c.LeafKey > 0}, caChain.Certs[1])
		wenv := envb.Build(envb.Spec{Format: c.Format, Payload: envb.PayloadFor(desc.MediaType, desc.Digest.String(), desc.Size, nil), ContentType: envb.PayloadType,
			Scheme: scheme, SigningTime: leaf.Cert.NotBefore.Add(23 * 3600 * 1e9), Chain: append(x509s(wleaf), caChain.X509()[1:]...), Key: wleaf.Key})
		v.Verify(context.Background(), desc, wenv, notation.VerifierVerifyOptions{ArtifactReference: kit.Reference(desc), SignatureMediaType: c.Format})
	}
	out, verr := v.Verify(context.Background(), desc, env, notation.VerifierVerifyOptions{ArtifactReference: kit.Reference(desc), SignatureMediaType: c.Format})
	if out == nil {
		return nil, fmt.Errorf("nil outcome: %v", verr)
	}
	for _, r := range out.VerificationResults {
		if r.Type == "integrity" && r.Error != nil {
			return nil, fmt.Errorf("integrity failed: %v", r.Error)
		}
		if r.Type == "authenticity" {
			if r.Error == nil && verr != nil {
				return nil, fmt.Errorf("authenticity passed but verification failed: %v", verr)
			}
			return r.Error, nil
		}
	}
	return nil, fmt.Errorf("no authenticity result (err=%v)", verr)
}

var valueRunes = []rune(`ab ,+"\<>;=#é中.-_/:@`)

func drawValue(rt *rapid.T, label string, allowEqHash bool) string {
	for {
		v := rapid.StringOfN(rapid.RuneFrom(valueRunes), 1, 5, -1).Draw(rt, label)
		if !allowEqHash && strings.Contains(v, "=#") {
			v = strings.ReplaceAll(v, "=#", "=x#")
		}
		if v != "" {
			return v
		}
	}
}

func TestC04_Identities(t *testing.T) {
	rec := stats.New(t, "C04", rule)
	rp.Check(t, 16000, 2000000, identityProp(rec))
}

// FuzzC04_Identities drives the same property with Go's coverage-guided fuzzer (thorough tier).
func FuzzC04_Identities(f *testing.F) {
	rec := stats.New(f, "C04", rule)
	f.Fuzz(rapid.MakeFuzz(identityProp(rec)))
}

func identityProp(rec *stats.Recorder) func(rt *rapid.T) {
	return func(rt *rapid.T) {
		c := Case{Format: rp.Pick(rt, "format", envb.MTJWS, envb.MTCOSE), Scheme: rp.Pick(rt, "scheme", "x509", "x509", "sa")}
		// leaf subject
		shape := rp.Pick(rt, "leafShape", "plain", "plain", "plain", "plain", "plain", "duplicate", "multivalued", "missing-mandatory", "unknown-type", "eqhash-value")
		var avs []pki.AV
		for _, typ := range []string{"C", "ST", "O"} {
			avs = append(avs, pki.AV{T: typ, V: drawValue(rt, "v"+typ, false)})
		}
		for _, typ := range []string{"OU", "CN", "L", "STREET", "POSTALCODE", "SERIALNUMBER"} {
			if rapid.IntRange(0, 2).Draw(rt, "has"+typ) == 0 {
				v := drawValue(rt, "v"+typ, false)
				if shape == "plain" && rapid.IntRange(0, 11).Draw(rt, "empty"+typ) == 0 {
					v = "" // an attribute that is present with the empty string as its value
				}
				avs = append(avs, pki.AV{T: typ, V: v})
			}
		}
		switch shape {
		case "duplicate":
			d := avs[rapid.IntRange(0, len(avs)-1).Draw(rt, "dupOf")]
			avs = append(avs, pki.AV{T: d.T, V: rp.Pick(rt, "dupVal", d.V, drawValue(rt, "dupv", false))})
		case "missing-mandatory":
			k := rapid.IntRange(0, 2).Draw(rt, "missing")
			avs = append(avs[:k], avs[k+1:]...)
		case "unknown-type":
			avs = append(avs, pki.AV{T: "X", V: "x"})
		case "eqhash-value":
			k := rapid.IntRange(0, len(avs)-1).Draw(rt, "eqhashAt")
			avs[k].V = rp.Pick(rt, "eqhash", "a=#b", "=#", "x=#")
		}
		order := rapid.Permutation(seq(len(avs))).Draw(rt, "leafOrder")
		for i := 0; i < len(order); i++ {
			rdn := []pki.AV{avs[order[i]]}
			if shape == "multivalued" && i+1 < len(order) && rapid.IntRange(0, 1).Draw(rt, "join") == 0 {
				i++
				rdn = append(rdn, avs[order[i]])
			}
			c.Leaf = append(c.Leaf, rdn)
		}
		if shape == "multivalued" && len(c.Leaf) == len(avs) && len(avs) >= 2 {
			c.Leaf = append([][]pki.AV{{c.Leaf[0][0], c.Leaf[1][0]}}, c.Leaf[2:]...)
		}
		li := analyse(c.Leaf)
		// identity list
		kind := rp.Pick(rt, "identKind", "match", "match", "subset", "subset", "superset", "nearmiss", "swapped", "ca-subject", "unrelated", "unknown-prefix-only", "wildcard")
		base := []pki.AV{}
		seen := map[string]bool{}
		for _, a := range avs { // identity source: the leaf's attributes, first occurrence per named type
			if a.T != "X" && !seen[a.T] && !strings.Contains(a.V, "=#") {
				seen[a.T] = true
				base = append(base, a)
			}
		}
		for _, m := range []string{"C", "ST", "O"} { // identities must be valid even if the leaf lacks a mandatory attribute
			if !seen[m] {
				base = append(base, pki.AV{T: m, V: "fill" + m})
			}
		}
		var main []pki.AV
		switch kind {
		case "match":
			main = append(main, base...)
		case "subset":
			for _, a := range base {
				if a.T == "C" || a.T == "ST" || a.T == "O" || rapid.Bool().Draw(rt, "keep"+a.T) {
					main = append(main, a)
				}
			}
		case "superset":
			main = append(main, base...)
			for _, typ := range []string{"OU", "CN", "L", "STREET", "POSTALCODE", "SERIALNUMBER"} {
				if !seen[typ] {
					extra := drawValue(rt, "extra", false)
					if rapid.IntRange(0, 3).Draw(rt, "extraEmpty") == 0 {
						extra = "" // pins an attribute the leaf does not have to the empty value: still a superset
					}
					main = append(main, pki.AV{T: typ, V: extra})
					break
				}
			}
			if len(main) == len(base) {
				kind = "match"
			}
		case "nearmiss":
			main = append(main, base...)
			k := rapid.IntRange(0, len(main)-1).Draw(rt, "nearAt")
			v := []rune(main[k].V)
			nearOp := rp.Pick(rt, "nearOp", "append", "drop", "case", "prefix", "empty", "empty", "whitespace", "whitespace")
			if nearOp == "whitespace" && !strings.Contains(strings.TrimSpace(main[k].V), " ") {
				nearOp = "append" // no interior blank to vary
			}
			if mandatory := main[k].T == "C" || main[k].T == "ST" || main[k].T == "O"; nearOp == "empty" && (mandatory || main[k].V == "") {
				nearOp = "append" // mandatory attributes cannot be empty in an identity
			}
			switch nearOp {
			case "whitespace": // the same words, other white space between them: another value
				t := strings.TrimSpace(main[k].V)
				i := strings.Index(t, " ")
				lead := main[k].V[:strings.Index(main[k].V, t)]
				v = []rune(lead + t[:i] + rp.Pick(rt, "blank", "  ", "\t", " \t ") + t[i+1:] + main[k].V[len(lead)+len(t):])
			case "empty":
				v = nil
			case "append":
				v = append(v, 'a')
			case "drop":
				if len(v) > 1 {
					v = v[:len(v)-1]
				} else {
					v = append(v, 'b')
				}
			case "case":
				changed := false
				for i, r := range v {
					if r == 'a' || r == 'b' {
						v[i] = r - 32
						changed = true
						break
					}
				}
				if !changed {
					v = append(v, 'A')
				}
			case "prefix":
				v = append([]rune{'a'}, v...)
			}
			main[k].V = string(v)
			if strings.Contains(main[k].V, "=#") {
				main[k].V = strings.ReplaceAll(main[k].V, "=#", "=x#")
			}
		case "swapped":
			main = append(main, base...)
			i, j := 0, 2 // C <-> O
			main[i].V, main[j].V = main[j].V, main[i].V
		case "ca-subject":
			main = caSubject(rp.Pick(rt, "caPos", 1, 2))
		case "unrelated":
			main = []pki.AV{{T: "C", V: "ZZ"}, {T: "ST", V: "nowhere"}, {T: "O", V: "unrelated org"}}
		}
		if main != nil {
			c.Idents = append(c.Idents, Ident{Prefix: "x509.subject", AVs: main, Kind: kind, Text: "x509.subject:" + render(main, drawRender(rt, len(main), "main"))})
		}
		switch kind {
		case "wildcard":
			c.Idents = []Ident{{Prefix: "*", Text: "*", Kind: "wildcard"}}
		case "unknown-prefix-only":
			fp := foreignPrefix(rt)
			c.Idents = []Ident{{Prefix: fp, Text: fp + ":" + render(base, drawRender(rt, len(base), "unk")), Kind: "unknown-prefix"}}
		default:
			// decoys: identities that never overlap with the main one (distinct O), and unknown prefixes
			for d := 0; d < rapid.IntRange(0, 2).Draw(rt, "decoys"); d++ {
				avs := []pki.AV{{T: "C", V: "ZZ"}, {T: "ST", V: "decoy"}, {T: "O", V: fmt.Sprintf("decoy org %d", d)}}
				c.Idents = append(c.Idents, Ident{Prefix: "x509.subject", AVs: avs, Kind: "decoy", Text: "x509.subject:" + render(avs, drawRender(rt, 3, "decoy"))})
			}
			if rapid.IntRange(0, 3).Draw(rt, "unknownPrefix") == 0 {
				fp := foreignPrefix(rt)
				c.Idents = append(c.Idents, Ident{Prefix: fp, Text: fp + ":" + render(base, drawRender(rt, len(base), "unk")), Kind: "unknown-prefix"})
			}
			perm := rapid.Permutation(seq(len(c.Idents))).Draw(rt, "identOrder")
			shuffled := make([]Ident, len(c.Idents))
			for i, p := range perm {
				shuffled[i] = c.Idents[p]
			}
			c.Idents = shuffled
		}
		c.Warm = rp.Pick(rt, "warm", "", "", "", "matching-leaf", "matching-leaf", "unrelated-leaf", "blob-same-name", "blob-same-name")
		c.LeafKey = rp.Pick(rt, "leafKey", 0, 0, 1, 2, 3)
		c.TrustLeaf = rp.Pick(rt, "trustLeaf", "", "", "", "also", "only")
		c.Plugin = rp.Pick(rt, "plugin", "", "", "", "rev-only")
		want, either := modelPass(c)
		// classes
		cl := []string{"class=" + kind, "leaf=" + shape, "format=" + c.Format, "scheme=" + c.Scheme}
		if !li.interpretable {
			cl = append(cl, "class=uninterpretable", "uninterpretable="+strings.SplitN(li.why, "-", 2)[0])
		}
		if kind == "unknown-prefix-only" {
			cl = append(cl, "class=no-x509-identity")
		}
		for _, id := range c.Idents {
			for _, a := range id.AVs {
				if a.V == "" {
					cl = append(cl, "identity-with-empty-value")
					if li.flat[a.T] != "" {
						cl = append(cl, "identity-empty-value-against-valued-attribute")
					}
				}
			}
		}
		if either {
			cl = append(cl, "either-outcome(multivalued-leaf)")
		}
		cl = append(cl, map[bool]string{true: "model=pass", false: "model=fail"}[want])
		if c.TrustLeaf != "" {
			cl = append(cl, "signing-certificate-itself-in-the-trust-store="+c.TrustLeaf)
		}
		if c.LeafKey > 0 {
			cl = append(cl, "leaf-certified-for-a-key-that-other-leaves-share")
		}
		if c.Warm != "" {
			cl = append(cl, "reused-verifier")
		}
		if c.Warm == "blob-same-name" {
			cl = append(cl, "blob-statement-with-same-name")
		}
		if c.Plugin != "" {
			cl = append(cl, "plugin="+c.Plugin)
		}
		var idTexts []string
		for _, id := range c.Idents {
			idTexts = append(idTexts, id.Text)
		}
		sort.Strings(idTexts)
		rec.Case(cl, kind != "wildcard", stats.Fingerprint(fmt.Sprint(c.Leaf), strings.Join(idTexts, "|"), c.Format, c.Scheme, c.Warm, c.Plugin, c.LeafKey, c.TrustLeaf), func() any { return c })

		authErr, herr := run(c)
		if herr != nil {
			rt.Fatalf("harness: %v (case %+v)", herr, c)
		}
		got := authErr == nil
		if either {
			// a multi-valued RDN of distinct types may be flattened (pass) or refused (fail closed)
			return
		}
		if got != want {
			key := "C04:identity:" + kind + ":" + map[bool]string{true: "spurious-failure", false: "accepted"}[want]
			if !li.interpretable {
				key = "C04:identity:uninterpretable-leaf-accepted:" + strings.SplitN(li.why, "-", 2)[0]
			}
			rec.Failf(rt, key, c, "model pass=%v, library authenticity error=%v; leaf subject %v, identities %q", want, authErr, c.Leaf, idTexts)
		}
		// metamorphic: re-rendering the same identities (order, spacing, alias, escapes) does not change the verdict
		if kind != "wildcard" && rapid.IntRange(0, 2).Draw(rt, "metamorphic") == 0 {
			c2 := c
			c2.Idents = nil
			for _, id := range c.Idents {
				id2 := id
				if id.AVs != nil {
					id2.Text = id.Prefix + ":" + render(id.AVs, drawRender(rt, len(id.AVs), "re"))
				}
				c2.Idents = append(c2.Idents, id2)
			}
			authErr2, herr2 := run(c2)
			if herr2 != nil {
				rt.Fatalf("harness: %v (case %+v)", herr2, c2)
			}
			rec.Class("metamorphic-rerender", 1)
			if (authErr2 == nil) != got {
				rec.Failf(rt, "C04:metamorphic:rendering-changes-verdict", map[string]any{"a": c, "b": c2}, "verdict %v with %q but %v with %q", got, idTexts, authErr2 == nil, c2.Idents)
			}
		}
	}
}

// invalidIdentity draws an x509.subject identity that cannot be interpreted.
func invalidIdentity(rt *rapid.T) (op, id string) {
	avs := []pki.AV{{T: "C", V: drawValue(rt, "c", false)}, {T: "ST", V: drawValue(rt, "st", false)}, {T: "O", V: drawValue(rt, "o", false)}, {T: "CN", V: drawValue(rt, "cn", false)}}
	op = rp.Pick(rt, "op", "missing-C", "missing-ST", "missing-O", "duplicate", "multivalued", "eqhash", "empty-value", "no-equals")
	text := ""
	switch op {
	case "missing-C":
		text = render(avs[1:], drawRender(rt, 3, "r"))
	case "missing-ST":
		text = render([]pki.AV{avs[0], avs[2], avs[3]}, drawRender(rt, 3, "r"))
	case "missing-O":
		text = render([]pki.AV{avs[0], avs[1], avs[3]}, drawRender(rt, 3, "r"))
	case "duplicate":
		// any attribute type twice, in separate RDNs - also types that real subjects do repeat (OU, DC):
		// an identity that says two things about one attribute cannot be interpreted
		t := rp.Pick(rt, "dup", "C", "ST", "O", "CN", "OU", "OU", "DC", "L", "STREET")
		all := append([]pki.AV{}, avs...)
		if t == "OU" || t == "DC" || t == "L" || t == "STREET" {
			all = append(all, pki.AV{T: t, V: drawValue(rt, "dupFirst", false)})
		}
		text = render(append(all, pki.AV{T: t, V: "zz"}), drawRender(rt, len(all)+1, "r"))
	case "multivalued":
		text = render(avs[:3], drawRender(rt, 3, "r")) + "+CN=joined"
	case "eqhash":
		text = render(avs[:3], drawRender(rt, 3, "r")) + ",CN=#0c0161"
	case "empty-value":
		text = ""
	case "no-equals":
		text = render(avs[:3], drawRender(rt, 3, "r")) + ",CN"
	}
	return op, "x509.subject:" + text
}

// TestC04_InvalidIdentity: an identity that cannot be interpreted never yields a usable
// verifier (fails closed at construction).
func TestC04_InvalidIdentity(t *testing.T) {
	rec := stats.New(t, "C04", rule)
	rp.Check(t, 3000, 300000, func(rt *rapid.T) {
		op, id := invalidIdentity(rt)
		rec.Case([]string{"class=identity-uninterpretable", "invalid-identity=" + op}, true, stats.Fingerprint("invalid", id), func() any { return id })
		opts := kit.Options()
		opts.OCITrustPolicy = kit.OCIDoc("p", kit.Level{Base: "strict"}.SV(""), []string{"ca:x"}, []string{id})
		if _, err := verifier.NewVerifierWithOptions(mocks.NewTrustStore(), opts); err == nil {
			rec.Failf(rt, "C04:uninterpretable-identity-accepted:"+op, id, "a verifier was constructed with the uninterpretable identity %q", id)
		}
	})
}

// LateCase is the replay format of TestC04_LateEdit.
type LateCase struct {
	Identities []string `json:"identities"` // the list the statement carries at verification time
	Invalid    int      `json:"invalid"`    // how many of them cannot be interpreted
	Matching   int      `json:"matching"`   // how many match the leaf (C=US,ST=WA,O=late org,CN=late leaf)
	Format     string   `json:"format"`
}

// TestC04_LateEdit: the verifier keeps the caller's document, so an identity list can reach the
// identity check without having passed the construction-time validation (the document is edited
// after the verifier was built - the repository's own tests do that). Whatever the route, a list
// with an identity that cannot be interpreted must not be accepted, and neither must a list
// without a matching identity. Oracle is one-sided: only an ACCEPTANCE is judged (a library that
// copied the document at construction would keep refusing on the placeholder list, which is fine).
func TestC04_LateEdit(t *testing.T) {
	rec := stats.New(t, "C04", rule)
	setup()
	leafAVs := [][]pki.AV{{{T: "C", V: "US"}}, {{T: "ST", V: "WA"}}, {{T: "O", V: "late org"}}, {{T: "CN", V: "late leaf"}}}
	leaf := pki.Mint(pki.Spec{RawSubject: pki.RDNs(leafAVs), NotBefore: caChain.Certs[1].Cert.NotBefore, NotAfter: caChain.Certs[1].Cert.NotAfter, EKU: leafEKU}, caChain.Certs[1])
	desc := kit.Artifact("c04-late")
	envs := map[string][]byte{}
	for _, f := range envb.Formats {
		envs[f] = envb.Build(envb.Spec{Format: f, Payload: envb.PayloadFor(desc.MediaType, desc.Digest.String(), desc.Size, nil), ContentType: envb.PayloadType,
			Scheme: envb.SchemeX509, SigningTime: leaf.Cert.NotBefore.Add(23 * 3600 * 1e9), Chain: append(x509s(leaf), caChain.X509()[1:]...), Key: leaf.Key})
	}
	judge := func(ft stats.Failer, c LateCase) {
		opts := kit.Options()
		doc := kit.OCIDoc("p", kit.Level{Base: "strict"}.SV(""), []string{"ca:x"}, []string{"x509.subject:C=ZZ,ST=none,O=placeholder"})
		opts.OCITrustPolicy = doc
		v, err := verifier.NewVerifierWithOptions(mocks.NewTrustStore().Put("ca", "x", caChain.Root().Cert), opts)
		if err != nil {
			ft.Fatalf("harness: %v", err)
		}
		doc.TrustPolicies[0].TrustedIdentities = append([]string{}, c.Identities...)
		out, verr := v.Verify(context.Background(), desc, envs[c.Format], notation.VerifierVerifyOptions{ArtifactReference: kit.Reference(desc), SignatureMediaType: c.Format})
		accepted := verr == nil
		if out != nil {
			for _, r := range out.VerificationResults {
				if r.Type == "authenticity" && r.Error == nil {
					accepted = true
				}
			}
		}
		switch {
		case accepted && c.Invalid > 0:
			rec.Failf(ft, "C04:late-edit:uninterpretable-identity-skipped", c, "identity list %q contains an identity that cannot be interpreted, yet authenticity passed", c.Identities)
		case accepted && c.Matching == 0:
			rec.Failf(ft, "C04:late-edit:accepted-without-match", c, "no identity of %q matches the leaf, yet authenticity passed", c.Identities)
		case !accepted && c.Invalid == 0 && c.Matching > 0:
			rec.Class("late-edit-not-observed-or-refused", 1)
		}
	}
	var rc LateCase
	if rp.ReplayCase(&rc) {
		judge(t, rc)
		return
	}
	rp.Check(t, 2000, 200000, func(rt *rapid.T) {
		c := LateCase{Format: rp.Pick(rt, "format", envb.MTJWS, envb.MTCOSE)}
		var ops []string
		n := rapid.IntRange(1, 4).Draw(rt, "n")
		for i := 0; i < n; i++ {
			switch rp.Pick(rt, "kind", "match", "match", "subset", "decoy", "invalid", "invalid", "unknown-prefix") {
			case "match":
				avs := []pki.AV{{T: "C", V: "US"}, {T: "ST", V: "WA"}, {T: "O", V: "late org"}, {T: "CN", V: "late leaf"}}
				c.Identities = append(c.Identities, "x509.subject:"+render(avs, drawRender(rt, 4, "m")))
				c.Matching++
			case "subset":
				avs := []pki.AV{{T: "C", V: "US"}, {T: "ST", V: "WA"}, {T: "O", V: "late org"}}
				c.Identities = append(c.Identities, "x509.subject:"+render(avs, drawRender(rt, 3, "s")))
				c.Matching++
			case "decoy":
				avs := []pki.AV{{T: "C", V: "US"}, {T: "ST", V: "WA"}, {T: "O", V: fmt.Sprintf("late org %d", i)}}
				c.Identities = append(c.Identities, "x509.subject:"+render(avs, drawRender(rt, 3, "d")))
			case "invalid":
				op, id := invalidIdentity(rt)
				ops = append(ops, op)
				c.Identities = append(c.Identities, id)
				c.Invalid++
			case "unknown-prefix":
				c.Identities = append(c.Identities, "custom.scheme:whatever")
			}
		}
		cl := []string{"policy-edited-after-construction", fmt.Sprintf("late-invalid=%d", c.Invalid), fmt.Sprintf("late-matching=%d", c.Matching)}
		if c.Invalid > 0 && c.Matching > 0 {
			cl = append(cl, "late-mixed-invalid-and-matching")
		}
		for _, op := range ops {
			cl = append(cl, "late-invalid="+op)
		}
		rec.Case(cl, true, stats.Fingerprint("late", strings.Join(c.Identities, "|"), c.Format), func() any { return c })
		judge(rt, c)
	})
}

// foreignPrefix draws an identity type that is not x509.subject - including types whose name
// merely begins or ends like it (the type is the whole text before the first colon).
func foreignPrefix(rt *rapid.T) string {
	return rp.Pick(rt, "foreignPrefix", "custom.scheme", "custom.scheme", "x509.subjectAltName", "x509.subject.v2", "x509.subjects", "X509.subject", "x509.Subject", "my.x509.subject", "x509.subject ")
}
