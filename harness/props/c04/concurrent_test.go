package c04

import (
	"context"
	"fmt"
	"os"
	"path/filepath"
	"sync"
	"testing"
	"time"

	"github.com/notaryproject/notation-go"
	"github.com/notaryproject/notation-go/dir"
	"github.com/notaryproject/notation-go/verifier"
	"github.com/notaryproject/notation-go/verifier/trustpolicy"
	"github.com/notaryproject/notation-go/verifier/truststore"

	"verifharness/internal/envb"
	"verifharness/internal/kit"
	"verifharness/internal/pki"
	"verifharness/internal/stats"
)

// TestC04_ConcurrentStatements: whose identity is trusted depends on the applicable statement
// and the signing certificate of THAT verification only. One verifier serves eight goroutines;
// six statements pin the first signer, the second signer, a subset of the first signer's
// attributes, a near miss of it, the wildcard, and both signers; two signers (same root,
// subjects differing in one attribute) sign both formats. Every verdict is compared with the
// table the statement gives. Runs in one shard.
func TestC04_ConcurrentStatements(t *testing.T) {
	rec := stats.New(t, "C04", rule)
	if s, n := stats.Shard(); s != 3%n {
		t.Skip("runs in one shard")
	}
	a := pki.NewChain(pki.ChainOpts{Intermediates: 1, Name: "c04 conc", LeafSubject: pki.DefaultLeafSubject("c04 signer one")})
	leafB := pki.Mint(pki.Spec{Subject: pki.DefaultLeafSubject("c04 signer two"), NotBefore: a.Leaf().Cert.NotBefore, NotAfter: a.Leaf().Cert.NotAfter,
		EKU: a.Leaf().Cert.ExtKeyUsage, Key: pki.Key("EC-256", 3)}, a.Certs[1])
	chains := map[string][]*pki.Cert{"one": a.Certs, "two": append([]*pki.Cert{leafB}, a.Certs[1:]...)}
	root, err := os.MkdirTemp("", "c04-conc-")
	if err != nil {
		t.Fatalf("harness: %v", err)
	}
	defer os.RemoveAll(root)
	d := filepath.Join(root, "truststore", "x509", "ca", "x")
	os.MkdirAll(d, 0o755)
	os.WriteFile(filepath.Join(d, "root.pem"), pki.PEM(a.Root().Cert), 0o644)
	stmts := []struct {
		ids    []string
		passes map[string]bool
	}{
		{[]string{"x509.subject:C=US,ST=WA,O=verif,CN=c04 signer one"}, map[string]bool{"one": true}},
		{[]string{"x509.subject:CN=c04 signer two, O=verif, ST=WA, C=US"}, map[string]bool{"two": true}},
		{[]string{"x509.subject:C=US,ST=WA,O=verif"}, map[string]bool{"one": true, "two": true}},
		{[]string{"x509.subject:C=US,ST=WA,O=verif,CN=c04 signer on"}, map[string]bool{}},
		{[]string{"*"}, map[string]bool{"one": true, "two": true}},
		{[]string{"x509.subject:C=US,ST=WA,O=verif,CN=c04 signer three", "x509.subject:C=US,ST=WA,O=verif,CN=c04 signer two"}, map[string]bool{"two": true}},
	}
	scope := func(k int) string { return fmt.Sprintf("registry.example/c04/conc%d", k) }
	doc := &trustpolicy.OCIDocument{Version: "1.0"}
	for k, st := range stmts {
		doc.TrustPolicies = append(doc.TrustPolicies, trustpolicy.OCITrustPolicy{Name: fmt.Sprintf("st%d", k), SignatureVerification: kit.Level{Base: "strict"}.SV(""),
			TrustStores: []string{"ca:x"}, TrustedIdentities: st.ids, RegistryScopes: []string{scope(k)}})
	}
	opts := kit.Options()
	opts.OCITrustPolicy = doc
	v, err := verifier.NewVerifierWithOptions(truststore.NewX509TrustStore(dir.NewSysFS(root)), opts)
	if err != nil {
		t.Fatalf("harness: %v", err)
	}
	desc := kit.Artifact("c04-conc")
	envs := map[string][]byte{}
	for who, certs := range chains {
		ch := &pki.Chain{Certs: certs}
		for _, f := range envb.Formats {
			envs[who+f] = envb.Build(envb.Spec{Format: f, Payload: envb.PayloadFor(desc.MediaType, desc.Digest.String(), desc.Size, nil), ContentType: envb.PayloadType,
				Scheme: envb.SchemeX509, SigningTime: time.Now().Add(-time.Hour), Chain: ch.X509(), Key: certs[0].Key})
		}
	}
	const workers = 8
	rounds := 1000
	if stats.Tier() == "thorough" {
		rounds = 4000
	}
	type bad struct{ key, msg string }
	var mu sync.Mutex
	var first *bad
	total := 0
	var wg sync.WaitGroup
	for w := 0; w < workers; w++ {
		w := w
		wg.Add(1)
		go func() {
			defer wg.Done()
			for i := 0; i < rounds; i++ {
				k := (w + i) % len(stmts)
				who := []string{"one", "two"}[(w+i/len(stmts))%2]
				f := envb.Formats[(i/3)%2]
				_, verr := v.Verify(context.Background(), desc, envs[who+f], notation.VerifierVerifyOptions{ArtifactReference: scope(k) + "@" + desc.Digest.String(), SignatureMediaType: f})
				want := stmts[k].passes[who]
				mu.Lock()
				total++
				if (verr == nil) != want && first == nil {
					if want {
						first = &bad{"C04:concurrent:spurious-failure", fmt.Sprintf("signer %s under statement st%d %v failed while other verifications were running: %v", who, k, stmts[k].ids, verr)}
					} else {
						first = &bad{"C04:concurrent:untrusted-identity-accepted", fmt.Sprintf("signer %s under statement st%d %v was accepted while other verifications were running", who, k, stmts[k].ids)}
					}
				}
				stop := first != nil
				mu.Unlock()
				if stop {
					return
				}
			}
		}()
	}
	wg.Wait()
	rec.Case([]string{"concurrent-verifications-one-verifier"}, true, stats.Fingerprint("c04-concurrent", workers, rounds), func() any {
		return map[string]any{"goroutines": workers, "verifications": total}
	})
	rec.Add("count_concurrent_verifications", int64(total))
	if first != nil {
		rec.Failf(t, first.key, map[string]any{"goroutines": workers, "verifications_before_failure": total}, "%s", first.msg)
	}
}
