//go:build verif

package c14

import (
	"bufio"
	"context"
	"encoding/json"
	"fmt"
	"os"
	"os/exec"
	"path/filepath"
	"strings"
	"syscall"
	"testing"
	"time"

	"github.com/notaryproject/notation-go/verifier/crl"
	"pgregory.net/rapid"

	"verifharness/internal/rp"
	"verifharness/internal/stats"
)

// CrashCase is the replay format of explorer B.
type CrashCase struct {
	Pre   []Store `json:"pre"` // entries stored (completely) before the worker starts
	Ops   []Store `json:"ops"` // the worker's stores, in order
	Kill  string  `json:"kill"`
	N     int     `json:"n"`
	Delay int     `json:"delayMicros"`
	// OtherMount: the cache root lies on another file system than $TMPDIR
	OtherMount bool `json:"otherMount,omitempty"`
}

type wBundle struct {
	ID    int    `json:"id"`
	Base  []byte `json:"base"`
	Delta []byte `json:"delta,omitempty"`
}
type wOp struct {
	URL string `json:"url"`
	B   int    `json:"b"`
}
type wSpec struct {
	Proc    int       `json:"proc"`
	Bundles []wBundle `json:"bundles"`
	Ops     []wOp     `json:"ops"`
}

func workerPath() string {
	if d := os.Getenv("VERIF_BIN_DIR"); d != "" {
		return filepath.Join(d, "crlworker")
	}
	return ""
}

func writeSpec(dir string, proc int, ops []wOp, ids map[int]bool) (string, error) {
	p := getPool()
	spec := wSpec{Proc: proc, Ops: ops}
	for id := range ids {
		b := wBundle{ID: id, Base: p[id].bundle.BaseCRL.Raw}
		if p[id].bundle.DeltaCRL != nil {
			b.Delta = p[id].bundle.DeltaCRL.Raw
		}
		spec.Bundles = append(spec.Bundles, b)
	}
	raw, _ := json.Marshal(spec)
	path := filepath.Join(dir, fmt.Sprintf("spec%d.json", proc))
	return path, os.WriteFile(path, raw, 0o644)
}

// runCrash executes one crash case; returns (finding key, message, killed, acks).
func runCrash(c CrashCase) (string, string, bool, int) {
	getPool()
	root, cleanup := newRootOn(c.OtherMount)
	defer cleanup()
	cache, err := crl.NewFileCache(root)
	if err != nil {
		return "harness", err.Error(), false, 0
	}
	p := getPool()
	old := map[string]int{}
	for _, st := range c.Pre {
		if err := cache.Set(context.Background(), urls[st.URL], p[st.Bundle].bundle); err != nil {
			return "harness", "pre-populate: " + err.Error(), false, 0
		}
		old[urls[st.URL]] = st.Bundle
	}
	ids := map[int]bool{}
	var ops []wOp
	for _, st := range c.Ops {
		ids[st.Bundle] = true
		ops = append(ops, wOp{URL: urls[st.URL], B: st.Bundle})
	}
	specPath, err := writeSpec(filepath.Dir(root), 0, ops, ids)
	if err != nil {
		return "harness", err.Error(), false, 0
	}
	args := []string{workerPath(), "seq", root, specPath}
	env := os.Environ()
	switch {
	case strings.HasPrefix(c.Kill, "hook:"):
		env = append(env, fmt.Sprintf("VERIF_WF_KILL=%s:%d", strings.TrimPrefix(c.Kill, "hook:"), c.N))
	case strings.HasPrefix(c.Kill, "syscall:"):
		sc := strings.TrimPrefix(c.Kill, "syscall:")
		args = append([]string{"strace", "-f", "-qq", "-o", "/dev/null", "-e", "trace=" + sc, "-e", fmt.Sprintf("inject=%s:signal=SIGKILL:when=%d", sc, c.N)}, args...)
	}
	cmd := exec.Command(args[0], args[1:]...)
	cmd.Env = env
	stdout, _ := cmd.StdoutPipe()
	cmd.Stderr = nil
	if err := cmd.Start(); err != nil {
		return "harness", "start worker: " + err.Error(), false, 0
	}
	acks, done := 0, false
	if c.Kill == "delay" {
		go func() {
			time.Sleep(time.Duration(c.Delay) * time.Microsecond)
			cmd.Process.Signal(syscall.SIGKILL)
		}()
	}
	sc := bufio.NewScanner(stdout)
	var seterr string
	for sc.Scan() {
		line := sc.Text()
		switch {
		case strings.HasPrefix(line, "ack "):
			acks++
		case line == "done":
			done = true
		case strings.HasPrefix(line, "seterr "):
			seterr = line
		}
	}
	werr := cmd.Wait()
	if seterr != "" {
		return "C14:crash:set-failed", seterr, false, acks
	}
	killed := !done
	if !killed && werr != nil && c.Kill == "delay" && strings.Contains(werr.Error(), "signal: killed") {
		// the delayed kill arrived after the worker had reported "done" and before it had exited: every
		// store was acknowledged, the kill interrupted nothing (seen once under load in the thorough tier,
		// where it was reported as a worker failure)
		werr = nil
	}
	if !killed && werr != nil {
		return "harness", fmt.Sprintf("worker failed: %v", werr), false, acks
	}
	// the parent observes the cache with a fresh instance
	cache2, err := crl.NewFileCache(root)
	if err != nil {
		return "harness", err.Error(), killed, acks
	}
	// expected values: acknowledged stores are visible; the in-flight store (index = acks) may or may not be
	state := map[string]int{}
	for u, b := range old {
		state[u] = b
	}
	for i := 0; i < acks && i < len(c.Ops); i++ {
		state[urls[c.Ops[i].URL]] = c.Ops[i].Bundle
	}
	for _, u := range urls {
		v, problem := readValue(cache2, u)
		if problem != "" {
			return "C14:crash:read-not-miss-or-complete:" + killKind(c.Kill), fmt.Sprintf("after kill at %s #%d (%d stores acknowledged): %s", c.Kill, c.N, acks, problem), killed, acks
		}
		want, ok := state[u]
		if !ok {
			want = -1
		}
		allowed := []int{want}
		if acks < len(c.Ops) && urls[c.Ops[acks].URL] == u {
			allowed = append(allowed, c.Ops[acks].Bundle)
		}
		good := false
		for _, a := range allowed {
			if a == v {
				good = true
			}
		}
		if !good {
			return "C14:crash:acknowledged-store-not-visible:" + killKind(c.Kill), fmt.Sprintf("after kill at %s #%d with %d acknowledged stores, Get(%s) = %d, allowed %v", c.Kill, c.N, acks, u, v, allowed), killed, acks
		}
	}
	if msg := checkRoot(root, true); msg != "" {
		return "C14:crash:cache-root-content", msg, killed, acks
	}
	// leftovers are never mistaken for entries: the cache remains usable for every URL
	fresh := bySize("small")[23]
	for _, u := range urls {
		if err := cache2.Set(context.Background(), u, fresh.bundle); err != nil {
			return "C14:crash:cache-unusable-after-crash", err.Error(), killed, acks
		}
		if v, problem := readValue(cache2, u); problem != "" || v != fresh.id {
			return "C14:crash:cache-unusable-after-crash", fmt.Sprintf("store after crash not readable: %d %s", v, problem), killed, acks
		}
	}
	return "", "", killed, acks
}

func killKind(k string) string {
	if i := strings.Index(k, ":"); i > 0 {
		return k[:i]
	}
	return k
}

func drawSeq(rt *rapid.T, big bool) CrashCase {
	var c CrashCase
	used := map[int]bool{}
	pick := func(label string) int {
		sz := rp.Pick(rt, label+"size", "small", "small", "medium")
		if big && rapid.IntRange(0, 3).Draw(rt, label+"large") == 0 {
			sz = "large"
		}
		cands := bySize(sz)
		b := cands[rapid.IntRange(0, len(cands)-2).Draw(rt, label)].id
		for used[b] {
			b = (b + 1) % 23
		}
		used[b] = true
		return b
	}
	for i := 0; i < rapid.IntRange(0, 2).Draw(rt, "pre"); i++ {
		c.Pre = append(c.Pre, Store{URL: rapid.IntRange(0, 2).Draw(rt, "preURL"), Bundle: pick("preBundle")})
	}
	for i := 0; i < rapid.IntRange(1, 4).Draw(rt, "ops"); i++ {
		c.Ops = append(c.Ops, Store{URL: rapid.IntRange(0, 2).Draw(rt, "url"), Bundle: pick("bundle")})
	}
	c.OtherMount = otherMount != "" && rapid.IntRange(0, 2).Draw(rt, "rootOnOtherMount") == 0
	return c
}

func recordCrash(rec *stats.Recorder, c CrashCase, killed bool, acks int) {
	cl := []string{"explorer=crash-" + killKind(c.Kill), "kill=" + c.Kill, fmt.Sprintf("stores=%d", len(c.Ops))}
	if killed {
		cl = append(cl, "worker-killed")
		if acks > 0 {
			cl = append(cl, "killed-after-acknowledged-store")
		}
	} else {
		cl = append(cl, "worker-completed")
	}
	if len(c.Pre) > 0 {
		cl = append(cl, "overwrite-of-existing-entry")
	}
	if c.OtherMount {
		cl = append(cl, "cache-root-on-another-file-system-than-tmpdir")
	}
	rec.Case(cl, killed, stats.Fingerprint(fmt.Sprintf("%+v", c)), func() any { return c })
}

// TestC14_CrashHook kills the worker at every (hook step, occurrence) of generated sequences.
func TestC14_CrashHook(t *testing.T) {
	rec := stats.New(t, "C14", rule)
	if workerPath() == "" {
		t.Skip("crlworker not built (VERIF_BIN_DIR unset)")
	}
	var rc CrashCase
	if rp.ReplayCase(&rc) && len(rc.Ops) > 0 {
		if key, msg, _, _ := runCrash(rc); key != "" && key != "harness" {
			rec.Failf(t, key, rc, "%s", msg)
		}
		return
	}
	rp.Check(t, 24, 500, func(rt *rapid.T) {
		base := drawSeq(rt, false)
		for _, step := range []string{"temp_created", "content_written", "closed", "return"} {
			for n := 1; n <= len(base.Ops); n++ {
				c := base
				c.Kill, c.N = "hook:"+step, n
				key, msg, killed, acks := runCrash(c)
				recordCrash(rec, c, killed, acks)
				if key == "harness" {
					rt.Fatalf("harness: %s", msg)
				}
				if key != "" {
					rec.Failf(rt, key, c, "%s", msg)
				}
				if !killed {
					// the hook calls are gone (e.g. WriteFile was rewritten): this explorer is blind;
					// the syscall and delay explorers below do not depend on hooks
					rec.Class("hook-kill-did-not-fire", 1)
				}
			}
		}
	})
}

// TestC14_CrashDelay kills the worker with SIGKILL after a generated delay (hook independent).
func TestC14_CrashDelay(t *testing.T) {
	rec := stats.New(t, "C14", rule)
	if workerPath() == "" {
		t.Skip("crlworker not built (VERIF_BIN_DIR unset)")
	}
	rp.Check(t, 160, 4000, func(rt *rapid.T) {
		c := drawSeq(rt, true)
		c.Kill = "delay"
		c.Delay = rp.Pick(rt, "delayClass", 0, 300, 1000, 3000, 8000, 20000) + rapid.IntRange(0, 3000).Draw(rt, "delay")
		key, msg, killed, acks := runCrash(c)
		recordCrash(rec, c, killed, acks)
		if key == "harness" {
			rt.Fatalf("harness: %s", msg)
		}
		if key != "" {
			rec.Failf(rt, key, c, "%s", msg)
		}
	})
}

// TestC14_CrashSyscall (thorough) kills the worker with strace fault injection at the entry
// of the n-th openat / write / close / renameat / unlinkat system call, for every n.
func TestC14_CrashSyscall(t *testing.T) {
	rec := stats.New(t, "C14", rule)
	if workerPath() == "" {
		t.Skip("crlworker not built (VERIF_BIN_DIR unset)")
	}
	if _, err := exec.LookPath("strace"); err != nil {
		t.Skip("strace not available")
	}
	seqs := 2
	if stats.Tier() == "thorough" {
		seqs = 100
	}
	rp.Check(t, seqs, seqs, func(rt *rapid.T) {
		base := drawSeq(rt, false)
		for _, sc := range []string{"write", "openat", "close", "renameat", "unlinkat", "fchmod"} {
			misses := 0
			for n := 1; n <= 60 && misses < 2; n++ {
				c := base
				c.Kill, c.N = "syscall:"+sc, n
				key, msg, killed, acks := runCrash(c)
				recordCrash(rec, c, killed, acks)
				if key == "harness" {
					rt.Fatalf("harness: %s", msg)
				}
				if key != "" {
					rec.Failf(rt, key, c, "%s", msg)
				}
				if !killed {
					misses++ // n is beyond the number of such calls the worker makes
				}
			}
		}
	})
}
