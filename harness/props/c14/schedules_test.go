//go:build verif

package c14

import (
	"context"
	"fmt"
	"strings"
	"testing"

	"github.com/anishathalye/porcupine"
	"github.com/notaryproject/notation-go/verifier/crl"
	"pgregory.net/rapid"

	"verifharness/internal/rp"
	"verifharness/internal/stats"
)

// Sched is the replay format of explorer A: writers (each a list of stores) and the order
// in which actors advance by one hook step.
type Sched struct {
	Writers [][]Store `json:"writers"`
	Order   []int     `json:"order"`
}

// Store is one Set of a writer.
type Store struct {
	URL    int `json:"url"`
	Bundle int `json:"bundle"`
}

const stepsPerStore = 4 // start->temp_created, ->content_written, ->closed, ->returned

// runSchedule executes a schedule and returns (finding key, message).
func runSchedule(s Sched) (string, string) {
	p := getPool()
	root, cleanup := newRoot()
	defer cleanup()
	cache, err := crl.NewFileCache(root)
	if err != nil {
		return "harness", err.Error()
	}
	type actor struct {
		id      int
		stores  []Store
		next    int  // index of the store in progress or to start
		running bool // a Set is in flight (parked in a hook)
		resume  chan struct{}
		started int64
	}
	events := make(chan string)
	var current *actor
	crl.SetVerifWriteFileHook(func(step, tmp, path string) {
		if step == "return" || current == nil {
			return
		}
		a := current
		events <- step
		<-a.resume
	})
	defer crl.SetVerifWriteFileHook(nil)
	actors := make([]*actor, len(s.Writers))
	for i, w := range s.Writers {
		actors[i] = &actor{id: i, stores: w, resume: make(chan struct{})}
	}
	var ops []porcupine.Operation
	clock := int64(0)
	tick := func() int64 { clock++; return clock }
	returned := map[string][]int{} // per URL: bundles whose Set has returned, in return order
	startedB := map[string]map[int]bool{}
	readAll := func() (string, string) {
		for ui, u := range urls[:2] {
			call := tick()
			v, problem := readValue(cache, u)
			ret := tick()
			if problem != "" {
				return "C14:schedule:read-not-miss-or-complete", problem
			}
			if v >= 0 && !startedB[u][v] {
				return "C14:schedule:bundle-of-other-url", fmt.Sprintf("Get(%s) returned bundle %d which was never stored under that URL", u, v)
			}
			ops = append(ops, porcupine.Operation{ClientId: 100 + ui, Input: regIn{URL: u}, Call: call, Output: v, Return: ret})
		}
		return "", ""
	}
	abort := func() { // let every parked Set run to completion so that no goroutine leaks
		current = nil
		for _, a := range actors {
			for a.running {
				a.resume <- struct{}{}
				for ev := range events {
					if ev == "done" || strings.HasPrefix(ev, "error:") {
						a.running = false
						if ev == "done" && a.next < len(a.stores) {
							st := a.stores[a.next]
							a.next++
							ops = append(ops, porcupine.Operation{ClientId: a.id, Input: regIn{URL: urls[st.URL], Write: true, Val: st.Bundle}, Call: a.started, Output: 0, Return: tick()})
						}
						break
					}
					a.resume <- struct{}{}
				}
			}
		}
	}
	for _, ai := range s.Order {
		if ai >= len(actors) {
			continue
		}
		a := actors[ai]
		if a.next >= len(a.stores) {
			continue
		}
		st := a.stores[a.next]
		u := urls[st.URL]
		current = a
		if !a.running {
			a.running = true
			a.started = tick()
			if startedB[u] == nil {
				startedB[u] = map[int]bool{}
			}
			startedB[u][st.Bundle] = true
			go func() {
				err := cache.Set(context.Background(), u, p[st.Bundle].bundle)
				if err != nil {
					events <- "error:" + err.Error()
					return
				}
				events <- "done"
			}()
		} else {
			a.resume <- struct{}{}
		}
		ev := <-events
		if strings.HasPrefix(ev, "error:") {
			a.running = false
			abort()
			return "C14:schedule:set-failed", ev
		}
		if ev == "done" {
			a.running = false
			a.next++
			returned[u] = append(returned[u], st.Bundle)
			ops = append(ops, porcupine.Operation{ClientId: a.id, Input: regIn{URL: u, Write: true, Val: st.Bundle}, Call: a.started, Output: 0, Return: tick()})
		}
		if key, msg := readAll(); key != "" {
			abort()
			return key, msg
		}
	}
	abort()
	// pending (never finished because the order ended early) stores are completed by abort; final reads
	if key, msg := readAll(); key != "" {
		return key, msg
	}
	if msg := checkRoot(root, false); msg != "" {
		return "C14:schedule:cache-root-content", msg
	}
	// linearizability of the per-URL register
	if res := porcupine.CheckOperations(registerModel, ops); !res {
		return "C14:schedule:not-linearizable", fmt.Sprintf("history is not linearizable as a per-URL register (a read returned an older bundle after a newer store had returned, or a value out of thin air): %s", describe(ops))
	}
	return "", ""
}

func describe(ops []porcupine.Operation) string {
	var sb strings.Builder
	for _, o := range ops {
		fmt.Fprintf(&sb, "[%d,%d]%s ", o.Call, o.Return, registerModel.DescribeOperation(o.Input, o.Output))
	}
	s := sb.String()
	if len(s) > 1500 {
		s = s[:1500] + "..."
	}
	return s
}

func recordSched(rec *stats.Recorder, s Sched, label string) {
	stores, sameURL := 0, false
	seen := map[int]int{}
	for _, w := range s.Writers {
		stores += len(w)
		for _, st := range w {
			seen[st.URL]++
		}
	}
	for _, n := range seen {
		if n >= 2 {
			sameURL = true
		}
	}
	cl := []string{"explorer=schedules", label, fmt.Sprintf("writers=%d", len(s.Writers))}
	if sameURL {
		cl = append(cl, "same-url-contention")
	}
	rec.Case(cl, stores >= 1, stats.Fingerprint(fmt.Sprintf("%v|%v", s.Writers, s.Order)), func() any { return s })
}

// interleavings enumerates all merges of n actors with k steps each.
func interleavings(n, k int, visit func([]int)) {
	remaining := make([]int, n)
	for i := range remaining {
		remaining[i] = k
	}
	var cur []int
	var rec func()
	rec = func() {
		done := true
		for i := 0; i < n; i++ {
			if remaining[i] > 0 {
				done = false
				remaining[i]--
				cur = append(cur, i)
				rec()
				cur = cur[:len(cur)-1]
				remaining[i]++
			}
		}
		if done {
			visit(append([]int{}, cur...))
		}
	}
	rec()
}

// TestC14_SchedulesExhaustive: all interleavings of 2 writers x 1 store (70) for every URL
// assignment, and in the thorough tier of 3 writers x 1 store (34650) and 2 writers x 2 stores.
func TestC14_SchedulesExhaustive(t *testing.T) {
	rec := stats.New(t, "C14", rule)
	var rs Sched
	if rp.ReplayCase(&rs) && len(rs.Writers) > 0 {
		if key, msg := runSchedule(rs); key != "" && key != "harness" {
			rec.Failf(t, key, rs, "%s", msg)
		}
		return
	}
	getPool()
	shard, shards := stats.Shard()
	n := 0
	run := func(s Sched, label string) {
		n++
		if n%shards != shard {
			return
		}
		recordSched(rec, s, label)
		key, msg := runSchedule(s)
		if key == "harness" {
			t.Fatalf("harness: %s", msg)
		}
		if key != "" {
			rec.Failf(t, key, s, "%s", msg)
		}
	}
	small := bySize("small")
	medium := bySize("medium")
	for _, assign := range [][2]int{{0, 0}, {0, 1}} {
		for _, bundles := range [][2]int{{small[0].id, small[1].id}, {small[2].id, medium[0].id}} {
			interleavings(2, stepsPerStore, func(order []int) {
				run(Sched{Writers: [][]Store{{{assign[0], bundles[0]}}, {{assign[1], bundles[1]}}}, Order: order}, "exhaustive-2x1")
			})
		}
	}
	// an overwrite of an existing entry: writer 0 stores twice
	interleavings(2, stepsPerStore, func(order []int) {
		full := append([]int{0, 0, 0, 0}, order...)
		run(Sched{Writers: [][]Store{{{0, small[3].id}, {0, small[4].id}}, {{0, small[5].id}}}, Order: full}, "exhaustive-overwrite")
	})
	// same-size bundles stored back to back under one URL, read after every step by the same cache
	// instance: a reader that identifies an entry by anything but its content serves a stale bundle
	twins := bySize("twin")
	for rep := 0; rep < 3; rep++ {
		interleavings(2, stepsPerStore, func(order []int) {
			full := append([]int{0, 0, 0, 0}, order...)
			run(Sched{Writers: [][]Store{{{0, twins[0].id}, {0, twins[1].id}}, {{0, twins[2].id}}}, Order: full}, "exhaustive-same-size-overwrite")
		})
	}
	for rep := 0; rep < 40; rep++ {
		run(Sched{Writers: [][]Store{{{0, twins[rep%8].id}, {0, twins[(rep+1)%8].id}, {0, twins[(rep+2)%8].id}, {0, twins[(rep+3)%8].id}}},
			Order: []int{0, 0, 0, 0, 0, 0, 0, 0, 0, 0, 0, 0, 0, 0, 0, 0}}, "same-size-overwrite-chain")
	}
	if stats.Tier() == "thorough" {
		for _, assign := range [][3]int{{0, 0, 0}, {0, 0, 1}} {
			interleavings(3, stepsPerStore, func(order []int) {
				run(Sched{Writers: [][]Store{{{assign[0], small[0].id}}, {{assign[1], small[1].id}}, {{assign[2], small[2].id}}}, Order: order}, "exhaustive-3x1")
			})
		}
		interleavings(2, 2*stepsPerStore, func(order []int) {
			run(Sched{Writers: [][]Store{{{0, small[6].id}, {0, small[7].id}}, {{0, small[8].id}, {1, small[9].id}}}, Order: order}, "exhaustive-2x2")
		})
	}
	rec.Exhaustive()
}

// TestC14_SchedulesRandom samples larger configurations.
func TestC14_SchedulesRandom(t *testing.T) {
	rec := stats.New(t, "C14", rule)
	getPool()
	rp.Check(t, 1500, 30000, func(rt *rapid.T) {
		nW := rapid.IntRange(1, 3).Draw(rt, "writers")
		var s Sched
		used := map[int]bool{}
		total := 0
		for w := 0; w < nW; w++ {
			var stores []Store
			for k := 0; k < rapid.IntRange(1, 2).Draw(rt, "stores"); k++ {
				sz := rp.Pick(rt, "size", "small", "small", "twin", "twin", "medium")
				cands := bySize(sz)
				k := rapid.IntRange(0, len(cands)-1).Draw(rt, "bundle")
				b := cands[k].id
				for tries := 0; used[b] && tries < len(cands); tries++ { // every store writes a distinct bundle so that values identify stores
					k = (k + 1) % len(cands)
					b = cands[k].id
				}
				if used[b] {
					b = bySize("small")[(w*5+k)%24].id
				}
				used[b] = true
				stores = append(stores, Store{URL: rapid.IntRange(0, 1).Draw(rt, "url"), Bundle: b})
				total++
			}
			s.Writers = append(s.Writers, stores)
		}
		for i := 0; i < total*stepsPerStore+2; i++ {
			s.Order = append(s.Order, rapid.IntRange(0, nW-1).Draw(rt, "next"))
		}
		recordSched(rec, s, "random-schedule")
		key, msg := runSchedule(s)
		if key == "harness" {
			rt.Fatalf("harness: %s", msg)
		}
		if key != "" {
			rec.Failf(rt, key, s, "%s", msg)
		}
	})
}
