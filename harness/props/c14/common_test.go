//go:build verif

// C14 — a CRL cache entry is only ever absent or complete.
// Three explorers share one oracle (DESIGN.md section 5, C14):
//   A  hook-owned schedules (in-process, deterministic, bounded-exhaustive for 2 writers)
//   B  crash points (worker process killed at every hook step / at injected syscalls / at a delay)
//   C  free-running goroutines and processes
// Oracle: every read is a miss or byte-exactly one complete bundle stored for that URL; the
// per-URL history is linearizable as a register (porcupine); only 64-hex entries and
// notation-* temporaries live in the cache root.
package c14

import (
	"syscall"
	"context"
	"crypto/sha256"
	"encoding/hex"
	"errors"
	"fmt"
	"os"
	"path/filepath"
	"regexp"
	"sort"
	"sync"
	"time"

	"github.com/anishathalye/porcupine"
	corecrl "github.com/notaryproject/notation-core-go/revocation/crl"
	"github.com/notaryproject/notation-go/verifier/crl"

	"verifharness/internal/pki"
)

const rule = "schedule / crash point / free-running history over k writers x readers x URLs; non-trivial = a read overlapped or followed a store to the same URL, or a crash happened after the first step of a store; distinct by the schedule / (sequence, crash point) / history fingerprint"

// pooled bundles: id -> bundle, unique CRL numbers; sizes: small (0..50 entries), medium
// (5k entries), large (150k entries, about 4 MiB of DER)
type pooled struct {
	id     int
	bundle *corecrl.Bundle
	hash   string
	size   string
}

var (
	poolOnce sync.Once
	pool     []*pooled
	byHash   map[string]*pooled
	ca       *pki.Cert
)

func hashBundle(b *corecrl.Bundle) string {
	h := sha256.New()
	h.Write(b.BaseCRL.Raw)
	h.Write([]byte{0})
	if b.DeltaCRL != nil {
		h.Write(b.DeltaCRL.Raw)
	}
	return hex.EncodeToString(h.Sum(nil))
}

func getPool() []*pooled {
	poolOnce.Do(func() {
		now := time.Now()
		ca = pki.NewChain(pki.ChainOpts{Name: "c14"}).Root()
		byHash = map[string]*pooled{}
		add := func(entries int, size string, delta bool) {
			id := len(pool)
			b := &corecrl.Bundle{BaseCRL: pki.CRL(ca, int64(1000+id), now.Add(-time.Hour), now.Add(48*time.Hour), entries, nil)}
			if delta {
				b.DeltaCRL = pki.CRL(ca, int64(5000+id), now.Add(-time.Hour), now.Add(48*time.Hour), entries/10+1, nil)
			}
			p := &pooled{id: id, bundle: b, hash: hashBundle(b), size: size}
			pool = append(pool, p)
			byHash[p.hash] = p
		}
		for i := 0; i < 24; i++ { // ids 0..23: the first 24 small bundles are used by the schedule and crash explorers
			add(i*2, "small", i%3 == 0)
		}
		for i := 0; i < 6; i++ {
			add(5000+i, "medium", i%2 == 0)
		}
		for i := 0; i < 3; i++ {
			add(150000+i, "large", false)
		}
		// twins: bundles of identical encoded size (RSA signatures have a fixed length, ECDSA ones do
		// not), so that consecutive stores cannot be told apart by file size
		rsaCA := pki.Mint(pki.Spec{Subject: pki.DefaultLeafSubject("c14 rsa ca"), NotBefore: now.Add(-24 * time.Hour), NotAfter: now.Add(24 * time.Hour),
			IsCA: true, PathLen: 0, CRLSign: true, Key: pki.Key("RSA-2048", 0)}, nil)
		for i := 0; i < 8; i++ {
			id := len(pool)
			b := &corecrl.Bundle{BaseCRL: pki.CRL(rsaCA, int64(7000+id), now.Add(-time.Hour), now.Add(48*time.Hour), 3, nil)}
			p := &pooled{id: id, bundle: b, hash: hashBundle(b), size: "twin"}
			pool = append(pool, p)
			byHash[p.hash] = p
		}
		for i := 0; i < 96; i++ { // more small bundles so that free-running writers rarely repeat a value
			add(i%40, "small", i%5 == 0)
		}
	})
	return pool
}

func bySize(size string) []*pooled {
	var out []*pooled
	for _, p := range getPool() {
		if p.size == size {
			out = append(out, p)
		}
	}
	return out
}

// three URLs that are different resources but as close as URLs get: a query string (LDAP-style
// distribution points differ in nothing else) and the letter case of the path
var urls = []string{"http://crl.example/a.crl", "http://crl.example/a.crl?certificateRevocationList", "http://crl.example/A.crl"}

var hexName = regexp.MustCompile(`^[0-9a-f]{64}$`)

func entryName(url string) string {
	s := sha256.Sum256([]byte(url))
	return hex.EncodeToString(s[:])
}

// readValue performs one Get and classifies it: (bundle id, problem). id -1 is a miss.
func readValue(cache *crl.FileCache, url string) (int, string) {
	b, err := cache.Get(context.Background(), url)
	if err != nil {
		if errors.Is(err, corecrl.ErrCacheMiss) {
			return -1, ""
		}
		return -2, fmt.Sprintf("Get(%s) returned an error that is not a cache miss (truncated / undecodable entry?): %v", url, err)
	}
	if b == nil || b.BaseCRL == nil {
		return -2, fmt.Sprintf("Get(%s) returned neither error nor bundle", url)
	}
	p, ok := byHash[hashBundle(b)]
	if !ok {
		return -2, fmt.Sprintf("Get(%s) returned a bundle nobody ever stored (mixed or corrupted): base number %v", url, b.BaseCRL.Number)
	}
	return p.id, ""
}

// checkRoot verifies the directory invariant; leftoversAllowed permits notation-* temporaries.
func checkRoot(root string, leftoversAllowed bool) string {
	ents, err := os.ReadDir(root)
	if err != nil {
		return "cannot list the cache root: " + err.Error()
	}
	valid := map[string]bool{}
	for _, u := range urls {
		valid[entryName(u)] = true
	}
	var names []string
	for _, e := range ents {
		names = append(names, e.Name())
	}
	sort.Strings(names)
	for _, n := range names {
		switch {
		case hexName.MatchString(n):
			if !valid[n] {
				return "entry " + n + " belongs to no URL of the universe"
			}
		case len(n) > 9 && n[:9] == "notation-":
			if !leftoversAllowed {
				return "temporary file " + n + " left behind after every store completed"
			}
		default:
			return "unexpected file " + n + " in the cache root"
		}
	}
	return ""
}

// register model for porcupine: per URL, value = bundle id, -1 = absent
type regIn struct {
	URL   string
	Write bool
	Val   int
}

var registerModel = porcupine.Model{
	Partition: func(history []porcupine.Operation) [][]porcupine.Operation {
		m := map[string][]porcupine.Operation{}
		var keys []string
		for _, o := range history {
			u := o.Input.(regIn).URL
			if _, ok := m[u]; !ok {
				keys = append(keys, u)
			}
			m[u] = append(m[u], o)
		}
		sort.Strings(keys)
		var out [][]porcupine.Operation
		for _, k := range keys {
			out = append(out, m[k])
		}
		return out
	},
	Init: func() any { return -1 },
	Step: func(state, input, output any) (bool, any) {
		in := input.(regIn)
		if in.Write {
			return true, in.Val
		}
		return output.(int) == state.(int), state
	},
	DescribeOperation: func(input, output any) string {
		in := input.(regIn)
		if in.Write {
			return fmt.Sprintf("set(%s,%d)", in.URL, in.Val)
		}
		return fmt.Sprintf("get(%s)->%d", in.URL, output.(int))
	},
}

func newRoot() (string, func()) { return newRootOn(false) }

// otherMount is a writable directory on another file system than the default temporary
// directory ("" when the machine has none): a cache root there cannot be reached from
// $TMPDIR by rename(2).
var otherMount = func() string {
	var a, b syscall.Stat_t
	if syscall.Stat(os.TempDir(), &a) != nil || syscall.Stat("/dev/shm", &b) != nil || a.Dev == b.Dev {
		return ""
	}
	d, err := os.MkdirTemp("/dev/shm", "c14-probe-")
	if err != nil {
		return ""
	}
	os.RemoveAll(d)
	return "/dev/shm"
}()

// newRootOn creates a cache root under the default temporary directory or, when other is set
// and the machine has one, on another file system.
func newRootOn(other bool) (string, func()) {
	base := ""
	if other {
		base = otherMount
	}
	d, err := os.MkdirTemp(base, "c14-")
	if err != nil {
		panic(err)
	}
	return filepath.Join(d, "cache"), func() { os.RemoveAll(d) }
}
