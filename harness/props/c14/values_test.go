package c14

import (
	"context"
	"fmt"
	"sync"
	"testing"
	"time"

	corecrl "github.com/notaryproject/notation-core-go/revocation/crl"
	"github.com/notaryproject/notation-go/verifier/crl"
	"pgregory.net/rapid"

	"verifharness/internal/pki"
	"verifharness/internal/rp"
	"verifharness/internal/stats"
)

// TestC14_SeveralCacheValues: a cache directory is shared state - several FileCache values (in
// one process here; several processes in the stress explorer) may be open on it. The history is
// sequential: every Set has returned before the next operation starts, so a read through ANY
// value must yield what the last Set for that URL stored, whichever value performed it, and
// storing a bundle that the same value has stored before (A, then somebody else's B, then A
// again) is a store like any other.
func TestC14_SeveralCacheValues(t *testing.T) {
	rec := stats.New(t, "C14", rule)
	small := bySize("small")[:3]
	rp.Check(t, 150, 6000, func(rt *rapid.T) {
		root, cleanup := newRootOn(rapid.IntRange(0, 3).Draw(rt, "otherMount") == 0)
		defer cleanup()
		var caches []*crl.FileCache
		for i := 0; i < 3; i++ {
			c, err := crl.NewFileCache(root)
			if err != nil {
				rt.Fatalf("harness: %v", err)
			}
			caches = append(caches, c)
		}
		last := map[string]int{}
		var ops []string
		aba := false
		hist := map[string][]string{} // per URL: "value:bundle" of the stores so far
		rt.Repeat(map[string]func(*rapid.T){
			"set": func(rt *rapid.T) {
				k := rapid.IntRange(0, len(caches)-1).Draw(rt, "value")
				u := urls[rapid.IntRange(0, 1).Draw(rt, "url")]
				b := small[rapid.IntRange(0, len(small)-1).Draw(rt, "bundle")]
				ops = append(ops, fmt.Sprintf("value%d.Set(url%d, bundle %d)", k, indexOf(u), b.id))
				if err := caches[k].Set(context.Background(), u, b.bundle); err != nil {
					rec.Failf(rt, "C14:several-values:store-failed", ops, "Set failed: %v", err)
				}
				h := hist[u]
				if n := len(h); n >= 2 && h[n-2] == fmt.Sprintf("%d:%d", k, b.id) && h[n-1] != h[n-2] {
					aba = true
				}
				hist[u] = append(h, fmt.Sprintf("%d:%d", k, b.id))
				last[u] = b.id
			},
			"": func(rt *rapid.T) {
				for _, u := range urls[:2] {
					want, stored := last[u]
					for k, c := range caches {
						v, problem := readValue(c, u)
						switch {
						case problem != "":
							rec.Failf(rt, "C14:several-values:read-not-miss-or-complete", ops, "%s", problem)
						case !stored && v != -1:
							rec.Failf(rt, "C14:several-values:bundle-of-other-url", ops, "value%d.Get(url%d) yields bundle %d, nothing was stored under that URL", k, indexOf(u), v)
						case stored && v != want:
							rec.Failf(rt, "C14:several-values:stale-read", ops, "every Set has returned, the last one for url%d stored bundle %d; value%d.Get yields %d (-1 = miss) after %v", indexOf(u), want, k, v, ops)
						}
					}
				}
			},
		})
		cl := []string{"explorer=several-cache-values"}
		if aba {
			cl = append(cl, "same-value-stores-same-bundle-again-after-a-foreign-store")
		}
		rec.Case(cl, len(ops) >= 2, stats.Fingerprint("several-values", fmt.Sprint(ops)), func() any { return ops })
	})
}

func indexOf(u string) int {
	for i, x := range urls {
		if x == u {
			return i
		}
	}
	return -1
}

// TestC14_ReadStartedAfterStoreDuringSlowRead: "a read that starts after a write for the URL has
// returned does not yield a bundle older than that write" - also when ANOTHER read of the same
// URL, started before the write, is still busy decoding a 25 MiB entry. Reader 1 starts on the
// huge entry; after a generated delay a small bundle is stored (Set returns); reader 2 starts
// then and must see the small bundle. Runs in one shard.
func TestC14_ReadStartedAfterStoreDuringSlowRead(t *testing.T) {
	rec := stats.New(t, "C14", rule)
	if s, n := stats.Shard(); s != 4%n {
		t.Skip("runs in one shard")
	}
	huge := hugeBundle()
	second := bySize("small")[7]
	delays := []int{0, 2, 8, 25, 60}
	if stats.Tier() == "thorough" {
		delays = []int{0, 1, 2, 4, 8, 12, 18, 25, 40, 60, 90, 140}
	}
	for _, ms := range delays {
		root, cleanup := newRoot()
		cache, err := crl.NewFileCache(root)
		if err != nil {
			cleanup()
			t.Fatalf("harness: %v", err)
		}
		url := urls[0]
		if err := cache.Set(context.Background(), url, huge); err != nil {
			cleanup()
			t.Fatalf("harness: storing the huge bundle: %v", err)
		}
		done := make(chan int, 1)
		started := time.Now()
		go func() {
			v, _ := readValue(cache, url)
			done <- v
		}()
		time.Sleep(time.Duration(ms) * time.Millisecond)
		if err := cache.Set(context.Background(), url, second.bundle); err != nil {
			cleanup()
			rec.Failf(t, "C14:slow-read:store-failed", ms, "Set during a slow read failed: %v", err)
			return
		}
		var overlapped bool
		select {
		case v := <-done:
			done <- v
		default:
			overlapped = true
		}
		v2, problem := readValue(cache, url)
		v1 := <-done
		cleanup()
		cl := []string{"explorer=read-after-store-during-slow-read"}
		if overlapped {
			cl = append(cl, "store-returned-while-earlier-read-was-busy")
		}
		rec.Case(cl, overlapped, stats.Fingerprint("slow-read", ms), func() any {
			return map[string]any{"delay_ms": ms, "first_read_ms": time.Since(started).Milliseconds(), "first_read": v1, "second_read": v2}
		})
		if problem != "" || v2 != second.id {
			rec.Failf(t, "C14:slow-read:stale-read-after-returned-store", ms, "a read started after Set(small bundle %d) had returned yields %d %s (the earlier read, still busy with the %d-byte entry when Set returned: %v, got %d)", second.id, v2, problem, len(huge.BaseCRL.Raw), overlapped, v1)
			return
		}
	}
}

// TestC14_StoreRacingReadsOfAnExpiredEntry: the entry of a URL has expired (reads of it are
// misses); readers keep asking for the URL while a writer stores a fresh bundle. Once that Set
// has returned, a read that starts afterwards yields the fresh bundle - whatever the readers
// that started earlier, and saw the expired entry, do when they finish. Runs in one shard.
func TestC14_StoreRacingReadsOfAnExpiredEntry(t *testing.T) {
	rec := stats.New(t, "C14", rule)
	if s, n := stats.Shard(); s != 5%n {
		t.Skip("runs in one shard")
	}
	getPool()
	now := time.Now()
	expired := &corecrl.Bundle{BaseCRL: pki.CRL(ca, 880001, now.Add(-48*time.Hour), now.Add(-time.Hour), 400, nil)}
	fresh := bySize("small")[9]
	rounds := 150
	if stats.Tier() == "thorough" {
		rounds = 3000
	}
	root, cleanup := newRoot()
	defer cleanup()
	cache, err := crl.NewFileCache(root)
	if err != nil {
		t.Fatalf("harness: %v", err)
	}
	url := urls[0]
	stop := make(chan struct{})
	var wg sync.WaitGroup
	for r := 0; r < 4; r++ {
		wg.Add(1)
		go func() {
			defer wg.Done()
			for {
				select {
				case <-stop:
					return
				default:
					cache.Get(context.Background(), url)
				}
			}
		}()
	}
	lost := -1
	var problem string
	for i := 0; i < rounds && lost < 0; i++ {
		if err := cache.Set(context.Background(), url, expired); err != nil {
			close(stop)
			wg.Wait()
			t.Fatalf("harness: storing an expired bundle failed: %v", err)
		}
		time.Sleep(time.Duration(i%5) * 200 * time.Microsecond)
		if err := cache.Set(context.Background(), url, fresh.bundle); err != nil {
			close(stop)
			wg.Wait()
			rec.Failf(t, "C14:expired-entry-race:store-failed", i, "Set of a fresh bundle failed while readers were busy with the expired entry: %v", err)
			return
		}
		for k := 0; k < 3; k++ { // reads started after the Set returned; the earlier readers may still be finishing
			v, p := readValue(cache, url)
			if p != "" || v != fresh.id {
				lost, problem = i, fmt.Sprintf("read %d after the store yields %d (-1 = miss) %s", k, v, p)
				break
			}
			time.Sleep(300 * time.Microsecond)
		}
	}
	close(stop)
	wg.Wait()
	rec.Case([]string{"explorer=store-racing-reads-of-an-expired-entry"}, true, stats.Fingerprint("expired-race", rounds), func() any { return map[string]any{"rounds": rounds, "readers": 4} })
	if lost >= 0 {
		rec.Failf(t, "C14:expired-entry-race:acknowledged-store-not-visible", lost, "round %d: the URL held an expired entry, Set(fresh bundle %d) returned, and then %s: a reader that had seen the expired entry took the fresh one away", lost, fresh.id, problem)
	}
}
