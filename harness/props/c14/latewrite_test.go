//go:build verif

package c14

import (
	"bytes"
	"context"
	"crypto/x509/pkix"
	"encoding/asn1"
	"fmt"
	"sync"
	"testing"
	"time"

	corecrl "github.com/notaryproject/notation-core-go/revocation/crl"
	"github.com/notaryproject/notation-go/verifier/crl"

	"verifharness/internal/pki"
	"verifharness/internal/stats"
)

// TestC14_CancelledStoreThenStore: "a read that starts after a write for the URL has returned does
// not yield a bundle older than that write" - also when an EARLIER store of the URL was made with
// a context that is cancelled or expires while it runs. A large bundle is stored under such a
// context (whatever that call reports), then a small one under a live context; once the second
// store has returned, every read yields the small bundle - nothing the first call left running
// may land on top of it. Runs in one shard.
func TestC14_CancelledStoreThenStore(t *testing.T) {
	rec := stats.New(t, "C14", rule)
	if s, n := stats.Shard(); s != 3%n {
		t.Skip("runs in one shard")
	}
	getPool()
	large, small := bySize("large"), bySize("small")
	rounds := 12
	if stats.Tier() == "thorough" {
		rounds = 150
	}
	for round := 0; round < rounds; round++ {
		root, cleanup := newRoot()
		cache, err := crl.NewFileCache(root)
		if err != nil {
			cleanup()
			t.Fatalf("harness: %v", err)
		}
		kind := []string{"cancelled-before", "expires-during", "cancelled-during"}[round%3]
		ctx, cancel := context.WithCancel(context.Background())
		switch kind {
		case "cancelled-before":
			cancel()
		case "expires-during":
			cancel()
			ctx, cancel = context.WithTimeout(context.Background(), time.Duration(200+137*round%1500)*time.Microsecond)
		case "cancelled-during":
			go func(d time.Duration) { time.Sleep(d); cancel() }(time.Duration(100+211*round%2500) * time.Microsecond)
		}
		url := urls[round%len(urls)]
		first := large[round%len(large)]
		second := small[round%24]
		err1 := cache.Set(ctx, url, first.bundle)
		cancel()
		err2 := cache.Set(context.Background(), url, second.bundle)
		key, msg := "", ""
		if err2 != nil {
			key, msg = "C14:late-write:store-failed", fmt.Sprintf("the second store failed: %v", err2)
		}
		for i := 0; i < 12 && key == ""; i++ {
			v, problem := readValue(cache, url)
			switch {
			case problem != "":
				key, msg = "C14:late-write:read-not-miss-or-complete", problem
			case v != second.id:
				key, msg = "C14:late-write:read-older-than-returned-store", fmt.Sprintf("store of bundle %d under a %s context reported %v; then the store of bundle %d returned; a read %d ms later yields %d", first.id, kind, err1, second.id, i*15, v)
			}
			time.Sleep(15 * time.Millisecond)
		}
		cleanup()
		rec.Case([]string{"explorer=cancelled-store-then-store", "first-store-context=" + kind, map[bool]string{true: "first-store-reported-error", false: "first-store-reported-success"}[err1 != nil]}, true,
			stats.Fingerprint("late-write", round, kind), func() any { return map[string]any{"round": round, "context": kind, "first": first.id, "second": second.id} })
		if key != "" {
			rec.Failf(t, key, map[string]any{"round": round, "context": kind}, "%s", msg)
			return
		}
	}
}

// TestC14_HugeEntry: "a complete bundle that some writer stored" has no size clause: a base CRL of
// about 25 MiB (its cache entry, JSON with base64 inside, is well above 32 MiB) is stored and read
// back complete, then replaced by a small bundle. Runs in one shard.
func TestC14_HugeEntry(t *testing.T) {
	rec := stats.New(t, "C14", rule)
	if s, n := stats.Shard(); s != 4%n {
		t.Skip("runs in one shard")
	}
	getPool()
	huge := hugeBundle()
	size := len(huge.BaseCRL.Raw)
	rec.Case([]string{"explorer=huge-entry"}, true, stats.Fingerprint("huge-entry"), func() any { return map[string]any{"base_crl_bytes": size} })
	rec.Set("huge_entry_base_crl_bytes", size)
	if size < 24<<20 {
		t.Fatalf("harness: the huge CRL has only %d bytes", size)
	}
	root, cleanup := newRoot()
	defer cleanup()
	cache, err := crl.NewFileCache(root)
	if err != nil {
		t.Fatalf("harness: %v", err)
	}
	url := urls[0]
	if err := cache.Set(context.Background(), url, huge); err != nil {
		rec.Failf(t, "C14:huge-entry:store-failed", size, "storing a bundle whose base CRL has %d bytes failed: %v", size, err)
		return
	}
	got, err := cache.Get(context.Background(), url)
	if err != nil || got == nil || got.BaseCRL == nil || hashBundle(got) != hashBundle(huge) {
		rec.Failf(t, "C14:huge-entry:read-not-complete", size, "a bundle whose base CRL has %d bytes was stored (Set returned nil); reading it back gives err=%v", size, err)
		return
	}
	second := bySize("small")[5]
	if err := cache.Set(context.Background(), url, second.bundle); err != nil {
		rec.Failf(t, "C14:huge-entry:store-failed", size, "replacing the huge entry failed: %v", err)
		return
	}
	if v, problem := readValue(cache, url); problem != "" || v != second.id {
		rec.Failf(t, "C14:huge-entry:replacement-not-visible", size, "after replacing the huge entry a read gives %d %s", v, problem)
	}
}

var (
	hugeOnce sync.Once
	hugeB    *corecrl.Bundle
)

// hugeBundle is a bundle whose base CRL has 25 MiB; it is registered in the pool's hash index.
func hugeBundle() *corecrl.Bundle {
	getPool()
	hugeOnce.Do(func() {
		now := time.Now()
		// the bulk sits in one non-critical extension of an unknown type (minting and parsing a million
		// revoked serial numbers would take a quarter of a minute; the cache does not care what fills a CRL)
		filler := bytes.Repeat([]byte("crl-filler-"), (25<<20)/11)
		hugeB = &corecrl.Bundle{BaseCRL: pki.CRL(ca, 990001, now.Add(-time.Hour), now.Add(48*time.Hour), 3,
			[]pkix.Extension{{Id: asn1.ObjectIdentifier{1, 3, 6, 1, 4, 1, 99999, 14, 1}, Value: filler}})}
		p := &pooled{id: 990001, bundle: hugeB, hash: hashBundle(hugeB), size: "huge"}
		byHash[p.hash] = p
	})
	return hugeB
}
