//go:build verif

package c14

import (
	"context"
	"fmt"
	"sync"
	"sync/atomic"
	"testing"
	"time"

	"github.com/notaryproject/notation-go/verifier/crl"

	"verifharness/internal/stats"
)

// TestC14_SharedValueManyURLs: many goroutines share ONE cache value (the ordinary in-process
// use) and work on DIFFERENT URLs: two writers keep storing their own URL's bundles, two readers
// read those URLs, and four "probers" read URLs nobody ever stores - a cheap operation, so the
// code that maps a URL to its entry runs hundreds of thousands of times per second, next to the
// writers. A prober must always see a miss; a reader a miss or a bundle stored for its URL.
// (The linearizability explorers cover few URLs and a few thousand operations; a fault in the
// per-call bookkeeping of the cache value itself needs this volume.) Runs in one shard.
func TestC14_SharedValueManyURLs(t *testing.T) {
	rec := stats.New(t, "C14", rule)
	if s, n := stats.Shard(); s != 2%n {
		t.Skip("runs in one shard")
	}
	p := getPool()
	root, cleanup := newRoot()
	defer cleanup()
	cache, err := crl.NewFileCache(root)
	if err != nil {
		t.Fatalf("harness: %v", err)
	}
	dur := 1500 * time.Millisecond
	if stats.Tier() == "thorough" {
		dur = 20 * time.Second
	}
	small := bySize("small")
	writerURL := func(w int) string { return fmt.Sprintf("http://crl.example/shared/%d.crl", w) }
	own := map[string]map[int]bool{}
	for w := 0; w < 2; w++ {
		own[writerURL(w)] = map[int]bool{small[2*w].id: true, small[2*w+1].id: true}
	}
	var stop atomic.Bool
	var mu sync.Mutex
	var key, msg string
	fail := func(k, m string) {
		mu.Lock()
		if key == "" {
			key, msg = k, m
		}
		mu.Unlock()
		stop.Store(true)
	}
	var sets, reads, probes atomic.Int64
	var wg sync.WaitGroup
	for w := 0; w < 2; w++ {
		w := w
		wg.Add(2)
		go func() { // writer
			defer wg.Done()
			for i := 0; !stop.Load(); i++ {
				if err := cache.Set(context.Background(), writerURL(w), small[2*w+i%2].bundle); err != nil {
					fail("C14:shared-value:set-failed", err.Error())
				}
				sets.Add(1)
			}
		}()
		go func() { // reader of the same URL
			defer wg.Done()
			for !stop.Load() {
				v, problem := readValue(cache, writerURL(w))
				reads.Add(1)
				if problem != "" {
					fail("C14:shared-value:read-not-miss-or-complete", problem)
				} else if v >= 0 && !own[writerURL(w)][v] {
					fail("C14:shared-value:bundle-of-other-url", fmt.Sprintf("Get(%s) returned bundle %d, which was only ever stored for another URL", writerURL(w), v))
				}
			}
		}()
	}
	for g := 0; g < 4; g++ {
		g := g
		wg.Add(1)
		go func() { // prober of URLs that are never stored
			defer wg.Done()
			for i := 0; !stop.Load(); i++ {
				u := fmt.Sprintf("http://crl.example/never-stored/%d/%d.crl", g, i%7)
				v, problem := readValue(cache, u)
				probes.Add(1)
				if problem != "" {
					fail("C14:shared-value:read-not-miss-or-complete", problem)
				} else if v >= 0 {
					fail("C14:shared-value:never-stored-url-has-bundle", fmt.Sprintf("Get(%s) returned bundle %d although nothing was ever stored for that URL", u, v))
				}
			}
		}()
	}
	time.Sleep(dur)
	stop.Store(true)
	wg.Wait()
	_ = p
	rec.Case([]string{"explorer=shared-value-many-urls"}, true, stats.Fingerprint("shared-value", sets.Load() > 0), func() any {
		return map[string]any{"stores": sets.Load(), "reads": reads.Load(), "reads_of_never_stored_urls": probes.Load()}
	})
	rec.Add("count_shared_value_stores", sets.Load())
	rec.Add("count_shared_value_reads", reads.Load())
	rec.Add("count_shared_value_probes", probes.Load())
	if key != "" {
		rec.Failf(t, key, map[string]any{"stores": sets.Load(), "reads": reads.Load(), "probes": probes.Load()}, "%s", msg)
	}
}
