//go:build verif

package c14

import (
	"bufio"
	"context"
	"encoding/json"
	"fmt"
	"os"
	"os/exec"
	"path/filepath"
	"sort"
	"sync"
	"testing"
	"time"

	"github.com/anishathalye/porcupine"
	"github.com/notaryproject/notation-go/verifier/crl"

	"verifharness/internal/stats"
)

type histRec struct {
	Proc   int    `json:"proc"`
	Op     int    `json:"op"`
	URL    string `json:"url"`
	Set    int    `json:"set"`
	Got    string `json:"got"`
	Call   int64  `json:"call"`
	Return int64  `json:"ret"`
	Err    string `json:"err,omitempty"`
}

// judge applies the shared oracle to a merged history.
func judge(h []histRec, storedFor map[string]map[int]bool) (string, string, int) {
	var ops []porcupine.Operation
	overlaps := 0
	for _, r := range h {
		if r.Set >= 0 {
			if r.Err != "" {
				return "C14:free-running:set-failed", r.Err, 0
			}
			ops = append(ops, porcupine.Operation{ClientId: r.Proc, Input: regIn{URL: r.URL, Write: true, Val: r.Set}, Call: r.Call, Output: 0, Return: r.Return})
			continue
		}
		v := -1
		switch {
		case r.Got == "miss":
		case len(r.Got) > 4 && r.Got[:4] == "err:":
			return "C14:free-running:read-not-miss-or-complete", fmt.Sprintf("process/goroutine %d op %d: Get(%s) failed with %s", r.Proc, r.Op, r.URL, r.Got[4:]), 0
		default:
			p, ok := byHash[r.Got]
			if !ok {
				return "C14:free-running:read-not-miss-or-complete", fmt.Sprintf("process/goroutine %d op %d: Get(%s) returned a bundle nobody stored (mixed entry)", r.Proc, r.Op, r.URL), 0
			}
			if !storedFor[r.URL][p.id] {
				return "C14:free-running:bundle-of-other-url", fmt.Sprintf("Get(%s) returned bundle %d which is never stored under that URL", r.URL, p.id), 0
			}
			v = p.id
		}
		ops = append(ops, porcupine.Operation{ClientId: r.Proc, Input: regIn{URL: r.URL}, Call: r.Call, Output: v, Return: r.Return})
	}
	// count reads that overlapped a store of the same URL (non-triviality)
	for _, a := range h {
		if a.Set >= 0 {
			continue
		}
		for _, b := range h {
			if b.Set >= 0 && b.URL == a.URL && b.Call < a.Return && a.Call < b.Return {
				overlaps++
				break
			}
		}
	}
	budget := 12 * time.Second
	if stats.Tier() == "thorough" {
		budget = 90 * time.Second
	}
	res := porcupine.CheckOperationsTimeout(registerModel, ops, budget)
	if res == porcupine.Illegal {
		sort.Slice(ops, func(i, j int) bool { return ops[i].Call < ops[j].Call })
		return "C14:free-running:not-linearizable", "history is not linearizable as a per-URL register: " + describe(ops), overlaps
	}
	if res == porcupine.Unknown {
		return "inconclusive", "linearizability check timed out", overlaps
	}
	return "", "", overlaps
}

// plan builds a deterministic op list for actor a: sets of its own bundles (alternating small
// and large) interleaved with gets.
func plan(a, actors, nOps, nURLs int, storedFor map[string]map[int]bool) ([]wOp, map[int]bool) {
	small, large, medium := bySize("small"), bySize("large"), bySize("medium")
	ids := map[int]bool{}
	var ops []wOp
	for i := 0; i < nOps; i++ {
		u := urls[(a+i)%nURLs]
		if (i+a)%3 == 0 {
			var b *pooled
			switch {
			case (i/3)%4 == 1 && a%2 == 0:
				b = large[(a/2+i)%len(large)]
			case (i/3)%4 == 3:
				b = medium[(a+i)%len(medium)]
			default:
				b = small[(a*7+i)%len(small)]
			}
			ids[b.id] = true
			if storedFor[u] == nil {
				storedFor[u] = map[int]bool{}
			}
			storedFor[u][b.id] = true
			ops = append(ops, wOp{URL: u, B: b.id})
		} else {
			ops = append(ops, wOp{URL: u, B: -1})
		}
	}
	return ops, ids
}

// TestC14_FreeRunningGoroutines: goroutines hammer Set/Get on shared URLs of one FileCache.
func TestC14_FreeRunningGoroutines(t *testing.T) {
	rec := stats.New(t, "C14", rule)
	getPool()
	shard, _ := stats.Shard()
	rounds := 2
	if stats.Tier() == "thorough" {
		rounds = 40
	}
	for round := 0; round < rounds; round++ {
		actors := []int{4, 8, 16, 6}[(round+shard)%4]
		nURLs := 1 + (round+shard)%3
		nOps := 288 / actors // keeps the history small enough for the linearizability search
		root, cleanup := newRootOn(round%2 == 1)
		cache, err := crl.NewFileCache(root)
		if err != nil {
			t.Fatalf("harness: %v", err)
		}
		storedFor := map[string]map[int]bool{}
		plans := make([][]wOp, actors)
		for a := 0; a < actors; a++ {
			plans[a], _ = plan(a, actors, nOps, nURLs, storedFor)
		}
		var mu sync.Mutex
		var hist []histRec
		var wg sync.WaitGroup
		start := time.Now()
		p := getPool()
		for a := 0; a < actors; a++ {
			wg.Add(1)
			go func(a int) {
				defer wg.Done()
				for i, op := range plans[a] {
					r := histRec{Proc: a, Op: i, URL: op.URL, Set: op.B}
					r.Call = int64(time.Since(start))
					if op.B >= 0 {
						if err := cache.Set(context.Background(), op.URL, p[op.B].bundle); err != nil {
							r.Err = err.Error()
						}
					} else {
						v, problem := readValue(cache, op.URL)
						switch {
						case problem != "":
							r.Got = "err:" + problem
						case v < 0:
							r.Got = "miss"
						default:
							r.Got = p[v].hash
						}
					}
					r.Return = int64(time.Since(start))
					mu.Lock()
					hist = append(hist, r)
					mu.Unlock()
				}
			}(a)
		}
		wg.Wait()
		key, msg, overlaps := judge(hist, storedFor)
		rootMsg := checkRoot(root, false)
		cleanup()
		cl := []string{"explorer=free-running", "free-running=goroutines", fmt.Sprintf("actors=%d", actors), fmt.Sprintf("urls=%d", nURLs)}
		if round%2 == 1 && otherMount != "" {
			cl = append(cl, "cache-root-on-another-file-system-than-tmpdir")
		}
		if key == "inconclusive" {
			cl = append(cl, "linearizability-check-timed-out")
			key = ""
		}
		rec.Case(cl, overlaps > 0, stats.Fingerprint("goroutines", round, shard, len(hist), overlaps), func() any {
			return map[string]any{"actors": actors, "urls": nURLs, "ops": len(hist), "reads_overlapping_a_store": overlaps}
		})
		rec.Add("count_free_running_ops", int64(len(hist)))
		rec.Add("count_reads_overlapping_a_store", int64(overlaps))
		if key != "" {
			rec.Failf(t, key, map[string]any{"actors": actors, "urls": nURLs, "round": round}, "%s", msg)
		}
		if rootMsg != "" {
			rec.Failf(t, "C14:free-running:cache-root-content", nil, "%s", rootMsg)
		}
	}
}

// TestC14_FreeRunningProcesses: separate worker processes hammer one cache directory.
func TestC14_FreeRunningProcesses(t *testing.T) {
	rec := stats.New(t, "C14", rule)
	if workerPath() == "" {
		t.Skip("crlworker not built (VERIF_BIN_DIR unset)")
	}
	getPool()
	shard, _ := stats.Shard()
	rounds := 1
	if stats.Tier() == "thorough" {
		rounds = 12
	}
	for round := 0; round < rounds; round++ {
		procs := []int{4, 6, 8}[(round+shard)%3]
		nURLs := 1 + (round+shard)%2
		root, cleanup := newRootOn((round+shard)%2 == 1)
		if _, err := crl.NewFileCache(root); err != nil {
			t.Fatalf("harness: %v", err)
		}
		dir := filepath.Dir(root)
		storedFor := map[string]map[int]bool{}
		var cmds []*exec.Cmd
		for a := 0; a < procs; a++ {
			ops, ids := plan(a, procs, 30, nURLs, storedFor)
			spec, err := writeSpec(dir, a, ops, ids)
			if err != nil {
				t.Fatalf("harness: %v", err)
			}
			cmds = append(cmds, exec.Command(workerPath(), "hammer", root, spec, filepath.Join(dir, fmt.Sprintf("hist%d.jsonl", a))))
		}
		for _, c := range cmds {
			if err := c.Start(); err != nil {
				t.Fatalf("harness: %v", err)
			}
		}
		for _, c := range cmds {
			if err := c.Wait(); err != nil {
				t.Fatalf("harness: worker failed: %v", err)
			}
		}
		var hist []histRec
		for a := 0; a < procs; a++ {
			f, err := os.Open(filepath.Join(dir, fmt.Sprintf("hist%d.jsonl", a)))
			if err != nil {
				t.Fatalf("harness: %v", err)
			}
			sc := bufio.NewScanner(f)
			sc.Buffer(make([]byte, 1<<20), 1<<20)
			for sc.Scan() {
				var r histRec
				if json.Unmarshal(sc.Bytes(), &r) == nil {
					hist = append(hist, r)
				}
			}
			f.Close()
		}
		key, msg, overlaps := judge(hist, storedFor)
		rootMsg := checkRoot(root, false)
		cleanup()
		cl := []string{"explorer=free-running", "free-running=processes", fmt.Sprintf("procs=%d", procs)}
		if key == "inconclusive" {
			cl = append(cl, "linearizability-check-timed-out")
			key = ""
		}
		rec.Case(cl, overlaps > 0, stats.Fingerprint("processes", round, shard, len(hist), overlaps), func() any {
			return map[string]any{"processes": procs, "urls": nURLs, "ops": len(hist), "reads_overlapping_a_store": overlaps}
		})
		rec.Add("count_free_running_ops", int64(len(hist)))
		rec.Add("count_reads_overlapping_a_store", int64(overlaps))
		if key != "" {
			rec.Failf(t, key, map[string]any{"processes": procs, "round": round}, "%s", msg)
		}
		if rootMsg != "" {
			rec.Failf(t, "C14:free-running:cache-root-content", nil, "%s", rootMsg)
		}
	}
}
