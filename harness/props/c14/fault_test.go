//go:build verif

package c14

import (
	"bufio"
	"context"
	"fmt"
	"os"
	"os/exec"
	"path/filepath"
	"strconv"
	"strings"
	"testing"

	"github.com/notaryproject/notation-go/verifier/crl"
	"pgregory.net/rapid"

	"verifharness/internal/rp"
	"verifharness/internal/stats"
)

// Explorer B', failing system calls instead of a dying process: the n-th write / close /
// renameat / openat / fchmod of the worker returns an error (disk full, I/O error, no permission)
// and the worker goes on. Whatever a store then reports, a read yields a miss or a complete
// bundle that was stored for the URL; a store that reported success is visible; the cache stays
// usable. (A store that swallows the error of a failed write and renames the half-written
// temporary file into place shows here and nowhere else.)

// runFault executes one fault case (Kill = "fault:<syscall>:<ERRNO>", N = occurrence).
func runFault(c CrashCase) (key, msg string, fired bool) {
	getPool()
	root, cleanup := newRoot()
	defer cleanup()
	cache, err := crl.NewFileCache(root)
	if err != nil {
		return "harness", err.Error(), false
	}
	p := getPool()
	allowed := map[string]map[int]bool{}
	for _, u := range urls {
		allowed[u] = map[int]bool{-1: true}
	}
	for _, st := range c.Pre {
		if err := cache.Set(context.Background(), urls[st.URL], p[st.Bundle].bundle); err != nil {
			return "harness", "pre-populate: " + err.Error(), false
		}
		allowed[urls[st.URL]] = map[int]bool{st.Bundle: true}
	}
	ids := map[int]bool{}
	var ops []wOp
	for _, st := range c.Ops {
		ids[st.Bundle] = true
		ops = append(ops, wOp{URL: urls[st.URL], B: st.Bundle})
	}
	specPath, err := writeSpec(filepath.Dir(root), 0, ops, ids)
	if err != nil {
		return "harness", err.Error(), false
	}
	parts := strings.Split(c.Kill, ":")
	if len(parts) != 3 || parts[0] != "fault" {
		return "harness", "bad fault spec " + c.Kill, false
	}
	args := []string{"strace", "-f", "-qq", "-o", "/dev/null", "-e", "trace=" + parts[1], "-e", fmt.Sprintf("inject=%s:error=%s:when=%d", parts[1], parts[2], c.N),
		workerPath(), "seq", root, specPath}
	cmd := exec.Command(args[0], args[1:]...)
	stdout, _ := cmd.StdoutPipe()
	if err := cmd.Start(); err != nil {
		return "harness", "start worker: " + err.Error(), false
	}
	acked, failed := map[int]bool{}, map[int]bool{}
	sc := bufio.NewScanner(stdout)
	for sc.Scan() {
		f := strings.Fields(sc.Text())
		if len(f) >= 2 {
			if i, err := strconv.Atoi(f[1]); err == nil {
				switch f[0] {
				case "ack":
					acked[i] = true
				case "seterr":
					failed[i] = true
				}
			}
		}
	}
	cmd.Wait() // the worker itself may fail on an injected error (its own files, its own output): only the cache is judged
	fired = len(failed) > 0 || len(acked) < len(c.Ops)
	// a store that reported success is visible; one that failed, or whose report was lost, may or may not be
	for i, st := range c.Ops {
		u := urls[st.URL]
		if acked[i] {
			allowed[u] = map[int]bool{st.Bundle: true}
		} else {
			allowed[u][st.Bundle] = true
		}
	}
	cache2, err := crl.NewFileCache(root)
	if err != nil {
		return "harness", err.Error(), fired
	}
	for _, u := range urls {
		v, problem := readValue(cache2, u)
		if problem != "" {
			return "C14:fault:read-not-miss-or-complete:" + parts[1], fmt.Sprintf("after %s #%d failed with %s (stores acknowledged %v, failed %v): %s", parts[1], c.N, parts[2], keys(acked), keys(failed), problem), fired
		}
		if !allowed[u][v] {
			return "C14:fault:acknowledged-store-not-visible:" + parts[1], fmt.Sprintf("after %s #%d failed with %s (stores acknowledged %v, failed %v), Get(%s) = %d, allowed %v", parts[1], c.N, parts[2], keys(acked), keys(failed), u, v, keys(allowed[u])), fired
		}
	}
	fresh := bySize("small")[23]
	for _, u := range urls {
		if err := cache2.Set(context.Background(), u, fresh.bundle); err != nil {
			return "C14:fault:cache-unusable-afterwards", err.Error(), fired
		}
		if v, problem := readValue(cache2, u); problem != "" || v != fresh.id {
			return "C14:fault:cache-unusable-afterwards", fmt.Sprintf("store after the fault not readable: %d %s", v, problem), fired
		}
	}
	return "", "", fired
}

func keys(m map[int]bool) []int {
	var out []int
	for k := range m {
		out = append(out, k)
	}
	for i := range out {
		for j := i + 1; j < len(out); j++ {
			if out[j] < out[i] {
				out[i], out[j] = out[j], out[i]
			}
		}
	}
	return out
}

// TestC14_FaultSyscall lets every n-th system call of a kind fail, for generated store sequences.
func TestC14_FaultSyscall(t *testing.T) {
	rec := stats.New(t, "C14", rule)
	if workerPath() == "" {
		t.Skip("crlworker not built (VERIF_BIN_DIR unset)")
	}
	if _, err := exec.LookPath("strace"); err != nil {
		t.Skip("strace not available")
	}
	var rc CrashCase
	if rp.ReplayCase(&rc) && strings.HasPrefix(rc.Kill, "fault:") {
		if key, msg, _ := runFault(rc); key != "" && key != "harness" {
			rec.Failf(t, key, rc, "%s", msg)
		}
		return
	}
	faults := []string{"write:ENOSPC", "close:EIO", "renameat:EACCES"}
	seqs, maxN := 8, 24
	if stats.Tier() == "thorough" {
		faults = []string{"write:ENOSPC", "write:EIO", "write:EFBIG", "close:EIO", "close:ENOSPC", "renameat:EACCES", "renameat:ENOSPC", "openat:EMFILE", "openat:ENOSPC", "fchmod:EPERM", "unlinkat:EACCES"}
		seqs, maxN = 160, 60
	}
	rp.Check(t, seqs, seqs, func(rt *rapid.T) {
		base := drawSeq(rt, false)
		f := faults[rapid.IntRange(0, len(faults)-1).Draw(rt, "fault")]
		quiet := 0
		for n := 1; n <= maxN && quiet < 6; n++ {
			c := base
			c.Kill, c.N = "fault:"+f, n
			key, msg, fired := runFault(c)
			cl := []string{"explorer=fault-syscall", "fault=" + f, fmt.Sprintf("stores=%d", len(c.Ops))}
			if fired {
				cl = append(cl, "store-failed-or-unreported")
				quiet = 0
			} else {
				quiet++
			}
			if len(c.Pre) > 0 {
				cl = append(cl, "overwrite-of-existing-entry")
			}
			rec.Case(cl, fired, stats.Fingerprint(fmt.Sprintf("%+v", c)), func() any { return c })
			if key == "harness" {
				rt.Fatalf("harness: %s", msg)
			}
			if key != "" {
				rec.Failf(rt, key, c, "%s", msg)
			}
		}
	})
	_ = os.Getenv
}
