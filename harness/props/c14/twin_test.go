//go:build verif

package c14

import "testing"

// TestC14_TwinSizes is a harness self-check: the twin bundles really have one encoded size.
func TestC14_TwinSizes(t *testing.T) {
	tw := bySize("twin")
	for _, p := range tw {
		if len(p.bundle.BaseCRL.Raw) != len(tw[0].bundle.BaseCRL.Raw) {
			t.Fatalf("harness: twin bundles differ in size: %d vs %d", len(p.bundle.BaseCRL.Raw), len(tw[0].bundle.BaseCRL.Raw))
		}
	}
}
