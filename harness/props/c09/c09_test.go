// C09 — only well-formed trust policy documents are accepted.
//
// Oracle: a document is accepted iff the model (model_test.go) finds no violated rule on
// the structured form; for documents built by the grammar this must coincide with "zero
// rule-violating edits" (checked as a harness self-test). Every document is fed to the
// library as a Go value, as JSON (decoded in memory and, for a fraction, loaded by
// Load*Document from a sandboxed configuration directory) and through
// verifier.NewVerifierWithOptions. For every accepted document each statement must yield a
// verification level that enforces integrity unless the statement is skip.
//
// Finding keys (oracle clause : document kind : input class):
//
//	C09:accepted-invalid:<oci|blob>:<violated rule(s), '+'-joined = operator names>
//	C09:rejected-valid:<oci|blob>:<value|verifier|json|json-file>
//	C09:level-error:<oci|blob>             a statement of an accepted document yields no level
//	C09:integrity-not-enforced:<oci|blob>  ... yields a level that does not enforce integrity (non-skip)
//	C09:panic:<oci|blob>                   fuzz body only
package c09

import (
	"encoding/json"
	"fmt"
	"os"
	"path/filepath"
	"strings"
	"testing"

	"github.com/notaryproject/notation-go/dir"
	"github.com/notaryproject/notation-go/verifier"
	"github.com/notaryproject/notation-go/verifier/trustpolicy"
	"pgregory.net/rapid"

	"verifharness/internal/mocks"
	"verifharness/internal/rp"
	"verifharness/internal/stats"
)

// Case is what a failure report shows (the rapid .fail file is the replayable unit).
type Case struct {
	Family   string          `json:"family"`
	Kind     string          `json:"kind"`
	Edits    []Edit          `json:"edits"`
	Via      string          `json:"via,omitempty"`
	Shape    shape           `json:"shape"`
	Violated []string        `json:"model_violations"`
	Silent   []string        `json:"model_silent,omitempty"`
	Document json.RawMessage `json:"document"`
}

// levelInvariant: every statement of an accepted document yields a level, and the level
// enforces integrity unless the statement is skip. Returns (finding-key suffix, message).
func levelInvariant(svs []trustpolicy.SignatureVerification) (string, string) {
	for i := range svs {
		lvl, err := svs[i].GetVerificationLevel()
		if err != nil || lvl == nil {
			return "level-error", fmt.Sprintf("statement %d of an accepted document has no verification level: %v", i, err)
		}
		if svs[i].VerificationLevel != "skip" && lvl.Enforcement[trustpolicy.TypeIntegrity] != trustpolicy.ActionEnforce {
			return "integrity-not-enforced", fmt.Sprintf("statement %d (level %q, override %v) of an accepted document yields integrity=%q",
				i, svs[i].VerificationLevel, svs[i].Override, lvl.Enforcement[trustpolicy.TypeIntegrity])
		}
	}
	return "", ""
}

func ociSVs(d *trustpolicy.OCIDocument) []trustpolicy.SignatureVerification {
	var out []trustpolicy.SignatureVerification
	for _, s := range d.TrustPolicies {
		out = append(out, s.SignatureVerification)
	}
	return out
}

func blobSVs(d *trustpolicy.BlobDocument) []trustpolicy.SignatureVerification {
	var out []trustpolicy.SignatureVerification
	for _, s := range d.TrustPolicies {
		out = append(out, s.SignatureVerification)
	}
	return out
}

// result of feeding a document one way.
type result struct {
	accepted bool
	err      error
	svs      []trustpolicy.SignatureVerification // statements as the library holds them (accepted documents)
}

func validateOCI(doc *trustpolicy.OCIDocument) result {
	if err := doc.Validate(); err != nil {
		return result{err: err}
	}
	return result{accepted: true, svs: ociSVs(doc)}
}

func validateBlob(doc *trustpolicy.BlobDocument) result {
	if err := doc.Validate(); err != nil {
		return result{err: err}
	}
	return result{accepted: true, svs: blobSVs(doc)}
}

func viaValue(d *Doc, sh shape) result {
	if d.Kind == "oci" {
		return validateOCI(d.oci(sh))
	}
	return validateBlob(d.blob(sh))
}

func viaJSON(d *Doc, sh shape) result {
	b := d.jsonBytes(sh)
	if d.Kind == "oci" {
		var doc trustpolicy.OCIDocument
		if err := json.Unmarshal(b, &doc); err != nil {
			return result{err: fmt.Errorf("decode: %w", err)}
		}
		return validateOCI(&doc)
	}
	var doc trustpolicy.BlobDocument
	if err := json.Unmarshal(b, &doc); err != nil {
		return result{err: fmt.Errorf("decode: %w", err)}
	}
	return validateBlob(&doc)
}

// viaFile writes the document into a fresh configuration directory and loads it with the
// library's loader. legacy: the OCI document is stored under the deprecated file name.
func viaFile(d *Doc, sh shape, legacy bool) (result, error) {
	tmp, err := os.MkdirTemp("", "c09-")
	if err != nil {
		return result{}, fmt.Errorf("harness: %w", err)
	}
	defer os.RemoveAll(tmp)
	old := dir.UserConfigDir
	dir.UserConfigDir = tmp
	defer func() { dir.UserConfigDir = old }()
	name := dir.PathBlobTrustPolicy
	if d.Kind == "oci" {
		name = dir.PathOCITrustPolicy
		if legacy {
			name = dir.PathTrustPolicy
		}
	}
	if err := os.WriteFile(filepath.Join(tmp, name), d.jsonBytes(sh), 0o600); err != nil {
		return result{}, fmt.Errorf("harness: %w", err)
	}
	if d.Kind == "oci" {
		doc, err := trustpolicy.LoadOCIDocument()
		if err != nil {
			return result{err: fmt.Errorf("load: %w", err)}, nil
		}
		return validateOCI(doc), nil
	}
	doc, err := trustpolicy.LoadBlobDocument()
	if err != nil {
		return result{err: fmt.Errorf("load: %w", err)}, nil
	}
	return validateBlob(doc), nil
}

func viaVerifier(d *Doc, sh shape) result {
	opts := verifier.VerifierOptions{}
	var svs []trustpolicy.SignatureVerification
	if d.Kind == "oci" {
		opts.OCITrustPolicy = d.oci(sh)
		svs = ociSVs(opts.OCITrustPolicy)
	} else {
		opts.BlobTrustPolicy = d.blob(sh)
		svs = blobSVs(opts.BlobTrustPolicy)
	}
	v, err := verifier.NewVerifierWithOptions(mocks.NewTrustStore(), opts)
	if err != nil {
		return result{err: err}
	}
	if v == nil {
		return result{err: fmt.Errorf("nil verifier without error")}
	}
	return result{accepted: true, svs: svs}
}

// runner evaluates one document all ways and compares with the model.
type runner struct {
	rec     *stats.Recorder
	t       stats.Failer // property failures (rapid shrinks them)
	harness *testing.T   // broken preconditions of the harness itself (no VERIF-FAIL: exit 2)
}

// run returns the classes describing what happened. fileEvery: the json-file route is
// taken when pick%fileEvery == 0.
func (r runner) run(c *Case, d *Doc, v Verdict, sh shape, withFile, legacy bool) []string {
	c.Violated, c.Silent, c.Shape, c.Kind = v.Violations, v.Silent, sh, d.Kind
	c.Document = d.canonical()
	var cl []string
	outcome := ""
	check := func(via string, res result) bool {
		c.Via = via
		cl = append(cl, "via="+via)
		o := "reject"
		if res.accepted {
			o = "accept"
		}
		if outcome == "" {
			outcome = o
		} else if outcome != o {
			outcome = "mixed"
		}
		if res.accepted {
			if key, msg := levelInvariant(res.svs); key != "" {
				r.rec.Failf(r.t, "C09:"+key+":"+d.Kind, c, "via %s: %s", via, msg)
			}
		}
		if !v.decided() {
			return true
		}
		if v.valid() && !res.accepted {
			return r.rec.Failf(r.t, "C09:rejected-valid:"+d.Kind+":"+via, c, "a document obeying every rule was rejected (%s): %v", via, res.err)
		}
		if !v.valid() && res.accepted {
			return r.rec.Failf(r.t, "C09:accepted-invalid:"+d.Kind+":"+v.key(), c, "a document violating %v was accepted (%s)", v.Violations, via)
		}
		return true
	}
	known := !check("value", viaValue(d, sh))
	known = !check("verifier", viaVerifier(d, sh)) || known
	known = !check("json", viaJSON(d, sh)) || known
	if withFile {
		res, herr := viaFile(d, sh, legacy)
		if herr != nil {
			r.harness.Fatalf("%v", herr)
		}
		known = !check("json-file", res) || known
		if legacy && d.Kind == "oci" {
			cl = append(cl, "json-file-legacy-name")
		}
	}
	if known {
		cl = append(cl, "known-finding")
	}
	cl = append(cl, "outcome="+outcome)
	return cl
}

func vclass(v Verdict) string {
	switch {
	case !v.decided():
		return "model=undecided"
	case v.valid():
		return "model=valid"
	}
	return "model=invalid"
}

// TestC09_GrammarEdits: valid documents from the grammar, then 0, 1 or 2 rule-violating
// edits. Accepted iff zero edits.
func TestC09_GrammarEdits(t *testing.T) {
	rec := stats.New(t, "C09", rule)
	rp.Check(t, 70000, 2100000, func(rt *rapid.T) {
		g := newGen(rt)
		kind := pick(rt, "kind", "oci", "blob")
		nEdits := pick(rt, "nEdits", 0, 0, 0, 1, 1, 1, 1, 1, 2, 2)
		// choose the operators first, so that the document can be generated with the
		// statements they need and every operator is equally likely
		var chosen []operator
		nd := need{}
		for i := 0; i < nEdits; i++ {
			pool := opsFor(kind, false)
			if chance(rt, "silentOp", 10) {
				pool = opsFor(kind, true)
			}
			o := pool[intRange(rt, "op", 0, len(pool)-1)]
			chosen = append(chosen, o)
			nd = nd.max(o.need)
		}
		if nd.skip+nd.nonskip > 4 {
			t.Fatalf("harness: operators need more than 4 statements")
		}
		d := g.validDoc(kind, nd)
		if v := judge(d); !v.valid() || len(v.Silent) > 0 {
			t.Fatalf("harness: the grammar produced a document the model rejects: %v %v\n%s", v.Violations, v.Silent, d.canonical())
		}
		c := &Case{Family: "grammar", Edits: []Edit{}}
		decisive := 0
		wipes := false
		for _, o := range chosen {
			wipes = wipes || o.name == "no-statements"
		}
		for _, o := range chosen {
			// an edit of a statement next to the removal of all statements would leave no
			// trace in the document: only document-level edits are combined with it
			if wipes && o.name != "no-statements" && !strings.HasPrefix(o.name, "version-") {
				continue
			}
			way, at, ok := o.apply(g, d)
			if !ok {
				continue
			}
			c.Edits = append(c.Edits, Edit{Op: o.name, Way: way, Stmt: at, Silent: o.silent})
			if !o.silent {
				decisive++
			}
		}
		v := judge(d)
		// self-test of the harness: edits and model must agree on well-formedness
		if decisive > 0 && v.valid() && len(v.Silent) == 0 {
			t.Fatalf("harness: %d rule-violating edits %v left a document the model accepts:\n%s", decisive, c.Edits, d.canonical())
		}
		if decisive == 0 && !v.valid() {
			t.Fatalf("harness: no rule-violating edit, but the model finds %v:\n%s", v.Violations, d.canonical())
		}
		sh := g.shape()
		withFile := chance(rt, "viaFile", 6)
		legacy := rapid.Bool().Draw(rt, "legacyName")
		cl := []string{"kind=" + kind, "family=grammar", fmt.Sprintf("edits=%d", decisive), vclass(v), fmt.Sprintf("statements=%d", len(d.Stmts))}
		for _, e := range c.Edits {
			if e.Silent {
				cl = append(cl, "silent-op="+e.Op)
			} else {
				cl = append(cl, "op="+e.Op, "op="+e.Op+"/"+kind)
				if w, _, _ := strings.Cut(e.Way, "/"); w != "" {
					cl = append(cl, "way="+e.Op+":"+w)
				}
			}
		}
		if decisive == 1 && len(c.Edits) == 1 {
			// a single edit is meant to violate exactly the rule it is named after
			if len(v.Violations) == 1 && v.Violations[0] == c.Edits[0].Op {
				cl = append(cl, "single-edit=exactly-its-rule")
			} else {
				cl = append(cl, "single-edit=also-other-rules", "single-edit=also-other-rules:"+c.Edits[0].Op)
			}
		}
		cl = append(cl, runner{rec, rt, t}.run(c, d, v, sh, withFile, legacy)...)
		for i, x := range cl { // samples are filed under the first class: the first operator, if any
			if strings.HasPrefix(x, "op=") {
				cl[0], cl[i] = cl[i], cl[0]
				break
			}
		}
		rec.Case(cl, decisive > 0 || len(d.Stmts) >= 2, stats.Fingerprint(kind, c.Document), func() any { return c })
	})
}

// TestC09_Assembled: documents put together from pools of labelled valid and invalid
// components, with any number of violations; the model alone decides.
func TestC09_Assembled(t *testing.T) {
	rec := stats.New(t, "C09", rule)
	rp.Check(t, 30000, 900000, func(rt *rapid.T) {
		g := newGen(rt)
		kind := pick(rt, "kind", "oci", "blob")
		d := g.assembled(kind)
		v := judge(d)
		c := &Case{Family: "assembled", Edits: []Edit{}}
		nv := len(v.Violations)
		if nv > 3 {
			nv = 3
		}
		cl := []string{"assembled/" + vclass(v), "kind=" + kind, "family=assembled", vclass(v), fmt.Sprintf("violations=%d", nv), fmt.Sprintf("statements=%d", len(d.Stmts))}
		for _, x := range v.Violations {
			cl = append(cl, "viol="+x)
		}
		cl = append(cl, runner{rec, rt, t}.run(c, d, v, g.shape(), chance(rt, "viaFile", 6), rapid.Bool().Draw(rt, "legacyName"))...)
		rec.Case(cl, len(v.Violations) > 0 || len(d.Stmts) >= 2, stats.Fingerprint(kind, c.Document), func() any { return c })
	})
}
