// Grammar of VALID policy documents (both kinds). Every component is valid by
// construction and labelled so; nothing here asks the library (or a parser) whether a
// component is valid.
package c09

import (
	"math/bits"
	"strconv"
	"strings"
	"sync"

	"pgregory.net/rapid"
)

const (
	lower  = "abcdefghijklmnopqrstuvwxyz"
	upper  = "ABCDEFGHIJKLMNOPQRSTUVWXYZ"
	digits = "0123456789"
)

func runes(rt *rapid.T, label, alphabet string, min, max int) string {
	return rapid.StringOfN(rapid.RuneFrom([]rune(alphabet)), min, max, -1).Draw(rt, label)
}

// rapid's integer generators deliberately favour small values and the bounds of a range;
// the structural choices of this property (which operator, which statement, how many
// components, "one time in n") must be uniform, so they are built from unbiased bits
// (rapid.Bool). All bits false is the value 0, towards which rapid shrinks.
var uniGens sync.Map // n -> *rapid.Generator[int]

func uni(rt *rapid.T, label string, n int) int {
	if n <= 1 {
		return 0
	}
	g, ok := uniGens.Load(n)
	if !ok {
		k := bits.Len(uint(n-1)) + 5 // 5 extra bits: the modulo bias is below 1/32
		g = rapid.Custom(func(t *rapid.T) int {
			v := 0
			for i := 0; i < k; i++ {
				if rapid.Bool().Draw(t, "b") {
					v |= 1 << i
				}
			}
			return v % n
		})
		uniGens.Store(n, g)
	}
	return g.(*rapid.Generator[int]).Draw(rt, label)
}

func intRange(rt *rapid.T, label string, min, max int) int { return min + uni(rt, label, max-min+1) }

func pick[T any](rt *rapid.T, label string, xs ...T) T { return xs[uni(rt, label, len(xs))] }

// chance is true one time in oneIn (and false when shrunk).
func chance(rt *rapid.T, label string, oneIn int) bool {
	return uni(rt, label, oneIn) == oneIn-1
}

// gen carries the per-document bookkeeping that makes uniqueness hold by construction.
type gen struct {
	rt         *rapid.T
	usedNames  map[string]bool
	usedScopes map[string]bool
	scopeList  []string
}

func newGen(rt *rapid.T) *gen {
	return &gen{rt: rt, usedNames: map[string]bool{}, usedScopes: map[string]bool{}}
}

var namePool = []string{"a", "A", "b", "policy", "Policy", "wabbit-networks-images", "skip", "strict", "*", "a/b",
	"name with space", " padded ", "ünïcode-名", "1", "0", "trust.policy_1", "x509.subject", "ca:x", "null", "{}",
	"a\"b", "tab\there", "<&>", "global", "default"}

// name returns a fresh, non-blank statement name (unique among the names handed out).
func (g *gen) name(i int) string {
	var n string
	if chance(g.rt, "nameGen", 3) {
		n = runes(g.rt, "name", lower+upper+digits+" -_./:*é", 1, 12)
		if strings.TrimSpace(n) == "" {
			n = "n" + n
		}
	} else {
		n = pick(g.rt, "namePool", namePool...)
	}
	for g.usedNames[n] {
		n += strconv.Itoa(i)
	}
	g.usedNames[n] = true
	return n
}

func (g *gen) level(nonSkipOnly bool) string {
	if nonSkipOnly {
		return pick(g.rt, "level", "strict", "permissive", "audit")
	}
	return pick(g.rt, "level", "strict", "permissive", "audit", "skip")
}

// override returns 0..4 legal overrides: never integrity, skip only for revocation.
func (g *gen) override() []KV {
	var out []KV
	if chance(g.rt, "noOverride", 2) {
		return nil
	}
	for _, k := range []string{"authenticity", "authenticTimestamp", "expiry", "revocation"} {
		if !chance(g.rt, "ov?", 3) {
			continue
		}
		if k == "revocation" {
			out = append(out, KV{k, pick(g.rt, "ovAct", "enforce", "log", "skip")})
		} else {
			out = append(out, KV{k, pick(g.rt, "ovAct", "enforce", "log")})
		}
	}
	if len(out) > 1 && chance(g.rt, "ovRev", 2) { // the order of map entries is immaterial; vary it anyway
		out[0], out[len(out)-1] = out[len(out)-1], out[0]
	}
	return out
}

func (g *gen) verifyTimestamp() string {
	return pick(g.rt, "vt", "", "", "always", "afterCertExpiry")
}

var storeNamePool = []string{"default", "ACME.Inc", "my-store_1", "-", "_", "a.b", "0", "x.crt", "wabbit-networks", "CA", "ca", "tsa", "a..b", "-rf"}

func (g *gen) storeName() string {
	if chance(g.rt, "storeNameGen", 2) {
		n := runes(g.rt, "storeName", lower+upper+digits+"_.-", 1, 10)
		if strings.Trim(n, ".") == "" { // "." and ".." match the character class but are hardly file-name-safe: not generated
			n = "s" + n
		}
		return n
	}
	return pick(g.rt, "storeNamePool", storeNamePool...)
}

func (g *gen) store() Store {
	return Store{Text: pick(g.rt, "storeType", "ca", "ca", "signingAuthority", "tsa") + ":" + g.storeName()}
}

// stores returns 1..3 distinct valid stores.
func (g *gen) stores() []Store {
	n := intRange(g.rt, "nStores", 1, 3)
	var out []Store
	seen := map[string]bool{}
	for i := 0; i < n; i++ {
		s := g.store()
		for seen[s.Text] {
			s.Text += "x"
		}
		seen[s.Text] = true
		out = append(out, s)
	}
	return out
}

// ---------- distinguished names ----------

type tok struct{ text, val string } // rendered text and the value it decodes to

var (
	plainToks   = toks(lower + upper + digits)
	middleToks  = append(append([]tok{}, toks(" ._-/:@'()é")...), tok{`\,`, ","}, tok{`\+`, "+"}, tok{`\"`, `"`}, tok{`\\`, `\`}, tok{`\;`, ";"}, tok{`\<`, "<"}, tok{`\>`, ">"}, tok{`\2C`, ","}, tok{`\C3\A9`, "é"}, tok{`\ `, " "})
	optionalRDN = []string{"CN", "OU", "L", "STREET", "DC", "UID"}
)

func toks(s string) []tok {
	var out []tok
	for _, r := range s {
		out = append(out, tok{string(r), string(r)})
	}
	return out
}

// dnValue draws an attribute value as (rendered RFC 4514 text, decoded value). The value
// starts and ends with a plain letter or digit, never contains '=' or '#', and every
// escape is complete; suffix (a plain string) is appended to both forms.
func (g *gen) dnValue(suffix string) tok {
	var t tok
	add := func(x tok) { t.text += x.text; t.val += x.val }
	add(pick(g.rt, "v0", plainToks...))
	n := intRange(g.rt, "vLen", 0, 6)
	for i := 0; i < n; i++ {
		if chance(g.rt, "vSpecial", 4) {
			add(pick(g.rt, "vMid", middleToks...))
		} else {
			add(pick(g.rt, "vPlain", plainToks...))
		}
	}
	if n > 0 {
		add(pick(g.rt, "vN", plainToks...))
	}
	t.text += suffix
	t.val += suffix
	return t
}

// rdn is one attribute as it will be rendered.
type rdn struct {
	typ  string // spelled type ("S" for the alias)
	text string // rendered value
}

// dn is a structured distinguished name: canonical attributes plus their rendering.
type dn struct {
	attrs []Attr
	rdns  []rdn
}

func (d dn) has(typ string) bool { return attrVal(d.attrs, typ) != "" }

func (d *dn) add(g *gen, typ string, v tok) {
	d.attrs = append(d.attrs, Attr{typ, v.val})
	sp := typ
	if typ == "ST" && chance(g.rt, "aliasS", 2) {
		sp = "S"
	}
	d.rdns = append(d.rdns, rdn{sp, v.text})
}

// newDN draws a DN with C, ST (or S), O and 0..6 optional attributes, each type once, in a
// random order. The O value ends in oSuffix, which the caller keeps distinct per identity
// of a statement: distinct O values mean that no identity's attributes are a subset of
// another's.
func (g *gen) newDN(oSuffix string) dn {
	var d dn
	d.add(g, "C", g.dnValue(""))
	d.add(g, "ST", g.dnValue(""))
	d.add(g, "O", g.dnValue(oSuffix))
	for _, t := range optionalRDN {
		if chance(g.rt, "opt?", 3) {
			d.add(g, t, g.dnValue(""))
		}
	}
	return g.shuffled(d)
}

func (g *gen) shuffled(d dn) dn {
	idx := make([]int, len(d.attrs))
	for i := range idx {
		idx[i] = i
	}
	idx = rapid.Permutation(idx).Draw(g.rt, "dnOrder")
	out := dn{}
	for _, i := range idx {
		out.attrs = append(out.attrs, d.attrs[i])
		out.rdns = append(out.rdns, d.rdns[i])
	}
	return out
}

// render writes the DN as RFC 4514 text: attributes separated by a comma and 0..2 spaces.
func (g *gen) render(d dn) string {
	var b strings.Builder
	for i, r := range d.rdns {
		if i > 0 {
			b.WriteString(pick(g.rt, "sep", ",", ", ", ",", ",  "))
		}
		b.WriteString(r.typ + "=" + r.text)
	}
	return b.String()
}

func (g *gen) x509Prefix() string {
	return "x509.subject:" + pick(g.rt, "lead", "", " ", "")
}

func (g *gen) x509Ident(d dn) Ident {
	return Ident{Text: g.x509Prefix() + g.render(d), DN: append([]Attr{}, d.attrs...)}
}

var otherIdentPool = []string{"foo:bar", "x509.san:example.com", "spiffe:example.org/ns/default", "oidc.issuer:https://issuer.example",
	"foo:bar:baz", "foo: spaced value", "pgp.fingerprint:0123ABCD", "foo:*", "x:C=US,ST=WA"}

// otherIdent returns an identity with a prefix other than x509.subject and a non-empty
// value (the statement constrains only the wildcard and x509.subject identities).
func (g *gen) otherIdent() Ident {
	if chance(g.rt, "otherGen", 2) {
		return Ident{Text: "p" + runes(g.rt, "idPrefix", lower+digits+".", 0, 8) + ":" + runes(g.rt, "idValue", lower+upper+digits+" ./=,-", 1, 12)}
	}
	return Ident{Text: pick(g.rt, "otherPool", otherIdentPool...)}
}

// identities returns the lone wildcard, or 0..3 non-overlapping x509.subject identities
// plus 0..2 identities of other prefixes (at least one identity in total, all distinct).
func (g *gen) identities() []Ident {
	if chance(g.rt, "idWildcard", 4) {
		return []Ident{{Text: wildcard}}
	}
	nx := intRange(g.rt, "nX509", 0, 3)
	no := intRange(g.rt, "nOther", 0, 2)
	if nx+no == 0 {
		nx = 1
	}
	var out []Ident
	for i := 0; i < nx; i++ {
		out = append(out, g.x509Ident(g.newDN(string(rune('a'+i)))))
	}
	seen := map[string]bool{}
	for i := 0; i < no; i++ {
		id := g.otherIdent()
		for seen[id.Text] {
			id.Text += "x"
		}
		seen[id.Text] = true
		out = append(out, id)
	}
	if len(out) > 1 {
		out = rapid.Permutation(out).Draw(g.rt, "idOrder")
	}
	return out
}

// ---------- registry scopes ----------

var domainPool = []string{"registry.acme-rockets.io", "localhost", "localhost:5000", "reg.io", "Reg.IO", "r", "a-b.c",
	"10.0.0.1:443", "registry.wabbit-networks.io", "local", "xn--bcher-kva.example", "reg.io:0"}

func (g *gen) domain() string {
	if !chance(g.rt, "domGen", 3) {
		return pick(g.rt, "domPool", domainPool...)
	}
	n := intRange(g.rt, "nLabels", 1, 3)
	var labels []string
	for i := 0; i < n; i++ {
		l := runes(g.rt, "lab0", lower+upper+digits, 1, 1)
		if chance(g.rt, "labLong", 2) {
			l += runes(g.rt, "labMid", lower+upper+digits+"-", 0, 5) + runes(g.rt, "labN", lower+upper+digits, 1, 1)
		}
		labels = append(labels, l)
	}
	d := strings.Join(labels, ".")
	if chance(g.rt, "port", 3) {
		d += ":" + runes(g.rt, "portNo", digits, 1, 5)
	}
	return d
}

func (g *gen) repoComponent() string {
	c := runes(g.rt, "rc0", lower+digits, 1, 5)
	n := intRange(g.rt, "rcParts", 0, 2)
	for i := 0; i < n; i++ {
		c += pick(g.rt, "rcSep", ".", "_", "__", "-", "--", "---") + runes(g.rt, "rcN", lower+digits, 1, 4)
	}
	return c
}

// scope returns a valid repository path (domain[:port]/component[/component...]) that no
// statement of the document uses yet. Sometimes it extends a path already in use, so that
// documents contain near-confusable scopes.
func (g *gen) scope() Scope {
	var s string
	if len(g.scopeList) > 0 && chance(g.rt, "scopeExtend", 5) {
		s = pick(g.rt, "scopeBase", g.scopeList...) + "/" + g.repoComponent()
	} else if len(g.scopeList) > 0 && chance(g.rt, "scopeCaseTwin", 6) {
		// a scope already in use with the letters of its host part in the other case: another string,
		// hence another scope (scopes are compared exactly), and as valid as the first
		base := pick(g.rt, "twinBase", g.scopeList...)
		host, rest, _ := strings.Cut(base, "/")
		twin := strings.ToUpper(host)
		if twin == host {
			twin = strings.ToLower(host)
		}
		s = twin + "/" + rest
	} else {
		s = g.domain()
		n := intRange(g.rt, "nComp", 1, 3)
		for i := 0; i < n; i++ {
			s += "/" + g.repoComponent()
		}
	}
	for g.usedScopes[s] {
		s += "x"
	}
	g.usedScopes[s] = true
	g.scopeList = append(g.scopeList, s)
	return Scope{Text: s}
}

func (g *gen) scopes() []Scope {
	n := intRange(g.rt, "nScopes", 1, 3)
	var out []Scope
	for i := 0; i < n; i++ {
		out = append(out, g.scope())
	}
	return out
}

// ---------- documents ----------

// need is what the chosen operators require of the document they will be applied to.
type need struct{ stmts, skip, nonskip int }

func (a need) max(b need) need {
	if b.stmts > a.stmts {
		a.stmts = b.stmts
	}
	if b.skip > a.skip {
		a.skip = b.skip
	}
	if b.nonskip > a.nonskip {
		a.nonskip = b.nonskip
	}
	return a
}

// validDoc draws a well-formed document of the given kind with 1..4 statements that has
// at least the statements nd asks for.
func (g *gen) validDoc(kind string, nd need) *Doc {
	rt := g.rt
	n := intRange(rt, "nStmts", 1, 4)
	if n < nd.stmts {
		n = nd.stmts
	}
	if n < nd.skip+nd.nonskip {
		n = nd.skip + nd.nonskip
	}
	var levels []string
	for i := 0; i < n; i++ {
		switch {
		case i < nd.skip:
			levels = append(levels, "skip")
		case i < nd.skip+nd.nonskip:
			levels = append(levels, g.level(true))
		default:
			levels = append(levels, g.level(false))
		}
	}
	if n > 1 {
		levels = rapid.Permutation(levels).Draw(rt, "levelOrder")
	}
	d := &Doc{Kind: kind, Version: "1.0"}
	wild := -1
	if kind == "oci" && chance(rt, "wildScope", 3) {
		wild = intRange(rt, "wildScopeAt", 0, n-1)
	}
	var nonskip []int
	for i, l := range levels {
		s := Stmt{Name: g.name(i), Level: l, VT: g.verifyTimestamp()}
		if l != "skip" {
			nonskip = append(nonskip, i)
			s.Override = g.override()
			s.Stores = g.stores()
			s.IDs = g.identities()
		}
		if kind == "oci" {
			if i == wild {
				s.Scopes = []Scope{{Text: wildcard}}
			} else {
				s.Scopes = g.scopes()
			}
		}
		d.Stmts = append(d.Stmts, s)
	}
	if kind == "blob" && len(nonskip) > 0 && chance(rt, "global", 2) {
		d.Stmts[pick(rt, "globalAt", nonskip...)].Global = true
	}
	return d
}

func (g *gen) shape() shape {
	return shape{EmptyNil: rapid.Bool().Draw(g.rt, "emptyNil"), EmptyJSON: intRange(g.rt, "emptyJSON", 0, 2),
		EmptyStr: rapid.Bool().Draw(g.rt, "emptyStr"), FalseBool: rapid.Bool().Draw(g.rt, "falseBool")}
}
