// C09 — only well-formed trust policy documents are accepted.
//
// This file holds the structured form of a policy document in which the validity of every
// component (store, identity, scope) is a LABEL set by whoever constructed the component,
// and the reference model that evaluates the structural rules of the statement on that
// form. The model never parses a distinguished name or a registry scope: overlap of
// identities is decided on the attribute lists the generator built, validity of a scope
// is the label the generator attached (DESIGN.md section 5, C09).
package c09

import (
	"encoding/json"
	"sort"
	"strings"

	"github.com/notaryproject/notation-go/verifier/trustpolicy"
)

const rule = "case = one policy document (kind, statements, rule-violating edits); non-trivial = >=1 rule-violating edit or >=2 statements; distinct by the canonical JSON of the document"

// Store is one trustStores entry. Bad names the rule it breaks ("" = valid by construction).
type Store struct {
	Text string `json:"text"`
	Bad  string `json:"bad,omitempty"`
}

// Attr is one attribute of a structured distinguished name: canonical type (the alias S is
// stored as ST) and the DECODED value (escapes resolved), both known by construction.
type Attr struct {
	Type string `json:"t"`
	Val  string `json:"v"`
}

// Ident is one trustedIdentities entry. DN is set iff the entry is a well-formed
// x509.subject identity; Bad names the broken rule; Silent marks a shape the statement
// does not speak about (no accept/reject oracle then).
type Ident struct {
	Text   string `json:"text"`
	Bad    string `json:"bad,omitempty"`
	Silent string `json:"silent,omitempty"`
	DN     []Attr `json:"dn,omitempty"`
}

// Scope is one registryScopes entry.
type Scope struct {
	Text string `json:"text"`
	Bad  string `json:"bad,omitempty"`
}

// KV is one override entry (keys are unique within a statement).
type KV struct {
	K string `json:"k"`
	V string `json:"v"`
}

// Stmt is one policy statement of either kind.
type Stmt struct {
	Name     string  `json:"name"`
	Level    string  `json:"level"`
	Override []KV    `json:"override,omitempty"`
	VT       string  `json:"verifyTimestamp,omitempty"`
	Stores   []Store `json:"stores,omitempty"`
	IDs      []Ident `json:"ids,omitempty"`
	Scopes   []Scope `json:"scopes,omitempty"` // oci
	Global   bool    `json:"global,omitempty"` // blob
}

// Doc is a policy document of kind "oci" or "blob".
type Doc struct {
	Kind    string `json:"kind"`
	Version string `json:"version"`
	Stmts   []Stmt `json:"statements"`
}

const wildcard = "*"

var (
	knownLevels  = []string{"strict", "permissive", "audit", "skip"}
	knownTypes   = []string{"integrity", "authenticity", "authenticTimestamp", "expiry", "revocation"}
	knownActions = []string{"enforce", "log", "skip"}
	knownVT      = []string{"", "always", "afterCertExpiry"}
)

func in(xs []string, s string) bool {
	for _, x := range xs {
		if x == s {
			return true
		}
	}
	return false
}

func (s *Stmt) isSkip() bool { return s.Level == "skip" }
func (s *Stmt) isNonSkip() bool {
	return s.Level == "strict" || s.Level == "permissive" || s.Level == "audit"
}

func (s *Stmt) setOverride(k, v string) {
	for i := range s.Override {
		if s.Override[i].K == k {
			s.Override[i].V = v
			return
		}
	}
	s.Override = append(s.Override, KV{k, v})
}

// subsetDN: every attribute of a is an attribute of b (on the structured form).
func subsetDN(a, b []Attr) bool {
	for _, x := range a {
		found := false
		for _, y := range b {
			if x == y {
				found = true
				break
			}
		}
		if !found {
			return false
		}
	}
	return true
}

func attrVal(a []Attr, typ string) string {
	for _, x := range a {
		if x.Type == typ {
			return x.Val
		}
	}
	return ""
}

// statementSilent lists checks of the library (all named in DESIGN.md's operator list)
// that the TEXT of the property does not state as a rule. Documents that break only these
// are generated and exercised (no crash, level invariant) but no accept/reject verdict is
// asserted for them; removing an entry makes the corresponding operator decisive.
var statementSilent = map[string]string{
	"override-unknown-type":   "the statement constrains overrides (non-skip level, not integrity, skip only for revocation) but does not say the type must be known",
	"override-unknown-action": "likewise for the action",
	"scope-none":              "the statement says what every scope must be, not that there must be one",
}

// Verdict is what the model says about a document.
type Verdict struct {
	Violations []string // sorted, distinct names of violated rules (= operator names); empty = well-formed
	Silent     []string // shapes present on which the statement is silent
}

func (v Verdict) valid() bool   { return len(v.Violations) == 0 }
func (v Verdict) decided() bool { return len(v.Violations) > 0 || len(v.Silent) == 0 }
func (v Verdict) key() string   { return strings.Join(v.Violations, "+") }

func uniq(xs []string) []string {
	sort.Strings(xs)
	out := xs[:0]
	for i, x := range xs {
		if i == 0 || x != xs[i-1] {
			out = append(out, x)
		}
	}
	return out
}

// judge evaluates every structural rule of the statement on the structured form. The
// rule names are the names of the operators that violate them.
func judge(d *Doc) Verdict {
	var bad, silent []string
	switch {
	case d.Version == "":
		bad = append(bad, "version-empty")
	case d.Version != "1.0":
		bad = append(bad, "version-unsupported")
	}
	if len(d.Stmts) == 0 {
		bad = append(bad, "no-statements")
	}
	names := map[string]bool{}
	for i := range d.Stmts {
		s := &d.Stmts[i]
		if s.Name == "" {
			bad = append(bad, "name-empty")
		} else if strings.TrimSpace(s.Name) == "" {
			silent = append(silent, "name-blank")
		}
		if names[s.Name] {
			bad = append(bad, "name-duplicate")
		}
		names[s.Name] = true

		switch {
		case s.Level == "":
			bad = append(bad, "level-empty")
		case !in(knownLevels, s.Level):
			bad = append(bad, "level-unknown")
		}
		for _, kv := range s.Override {
			tk, ak := in(knownTypes, kv.K), in(knownActions, kv.V)
			if !tk {
				bad = append(bad, "override-unknown-type")
			}
			if !ak {
				bad = append(bad, "override-unknown-action")
			}
			if kv.K == "integrity" {
				bad = append(bad, "override-integrity")
			} else if tk && kv.V == "skip" && kv.K != "revocation" {
				bad = append(bad, "override-skip-non-revocation")
			}
		}
		if len(s.Override) > 0 && s.isSkip() {
			bad = append(bad, "override-on-skip")
		}
		if !in(knownVT, s.VT) {
			bad = append(bad, "verify-timestamp-unknown")
		}
		if s.isSkip() {
			if len(s.Stores) > 0 {
				bad = append(bad, "skip-with-stores")
			}
			if len(s.IDs) > 0 {
				bad = append(bad, "skip-with-identities")
			}
		} else if s.isNonSkip() {
			if len(s.Stores) == 0 {
				bad = append(bad, "nonskip-no-stores")
			}
			if len(s.IDs) == 0 {
				bad = append(bad, "nonskip-no-identities")
			}
			seenStore := map[string]bool{}
			for _, st := range s.Stores {
				if st.Bad != "" {
					bad = append(bad, st.Bad)
				}
				if seenStore[st.Text] {
					silent = append(silent, "store-duplicate")
				}
				seenStore[st.Text] = true
			}
			seenID := map[string]bool{}
			for i, id := range s.IDs {
				if id.Text == wildcard && len(s.IDs) > 1 {
					bad = append(bad, "wildcard-identity-with-company")
				}
				if id.Bad != "" {
					bad = append(bad, id.Bad)
				}
				if id.Silent != "" {
					silent = append(silent, id.Silent)
				}
				if id.DN == nil && id.Bad == "" && seenID[id.Text] && id.Text != wildcard {
					silent = append(silent, "identity-duplicate")
				}
				seenID[id.Text] = true
				if id.DN == nil {
					continue
				}
				for j, other := range s.IDs {
					if i == j || other.DN == nil {
						continue
					}
					ab, ba := subsetDN(id.DN, other.DN), subsetDN(other.DN, id.DN)
					switch {
					case ab && ba:
						bad = append(bad, "ids-overlap-equal")
					case ab || ba:
						bad = append(bad, "ids-overlap-subset")
					case attrVal(id.DN, "O") == attrVal(other.DN, "O"):
						// neither is a subset of the other but they share the organisation:
						// the statement does not define whether that "overlaps"
						silent = append(silent, "ids-partial-overlap")
					}
				}
			}
		}
	}
	if d.Kind == "oci" {
		users := map[string]int{}
		for i := range d.Stmts {
			s := &d.Stmts[i]
			if len(s.Scopes) == 0 {
				bad = append(bad, "scope-none")
			}
			mine := map[string]bool{}
			for _, sc := range s.Scopes {
				if sc.Text == wildcard && len(s.Scopes) > 1 {
					bad = append(bad, "wildcard-scope-with-company")
				}
				if sc.Bad != "" {
					bad = append(bad, sc.Bad)
				}
				if mine[sc.Text] {
					if sc.Text != wildcard { // two wildcards are already "wildcard with company"
						silent = append(silent, "scope-duplicate-within-statement")
					}
					continue
				}
				mine[sc.Text] = true
				users[sc.Text]++
			}
		}
		for _, n := range users {
			if n > 1 {
				bad = append(bad, "scope-shared")
				break
			}
		}
	} else {
		globals := 0
		for i := range d.Stmts {
			if d.Stmts[i].Global {
				globals++
				if d.Stmts[i].isSkip() {
					bad = append(bad, "global-statement-skip")
				}
			}
		}
		if globals > 1 {
			bad = append(bad, "two-globals")
		}
	}
	// checks the library makes that the statement does not spell out are not judged
	kept := bad[:0]
	for _, b := range bad {
		if _, unstated := statementSilent[b]; unstated {
			silent = append(silent, b)
		} else {
			kept = append(kept, b)
		}
	}
	return Verdict{Violations: uniq(kept), Silent: uniq(silent)}
}

// ---------- rendering into the library's types and into JSON ----------

// shape says how "nothing" is spelled: as Go value (nil / empty non-nil) and in JSON
// (member omitted / null / empty container; empty string omitted / "").
type shape struct {
	EmptyNil  bool `json:"emptyNil"`  // Go value: empty lists and maps are nil (else empty non-nil)
	EmptyJSON int  `json:"emptyJSON"` // 0 omit the member, 1 null, 2 [] / {}
	EmptyStr  bool `json:"emptyStr"`  // JSON: write "" for empty strings (else omit the member)
	FalseBool bool `json:"falseBool"` // JSON: write false for globalPolicy=false (else omit)
}

func texts[T any](xs []T, f func(T) string, emptyNil bool) []string {
	if len(xs) == 0 {
		if emptyNil {
			return nil
		}
		return []string{}
	}
	out := make([]string, len(xs))
	for i, x := range xs {
		out[i] = f(x)
	}
	return out
}

func (s *Stmt) sv(sh shape) trustpolicy.SignatureVerification {
	sv := trustpolicy.SignatureVerification{VerificationLevel: s.Level, VerifyTimestamp: trustpolicy.TimestampOption(s.VT)}
	// an empty, non-nil override map is only spelled on non-skip statements (on a skip
	// statement the statement does not say whether an empty override is an override)
	if len(s.Override) > 0 || (!sh.EmptyNil && s.isNonSkip()) {
		sv.Override = map[trustpolicy.ValidationType]trustpolicy.ValidationAction{}
		for _, kv := range s.Override {
			sv.Override[trustpolicy.ValidationType(kv.K)] = trustpolicy.ValidationAction(kv.V)
		}
	}
	return sv
}

func (d *Doc) oci(sh shape) *trustpolicy.OCIDocument {
	out := &trustpolicy.OCIDocument{Version: d.Version}
	if len(d.Stmts) > 0 || !sh.EmptyNil {
		out.TrustPolicies = []trustpolicy.OCITrustPolicy{}
	}
	for i := range d.Stmts {
		s := &d.Stmts[i]
		out.TrustPolicies = append(out.TrustPolicies, trustpolicy.OCITrustPolicy{
			Name: s.Name, SignatureVerification: s.sv(sh),
			TrustStores:       texts(s.Stores, func(x Store) string { return x.Text }, sh.EmptyNil),
			TrustedIdentities: texts(s.IDs, func(x Ident) string { return x.Text }, sh.EmptyNil),
			RegistryScopes:    texts(s.Scopes, func(x Scope) string { return x.Text }, sh.EmptyNil),
		})
	}
	return out
}

func (d *Doc) blob(sh shape) *trustpolicy.BlobDocument {
	out := &trustpolicy.BlobDocument{Version: d.Version}
	if len(d.Stmts) > 0 || !sh.EmptyNil {
		out.TrustPolicies = []trustpolicy.BlobTrustPolicy{}
	}
	for i := range d.Stmts {
		s := &d.Stmts[i]
		out.TrustPolicies = append(out.TrustPolicies, trustpolicy.BlobTrustPolicy{
			Name: s.Name, SignatureVerification: s.sv(sh),
			TrustStores:       texts(s.Stores, func(x Store) string { return x.Text }, sh.EmptyNil),
			TrustedIdentities: texts(s.IDs, func(x Ident) string { return x.Text }, sh.EmptyNil),
			GlobalPolicy:      s.Global,
		})
	}
	return out
}

func putList(m map[string]any, key string, xs []string, sh shape) {
	switch {
	case len(xs) > 0:
		m[key] = xs
	case sh.EmptyJSON == 1:
		m[key] = nil
	case sh.EmptyJSON == 2:
		m[key] = []string{}
	}
}

func putStr(m map[string]any, key, v string, sh shape) {
	if v != "" || sh.EmptyStr {
		m[key] = v
	}
}

// jsonBytes writes the document as a policy file, by the harness's own writer (not by
// marshalling the library's types).
func (d *Doc) jsonBytes(sh shape) []byte {
	top := map[string]any{}
	putStr(top, "version", d.Version, sh)
	var stmts []any
	for i := range d.Stmts {
		s := &d.Stmts[i]
		m := map[string]any{}
		putStr(m, "name", s.Name, sh)
		sv := map[string]any{}
		putStr(sv, "level", s.Level, sh)
		putStr(sv, "verifyTimestamp", s.VT, sh)
		if len(s.Override) > 0 {
			ov := map[string]string{}
			for _, kv := range s.Override {
				ov[kv.K] = kv.V
			}
			sv["override"] = ov
		} else if s.isNonSkip() && sh.EmptyJSON == 2 {
			sv["override"] = map[string]string{}
		} else if sh.EmptyJSON == 1 {
			sv["override"] = nil
		}
		m["signatureVerification"] = sv
		putList(m, "trustStores", texts(s.Stores, func(x Store) string { return x.Text }, true), sh)
		putList(m, "trustedIdentities", texts(s.IDs, func(x Ident) string { return x.Text }, true), sh)
		if d.Kind == "oci" {
			putList(m, "registryScopes", texts(s.Scopes, func(x Scope) string { return x.Text }, true), sh)
		} else if s.Global || sh.FalseBool {
			m["globalPolicy"] = s.Global
		}
		stmts = append(stmts, m)
	}
	switch {
	case len(stmts) > 0:
		top["trustPolicies"] = stmts
	case sh.EmptyJSON == 1:
		top["trustPolicies"] = nil
	case sh.EmptyJSON == 2:
		top["trustPolicies"] = []any{}
	}
	b, err := json.Marshal(top)
	if err != nil {
		panic("harness: cannot marshal policy document: " + err.Error())
	}
	return b
}

// canonical is the fixed spelling used for fingerprints and failure reports.
func (d *Doc) canonical() []byte {
	return d.jsonBytes(shape{EmptyNil: true, EmptyJSON: 2, EmptyStr: true, FalseBool: true})
}
