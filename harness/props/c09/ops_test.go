// Rule-violating operators: ONE PER RULE of the statement. Each turns the document it is
// applied to into one that violates the named rule, at a generated position, and labels
// what it inserted. Operators act on the CURRENT state of the document (so a second edit
// is built against what the first one left) and report false when they have no target.
//
// Operators marked silent build shapes the statement does not speak about (identity
// without separator, empty identity string, lower-case attribute types, a scope or a store
// listed twice in one statement, and the rules listed in statementSilent: unknown override
// type / action, no scopes): no accept/reject verdict is asserted for them, they only have
// to be survived (no panic, level invariant), and combined with a decisive edit the
// document must still be rejected.
package c09

import (
	"strconv"
	"strings"

	"pgregory.net/rapid"
)

// Edit records one applied operator.
type Edit struct {
	Op     string `json:"op"`
	Way    string `json:"way,omitempty"`
	Stmt   int    `json:"stmt"` // -1: document level
	Silent bool   `json:"silent,omitempty"`
}

type operator struct {
	name   string
	kind   string // "" both kinds, else "oci" / "blob"
	need   need
	silent bool
	apply  func(g *gen, d *Doc) (way string, stmt int, ok bool)
}

func pickStmt(g *gen, d *Doc, pred func(*Stmt) bool) (int, bool) {
	var idx []int
	for i := range d.Stmts {
		if pred == nil || pred(&d.Stmts[i]) {
			idx = append(idx, i)
		}
	}
	if len(idx) == 0 {
		return -1, false
	}
	return pick(g.rt, "at", idx...), true
}

func nonSkip(s *Stmt) bool { return s.isNonSkip() }
func isSkip(s *Stmt) bool  { return s.isSkip() }

// way is a labelled variant of an operator.
type way struct{ name, val string }

func pickWay(g *gen, ws ...way) way { return pick(g.rt, "way", ws...) }

// stmtOp builds an operator that edits one statement chosen among those matching pred.
func stmtOp(name, kind string, nd need, pred func(*Stmt) bool, f func(g *gen, d *Doc, s *Stmt) string) operator {
	return operator{name: name, kind: kind, need: nd, apply: func(g *gen, d *Doc) (string, int, bool) {
		i, ok := pickStmt(g, d, pred)
		if !ok {
			return "", -1, false
		}
		return f(g, d, &d.Stmts[i]), i, true
	}}
}

// ---------- bad components (labelled by construction) ----------

func badStore(g *gen, rule string) (Store, string) {
	var w way
	switch rule {
	case "store-no-colon":
		w = pickWay(g, way{"no-separator", "ca" + g.storeName()}, way{"type-only", "ca"}, way{"empty-string", ""},
			way{"other-separator", "ca/" + g.storeName()}, way{"equals", "tsa=" + g.storeName()})
	case "store-unknown-type":
		n := g.storeName()
		w = pickWay(g, way{"upper-case", "CA:" + n}, way{"x509", "x509:" + n}, way{"empty-type", ":" + n}, way{"trailing-space", "ca :" + n},
			way{"leading-space", " ca:" + n}, way{"mixed-case", "Tsa:" + n}, way{"lower-case", "signingauthority:" + n}, way{"path", "x509/ca:" + n})
	case "store-bad-name":
		n := g.storeName()
		w = pickWay(g, way{"slash", "ca:" + n + "/y"}, way{"empty-name", "ca:"}, way{"second-colon", "ca:" + n + ":y"}, way{"space", "tsa:" + n + " y"},
			way{"trailing-newline", "ca:" + n + "\n"}, way{"dot-dot-slash", "ca:../" + n}, way{"non-ascii", "signingAuthority:é" + n},
			way{"backslash", "ca:" + n + `\y`}, way{"star", "ca:" + n + "*"}, way{"leading-space", "ca: " + n}, way{"nul", "ca:" + n + "\x00"})
	}
	return Store{Text: w.val, Bad: rule}, w.name
}

// putStore places a bad store: as the only store, instead of one store, or in addition.
func putStore(g *gen, s *Stmt, b Store) string {
	switch p := intRange(g.rt, "place", 0, 2); {
	case p == 0 || len(s.Stores) == 0:
		s.Stores = []Store{b}
		return "only"
	case p == 1:
		s.Stores[intRange(g.rt, "placeAt", 0, len(s.Stores)-1)] = b
		return "replace"
	default:
		at := intRange(g.rt, "placeAt", 0, len(s.Stores))
		s.Stores = append(s.Stores[:at:at], append([]Store{b}, s.Stores[at:]...)...)
		return "insert"
	}
}

// putIdent places an identity next to / instead of the existing ones; a lone wildcard is
// always replaced (otherwise the edit would also break the wildcard rule).
func putIdent(g *gen, s *Stmt, b Ident) string {
	lone := len(s.IDs) == 1 && s.IDs[0].Text == wildcard
	switch p := intRange(g.rt, "place", 0, 2); {
	case p == 0 || len(s.IDs) == 0 || lone:
		s.IDs = []Ident{b}
		return "only"
	case p == 1:
		s.IDs[intRange(g.rt, "placeAt", 0, len(s.IDs)-1)] = b
		return "replace"
	default:
		at := intRange(g.rt, "placeAt", 0, len(s.IDs))
		s.IDs = append(s.IDs[:at:at], append([]Ident{b}, s.IDs[at:]...)...)
		return "insert"
	}
}

func putScope(g *gen, s *Stmt, b Scope) string {
	lone := len(s.Scopes) == 1 && s.Scopes[0].Text == wildcard
	switch p := intRange(g.rt, "place", 0, 2); {
	case p == 0 || len(s.Scopes) == 0 || lone:
		s.Scopes = []Scope{b}
		return "only"
	case p == 1:
		s.Scopes[intRange(g.rt, "placeAt", 0, len(s.Scopes)-1)] = b
		return "replace"
	default:
		at := intRange(g.rt, "placeAt", 0, len(s.Scopes))
		s.Scopes = append(s.Scopes[:at:at], append([]Scope{b}, s.Scopes[at:]...)...)
		return "insert"
	}
}

// badIdent builds an x509.subject identity that breaks the named rule. It starts from a
// fresh well-formed DN whose O value ("...Z") differs from every generated one and
// corrupts the rendering at a known place.
func badIdent(g *gen, rule string) (Ident, string) {
	d := g.newDN("Z")
	pre := g.x509Prefix()
	w := ""
	var text string
	switch rule {
	case "x509-empty-value":
		wy := pickWay(g, way{"nothing", "x509.subject:"}, way{"spaces", "x509.subject:  "})
		text, w = wy.val, wy.name
	case "dn-unparsable":
		full := g.render(d)
		wy := pickWay(g,
			way{"attribute-without-equals", full + "," + pick(g.rt, "bare", "CN", "OU", "x")},
			way{"first-attribute-without-equals", "CN," + full},
			way{"empty-rdn", g.render(dn{rdns: d.rdns[:1]}) + ",," + g.render(dn{rdns: d.rdns[1:]})},
			way{"leading-comma", "," + full},
			way{"dangling-backslash", full + `\`},
			way{"bad-hex-escape", full + `\zz`},
			way{"short-hex-escape", full + `\4`},
			way{"no-attributes", pick(g.rt, "junk", "acme", "US WA acme", "C;ST;O")})
		text, w = pre+wy.val, wy.name
	case "dn-missing-c", "dn-missing-st", "dn-missing-o":
		drop := map[string]string{"dn-missing-c": "C", "dn-missing-st": "ST", "dn-missing-o": "O"}[rule]
		var k dn
		// the attribute is left out - or written out with nothing in it ("C="): an attribute
		// without a value does not say what the country, state or organisation is
		w = "left-out"
		if chance(g.rt, "writtenEmpty", 2) {
			w = "written-with-empty-value"
		}
		for i, a := range d.attrs {
			if a.Type != drop {
				k.attrs = append(k.attrs, a)
				k.rdns = append(k.rdns, d.rdns[i])
			} else if w == "written-with-empty-value" {
				k.attrs = append(k.attrs, a)
				k.rdns = append(k.rdns, rdn{d.rdns[i].typ, ""})
			}
		}
		text = pre + g.render(k)
	case "dn-duplicate-attribute":
		i := intRange(g.rt, "dupAttr", 0, len(d.attrs)-1)
		dup := rdn{d.rdns[i].typ, d.rdns[i].text}
		w = "same-value"
		if chance(g.rt, "dupOtherValue", 2) {
			dup.text = g.dnValue("").text + "Y"
			w = "other-value"
		}
		if d.attrs[i].Type == "ST" && chance(g.rt, "dupAlias", 2) { // S is an alias of ST
			dup.typ = map[string]string{"S": "ST", "ST": "S"}[dup.typ]
			w += "-alias"
		}
		at := intRange(g.rt, "dupAt", 0, len(d.rdns))
		k := dn{rdns: append(d.rdns[:at:at], append([]rdn{dup}, d.rdns[at:]...)...)}
		text = pre + g.render(k)
	case "dn-multivalued-rdn":
		// join two neighbouring attributes with '+'
		i := intRange(g.rt, "plusAt", 0, len(d.rdns)-2)
		var parts []string
		for j, r := range d.rdns {
			p := r.typ + "=" + r.text
			if j == i+1 {
				parts[len(parts)-1] += pick(g.rt, "plus", "+", " + ") + p
			} else {
				parts = append(parts, p)
			}
		}
		text = pre + strings.Join(parts, ",")
	case "dn-hex-value":
		// '#' + hex is the BER form of a value, which notation does not support ("=#")
		i := intRange(g.rt, "hexAttr", 0, len(d.rdns)-1)
		wy := pickWay(g, way{"utf8string", "#0C0141"}, way{"octetstring", "#040141"}, way{"printable", "#13024142"}, way{"truncated", "#0401"}, way{"odd", "#041"}, way{"not-hex", "#zz"})
		d.rdns[i].text, w = wy.val, wy.name
		text = pre + g.render(d)
	default:
		panic("harness: unknown identity rule " + rule)
	}
	return Ident{Text: text, Bad: rule}, w
}

func badScope(g *gen) (Scope, string) {
	dom, comp := g.domain(), g.repoComponent()
	ok := dom + "/" + comp
	w := pickWay(g,
		way{"upper-case-repository", dom + "/" + comp + "A"}, way{"upper-case-first", dom + "/B" + comp},
		way{"tag", ok + ":v1"}, way{"digest", ok + "@sha256:" + strings.Repeat("ab", 32)},
		way{"scheme", "https://" + ok}, way{"oci-scheme", "oci://" + ok},
		way{"no-repository", dom}, way{"repository-only-no-slash", comp}, way{"trailing-slash", ok + "/"}, way{"leading-slash", "/" + ok},
		way{"double-slash", dom + "//" + comp}, way{"empty-domain", "/" + comp},
		way{"inner-wildcard", dom + "/*"}, way{"suffix-wildcard", ok + "*"}, way{"wildcard-domain", "*." + ok}, way{"double-wildcard", "**"},
		way{"empty-string", ""}, way{"space", dom + "/" + comp + " x"}, way{"leading-space", " " + ok}, way{"trailing-newline", ok + "\n"},
		way{"leading-separator", dom + "/-" + comp}, way{"trailing-separator", ok + "_"}, way{"triple-underscore", ok + "___x"}, way{"double-dot", ok + "..x"},
		way{"dot-underscore", ok + "._x"},
		way{"domain-leading-hyphen", "-" + ok}, way{"domain-trailing-hyphen", "reg-.io/" + comp}, way{"domain-double-dot", "reg..io/" + comp},
		way{"domain-underscore", "reg_1.io/" + comp}, way{"port-not-numeric", "reg.io:http/" + comp}, way{"port-empty", "reg.io:/" + comp},
		way{"query", ok + "?x=1"}, way{"backslash", dom + `\` + comp}, way{"non-ascii", ok + "é"})
	return Scope{Text: w.val, Bad: "scope-invalid"}, w.name
}

// ---------- the operators ----------

var operators = buildOperators()

func buildOperators() []operator {
	all := func(*Stmt) bool { return true }
	one := need{stmts: 1}
	ns := need{nonskip: 1}
	sk := need{skip: 1}
	ops := []operator{
		{name: "version-empty", apply: func(g *gen, d *Doc) (string, int, bool) { d.Version = ""; return "", -1, true }},
		{name: "version-unsupported", apply: func(g *gen, d *Doc) (string, int, bool) {
			d.Version = pick(g.rt, "version", "2.0", "1", "1.0.0", "1.0 ", " 1.0", "v1.0", "01.0", "1.00", "1.1", "0.1", "1,0", "1.0\n", "latest")
			return strconv.Quote(d.Version), -1, true
		}},
		{name: "no-statements", apply: func(g *gen, d *Doc) (string, int, bool) { d.Stmts = nil; return "", -1, true }},
		{name: "name-duplicate", need: need{stmts: 2}, apply: func(g *gen, d *Doc) (string, int, bool) {
			if len(d.Stmts) < 2 {
				return "", -1, false
			}
			i := intRange(g.rt, "from", 0, len(d.Stmts)-1)
			j := intRange(g.rt, "to", 0, len(d.Stmts)-2)
			if j >= i {
				j++
			}
			d.Stmts[j].Name = d.Stmts[i].Name
			return "", j, true
		}},
		stmtOp("name-empty", "", one, all, func(g *gen, d *Doc, s *Stmt) string { s.Name = ""; return "" }),
		stmtOp("level-unknown", "", one, all, func(g *gen, d *Doc, s *Stmt) string {
			w := pickWay(g, way{"suffix", s.Level + "!"}, way{"upper-case", "STRICT"}, way{"title-case", "Strict"},
				way{"trailing-space", "strict "}, way{"leading-space", " audit"}, way{"action-name", "enforce"}, way{"custom", "custom"}, way{"none", "none"},
				way{"skip-upper", "Skip"}, way{"skip-space", "skip "}, way{"two-levels", "strict,audit"}, way{"number", "1"})
			s.Level = w.val
			return w.name
		}),
		stmtOp("level-empty", "", one, all, func(g *gen, d *Doc, s *Stmt) string { s.Level = ""; return "" }),
		stmtOp("override-on-skip", "", sk, isSkip, func(g *gen, d *Doc, s *Stmt) string {
			w := pickWay(g, way{"expiry", "log"}, way{"revocation", "skip"}, way{"authenticity", "enforce"}, way{"authenticTimestamp", "log"}, way{"revocation", "log"})
			s.setOverride(w.name, w.val)
			return w.name + "=" + w.val
		}),
		stmtOp("override-integrity", "", ns, nonSkip, func(g *gen, d *Doc, s *Stmt) string {
			a := pick(g.rt, "action", "log", "enforce", "skip")
			s.setOverride("integrity", a)
			return a
		}),
		stmtOp("override-skip-non-revocation", "", ns, nonSkip, func(g *gen, d *Doc, s *Stmt) string {
			k := pick(g.rt, "type", "authenticity", "authenticTimestamp", "expiry")
			s.setOverride(k, "skip")
			return k
		}),
		stmtOp("override-unknown-type", "", ns, nonSkip, func(g *gen, d *Doc, s *Stmt) string {
			k := pick(g.rt, "type", "Expiry", "", "revocations", "integrity ", "all", "Integrity", "authenticTimeStamp", "REVOCATION", "timestamp")
			s.setOverride(k, pick(g.rt, "action", "log", "enforce"))
			return strconv.Quote(k)
		}),
		stmtOp("override-unknown-action", "", ns, nonSkip, func(g *gen, d *Doc, s *Stmt) string {
			a := pick(g.rt, "action", "warn", "", "Skip", "Log", "ENFORCE", "enforced", "true", "log ", "audit")
			s.setOverride(pick(g.rt, "type", "authenticity", "authenticTimestamp", "expiry", "revocation"), a)
			return strconv.Quote(a)
		}),
		stmtOp("verify-timestamp-unknown", "", one, all, func(g *gen, d *Doc, s *Stmt) string {
			s.VT = pick(g.rt, "vt", "never", "Always", "aftercertexpiry", "always ", "true", "AfterCertExpiry", "afterCertExpired", "0")
			return strconv.Quote(s.VT)
		}),
		stmtOp("nonskip-no-stores", "", ns, nonSkip, func(g *gen, d *Doc, s *Stmt) string { s.Stores = nil; return "" }),
		stmtOp("nonskip-no-identities", "", ns, nonSkip, func(g *gen, d *Doc, s *Stmt) string { s.IDs = nil; return "" }),
		stmtOp("skip-with-stores", "", sk, isSkip, func(g *gen, d *Doc, s *Stmt) string { s.Stores = g.stores(); return "" }),
		stmtOp("skip-with-identities", "", sk, isSkip, func(g *gen, d *Doc, s *Stmt) string { s.IDs = g.identities(); return "" }),
		stmtOp("wildcard-identity-with-company", "", ns, nonSkip, func(g *gen, d *Doc, s *Stmt) string {
			if len(s.IDs) == 0 || (len(s.IDs) == 1 && s.IDs[0].Text == wildcard) {
				var other Ident
				w := "wildcard+x509"
				switch intRange(g.rt, "company", 0, 2) {
				case 0:
					other = g.x509Ident(g.newDN("W"))
				case 1:
					other, w = g.otherIdent(), "wildcard+other-prefix"
				default:
					other, w = Ident{Text: wildcard}, "two-wildcards"
				}
				s.IDs = []Ident{{Text: wildcard}, other}
				if rapid.Bool().Draw(g.rt, "swap") {
					s.IDs[0], s.IDs[1] = s.IDs[1], s.IDs[0]
				}
				return w
			}
			at := intRange(g.rt, "placeAt", 0, len(s.IDs))
			s.IDs = append(s.IDs[:at:at], append([]Ident{{Text: wildcard}}, s.IDs[at:]...)...)
			return "wildcard-inserted"
		}),
	}
	for _, r := range []string{"store-no-colon", "store-unknown-type", "store-bad-name"} {
		r := r
		ops = append(ops, stmtOp(r, "", ns, nonSkip, func(g *gen, d *Doc, s *Stmt) string {
			b, w := badStore(g, r)
			return w + "/" + putStore(g, s, b)
		}))
	}
	for _, r := range []string{"x509-empty-value", "dn-unparsable", "dn-missing-c", "dn-missing-st", "dn-missing-o", "dn-duplicate-attribute", "dn-multivalued-rdn", "dn-hex-value"} {
		r := r
		ops = append(ops, stmtOp(r, "", ns, nonSkip, func(g *gen, d *Doc, s *Stmt) string {
			b, w := badIdent(g, r)
			return w + "/" + putIdent(g, s, b)
		}))
	}
	overlap := func(name string) operator {
		return stmtOp(name, "", ns, nonSkip, func(g *gen, d *Doc, s *Stmt) string { return addOverlap(g, s, name) })
	}
	ops = append(ops, overlap("ids-overlap-equal"), overlap("ids-overlap-subset"))

	// OCI only
	ops = append(ops,
		stmtOp("scope-none", "oci", one, all, func(g *gen, d *Doc, s *Stmt) string { s.Scopes = nil; return "" }),
		stmtOp("scope-invalid", "oci", one, all, func(g *gen, d *Doc, s *Stmt) string {
			b, w := badScope(g)
			return w + "/" + putScope(g, s, b)
		}),
		operator{name: "wildcard-scope-with-company", kind: "oci", need: one, apply: func(g *gen, d *Doc) (string, int, bool) {
			// the statement that holds the wildcard if there is one (a second statement with a
			// wildcard would also break the one-statement-per-scope rule), else any statement
			i, ok := pickStmt(g, d, func(s *Stmt) bool {
				for _, sc := range s.Scopes {
					if sc.Text == wildcard {
						return true
					}
				}
				return false
			})
			if !ok {
				if i, ok = pickStmt(g, d, nil); !ok {
					return "", -1, false
				}
			}
			s := &d.Stmts[i]
			if len(s.Scopes) == 0 || (len(s.Scopes) == 1 && s.Scopes[0].Text == wildcard) {
				w := "wildcard+path"
				s.Scopes = []Scope{{Text: wildcard}, g.scope()}
				if chance(g.rt, "twoWild", 4) {
					s.Scopes[1], w = Scope{Text: wildcard}, "two-wildcards"
				}
				if rapid.Bool().Draw(g.rt, "swap") {
					s.Scopes[0], s.Scopes[1] = s.Scopes[1], s.Scopes[0]
				}
				return w, i, true
			}
			at := intRange(g.rt, "placeAt", 0, len(s.Scopes))
			s.Scopes = append(s.Scopes[:at:at], append([]Scope{{Text: wildcard}}, s.Scopes[at:]...)...)
			return "wildcard-inserted", i, true
		}},
		operator{name: "scope-shared", kind: "oci", need: need{stmts: 2}, apply: func(g *gen, d *Doc) (string, int, bool) {
			if len(d.Stmts) < 2 {
				return "", -1, false
			}
			i, ok := pickStmt(g, d, func(s *Stmt) bool { return len(s.Scopes) > 0 })
			if !ok {
				return "", -1, false
			}
			j := intRange(g.rt, "to", 0, len(d.Stmts)-2)
			if j >= i {
				j++
			}
			sc := pick(g.rt, "which", d.Stmts[i].Scopes...)
			t := &d.Stmts[j]
			w := "path"
			if sc.Text == wildcard {
				w = "wildcard"
			}
			// a wildcard on either side replaces the target's list (it must stand alone)
			if sc.Text == wildcard || len(t.Scopes) == 0 || (len(t.Scopes) == 1 && t.Scopes[0].Text == wildcard) || rapid.Bool().Draw(g.rt, "replaceAll") {
				t.Scopes = []Scope{sc}
				return w + "/only", j, true
			}
			for _, have := range t.Scopes { // target already lists it (an earlier edit): nothing to add
				if have.Text == sc.Text {
					return w + "/already", j, true
				}
			}
			at := intRange(g.rt, "placeAt", 0, len(t.Scopes))
			t.Scopes = append(t.Scopes[:at:at], append([]Scope{sc}, t.Scopes[at:]...)...)
			return w + "/insert", j, true
		}},
	)

	// blob only
	ops = append(ops,
		operator{name: "two-globals", kind: "blob", need: need{nonskip: 2}, apply: func(g *gen, d *Doc) (string, int, bool) {
			var cand []int
			have := 0
			for i := range d.Stmts {
				if d.Stmts[i].isNonSkip() {
					if d.Stmts[i].Global {
						have++
					} else {
						cand = append(cand, i)
					}
				}
			}
			if have+len(cand) < 2 || len(cand) == 0 {
				return "", -1, false
			}
			last := -1
			for have < 2 || (len(cand) > 0 && chance(g.rt, "third", 4)) {
				k := intRange(g.rt, "globalAt", 0, len(cand)-1)
				last = cand[k]
				d.Stmts[last].Global = true
				cand = append(cand[:k:k], cand[k+1:]...)
				have++
				if len(cand) == 0 {
					break
				}
			}
			return "", last, true
		}},
		operator{name: "global-statement-skip", kind: "blob", need: need{stmts: 1}, apply: func(g *gen, d *Doc) (string, int, bool) {
			if len(d.Stmts) == 0 {
				return "", -1, false
			}
			i, haveSkip := pickStmt(g, d, isSkip)
			w := "flag-on-skip-statement"
			if !haveSkip || rapid.Bool().Draw(g.rt, "demote") {
				// turn a statement (the global one if there is one) into a skip statement
				i, _ = pickStmt(g, d, func(s *Stmt) bool { return s.Global })
				if i < 0 {
					i, _ = pickStmt(g, d, nil)
				}
				s := &d.Stmts[i]
				s.Level, s.Override, s.Stores, s.IDs = "skip", nil, nil, nil
				w = "global-statement-made-skip"
			}
			for k := range d.Stmts {
				d.Stmts[k].Global = k == i
			}
			return w, i, true
		}},
	)

	// shapes the statement is silent about: exercised (no crash, level invariant), never judged
	silent := []operator{
		stmtOp("id-no-colon", "", ns, nonSkip, func(g *gen, d *Doc, s *Stmt) string {
			return putIdent(g, s, Ident{Text: pick(g.rt, "text", "x509subject", "foobar", "C=US,ST=WA,O=acme", "x509.subject"), Silent: "id-no-colon"})
		}),
		stmtOp("id-empty-string", "", ns, nonSkip, func(g *gen, d *Doc, s *Stmt) string {
			return putIdent(g, s, Ident{Text: "", Silent: "id-empty-string"})
		}),
		stmtOp("dn-lowercase-types", "", ns, nonSkip, func(g *gen, d *Doc, s *Stmt) string {
			return putIdent(g, s, Ident{Text: "x509.subject:c=US,st=WA,o=acmeQ", Silent: "dn-lowercase-types"})
		}),
		stmtOp("store-duplicate", "", ns, nonSkip, func(g *gen, d *Doc, s *Stmt) string {
			if len(s.Stores) > 0 {
				s.Stores = append(s.Stores, pick(g.rt, "which", s.Stores...))
			}
			return ""
		}),
		stmtOp("scope-duplicate-within-statement", "oci", one, func(s *Stmt) bool { return len(s.Scopes) > 0 && s.Scopes[0].Text != wildcard }, func(g *gen, d *Doc, s *Stmt) string {
			s.Scopes = append(s.Scopes, pick(g.rt, "which", s.Scopes...))
			return ""
		}),
	}
	for _, o := range silent {
		o.silent = true
		ops = append(ops, o)
	}
	for i := range ops {
		if _, unstated := statementSilent[ops[i].name]; unstated {
			ops[i].silent = true
		}
	}
	return ops
}

// addOverlap inserts an x509.subject identity whose attributes equal (ids-overlap-equal) or
// are a strict subset / superset (ids-overlap-subset) of those of an identity of the
// statement, spelled differently (order, spacing, S/ST alias, escaping).
func addOverlap(g *gen, s *Stmt, name string) string {
	// base: an existing well-formed x509.subject identity, else a fresh one
	var with []int
	for i, id := range s.IDs {
		if id.DN != nil {
			with = append(with, i)
		}
	}
	var base []Attr
	if len(with) == 0 {
		fresh := g.newDN("V")
		putIdent(g, s, g.x509Ident(fresh))
		base = fresh.attrs
	} else {
		base = s.IDs[pick(g.rt, "base", with...)].DN
	}
	// a new rendering of the base attributes (values escaped minimally)
	var nd dn
	for _, a := range base {
		nd.attrs = append(nd.attrs, a)
		nd.rdns = append(nd.rdns, rdn{a.Type, escapeValue(a.Val)})
	}
	w := "equal"
	if name == "ids-overlap-subset" {
		var optional []int
		for i, a := range nd.attrs {
			if a.Type != "C" && a.Type != "ST" && a.Type != "O" {
				optional = append(optional, i)
			}
		}
		if len(optional) > 0 && rapid.Bool().Draw(g.rt, "narrower") {
			// drop one optional attribute: the new identity is a strict subset
			k := pick(g.rt, "drop", optional...)
			nd.attrs = append(nd.attrs[:k:k], nd.attrs[k+1:]...)
			nd.rdns = append(nd.rdns[:k:k], nd.rdns[k+1:]...)
			w = "new-is-subset"
		} else {
			added := false
			for _, t := range append(append([]string{}, optionalRDN...), "T", "SERIALNUMBER") {
				if !nd.has(t) {
					nd.add(g, t, g.dnValue(""))
					added = true
					break
				}
			}
			if !added {
				panic("harness: no free attribute type")
			}
			w = "new-is-superset"
		}
	}
	for i := range nd.rdns { // spell ST either way
		if nd.attrs[i].Type == "ST" && rapid.Bool().Draw(g.rt, "aliasS") {
			nd.rdns[i].typ = "S"
		}
	}
	id := g.x509Ident(g.shuffled(nd))
	at := intRange(g.rt, "placeAt", 0, len(s.IDs))
	s.IDs = append(s.IDs[:at:at], append([]Ident{id}, s.IDs[at:]...)...)
	return w
}

// escapeValue renders a decoded attribute value in RFC 4514 text (backslash before the
// special characters; the values built here never start or end with a space or '#').
func escapeValue(v string) string {
	var b strings.Builder
	for _, r := range v {
		if strings.ContainsRune(`,+"\;<>`, r) {
			b.WriteByte('\\')
		}
		b.WriteRune(r)
	}
	return b.String()
}

var opWeights = map[string]int{"scope-invalid": 4, "store-bad-name": 2, "store-unknown-type": 2, "dn-unparsable": 2, "level-unknown": 2}

func opsFor(kind string, silent bool) []operator {
	var out []operator
	for _, o := range operators {
		if (o.kind == "" || o.kind == kind) && o.silent == silent {
			out = append(out, o)
			for i := 1; i < opWeights[o.name]; i++ {
				out = append(out, o)
			}
		}
	}
	return out
}
