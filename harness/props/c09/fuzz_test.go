// Native fuzz target over policy JSON (thorough tier; the quick tier runs the seeds through
// TestC09_FuzzSeeds). Bytes are decoded into both document types; Validate must not panic;
// an accepted document must satisfy the level invariant and the DECIDABLE part of the
// statement's rules, evaluated on the harness's own decoding of the same bytes. Only rules
// that need no DN / scope parsing are decided here, and only in the direction
// "accepted => rule holds".
package c09

import (
	"encoding/json"
	"fmt"
	"os"
	"strconv"
	"strings"
	"testing"

	"github.com/notaryproject/notation-go/verifier/trustpolicy"

	"verifharness/internal/stats"
)

// own mirror of the two file formats (same member names and types as the library's)
type fzSV struct {
	Level           string            `json:"level"`
	Override        map[string]string `json:"override,omitempty"`
	VerifyTimestamp string            `json:"verifyTimestamp,omitempty"`
}

type fzOCIStmt struct {
	Name                  string   `json:"name"`
	SignatureVerification fzSV     `json:"signatureVerification"`
	TrustStores           []string `json:"trustStores"`
	TrustedIdentities     []string `json:"trustedIdentities"`
	RegistryScopes        []string `json:"registryScopes"`
}

type fzBlobStmt struct {
	Name                  string   `json:"name"`
	SignatureVerification fzSV     `json:"signatureVerification"`
	TrustStores           []string `json:"trustStores"`
	TrustedIdentities     []string `json:"trustedIdentities"`
	GlobalPolicy          bool     `json:"globalPolicy,omitempty"`
}

type fzOCIDoc struct {
	Version       string      `json:"version"`
	TrustPolicies []fzOCIStmt `json:"trustPolicies"`
}

type fzBlobDoc struct {
	Version       string       `json:"version"`
	TrustPolicies []fzBlobStmt `json:"trustPolicies"`
}

func fileNameSafe(s string) bool {
	if s == "" {
		return false
	}
	for i := 0; i < len(s); i++ {
		c := s[i]
		if !(c >= 'a' && c <= 'z' || c >= 'A' && c <= 'Z' || c >= '0' && c <= '9' || c == '_' || c == '.' || c == '-') {
			return false
		}
	}
	return true
}

// decidableCore returns the name of a rule that the statement's common part (name, level,
// overrides, verifyTimestamp, stores, identities) certainly violates, or "".
func decidableCore(name string, sv fzSV, stores, ids []string) string {
	if name == "" {
		return "name-empty"
	}
	if sv.Level == "" {
		return "level-empty"
	}
	if !in(knownLevels, sv.Level) {
		return "level-unknown"
	}
	if len(sv.Override) > 0 && sv.Level == "skip" {
		return "override-on-skip"
	}
	// each entry is judged on its own (map order is immaterial); entries with an unknown
	// type or action are not judged (statementSilent)
	integrity, skipped := false, false
	for k, v := range sv.Override {
		integrity = integrity || k == "integrity"
		skipped = skipped || (v == "skip" && k != "revocation" && k != "integrity" && in(knownTypes, k))
	}
	if integrity {
		return "override-integrity"
	}
	if skipped {
		return "override-skip-non-revocation"
	}
	if !in(knownVT, sv.VerifyTimestamp) {
		return "verify-timestamp-unknown"
	}
	if sv.Level == "skip" {
		if len(stores) > 0 {
			return "skip-with-stores"
		}
		if len(ids) > 0 {
			return "skip-with-identities"
		}
		return ""
	}
	if len(stores) == 0 {
		return "nonskip-no-stores"
	}
	if len(ids) == 0 {
		return "nonskip-no-identities"
	}
	for _, s := range stores {
		typ, nm, found := strings.Cut(s, ":")
		switch {
		case !found:
			return "store-no-colon"
		case typ != "ca" && typ != "signingAuthority" && typ != "tsa":
			return "store-unknown-type"
		case !fileNameSafe(nm): // also covers a second ':'
			return "store-bad-name"
		}
	}
	for _, id := range ids {
		if id == wildcard && len(ids) > 1 {
			return "wildcard-identity-with-company"
		}
		if v, ok := strings.CutPrefix(id, "x509.subject:"); ok {
			// a DN with C, ST and O has at least three attribute=value pairs; nothing more
			// is decided about DNs here
			if strings.Count(v, "=") < 3 {
				return "dn-fewer-than-three-attributes"
			}
		}
	}
	return ""
}

// obviouslyNotARepositoryPath: necessary conditions every repository path meets.
func obviouslyNotARepositoryPath(s string) bool {
	dom, repo, found := strings.Cut(s, "/")
	if !found || dom == "" || repo == "" {
		return true
	}
	if strings.ContainsAny(s, "*@ \t\r\n?#\\") || strings.Contains(s, "://") || strings.HasSuffix(s, "/") || strings.Contains(s, "//") {
		return true
	}
	return strings.Contains(repo, ":") || strings.ToLower(repo) != repo
}

func decidableOCI(d *fzOCIDoc) string {
	if d.Version != "1.0" {
		return "version-unsupported"
	}
	if len(d.TrustPolicies) == 0 {
		return "no-statements"
	}
	names := map[string]bool{}
	users := map[string]int{}
	for _, s := range d.TrustPolicies {
		if names[s.Name] {
			return "name-duplicate"
		}
		names[s.Name] = true
		if r := decidableCore(s.Name, s.SignatureVerification, s.TrustStores, s.TrustedIdentities); r != "" {
			return r
		}
		mine := map[string]bool{}
		for _, sc := range s.RegistryScopes {
			if sc == wildcard {
				if len(s.RegistryScopes) > 1 {
					return "wildcard-scope-with-company"
				}
			} else if obviouslyNotARepositoryPath(sc) {
				return "scope-invalid"
			}
			if !mine[sc] {
				users[sc]++
			}
			mine[sc] = true
		}
	}
	for _, n := range users {
		if n > 1 {
			return "scope-shared"
		}
	}
	return ""
}

func decidableBlob(d *fzBlobDoc) string {
	if d.Version != "1.0" {
		return "version-unsupported"
	}
	if len(d.TrustPolicies) == 0 {
		return "no-statements"
	}
	names := map[string]bool{}
	globals := 0
	for _, s := range d.TrustPolicies {
		if names[s.Name] {
			return "name-duplicate"
		}
		names[s.Name] = true
		if r := decidableCore(s.Name, s.SignatureVerification, s.TrustStores, s.TrustedIdentities); r != "" {
			return r
		}
		if s.GlobalPolicy {
			globals++
			if s.SignatureVerification.Level == "skip" {
				return "global-statement-skip"
			}
		}
	}
	if globals > 1 {
		return "two-globals"
	}
	return ""
}

type fuzzCase struct {
	Kind  string `json:"kind"`
	Input string `json:"input"`
}

// fuzzOne is the body shared by the fuzz target and TestC09_FuzzSeeds: the input itself and
// its structural variants. It returns what happened to the input per kind ("undecodable",
// "reject", "accept") for the statistics.
func fuzzOne(t stats.Failer, rec *stats.Recorder, data []byte) (ociOutcome, blobOutcome string) {
	ociOutcome, blobOutcome = fuzzBytes(t, rec, data)
	if ociOutcome == "undecodable" && blobOutcome == "undecodable" {
		return
	}
	for _, v := range structuralVariants(data) {
		fuzzBytes(t, rec, v)
	}
	return
}

// structuralVariants: byte-level mutation rarely performs a typed change of one member, so
// every input that is a JSON document with statements is also tried with, per statement
// (the first four): globalPolicy toggled; each other known level; stores and identities
// removed. The oracle is the same for every variant, whatever it looks like.
func structuralVariants(data []byte) [][]byte {
	var top map[string]any
	if json.Unmarshal(data, &top) != nil {
		return nil
	}
	stmts, _ := top["trustPolicies"].([]any)
	var out [][]byte
	emit := func(i int, edit func(m map[string]any)) {
		orig, ok := stmts[i].(map[string]any)
		if !ok {
			return
		}
		m := map[string]any{}
		for k, v := range orig {
			m[k] = v
		}
		edit(m)
		list := append([]any{}, stmts...)
		list[i] = m
		t2 := map[string]any{}
		for k, v := range top {
			t2[k] = v
		}
		t2["trustPolicies"] = list
		if b, err := json.Marshal(t2); err == nil {
			out = append(out, b)
		}
	}
	for i := 0; i < len(stmts) && i < 4; i++ {
		emit(i, func(m map[string]any) {
			g, _ := m["globalPolicy"].(bool)
			m["globalPolicy"] = !g
		})
		for _, l := range knownLevels {
			l := l
			emit(i, func(m map[string]any) {
				sv, _ := m["signatureVerification"].(map[string]any)
				sv2 := map[string]any{}
				for k, v := range sv {
					sv2[k] = v
				}
				if sv2["level"] == l {
					sv2["level"] = "" // the current level: try the empty one instead
				} else {
					sv2["level"] = l
				}
				m["signatureVerification"] = sv2
			})
		}
		emit(i, func(m map[string]any) {
			delete(m, "trustStores")
			delete(m, "trustedIdentities")
		})
	}
	return out
}

func fuzzBytes(t stats.Failer, rec *stats.Recorder, data []byte) (ociOutcome, blobOutcome string) {
	one := func(kind string) (out string) {
		c := fuzzCase{Kind: kind, Input: string(data)}
		defer func() {
			if p := recover(); p != nil {
				rec.Failf(t, "C09:panic:"+kind, c, "decoding or validating policy bytes panicked: %v", p)
				out = "panic"
			}
		}()
		var svs []trustpolicy.SignatureVerification
		var violated string
		if kind == "oci" {
			var doc trustpolicy.OCIDocument
			if json.Unmarshal(data, &doc) != nil {
				return "undecodable"
			}
			if doc.Validate() != nil {
				return "reject"
			}
			svs = ociSVs(&doc)
			var own fzOCIDoc
			if json.Unmarshal(data, &own) == nil {
				violated = decidableOCI(&own)
			}
		} else {
			var doc trustpolicy.BlobDocument
			if json.Unmarshal(data, &doc) != nil {
				return "undecodable"
			}
			if doc.Validate() != nil {
				return "reject"
			}
			svs = blobSVs(&doc)
			var own fzBlobDoc
			if json.Unmarshal(data, &own) == nil {
				violated = decidableBlob(&own)
			}
		}
		if key, msg := levelInvariant(svs); key != "" {
			rec.Failf(t, "C09:"+key+":"+kind, c, "fuzz: %s", msg)
		}
		if violated != "" {
			rec.Failf(t, "C09:accepted-invalid:"+kind+":"+violated, c, "fuzz: a document violating %s was accepted", violated)
		}
		return "accept"
	}
	return one("oci"), one("blob")
}

var fuzzSeeds = []string{
	// valid OCI documents
	`{"version":"1.0","trustPolicies":[{"name":"a","registryScopes":["reg.io/a","reg.io:5000/a/b_c"],"signatureVerification":{"level":"strict","override":{"revocation":"skip","expiry":"log"},"verifyTimestamp":"afterCertExpiry"},"trustStores":["ca:s-1","tsa:t.1","signingAuthority:S_A"],"trustedIdentities":["x509.subject:C=US, ST=WA, O=a","x509.subject:C=US,S=WA,O=b,CN=x","foo:bar"]},{"name":"b","registryScopes":["reg.io/b"],"signatureVerification":{"level":"skip"}},{"name":"c","registryScopes":["*"],"signatureVerification":{"level":"audit","verifyTimestamp":"always"},"trustStores":["ca:x"],"trustedIdentities":["*"]}]}`,
	`{"version":"1.0","trustPolicies":[{"name":"only","registryScopes":["*"],"signatureVerification":{"level":"permissive"},"trustStores":["ca:acme"],"trustedIdentities":["x509.subject: C=US, ST=WA, L=Seattle, O=acme\\, Inc, OU=Finance, CN=SecureBuilder"]}]}`,
	// valid blob documents
	`{"version":"1.0","trustPolicies":[{"name":"a","signatureVerification":{"level":"strict","override":{"authenticity":"log"}},"trustStores":["ca:x","signingAuthority:y"],"trustedIdentities":["x509.subject:C=US,ST=WA,O=a","x509.subject:C=US,ST=WA,O=b"]},{"name":"b","signatureVerification":{"level":"skip"}},{"name":"c","globalPolicy":true,"signatureVerification":{"level":"audit"},"trustStores":["ca:x"],"trustedIdentities":["*"]}]}`,
	`{"version":"1.0","trustPolicies":[{"name":"g","globalPolicy":true,"signatureVerification":{"level":"strict","verifyTimestamp":"always"},"trustStores":["tsa:t","ca:c"],"trustedIdentities":["*"]}]}`,
	// near misses
	`{"version":"1.0","trustPolicies":[{"name":"s","globalPolicy":false,"signatureVerification":{"level":"skip"}}]}`,
	`{"version":"1.0","trustPolicies":[{"name":"a","registryScopes":["reg.io/a"],"signatureVerification":{"level":"strict","override":{"integrity":"log"}},"trustStores":["ca:x"],"trustedIdentities":["*"]}]}`,
	`{"version":"1.0","trustPolicies":[{"name":"a","registryScopes":["reg.io/a","*"],"signatureVerification":{"level":"audit"},"trustStores":["ca:x/y"],"trustedIdentities":["*","x509.subject:C=US,ST=WA,O=#0401"]}]}`,
	`{"version":"2.0","trustPolicies":[]}`,
	`{"version":"1.0","trustPolicies":null}`,
	`{}`, `null`, `[]`, `{"version":1}`, `{"trustPolicies":[null]}`, `{"version":"1.0","trustPolicies":[{}]}`,
	`{"version":"1.0","trustPolicies":[{"name":"a","signatureVerification":{"level":"strict","override":null},"trustStores":null,"trustedIdentities":[""]}]}`,
}

// extraFuzzInput returns the bytes of a saved crasher handed over by the driver
// (VERIF_FUZZ_INPUT names a file in Go's "go test fuzz v1" corpus format).
func extraFuzzInput() ([]byte, bool) {
	p := os.Getenv("VERIF_FUZZ_INPUT")
	if p == "" {
		return nil, false
	}
	b, err := os.ReadFile(p)
	if err != nil {
		return nil, false
	}
	for _, ln := range strings.Split(string(b), "\n") {
		ln = strings.TrimSpace(ln)
		if strings.HasPrefix(ln, "[]byte(") && strings.HasSuffix(ln, ")") {
			if s, err := strconv.Unquote(ln[len("[]byte(") : len(ln)-1]); err == nil {
				return []byte(s), true
			}
		}
	}
	return nil, false
}

func FuzzC09_PolicyJSON(f *testing.F) {
	rec := stats.New(f, "C09", rule)
	for _, s := range fuzzSeeds {
		f.Add([]byte(s))
	}
	if b, ok := extraFuzzInput(); ok {
		f.Add(b)
	}
	f.Fuzz(func(t *testing.T, data []byte) {
		fuzzOne(t, rec, data)
	})
}

// TestC09_FuzzSeeds runs the fuzz body over the seeds, and over every prefix-truncation
// and single-member deletion of them, so that the quick tier covers the target too.
func TestC09_FuzzSeeds(t *testing.T) {
	rec := stats.New(t, "C09", rule)
	shard, shards := stats.Shard()
	n := 0
	run := func(b []byte, how string) {
		n++
		if n%shards != shard {
			return
		}
		o, bl := fuzzOne(t, rec, b)
		rec.Case([]string{"family=fuzz-seeds", "seed=" + how, "fuzz-oci=" + o, "fuzz-blob=" + bl}, false, stats.Fingerprint("fuzz", b), nil)
	}
	for _, s := range fuzzSeeds {
		run([]byte(s), "as-is")
		for cut := 0; cut < len(s); cut += 7 {
			run([]byte(s[:cut]), "truncated")
		}
		// structural variants through a generic decode: drop one member / element at a time
		var v any
		if json.Unmarshal([]byte(s), &v) != nil {
			continue
		}
		for _, variant := range dropOne(v) {
			b, err := json.Marshal(variant)
			if err != nil {
				t.Fatalf("harness: %v", err)
			}
			run(b, "member-dropped")
		}
	}
	if n == 0 {
		t.Fatalf("harness: no fuzz seeds")
	}
	rec.Set("fuzz_seed_inputs", fmt.Sprint(n))
}

// dropOne returns every copy of v with exactly one object member or array element removed
// (at any depth). Object members are visited in sorted order.
func dropOne(v any) []any {
	var out []any
	switch x := v.(type) {
	case map[string]any:
		keys := make([]string, 0, len(x))
		for k := range x {
			keys = append(keys, k)
		}
		sortStrings(keys)
		for _, k := range keys {
			c := map[string]any{}
			for _, k2 := range keys {
				if k2 != k {
					c[k2] = x[k2]
				}
			}
			out = append(out, c)
			for _, sub := range dropOne(x[k]) {
				c := map[string]any{}
				for _, k2 := range keys {
					c[k2] = x[k2]
				}
				c[k] = sub
				out = append(out, c)
			}
		}
	case []any:
		for i := range x {
			c := append(append([]any{}, x[:i]...), x[i+1:]...)
			out = append(out, c)
			for _, sub := range dropOne(x[i]) {
				c := append([]any{}, x...)
				c[i] = sub
				out = append(out, c)
			}
		}
	}
	return out
}

func sortStrings(xs []string) {
	for i := 1; i < len(xs); i++ {
		for j := i; j > 0 && xs[j] < xs[j-1]; j-- {
			xs[j], xs[j-1] = xs[j-1], xs[j]
		}
	}
}
