// Documents assembled at random from pools of labelled valid and invalid components.
// Unlike the grammar+edits family the number of violations is unbounded, invalid
// components also land on skip statements and on statements with unknown levels, and
// violations pile up in one statement. The model decides from the labels.
//
// Shapes on which the statement is silent are avoided by construction (the components of
// one statement are distinct, fresh x509.subject identities have distinct O values, an
// empty override is never spelled on a skip statement); should one arise anyway the model
// reports it and no verdict is asserted.
package c09

var badVersions = []string{"", "2.0", "1", "1.0.0", "1.0 ", "v1.0", "1.1", "0.1", "01.0"}
var badLevels = []string{"", "Strict", "STRICT", "strict ", "enforce", "custom", "Skip", "skip ", "none"}
var badVTs = []string{"never", "Always", "aftercertexpiry", "always ", "true"}

// any override pair, legal or not; the model classifies it
var overridePairs = []KV{{"integrity", "log"}, {"integrity", "enforce"}, {"integrity", "skip"}, {"authenticity", "skip"}, {"expiry", "skip"},
	{"authenticTimestamp", "skip"}, {"Expiry", "log"}, {"", "log"}, {"revocations", "enforce"}, {"expiry", "warn"}, {"revocation", "Skip"},
	{"authenticity", ""}, {"expiry", "log"}, {"revocation", "skip"}, {"authenticity", "log"}, {"authenticTimestamp", "enforce"}, {"bogus", "bogus"}}

func (g *gen) rarely(label string) bool { return chance(g.rt, label, 22) }

func (g *gen) assembled(kind string) *Doc {
	rt := g.rt
	d := &Doc{Kind: kind, Version: "1.0"}
	if g.rarely("badVersion") {
		d.Version = pick(rt, "version", badVersions...)
	}
	n := intRange(rt, "nStmts", 1, 4)
	if g.rarely("noStmts") {
		n = 0
	}
	for i := 0; i < n; i++ {
		s := Stmt{Name: g.name(i), Level: g.level(false), VT: g.verifyTimestamp()}
		if i > 0 && g.rarely("dupName") {
			s.Name = d.Stmts[intRange(rt, "dupOf", 0, i-1)].Name
		}
		if g.rarely("emptyName") {
			s.Name = ""
		}
		if g.rarely("badLevel") {
			s.Level = pick(rt, "badLevelV", badLevels...)
		}
		if g.rarely("badVT") {
			s.VT = pick(rt, "badVTV", badVTs...)
		}
		if s.isSkip() {
			if g.rarely("skipStores") {
				s.Stores = g.stores()
			}
			if g.rarely("skipIDs") {
				s.IDs = g.identities()
			}
		} else {
			s.Override = g.override()
			s.Stores = g.stores()
			s.IDs = g.identities()
			if g.rarely("noStores") {
				s.Stores = nil
			}
			if g.rarely("noIDs") {
				s.IDs = nil
			}
		}
		if g.rarely("anyOverride") {
			kv := pick(rt, "pair", overridePairs...)
			s.setOverride(kv.K, kv.V)
		}
		if g.rarely("badStore") {
			b, _ := badStore(g, pick(rt, "storeRule", "store-no-colon", "store-unknown-type", "store-bad-name"))
			putStore(g, &s, b)
		}
		if g.rarely("badIdent") {
			b, _ := badIdent(g, pick(rt, "identRule", "x509-empty-value", "dn-unparsable", "dn-missing-c", "dn-missing-st", "dn-missing-o",
				"dn-duplicate-attribute", "dn-multivalued-rdn", "dn-hex-value"))
			putIdent(g, &s, b)
		}
		if g.rarely("overlap") {
			addOverlap(g, &s, pick(rt, "overlapRule", "ids-overlap-equal", "ids-overlap-subset"))
		}
		if g.rarely("wildID") && len(s.IDs) > 0 {
			at := intRange(rt, "wildIDAt", 0, len(s.IDs))
			s.IDs = append(s.IDs[:at:at], append([]Ident{{Text: wildcard}}, s.IDs[at:]...)...)
		}
		if kind == "oci" {
			if chance(rt, "wildScope", 6) {
				s.Scopes = []Scope{{Text: wildcard}}
			} else {
				s.Scopes = g.scopes()
			}
			if g.rarely("noScopes") {
				s.Scopes = nil
			}
			if g.rarely("badScope") {
				b, _ := badScope(g)
				putScope(g, &s, b)
			}
			if g.rarely("wildScopeCompany") && len(s.Scopes) > 0 {
				at := intRange(rt, "wildScopeAt", 0, len(s.Scopes))
				s.Scopes = append(s.Scopes[:at:at], append([]Scope{{Text: wildcard}}, s.Scopes[at:]...)...)
			}
			if i > 0 && g.rarely("sharedScope") {
				// take a scope of an earlier statement (never one this statement lists itself)
				var others []Scope
				for _, o := range d.Stmts[:i] {
				next:
					for _, sc := range o.Scopes {
						for _, mine := range s.Scopes {
							if mine.Text == sc.Text {
								continue next
							}
						}
						others = append(others, sc)
					}
				}
				if len(others) > 0 {
					s.Scopes = append(s.Scopes, pick(rt, "sharedWhich", others...))
				}
			}
		} else if chance(rt, "global", 5) {
			s.Global = true
		}
		d.Stmts = append(d.Stmts, s)
	}
	return d
}
