package c18

// The scripted in-process signing plugin. It holds a real key and a valid certificate chain,
// computes the honest answer and then applies the case's edit script to it. Nothing in this
// file looks at what the code under test returns.

import (
	"bytes"
	"context"
	"crypto"
	"crypto/ecdsa"
	"crypto/rand"
	"crypto/rsa"
	"crypto/x509"
	"encoding/asn1"
	"encoding/json"
	"fmt"
	"math/big"
	"runtime/debug"
	"sort"
	"strings"
	"sync"
	"time"
	"unicode"

	pf "github.com/notaryproject/notation-plugin-framework-go/plugin"

	"verifharness/internal/envb"
	"verifharness/internal/pki"
)

// ---------- keys and chains (immutable, cached per process) ----------

var (
	chainMu    sync.Mutex
	chainCache = map[string]*pki.Chain{}
)

func isRSA(spec string) bool { return strings.HasPrefix(spec, "RSA") }

// chainFor returns a valid chain (root -> inter intermediates -> leaf) for the pooled key.
func chainFor(spec string, idx, inter int) *pki.Chain {
	k := fmt.Sprint(spec, "/", idx, "/", inter)
	chainMu.Lock()
	defer chainMu.Unlock()
	if c, ok := chainCache[k]; ok {
		return c
	}
	c := pki.NewChain(pki.ChainOpts{Intermediates: inter, LeafKey: pki.Key(spec, idx), Name: "c18 " + k})
	chainCache[k] = c
	return c
}

// otherKey names a key that differs from (spec, idx). The EC pool has several keys per spec;
// there is one RSA key per size, so for RSA the other key is the RSA key of another size.
func otherKey(spec string, idx int) (string, int) {
	switch spec {
	case "RSA-2048":
		return "RSA-3072", 0
	case "RSA-3072", "RSA-4096":
		return "RSA-2048", 0
	}
	return spec, idx + 1
}

var sigAlgName = map[string]string{
	"EC-256": "ECDSA-SHA-256", "EC-384": "ECDSA-SHA-384", "EC-521": "ECDSA-SHA-512",
	"RSA-2048": "RSASSA-PSS-SHA-256", "RSA-3072": "RSASSA-PSS-SHA-384", "RSA-4096": "RSASSA-PSS-SHA-512",
}

// ---------- ordered JSON model of the payload (hand rendered: duplicates and spellings) ----------

type mem struct {
	K string
	V string // raw JSON text
}

func quote(s string) string {
	b, _ := json.Marshal(s)
	return string(b)
}

func render(ms []mem, pretty bool) string {
	var b strings.Builder
	b.WriteByte('{')
	for i, m := range ms {
		if i > 0 {
			b.WriteByte(',')
		}
		if pretty {
			b.WriteString("\n\t ")
		}
		b.WriteString(quote(m.K))
		if pretty {
			b.WriteString(" :  ")
		} else {
			b.WriteByte(':')
		}
		b.WriteString(m.V)
	}
	if pretty {
		b.WriteString("\r\n")
	}
	b.WriteByte('}')
	return b.String()
}

// pm is the payload under construction.
type pm struct {
	topPre, topPost []mem  // members before / after the target member
	targetKey       string // spelling of "targetArtifact"
	targetRaw       string // replaces the rendered descriptor when set
	desc            []mem  // mediaType, digest, size (+ what edits add in front of annotations)
	hasAnn          bool
	annKey          string
	annRaw          string // replaces the rendered annotations when set
	ann             []mem
	descPost        []mem // members after annotations
	whole           *string
	pretty, reverse bool
}

func parsePayload(b []byte) *pm {
	var top map[string]json.RawMessage
	if json.Unmarshal(b, &top) != nil || len(top) != 1 {
		return nil
	}
	var d map[string]json.RawMessage
	if json.Unmarshal(top["targetArtifact"], &d) != nil || d == nil {
		return nil
	}
	p := &pm{targetKey: "targetArtifact", annKey: "annotations"}
	for _, k := range []string{"mediaType", "digest", "size"} {
		v, ok := d[k]
		if !ok {
			return nil
		}
		p.desc = append(p.desc, mem{k, string(v)})
		delete(d, k)
	}
	if a, ok := d["annotations"]; ok {
		var m map[string]string
		if json.Unmarshal(a, &m) != nil {
			return nil
		}
		p.hasAnn = true
		ks := make([]string, 0, len(m))
		for k := range m {
			ks = append(ks, k)
		}
		sort.Strings(ks)
		for _, k := range ks {
			p.ann = append(p.ann, mem{k, quote(m[k])})
		}
		delete(d, "annotations")
	}
	if len(d) != 0 {
		return nil
	}
	return p
}

func rev(ms []mem) []mem {
	out := make([]mem, len(ms))
	for i, m := range ms {
		out[len(ms)-1-i] = m
	}
	return out
}

func (p *pm) descJSON() string {
	ms := append([]mem{}, p.desc...)
	if p.hasAnn {
		a := p.annRaw
		if a == "" {
			an := p.ann
			if p.reverse {
				an = rev(an)
			}
			a = render(an, p.pretty)
		}
		ms = append(ms, mem{p.annKey, a})
	}
	ms = append(ms, p.descPost...)
	if p.reverse {
		ms = rev(ms)
	}
	return render(ms, p.pretty)
}

func (p *pm) bytes() []byte {
	if p.whole != nil {
		return []byte(*p.whole)
	}
	t := p.targetRaw
	if t == "" {
		t = p.descJSON()
	}
	ms := append([]mem{}, p.topPre...)
	ms = append(ms, mem{p.targetKey, t})
	ms = append(ms, p.topPost...)
	return []byte(render(ms, p.pretty))
}

func (p *pm) find(key string) int {
	for i, m := range p.desc {
		if strings.EqualFold(m.K, key) {
			return i
		}
	}
	return -1
}

func flipHex(d string) string {
	if d == "" {
		return "sha256:00"
	}
	last := d[len(d)-1]
	r := byte('0')
	if last == '0' {
		r = '1'
	}
	return d[:len(d)-1] + string(r)
}

func otherDigest(raw string, n int) string {
	var d string
	if json.Unmarshal([]byte(raw), &d) != nil {
		return quote("sha256:0000")
	}
	hexPart := d
	if i := strings.IndexByte(d, ':'); i >= 0 {
		hexPart = d[i+1:]
	}
	switch n % 12 { // malformed digests: a plugin answer is untrusted text, not a parsed digest
	case 3:
		return quote(hexPart) // no "algorithm:" prefix at all
	case 4:
		return quote(":" + hexPart)
	case 5:
		return quote("sha256:")
	case 6:
		return quote("md5:" + hexPart)
	case 7:
		return quote("sha256-" + hexPart)
	case 8:
		return quote("sha256:" + strings.Repeat("z", len(hexPart)))
	case 9:
		return quote(d + ":" + hexPart)
	case 10:
		return quote(" " + d)
	case 11:
		return quote("x")
	}
	switch n % 3 {
	case 1:
		return quote(strings.ToUpper(d))
	case 2:
		if i := strings.IndexByte(d, ':'); i > 0 {
			alg := "sha512"
			if d[:i] == "sha512" {
				alg = "sha256"
			}
			return quote(alg + d[i:])
		}
	}
	return quote(flipHex(d))
}

func swapCase(s string) (string, bool) {
	rs := []rune(s)
	for i, r := range rs {
		if unicode.IsLower(r) && unicode.ToUpper(r) != r {
			rs[i] = unicode.ToUpper(r)
			return string(rs), true
		}
		if unicode.IsUpper(r) && unicode.ToLower(r) != r {
			rs[i] = unicode.ToLower(r)
			return string(rs), true
		}
	}
	return s, false
}

// withDigestEdited renders the descriptor as it is now but with another digest.
func (p *pm) withDigestEdited(n int) string {
	q := *p
	q.desc = append([]mem{}, p.desc...)
	if i := q.find("digest"); i >= 0 {
		q.desc[i].V = otherDigest(q.desc[i].V, n)
	}
	return q.descJSON()
}

// editPayload applies one payload-level edit; it reports whether the edit is one.
func (p *pm) editPayload(e Edit) bool {
	n := e.N
	if n < 0 {
		n = -n
	}
	after := strings.HasSuffix(e.Name, "-after")
	addDup := func(m mem) {
		if after {
			p.topPost = append(p.topPost, m)
		} else {
			p.topPre = append(p.topPre, m)
		}
	}
	addDescDup := func(key string, other func(old string) string, newKey string) {
		i := p.find(key)
		if i < 0 {
			return
		}
		m := mem{newKey, other(p.desc[i].V)}
		if newKey == "" {
			m.K = p.desc[i].K
		}
		if after {
			p.desc = append(p.desc, m)
		} else {
			p.desc = append([]mem{m}, p.desc...)
		}
	}
	switch e.Name {
	case "digest-other":
		if i := p.find("digest"); i >= 0 {
			p.desc[i].V = otherDigest(p.desc[i].V, n)
		}
	case "size-other":
		if i := p.find("size"); i >= 0 {
			var sz int64
			_ = json.Unmarshal([]byte(p.desc[i].V), &sz)
			switch n % 4 {
			case 0:
				p.desc[i].V = fmt.Sprint(sz + 1)
			case 1:
				if sz > 0 {
					p.desc[i].V = fmt.Sprint(sz - 1)
				} else {
					p.desc[i].V = "2"
				}
			case 2:
				p.desc[i].V = quote(fmt.Sprint(sz))
			case 3:
				p.desc[i].V = fmt.Sprint(-sz - 1)
			}
		}
	case "mediatype-other":
		if i := p.find("mediaType"); i >= 0 {
			var mt string
			_ = json.Unmarshal([]byte(p.desc[i].V), &mt)
			switch n % 3 {
			case 0:
				p.desc[i].V = quote(mt + "+x")
			case 1:
				if s, ok := swapCase(mt); ok {
					p.desc[i].V = quote(s)
				} else {
					p.desc[i].V = quote("application/octet-stream2")
				}
			case 2:
				p.desc[i].V = quote("")
			}
		}
	case "ann-drop":
		if len(p.ann) > 0 {
			i := n % len(p.ann)
			p.ann = append(append([]mem{}, p.ann[:i]...), p.ann[i+1:]...)
		}
	case "ann-drop-all":
		p.hasAnn = false
	case "ann-change":
		if len(p.ann) > 0 {
			i := n % len(p.ann)
			var v string
			_ = json.Unmarshal([]byte(p.ann[i].V), &v)
			switch (n / 4) % 3 {
			case 0:
				p.ann[i].V = quote(v + "x")
			case 1:
				if v == "" {
					p.ann[i].V = quote(" ")
				} else {
					p.ann[i].V = quote("")
				}
			case 2:
				if s, ok := swapCase(v); ok {
					p.ann[i].V = quote(s)
				} else {
					p.ann[i].V = quote(v + " ")
				}
			}
		}
	case "ann-rename-case":
		for k := 0; k < len(p.ann); k++ {
			i := (n + k) % len(p.ann)
			if s, ok := swapCase(p.ann[i].K); ok {
				p.ann[i].K = s
				break
			}
		}
	case "ann-add":
		p.hasAnn = true
		p.annRaw = ""
		p.ann = append(p.ann, mem{[]string{"added.by.plugin", "io.cncf.notary.x", "zz"}[n%3], quote("1")})
	case "ann-dup-after", "ann-dup-before":
		if len(p.ann) > 0 {
			i := n % len(p.ann)
			var v string
			_ = json.Unmarshal([]byte(p.ann[i].V), &v)
			m := mem{p.ann[i].K, quote(v + "-other")}
			if after {
				p.ann = append(p.ann, m)
			} else {
				p.ann = append([]mem{m}, p.ann...)
			}
		}
	case "extra-top-unknown":
		m := []mem{{"extra", `"x"`}, {"signedBy", `{"a":1}`}, {"targetArtifact2", p.descJSON()}, {"", `null`}}[n%4]
		if (n/4)%2 == 0 {
			p.topPost = append(p.topPost, m)
		} else {
			p.topPre = append(p.topPre, m)
		}
	case "extra-desc-unknown":
		m := []mem{{"extra", `"x"`}, {"Urls", `["https://example.com/a"]`}, {"annotation", `{"k":"v"}`}, {"subject", `{"digest":"sha256:00"}`}, {"", `1`}}[n%5]
		if (n/5)%2 == 0 {
			p.descPost = append(p.descPost, m)
		} else {
			p.desc = append([]mem{m}, p.desc...)
		}
	case "extra-desc-urls":
		p.descPost = append(p.descPost, mem{"urls", `["https://example.com/layer"]`})
	case "extra-desc-data":
		p.descPost = append(p.descPost, mem{"data", `"aGVsbG8="`})
	case "extra-desc-platform":
		p.descPost = append(p.descPost, mem{"platform", `{"architecture":"amd64","os":"linux"}`})
	case "extra-desc-artifactType":
		p.descPost = append(p.descPost, mem{"artifactType", `"application/vnd.example.thing"`})
	case "spell-target":
		p.targetKey = []string{"TargetArtifact", "TARGETARTIFACT", "targetartifact", "targetARTIFACT"}[n%4]
	case "spell-desc":
		type sp struct{ key, as string }
		cands := []sp{{"digest", "DIGEST"}, {"mediaType", "MediaType"}, {"size", "Size"}, {"mediaType", "mediatype"}, {"digest", "Digest"}, {"size", "SIZE"}}
		if p.hasAnn {
			cands = append(cands, sp{"annotations", "Annotations"}, sp{"annotations", "ANNOTATIONS"})
		}
		c := cands[n%len(cands)]
		if c.key == "annotations" {
			p.annKey = c.as
		} else if i := p.find(c.key); i >= 0 {
			p.desc[i].K = c.as
		}
	case "dup-target-null-after", "dup-target-null-before":
		addDup(mem{"targetArtifact", "null"})
	case "extra-desc-unknown-then-dup-target-null-after":
		// two edits at once: an unknown field inside the descriptor, and the target repeated as null
		// after it. A decoder that binds to the payload structure keeps the first object (null leaves
		// a structure as it is); one that reads a generic map sees only the null
		m := []mem{{"extra", `"x"`}, {"Urls", `["https://example.com/a"]`}, {"subject", `{"digest":"sha256:00"}`}}[n%3]
		p.descPost = append(p.descPost, m)
		addDup(mem{[]string{"targetArtifact", "targetArtifact", "TargetArtifact"}[(n/3)%3], "null"})
	case "dup-target-other-after", "dup-target-other-before":
		addDup(mem{"targetArtifact", p.withDigestEdited(n)})
	case "dup-target-emptyobj-after", "dup-target-emptyobj-before":
		addDup(mem{"targetArtifact", "{}"})
	case "dup-target-wrongtype-after", "dup-target-wrongtype-before":
		addDup(mem{"targetArtifact", []string{`"x"`, `[]`, `1`, `true`}[n%4]})
	case "dup-target-spelled-after", "dup-target-spelled-before":
		addDup(mem{[]string{"TargetArtifact", "TARGETARTIFACT"}[n%2], []string{p.withDigestEdited(n / 2), "null", "{}"}[(n/2)%3]})
	case "dup-digest-other-after", "dup-digest-other-before":
		addDescDup("digest", func(old string) string { return otherDigest(old, n) }, "")
	case "dup-digest-null-after", "dup-digest-null-before":
		addDescDup("digest", func(string) string { return "null" }, "")
	case "dup-digest-spelled-after", "dup-digest-spelled-before":
		addDescDup("digest", func(old string) string { return otherDigest(old, n) }, []string{"DIGEST", "Digest"}[n%2])
	case "dup-size-other-after", "dup-size-other-before":
		addDescDup("size", func(old string) string { return old + "0" }, "")
	case "target-null":
		p.targetRaw = "null"
	case "target-array":
		p.targetRaw = []string{"[]", "[" + p.descJSON() + "]"}[n%2]
	case "target-string":
		p.targetRaw = []string{`"x"`, quote(p.descJSON()), `7`, `false`}[n%4]
	case "ann-null":
		p.hasAnn, p.annRaw = true, "null"
	case "ann-array":
		p.hasAnn, p.annRaw = true, []string{`[]`, `[{"k":"v"}]`}[n%2]
	case "ann-string":
		p.hasAnn, p.annRaw = true, []string{`"x"`, `0`, `{"k":1}`, `{"k":null}`, `{"k":{"v":"v"}}`}[n%5]
	case "payload-garbage":
		w := []string{"not json", "[]", "null", "{}", "", `"` + string(p.bytes()) + `"`, string(p.bytes()) + "x", string(p.bytes()) + string(p.bytes()), "\xff\xfe"}[n%9]
		p.whole = &w
	case "reformat":
		switch n % 3 {
		case 0:
			p.pretty = true
		case 1:
			p.reverse = true
		case 2:
			p.pretty, p.reverse = true, true
		}
	default:
		return false
	}
	return true
}

// ---------- the plugin ----------

type scripted struct {
	c     *Case
	keyID string
	key   crypto.Signer
	chain []*x509.Certificate

	// facts of the script the oracle may use (what the plugin answered, never what the library did with it)
	calls         []string
	announcedSpec string   // key spec of the describe-key answer ("" = not asked)
	describeID    string   // key id of the describe-key answer
	gensigID      string   // key id of the generate-signature answer
	echoedType    string   // envelope type echoed by generate-envelope
	answeredChain [][]byte // chain of the generate-signature answer
	gensigAnswers int
	genenvAnswers int
	reqPayload    []byte // payload of the last generate-envelope request
	inPlace       bool   // the edited payload was written into the request's own buffer
	signedPayload []byte // payload the plugin put into its envelope
	harness       string // harness-side problem (reported as harness error)
}

func newScripted(c *Case) *scripted {
	ch := chainFor(c.KeySpec, c.KeyIdx, c.Inter)
	return &scripted{c: c, keyID: c.KeyID, key: pki.Key(c.KeySpec, c.KeyIdx), chain: ch.X509()}
}

// guard marks a panic of the plugin itself as a harness problem (not a finding about the signer).
func (s *scripted) guard() {
	if p := recover(); p != nil {
		s.harness = fmt.Sprintf("scripted plugin panicked: %v\n%s", p, debug.Stack())
		panic(p)
	}
}

func (s *scripted) edit(name string) (Edit, bool) {
	for _, e := range s.c.Edits {
		if e.Name == name {
			return e, true
		}
	}
	return Edit{}, false
}

func (s *scripted) GetMetadata(ctx context.Context, req *pf.GetMetadataRequest) (*pf.GetMetadataResponse, error) {
	defer s.guard()
	s.calls = append(s.calls, "get-plugin-metadata")
	capab := pf.CapabilityEnvelopeGenerator
	if s.c.Path == "raw" {
		capab = pf.CapabilitySignatureGenerator
	}
	return &pf.GetMetadataResponse{Name: "verif-c18", Description: "scripted signing plugin", Version: "1.0.0",
		URL: "https://example.invalid/verif-c18", SupportedContractVersions: []string{"1.0"}, Capabilities: []pf.Capability{capab}}, nil
}

func wrongID(id string, n int) string {
	switch n % 9 {
	case 0:
		return id + "x"
	case 1:
		if s, ok := swapCase(id); ok {
			return s
		}
		return id + " "
	case 2:
		return ""
	case 3: // ids that merely relate to the requested one: a key id is an opaque string
		return id + "/rotated-2019"
	case 4:
		return id + "/"
	case 5:
		return id[:len(id)-1]
	case 6:
		return id + "#1"
	case 7:
		return id + ":v2"
	}
	return "other-key"
}

func (s *scripted) DescribeKey(ctx context.Context, req *pf.DescribeKeyRequest) (*pf.DescribeKeyResponse, error) {
	defer s.guard()
	s.calls = append(s.calls, "describe-key")
	resp := &pf.DescribeKeyResponse{KeyID: req.KeyID, KeySpec: pf.KeySpec(s.c.KeySpec)}
	if s.c.Path == "raw" {
		if e, ok := s.edit("describe-keyid-wrong"); ok {
			resp.KeyID = wrongID(req.KeyID, e.N)
		}
		if e, ok := s.edit("keyspec-unknown"); ok {
			typ, size, _ := strings.Cut(s.c.KeySpec, "-")
			// besides unknown specs, other spellings of the right one (a key spec is one of six fixed names)
			resp.KeySpec = pf.KeySpec([]string{"EC-255", "", strings.ToLower(s.c.KeySpec), "RSA-1024", "ED25519", s.c.KeySpec + " ", "EC-512",
				typ + "-0" + size, typ + "-+" + size, typ + "- " + size, typ + "-" + size + ".0", typ + "_" + size, typ + size, typ + "-0x" + size, " " + s.c.KeySpec}[e.N%15])
		}
		if e, ok := s.edit("keyspec-mismatch"); ok {
			var others []string
			for _, k := range pki.KeySpecs {
				if k != s.c.KeySpec {
					others = append(others, k)
				}
			}
			resp.KeySpec = pf.KeySpec(others[e.N%len(others)])
		}
	}
	s.describeID, s.announcedSpec = resp.KeyID, string(resp.KeySpec)
	if s.announcedSpec == "" {
		s.announcedSpec = "(empty)"
	}
	return resp, nil
}

func wrongEncoding(key crypto.Signer, msg []byte) []byte {
	ai, err := envb.AlgFor(key.Public())
	if err != nil {
		panic(err)
	}
	h := ai.Hash.New()
	h.Write(msg)
	d := h.Sum(nil)
	switch k := key.(type) {
	case *ecdsa.PrivateKey:
		b, err := ecdsa.SignASN1(rand.Reader, k, d) // DER instead of r||s
		if err != nil {
			panic(err)
		}
		return b
	case *rsa.PrivateKey:
		b, err := rsa.SignPKCS1v15(rand.Reader, k, ai.Hash, d) // PKCS#1 v1.5 instead of PSS
		if err != nil {
			panic(err)
		}
		return b
	}
	panic("key type")
}

func raws(cs []*x509.Certificate) [][]byte {
	out := make([][]byte, len(cs))
	for i, c := range cs {
		out[i] = c.Raw
	}
	return out
}

func (s *scripted) GenerateSignature(ctx context.Context, req *pf.GenerateSignatureRequest) (*pf.GenerateSignatureResponse, error) {
	defer s.guard()
	s.calls = append(s.calls, "generate-signature")
	if s.c.Path != "raw" {
		s.harness = "generate-signature called on a plugin that only announced the envelope capability"
	}
	key, msg := s.key, req.Payload
	if _, ok := s.edit("sig-other-key"); ok {
		key = pki.Key(otherKey(s.c.KeySpec, s.c.KeyIdx))
	}
	if e, ok := s.edit("sig-other-payload"); ok {
		switch e.N % 4 {
		case 0:
			msg = append(append([]byte{}, msg...), 'x')
		case 1:
			if len(msg) > 0 {
				msg = msg[:len(msg)-1]
			}
		case 2:
			msg = append([]byte{}, msg...)
			if len(msg) > 0 {
				msg[(e.N/4)%len(msg)] ^= 0x20
			}
		case 3:
			msg = nil
		}
	}
	var sig []byte
	if e, ok := s.edit("sig-wrong-encoding"); ok {
		sig = wrongEncoding(key, msg)
		if _, isEC := key.(*ecdsa.PrivateKey); isEC && e.N%3 != 0 {
			// well-formed DER SEQUENCE{INTEGER, INTEGER} whose integers do not fit the curve (a host
			// that "helpfully" converts DER to r||s must not trip over them): 2^(8k) and a k+9 byte value
			k := (key.Public().(*ecdsa.PublicKey).Curve.Params().BitSize + 7) / 8
			r := new(big.Int).Lsh(big.NewInt(1), uint(8*k))
			v := new(big.Int).Lsh(big.NewInt(int64(3+e.N%7)), uint(8*(k+8)))
			if e.N%3 == 2 {
				r, v = v, big.NewInt(1)
			}
			der, err := asn1.Marshal(struct{ R, S *big.Int }{r, v})
			if err != nil {
				panic(err)
			}
			sig = der
		}
	} else {
		sig = envb.RawSign(key, msg)
	}
	if e, ok := s.edit("sig-corrupt"); ok && len(sig) > 0 {
		sig[e.N%len(sig)] ^= 1 << uint((e.N/7)%8)
	}
	if e, ok := s.edit("sig-empty"); ok {
		sig = [][]byte{nil, {}, {0}}[e.N%3]
	}
	chain := raws(s.chain)
	if _, ok := s.edit("chain-other-key"); ok {
		sp, ix := otherKey(s.c.KeySpec, s.c.KeyIdx)
		chain = raws(chainFor(sp, ix, s.c.Inter).X509())
	}
	if e, ok := s.edit("chain-unparsable"); ok {
		chain = append([][]byte{}, chain...)
		switch e.N % 4 {
		case 0:
			chain[0] = []byte("not a certificate")
		case 1:
			chain[0] = chain[0][:len(chain[0])/2]
		case 2:
			chain = append(chain, []byte{0x30, 0x03, 0x01, 0x01, 0xff})
		case 3:
			chain[len(chain)-1] = append(append([]byte{}, chain[len(chain)-1]...), 0)
		}
	}
	if _, ok := s.edit("chain-reversed"); ok {
		r := make([][]byte, len(chain))
		for i := range chain {
			r[len(chain)-1-i] = chain[i]
		}
		chain = r
	}
	if _, ok := s.edit("chain-swap-ca"); ok && len(chain) >= 2 {
		chain = append([][]byte{}, chain...)
		chain[1], chain[len(chain)-1] = chain[len(chain)-1], chain[1]
		if len(chain) == 2 {
			chain[0], chain[1] = chain[1], chain[0]
		}
	}
	if _, ok := s.edit("chain-leaf-only"); ok && len(chain) > 0 {
		chain = chain[:1]
	}
	if _, ok := s.edit("chain-dup-leaf"); ok && len(chain) > 0 {
		chain = append([][]byte{chain[0]}, chain...)
	}
	if e, ok := s.edit("chain-empty"); ok {
		chain = [][][]byte{nil, {}}[e.N%2]
	}
	resp := &pf.GenerateSignatureResponse{KeyID: req.KeyID, Signature: sig,
		SigningAlgorithm: pf.SignatureAlgorithm(sigAlgName[s.c.KeySpec]), CertificateChain: chain}
	if e, ok := s.edit("gensig-keyid-wrong"); ok {
		resp.KeyID = wrongID(req.KeyID, e.N)
	}
	if e, ok := s.edit("alg-name-wrong"); ok {
		o, _ := otherKey(s.c.KeySpec, 0)
		if o == s.c.KeySpec {
			o = "RSA-2048"
		}
		resp.SigningAlgorithm = pf.SignatureAlgorithm([]string{sigAlgName[o], "", "ES256", "none"}[e.N%4])
	}
	s.gensigID, s.answeredChain = resp.KeyID, chain
	s.gensigAnswers++
	return resp, nil
}

func otherFormat(mt string) string {
	if mt == envb.MTJWS {
		return envb.MTCOSE
	}
	return envb.MTJWS
}

func (s *scripted) GenerateEnvelope(ctx context.Context, req *pf.GenerateEnvelopeRequest) (*pf.GenerateEnvelopeResponse, error) {
	defer s.guard()
	s.calls = append(s.calls, "generate-envelope")
	if s.c.Path != "envelope" {
		s.harness = "generate-envelope called on a plugin that only announced the raw capability"
	}
	s.reqPayload = append([]byte{}, req.Payload...)
	payload := req.Payload
	if s.c.Fuzz {
		payload = s.c.RawPayload // fuzzing: sign exactly these bytes
	} else if len(s.c.Edits) > 0 {
		if p := parsePayload(req.Payload); p != nil {
			for _, e := range s.c.Edits {
				p.editPayload(e)
			}
			payload = p.bytes()
			if s.c.InPlace && len(payload) == len(req.Payload) && !bytes.Equal(payload, req.Payload) {
				copy(req.Payload, payload)
				payload, s.inPlace = req.Payload, true
			}
		}
	}
	now := time.Now()
	spec := envb.Spec{Format: req.SignatureEnvelopeType, Payload: payload, ContentType: req.PayloadType, Scheme: envb.SchemeX509,
		SigningTime: now, Chain: s.chain, Key: s.key}
	if req.ExpiryDurationInSeconds > 0 {
		spec.Expiry = now.Add(time.Duration(req.ExpiryDurationInSeconds) * time.Second)
	}
	echo := req.SignatureEnvelopeType
	if e, ok := s.edit("payload-type-wrong"); ok {
		spec.ContentType = []string{"application/json", "application/vnd.cncf.notary.payload.v2+json", "", strings.ToUpper(envb.PayloadType), envb.PayloadType + "; charset=utf-8"}[e.N%5]
	}
	if _, ok := s.edit("format-other"); ok {
		spec.Format = otherFormat(req.SignatureEnvelopeType)
	}
	if _, ok := s.edit("format-other-echoed"); ok {
		// the plugin answers in the format it prefers and says so
		spec.Format = otherFormat(req.SignatureEnvelopeType)
		echo = spec.Format
	}
	if e, ok := s.edit("echo-type-wrong"); ok {
		echo = []string{otherFormat(req.SignatureEnvelopeType), "", strings.ToUpper(req.SignatureEnvelopeType), req.SignatureEnvelopeType + " "}[e.N%4]
	}
	if _, ok := s.edit("key-mismatch"); ok {
		spec.Key = pki.Key(otherKey(s.c.KeySpec, s.c.KeyIdx))
	}
	if _, ok := s.edit("chain-empty"); ok {
		spec.Chain = nil
	}
	if _, ok := s.edit("chain-reversed"); ok {
		r := make([]*x509.Certificate, len(s.chain))
		for i := range s.chain {
			r[len(s.chain)-1-i] = s.chain[i]
		}
		spec.Chain = r
	}
	if spec.Format != envb.MTJWS && spec.Format != envb.MTCOSE {
		s.harness = fmt.Sprintf("generate-envelope request for unknown envelope type %q", spec.Format)
		spec.Format = envb.MTJWS
	}
	env := envb.Build(spec)
	if e, ok := s.edit("sig-corrupt"); ok {
		env = corruptSignature(spec.Format, env, e.N)
	}
	if e, ok := s.edit("envelope-garbage"); ok {
		switch e.N % 5 {
		case 0:
			env = []byte("not an envelope")
		case 1:
			env = nil
		case 2:
			env = env[:len(env)/2]
		case 3:
			env = append(append([]byte{}, env...), env...)
		case 4:
			env = []byte("{}")
		}
	}
	s.signedPayload, s.echoedType = payload, echo
	if echo == "" {
		s.echoedType = "(empty)"
	}
	s.genenvAnswers++
	return &pf.GenerateEnvelopeResponse{SignatureEnvelope: env, SignatureEnvelopeType: echo}, nil
}

// corruptSignature flips one bit of the signature value inside the envelope.
func corruptSignature(format string, env []byte, n int) []byte {
	if format == envb.MTCOSE {
		m, err := envb.SplitCOSE(env)
		if err != nil || len(m.Signature) == 0 {
			return env
		}
		m.Signature[n%len(m.Signature)] ^= 1 << uint((n/7)%8)
		return envb.JoinCOSE(m)
	}
	p, err := envb.SplitJWS(env)
	if err != nil {
		return env
	}
	sig, err := b64dec(p.Signature)
	if err != nil || len(sig) == 0 {
		return env
	}
	sig[n%len(sig)] ^= 1 << uint((n/7)%8)
	p.Signature = b64enc(sig)
	return envb.JoinJWS(p)
}
