// C18 — the signer never returns plugin output it has not checked against the request.
//
// A scripted in-process signing plugin (plugin_test.go) holds real keys and a valid certificate
// chain, computes the honest answer and applies a generated edit script to it. Oracle (written
// from the statement, DESIGN.md section 5, C18): whatever PluginSigner.Sign / SignBlob returns
// with err == nil is re-verified by the harness's own envelope implementation and its payload,
// decoded the way a verifier decodes it, is compared with the requested descriptor; for every
// other answer an error is the only admissible result; a panic never is.
//
// Cells the statement leaves open (both outcomes accepted, see judge):
//   - annotations ADDED by the plugin ("every original annotation intact" does not forbid more);
//   - the descriptor fields urls / data / platform / artifactType: they are known OCI descriptor
//     fields, the statement only forbids "unknown fields" (the signer deliberately tolerates them);
//   - duplicate JSON keys whose verifier-side decoding (encoding/json: case-insensitive, last
//     duplicate wins, objects merged) equals the request and whose visible key set is clean;
//   - the signing-algorithm NAME of a generate-signature answer (the statement lists key id, key
//     spec and chain), and the internal order of CA certificates behind a matching leaf.
package c18

import (
	"bytes"
	"context"
	"crypto/sha256"
	"crypto/sha512"
	"encoding/base64"
	"encoding/hex"
	"encoding/json"
	"fmt"
	"runtime/debug"
	"sort"
	"strings"
	"testing"
	"time"

	"github.com/notaryproject/notation-core-go/signature"
	"github.com/notaryproject/notation-go"
	"github.com/notaryproject/notation-go/signer"
	"github.com/opencontainers/go-digest"
	ocispec "github.com/opencontainers/image-spec/specs-go/v1"
	"pgregory.net/rapid"

	"verifharness/internal/envb"
	"verifharness/internal/pki"
	"verifharness/internal/rp"
	"verifharness/internal/stats"
)

const rule = "case = (path envelope|raw, edit script of 0..3 named edits with selectors, envelope format, key spec, target oci|blob and entry point, requested descriptor + annotations); non-trivial = the plugin's answer differs from the honest one (>= 1 edit, or fuzzed payload bytes != honest payload); distinct by (path, edits, format, keyspec, target)"

func b64dec(s string) ([]byte, error) { return base64.RawURLEncoding.DecodeString(s) }
func b64enc(b []byte) string          { return base64.RawURLEncoding.EncodeToString(b) }

// Edit is one step of the edit script; N selects the variant / position.
type Edit struct {
	Name string `json:"name"`
	N    int    `json:"n"`
}

// KV is one requested annotation (user metadata).
type KV struct {
	K string `json:"k"`
	V string `json:"v"`
}

// Case is one C18 scenario (also the replay format).
type Case struct {
	Path       string `json:"path"`    // envelope | raw (capability the plugin announces)
	Format     string `json:"format"`  // jws | cose
	KeySpec    string `json:"keyspec"` // one of pki.KeySpecs
	KeyIdx     int    `json:"keyIdx"`
	Inter      int    `json:"inter"`  // intermediates of the plugin's chain
	Target     string `json:"target"` // oci | blob
	Entry      string `json:"entry"`  // signer (PluginSigner.Sign / SignBlob) | api (notation.SignBlob, blob only)
	KeyID      string `json:"keyId"`
	MediaType  string `json:"mediaType"`
	Content    []byte `json:"content"`   // blob content / seed of the OCI digest
	DigestAlg  string `json:"digestAlg"` // oci only
	Size       int64  `json:"size"`      // oci only
	Ann        []KV   `json:"ann"`
	ExpirySec  int    `json:"expirySec"`
	Edits      []Edit `json:"edits"`
	Fuzz       bool   `json:"fuzz,omitempty"`       // fuzzing: the plugin signs exactly RawPayload
	RawPayload []byte `json:"rawPayload,omitempty"` // payload bytes of a fuzz case
	// Warm: the same PluginSigner instance first signs another artifact with the plugin answering
	// honestly; nothing of that call may influence the judged one
	Warm bool `json:"warm,omitempty"`
	// InPlace (envelope path, in-process plugin): when the edited payload is as long as the
	// request's, the plugin writes it INTO the request's payload buffer and signs that buffer;
	// what the library asked for is the caller's descriptor, not what the plugin left in a
	// buffer it was lent
	InPlace bool `json:"inPlace,omitempty"`
}

func (c *Case) mediaType() string {
	if c.Format == "cose" {
		return envb.MTCOSE
	}
	return envb.MTJWS
}

func (c *Case) annMap() map[string]string {
	if len(c.Ann) == 0 {
		return nil
	}
	m := map[string]string{}
	for _, a := range c.Ann {
		m[a.K] = a.V
	}
	return m
}

// ownDigest is the harness's own digest computation.
func ownDigest(alg string, b []byte) string {
	switch alg {
	case "sha256":
		s := sha256.Sum256(b)
		return "sha256:" + hex.EncodeToString(s[:])
	case "sha384":
		s := sha512.Sum384(b)
		return "sha384:" + hex.EncodeToString(s[:])
	case "sha512":
		s := sha512.Sum512(b)
		return "sha512:" + hex.EncodeToString(s[:])
	}
	return ""
}

// digest algorithm Notary binds to a key spec (own table).
var specDigest = map[string]string{"EC-256": "sha256", "EC-384": "sha384", "EC-521": "sha512", "RSA-2048": "sha256", "RSA-3072": "sha384", "RSA-4096": "sha512"}

// ---------- edit tables ----------

type editDef struct {
	name, group string
	needAnn     bool // only an edit when the request carries annotations
}

var envEdits = []editDef{
	{"digest-other", "descriptor", false}, {"size-other", "descriptor", false}, {"mediatype-other", "descriptor", false},
	{"ann-drop", "annotation", true}, {"ann-drop-all", "annotation", true}, {"ann-change", "annotation", true},
	{"ann-rename-case", "annotation", true}, {"ann-add", "annotation", false}, {"ann-dup-after", "annotation", true}, {"ann-dup-before", "annotation", true},
	{"extra-top-unknown", "extra-field", false}, {"extra-desc-unknown", "extra-field", false},
	{"extra-desc-urls", "extra-field", false}, {"extra-desc-data", "extra-field", false}, {"extra-desc-platform", "extra-field", false}, {"extra-desc-artifactType", "extra-field", false},
	{"spell-target", "key-spelling", false}, {"spell-desc", "key-spelling", false},
	{"dup-target-null-after", "duplicate", false}, {"dup-target-null-before", "duplicate", false},
	{"extra-desc-unknown-then-dup-target-null-after", "duplicate", false},
	{"dup-target-other-after", "duplicate", false}, {"dup-target-other-before", "duplicate", false},
	{"dup-target-emptyobj-after", "duplicate", false}, {"dup-target-emptyobj-before", "duplicate", false},
	{"dup-target-wrongtype-after", "duplicate", false}, {"dup-target-wrongtype-before", "duplicate", false},
	{"dup-target-spelled-after", "duplicate", false}, {"dup-target-spelled-before", "duplicate", false},
	{"dup-digest-other-after", "duplicate", false}, {"dup-digest-other-before", "duplicate", false},
	{"dup-digest-null-after", "duplicate", false}, {"dup-digest-null-before", "duplicate", false},
	{"dup-digest-spelled-after", "duplicate", false}, {"dup-digest-spelled-before", "duplicate", false},
	{"dup-size-other-after", "duplicate", false}, {"dup-size-other-before", "duplicate", false},
	{"target-null", "wrong-type", false}, {"target-array", "wrong-type", false}, {"target-string", "wrong-type", false},
	{"ann-null", "wrong-type", false}, {"ann-array", "wrong-type", false}, {"ann-string", "wrong-type", false}, {"payload-garbage", "wrong-type", false},
	{"reformat", "benign", false},
	{"payload-type-wrong", "envelope", false}, {"format-other", "envelope", false}, {"format-other-echoed", "envelope", false}, {"echo-type-wrong", "envelope", false},
	{"sig-corrupt", "envelope", false}, {"key-mismatch", "envelope", false}, {"chain-empty", "envelope", false}, {"chain-reversed", "envelope", false}, {"envelope-garbage", "envelope", false},
}

var rawEdits = []editDef{
	{"describe-keyid-wrong", "key-id", false}, {"gensig-keyid-wrong", "key-id", false},
	{"keyspec-unknown", "key-spec", false}, {"keyspec-mismatch", "key-spec", false},
	{"sig-other-key", "signature", false}, {"sig-other-payload", "signature", false}, {"sig-corrupt", "signature", false}, {"sig-empty", "signature", false}, {"sig-wrong-encoding", "signature", false},
	{"chain-other-key", "chain", false}, {"chain-empty", "chain", false}, {"chain-unparsable", "chain", false}, {"chain-reversed", "chain", false},
	{"chain-swap-ca", "chain", false}, {"chain-leaf-only", "chain", false}, {"chain-dup-leaf", "chain", false},
	{"alg-name-wrong", "benign", false},
}

func editsOf(path string) []editDef {
	if path == "raw" {
		return rawEdits
	}
	return envEdits
}

func groupOf(path, name string) string {
	for _, d := range editsOf(path) {
		if d.name == name {
			return d.group
		}
	}
	return "unknown"
}

// ---------- running one case ----------

type result struct {
	sig      []byte
	info     *signature.SignerInfo
	err      error
	pan      any
	stack    string
	want     ocispec.Descriptor // the requested descriptor (what the caller asked to have signed)
	haveWant bool
	pl       *scripted
}

func protect(f func() ([]byte, *signature.SignerInfo, error)) (sig []byte, info *signature.SignerInfo, err error, pan any, stack string) {
	defer func() {
		if p := recover(); p != nil {
			pan, stack = p, string(debug.Stack())
		}
	}()
	sig, info, err = f()
	return
}

// run executes the case against the real signer. The returned string is a harness problem.
func run(c *Case) (*result, string) {
	pl := newScripted(c)
	ps, err := signer.NewPluginSigner(pl, c.KeyID, map[string]string{"cfg": "1"})
	if err != nil {
		return nil, fmt.Sprint("NewPluginSigner: ", err)
	}
	r := &result{pl: pl}
	opts := notation.SignerSignOptions{SignatureMediaType: c.mediaType(), ExpiryDuration: time.Duration(c.ExpirySec) * time.Second}
	ctx := context.Background()
	if c.Warm {
		hc := *c
		hc.Edits, hc.Fuzz, hc.RawPayload = nil, false, nil
		pl.c = &hc
		warm := ocispec.Descriptor{MediaType: "application/vnd.oci.image.manifest.v1+json", Digest: digest.Digest(ownDigest("sha256", []byte("c18 warm-up artifact"))), Size: 77,
			Annotations: map[string]string{"warm": "up"}}
		protect(func() ([]byte, *signature.SignerInfo, error) { return ps.Sign(ctx, warm, opts) })
		*pl = *newScripted(c) // same plugin object (the signer keeps its pointer), fresh script and facts
	}
	switch {
	case c.Target == "oci":
		r.want = ocispec.Descriptor{MediaType: c.MediaType, Digest: digest.Digest(ownDigest(c.DigestAlg, c.Content)), Size: c.Size, Annotations: c.annMap()}
		r.haveWant = true
		in := r.want
		in.Annotations = c.annMap() // the signer gets its own copy
		r.sig, r.info, r.err, r.pan, r.stack = protect(func() ([]byte, *signature.SignerInfo, error) { return ps.Sign(ctx, in, opts) })
	case c.Target == "blob" && c.Entry == "signer":
		gen := func(alg digest.Algorithm) (ocispec.Descriptor, error) {
			d := ownDigest(string(alg), c.Content)
			if d == "" {
				return ocispec.Descriptor{}, fmt.Errorf("harness: descriptor requested for digest algorithm %q", alg)
			}
			r.want = ocispec.Descriptor{MediaType: c.MediaType, Digest: digest.Digest(d), Size: int64(len(c.Content)), Annotations: c.annMap()}
			r.haveWant = true
			out := r.want
			out.Annotations = c.annMap()
			return out, nil
		}
		r.sig, r.info, r.err, r.pan, r.stack = protect(func() ([]byte, *signature.SignerInfo, error) { return ps.SignBlob(ctx, gen, opts) })
	case c.Target == "blob" && c.Entry == "api":
		bo := notation.SignBlobOptions{SignerSignOptions: opts, ContentMediaType: c.MediaType, UserMetadata: c.annMap()}
		r.sig, r.info, r.err, r.pan, r.stack = protect(func() ([]byte, *signature.SignerInfo, error) {
			return notation.SignBlob(ctx, ps, bytes.NewReader(c.Content), bo)
		})
		// the API digests the blob with the algorithm bound to the key spec the plugin announced
		if alg, ok := specDigest[pl.announcedSpec]; ok {
			r.want = ocispec.Descriptor{MediaType: c.MediaType, Digest: digest.Digest(ownDigest(alg, c.Content)), Size: int64(len(c.Content)), Annotations: c.annMap()}
			r.haveWant = true
		}
	default:
		return nil, fmt.Sprintf("unknown target/entry %q/%q", c.Target, c.Entry)
	}
	if pl.harness != "" {
		return r, pl.harness
	}
	return r, ""
}

// the descriptor keys a Notary payload is specified to carry
var payloadDescKeys = map[string]bool{"mediaType": true, "digest": true, "size": true, "annotations": true}

// known OCI descriptor fields the request never carries (under-specified cell: tolerated)
var knownUnrequested = map[string]bool{"urls": true, "data": true, "platform": true, "artifactType": true}

// keySets returns the case-sensitive key sets at payload and descriptor level (generic decoding,
// last duplicate wins), preferring envb.DecodeTarget.
// effectiveDescKeys: the keys of the object that a decoder binding to the payload structure ends up
// with as the target: the last member spelled targetArtifact (in any letter case) whose value is
// not null - null leaves what an earlier member put there. nil when that value is not an object.
func effectiveDescKeys(payload []byte) []string {
	dec := json.NewDecoder(bytes.NewReader(payload))
	if t, err := dec.Token(); err != nil || t != json.Delim('{') {
		return nil
	}
	var eff json.RawMessage
	for dec.More() {
		kt, err := dec.Token()
		if err != nil {
			return nil
		}
		var raw json.RawMessage
		if err := dec.Decode(&raw); err != nil {
			return nil
		}
		if k, ok := kt.(string); ok && strings.EqualFold(k, "targetArtifact") && strings.TrimSpace(string(raw)) != "null" {
			eff = raw
		}
	}
	var d map[string]json.RawMessage
	if eff == nil || json.Unmarshal(eff, &d) != nil {
		return nil
	}
	var keys []string
	for k := range d {
		keys = append(keys, k)
	}
	sort.Strings(keys)
	return keys
}

func keySets(payload []byte) (top, desc []string, err error) {
	if t, e := envb.DecodeTarget(payload); e == nil {
		return t.TopKeys, t.Keys, nil
	}
	var m map[string]json.RawMessage
	if err := json.Unmarshal(payload, &m); err != nil {
		return nil, nil, err
	}
	for k := range m {
		top = append(top, k)
	}
	var d map[string]json.RawMessage
	if raw, ok := m["targetArtifact"]; ok {
		_ = json.Unmarshal(raw, &d) // not an object: no descriptor-level keys
	}
	for k := range d {
		desc = append(desc, k)
	}
	sort.Strings(top)
	sort.Strings(desc)
	return top, desc, nil
}

// judge applies the oracle; it returns a finding key and message, or "".
func judge(c *Case, r *result) (string, string) {
	site := c.Path + "-path"
	pl := r.pl
	if r.pan != nil {
		return "C18:panic:" + site, fmt.Sprintf("signing panicked: %v\n%s", r.pan, trimStack(r.stack))
	}
	if r.err != nil {
		return "", "" // an error is admissible for every answer (the honest one is the caller's positive control)
	}
	mt := c.mediaType()
	// requested format
	var perr error
	if c.Format == "cose" {
		_, perr = envb.SplitCOSE(r.sig)
	} else {
		_, perr = envb.SplitJWS(r.sig)
	}
	if perr != nil {
		return "C18:format:" + site, fmt.Sprintf("returned signature does not parse as %s: %v", mt, perr)
	}
	if c.Path == "envelope" && pl.genenvAnswers > 0 && pl.echoedType != mt {
		return "C18:format-echo:" + site, fmt.Sprintf("signature returned although the plugin echoed envelope type %q for requested %q", pl.echoedType, mt)
	}
	// verifies under its own chain
	v, verr := envb.IndependentVerify(mt, r.sig)
	if verr != nil {
		return "C18:self-verify:" + site, fmt.Sprintf("returned signature is rejected by the independent verifier: %v", verr)
	}
	if v.ContentType != envb.PayloadType {
		return "C18:payload-type:" + site, fmt.Sprintf("returned signature carries payload type %q", v.ContentType)
	}
	// raw path: the answers the signature is built from
	if c.Path == "raw" {
		if pl.announcedSpec == "" || pl.describeID != c.KeyID {
			return "C18:key-id:" + site, fmt.Sprintf("signature returned although describe-key answered for key id %q (requested %q)", pl.describeID, c.KeyID)
		}
		if pl.gensigAnswers == 0 || pl.gensigID != c.KeyID {
			return "C18:key-id:" + site, fmt.Sprintf("signature returned although generate-signature answered for key id %q (requested %q)", pl.gensigID, c.KeyID)
		}
		if _, ok := specDigest[pl.announcedSpec]; !ok {
			return "C18:key-spec:" + site, fmt.Sprintf("signature returned although describe-key answered with the undecodable key spec %q", pl.announcedSpec)
		}
		if v.Alg.Spec != pl.announcedSpec {
			return "C18:key-spec:" + site, fmt.Sprintf("signature returned under a %s leaf although describe-key announced %s", v.Alg.Spec, pl.announcedSpec)
		}
		if len(v.Chain) != len(pl.answeredChain) {
			return "C18:chain:" + site, fmt.Sprintf("returned signature carries %d certificates, the plugin answered with %d", len(v.Chain), len(pl.answeredChain))
		}
		for i := range v.Chain {
			if !bytes.Equal(v.Chain[i].Raw, pl.answeredChain[i]) {
				return "C18:chain:" + site, fmt.Sprintf("certificate %d of the returned signature is not the plugin's", i)
			}
		}
	}
	if !r.haveWant {
		return "C18:key-spec:" + site, fmt.Sprintf("signature returned although no digest algorithm follows from the announced key spec %q", pl.announcedSpec)
	}
	// the payload as a verifier decodes it
	var p struct {
		TargetArtifact ocispec.Descriptor `json:"targetArtifact"`
	}
	if err := json.Unmarshal(v.Payload, &p); err != nil {
		return "C18:payload-undecodable:" + site, fmt.Sprintf("returned signature's payload does not decode: %v; payload %q", err, v.Payload)
	}
	got := p.TargetArtifact
	if got.MediaType != r.want.MediaType || got.Digest != r.want.Digest || got.Size != r.want.Size {
		return "C18:descriptor:" + site, fmt.Sprintf("signed descriptor (%q, %q, %d) differs from the requested (%q, %q, %d); payload %q",
			got.MediaType, got.Digest, got.Size, r.want.MediaType, r.want.Digest, r.want.Size, v.Payload)
	}
	ks := make([]string, 0, len(r.want.Annotations))
	for k := range r.want.Annotations {
		ks = append(ks, k)
	}
	sort.Strings(ks)
	for _, k := range ks {
		if g, ok := got.Annotations[k]; !ok || g != r.want.Annotations[k] {
			return "C18:annotation:" + site, fmt.Sprintf("requested annotation %q=%q is %q (present=%v) in the signed payload %q", k, r.want.Annotations[k], g, ok, v.Payload)
		}
	}
	// no unknown fields (annotations added by the plugin are not forbidden by the statement)
	top, desc, err := keySets(v.Payload)
	if err != nil {
		return "C18:payload-undecodable:" + site, fmt.Sprintf("payload key scan: %v", err)
	}
	for _, k := range top {
		if k != "targetArtifact" {
			return "C18:unknown-field:" + site, fmt.Sprintf("signed payload carries the unknown payload-level field %q: %q", k, v.Payload)
		}
	}
	for _, k := range desc {
		if !payloadDescKeys[k] && !knownUnrequested[k] {
			return "C18:unknown-field:" + site, fmt.Sprintf("signed descriptor carries the unknown field %q: %q", k, v.Payload)
		}
	}
	for _, k := range effectiveDescKeys(v.Payload) {
		if !payloadDescKeys[k] && !knownUnrequested[k] {
			return "C18:unknown-field:" + site, fmt.Sprintf("the target object a verifier ends up with (the last one that is not null) carries the unknown field %q: %q", k, v.Payload)
		}
	}
	return "", ""
}

func trimStack(s string) string {
	var keep []string
	// file:line of the library frames only: argument values and addresses vary between runs and
	// rapid shrinks only while the failure message stays the same
	for _, l := range strings.Split(s, "\n") {
		l = strings.TrimSpace(l)
		if strings.HasPrefix(l, "/repo/") {
			if i := strings.Index(l, " +0x"); i > 0 {
				l = l[:i]
			}
			keep = append(keep, l)
		}
		if len(keep) >= 4 {
			break
		}
	}
	return strings.Join(keep, " | ")
}

type failer interface {
	Fatalf(format string, args ...any)
}

func classesOf(c *Case, r *result) []string {
	cl := []string{"path=" + c.Path, "format=" + c.Format, "keyspec=" + c.KeySpec, "target=" + c.Target, "entry=" + c.Target + "/" + c.Entry,
		fmt.Sprint("edits=", len(c.Edits)), fmt.Sprint("annotations=", len(c.Ann))}
	if len(c.Edits) == 0 && !c.Fuzz {
		cl = append(cl, "honest")
	}
	if c.Warm {
		cl = append(cl, "reused-signer")
	}
	if c.Fuzz {
		cl = append(cl, "fuzz-payload")
	}
	if r.pl != nil && r.pl.inPlace {
		cl = append(cl, "payload-rewritten-in-request-buffer")
	}
	seen := map[string]bool{}
	for _, e := range c.Edits {
		for _, l := range []string{"edit=" + e.Name, "editgroup=" + groupOf(c.Path, e.Name)} {
			if !seen[l] {
				seen[l] = true
				cl = append(cl, l)
			}
		}
	}
	switch {
	case r.pan != nil:
		cl = append(cl, "panicked")
	case r.err != nil:
		cl = append(cl, "returned-error")
	default:
		cl = append(cl, "returned-signature")
		for _, e := range c.Edits {
			if l := "tolerated-edit=" + e.Name; !seen[l] {
				seen[l] = true
				cl = append(cl, l)
			}
		}
	}
	return cl
}

func fingerprint(c *Case) uint64 {
	return stats.Fingerprint(c.Path, fmt.Sprint(c.Edits), c.Format, c.KeySpec, c.Target, c.Entry, c.RawPayload)
}

// evaluate runs one case, records it and applies oracle + positive control.
func evaluate(t failer, rec *stats.Recorder, c *Case) *result {
	r, harness := run(c)
	if harness != "" {
		t.Fatalf("harness: %s (case %+v)", harness, *c)
		return nil
	}
	nontrivial := len(c.Edits) > 0
	if c.Fuzz {
		nontrivial = !bytes.Equal(c.RawPayload, r.pl.reqPayload)
	}
	rec.Case(classesOf(c, r), nontrivial, fingerprint(c), func() any { return *c })
	if key, msg := judge(c, r); key != "" {
		rec.Failf(t, key, *c, "%s", msg)
		return r
	}
	if !nontrivial && r.err != nil {
		// positive control: the honest answer must be returned, otherwise every other case is vacuous
		t.Fatalf("harness: the honest plugin answer was refused: %v (case %+v)", r.err, *c)
	}
	return r
}

// ---------- generators ----------

var keyIDs = []string{"key1", "arn:aws:kms:us-west-2:1234:key/abcd-EF", "k", "ключ 2"}
var annKeys = []string{"k", "K", "io.wabbit-networks.buildId", "org.example/key.2", "ünï", "a b", "signedBy"}
var annVals = []string{"", "v", "123", `v"q"`, "line\nbreak", "<&>", "V", "ünï"}
var ociTypes = []string{"application/vnd.oci.image.manifest.v1+json", "application/vnd.oci.image.index.v1+json", "application/vnd.docker.distribution.manifest.v2+json", "application/octet-stream"}
var blobTypes = []string{"application/octet-stream", "text/plain", "application/vnd.example.sbom+json", "video/mp4"}

func genCase(rt *rapid.T) Case {
	c := Case{
		Path:    rp.Pick(rt, "path", "envelope", "envelope", "envelope", "raw", "raw"),
		Format:  rp.Pick(rt, "format", "jws", "cose"),
		KeySpec: rp.Pick(rt, "keyspec", "EC-256", "EC-256", "EC-256", "EC-256", "EC-384", "EC-384", "EC-384", "EC-521", "EC-521", "EC-521", "RSA-2048", "RSA-3072", "RSA-4096"),
		Inter:   rapid.IntRange(0, 2).Draw(rt, "intermediates"),
		KeyID:   rp.Pick(rt, "keyId", keyIDs...),
	}
	if !isRSA(c.KeySpec) {
		c.KeyIdx = rapid.IntRange(0, 1).Draw(rt, "keyIdx")
	}
	switch rp.Pick(rt, "target", "oci", "oci", "blob/signer", "blob/api") {
	case "oci":
		c.Target, c.Entry = "oci", "signer"
		c.MediaType = rp.Pick(rt, "mediaType", ociTypes...)
		c.DigestAlg = rp.Pick(rt, "digestAlg", "sha256", "sha256", "sha384", "sha512")
		c.Content = []byte(rapid.StringN(0, 12, -1).Draw(rt, "digestSeed"))
		c.Size = rp.Pick(rt, "size", 0, 1, 528, 1<<31, 1<<53-1, 1<<53, 1<<53+2, 1<<62, 1<<63-2, rapid.Int64Range(0, 1<<40).Draw(rt, "sizeAny"))
		if c.Size > 1<<53 && c.Path == "raw" && c.Format == "jws" {
			// on the raw path the library builds the JWS itself: sizes stay within 2^53 there (known limit
			// of the JWS encoder of the pinned dependency, finding F13); an envelope-generating plugin is
			// the harness's own builder and has no such limit
			c.Size = 1 << 53
		}
	case "blob/signer":
		c.Target, c.Entry = "blob", "signer"
	case "blob/api":
		c.Target, c.Entry = "blob", "api"
	}
	if c.Target == "blob" {
		c.MediaType = rp.Pick(rt, "contentType", blobTypes...)
		c.Content = rapid.SliceOfN(rapid.Byte(), 0, 40).Draw(rt, "blob")
	}
	na := rp.Pick(rt, "annotations", 0, 1, 1, 2, 3)
	used := map[string]bool{}
	for i := 0; i < na; i++ {
		k := rp.Pick(rt, "annKey", annKeys...)
		if used[k] {
			continue
		}
		used[k] = true
		c.Ann = append(c.Ann, KV{k, rp.Pick(rt, "annVal", annVals...)})
	}
	c.ExpirySec = rp.Pick(rt, "expiry", 0, 0, 3600, 86400)
	var applicable []editDef
	for _, d := range editsOf(c.Path) {
		if !d.needAnn || len(c.Ann) > 0 {
			applicable = append(applicable, d)
		}
	}
	ne := rp.Pick(rt, "edits", 0, 1, 1, 1, 1, 1, 1, 2, 2, 2, 3)
	for i := 0; i < ne; i++ {
		d := applicable[rapid.IntRange(0, len(applicable)-1).Draw(rt, "edit")]
		dup := false
		for _, e := range c.Edits {
			dup = dup || e.Name == d.name
		}
		if dup {
			continue
		}
		c.Edits = append(c.Edits, Edit{d.name, rapid.IntRange(0, 63).Draw(rt, "variant")})
	}
	c.Warm = rapid.IntRange(0, 3).Draw(rt, "warmSameSigner") == 0
	c.InPlace = c.Path == "envelope" && len(c.Edits) > 0 && rapid.IntRange(0, 1).Draw(rt, "inPlace") == 0
	return c
}

func replayed(t *testing.T, rec *stats.Recorder) bool {
	var rc Case
	if rp.ReplayCase(&rc) && rc.Path != "" {
		evaluate(t, rec, &rc)
		return true
	}
	return false
}

// TestC18_Enum runs every single edit (several variants) against a fixed request for both
// formats and all entry points, and the honest answer for every key spec.
func TestC18_Enum(t *testing.T) {
	rec := stats.New(t, "C18", rule)
	if replayed(t, rec) {
		return
	}
	shard, shards := stats.Shard()
	idx := 0
	each := func(c Case) {
		idx++
		if idx%shards != shard {
			return
		}
		evaluate(t, rec, &c)
	}
	base := func(path, format, spec, target string) Case {
		c := Case{Path: path, Format: format, KeySpec: spec, Inter: 1, KeyID: "key1", Content: []byte("enumerated artifact"),
			Ann: []KV{{"k", "v"}, {"io.wabbit-networks.buildId", "123"}}, ExpirySec: 3600}
		switch target {
		case "oci":
			c.Target, c.Entry, c.MediaType, c.DigestAlg, c.Size = "oci", "signer", ociTypes[0], "sha256", 528
		case "blob/signer":
			c.Target, c.Entry, c.MediaType = "blob", "signer", blobTypes[0]
		case "blob/api":
			c.Target, c.Entry, c.MediaType = "blob", "api", blobTypes[1]
		}
		return c
	}
	targets := []string{"oci", "blob/signer", "blob/api"}
	for _, path := range []string{"envelope", "raw"} {
		for _, format := range []string{"jws", "cose"} {
			for _, target := range targets {
				for _, spec := range pki.KeySpecs {
					each(base(path, format, spec, target)) // honest
					c := base(path, format, spec, target)
					c.Ann = nil
					each(c) // honest, no annotations
				}
				variants := 4
				if stats.Tier() == "thorough" {
					variants = 16
				}
				for _, d := range editsOf(path) {
					for n := 0; n < variants; n++ {
						c := base(path, format, "EC-256", target)
						c.Edits = []Edit{{d.name, n}}
						each(c)
					}
				}
			}
		}
	}
	rec.Set("enumerated_single_edits", len(envEdits)+len(rawEdits))
}

// TestC18_Random draws whole cases: request, key, path and an edit script of up to three edits.
func TestC18_Random(t *testing.T) {
	rec := stats.New(t, "C18", rule)
	if replayed(t, rec) {
		return
	}
	rp.Check(t, 6000, 150000, func(rt *rapid.T) {
		c := genCase(rt)
		evaluate(rt, rec, &c)
	})
}
