package c18

// Native fuzzing of the envelope path: the scripted plugin signs exactly the fuzzed payload
// bytes (valid chain, valid signature, right payload type); the oracle is the one of the
// generated cases. The selector byte picks format, key spec and target.

import (
	"os"
	"strconv"
	"strings"
	"testing"

	"verifharness/internal/stats"
)

// key spec by selector bits 1..4 (RSA is slow under coverage instrumentation: 3 of 16)
var fuzzSpecs = [16]string{"EC-256", "EC-384", "EC-521", "RSA-2048", "EC-256", "EC-384", "EC-521", "RSA-3072",
	"EC-256", "EC-384", "EC-521", "RSA-4096", "EC-256", "EC-384", "EC-256", "EC-256"}

// fuzzCase is the fixed request a selector byte stands for.
func fuzzCase(sel byte) Case {
	c := Case{Path: "envelope", Format: "jws", KeySpec: fuzzSpecs[(sel>>1)&15], Inter: 1, KeyID: "key1", Content: []byte("fuzzed artifact"),
		Ann: []KV{{"io.wabbit-networks.buildId", "123"}, {"k", "v"}}, Fuzz: true}
	if sel&1 == 1 {
		c.Format = "cose"
	}
	if sel&32 == 0 {
		c.Target, c.Entry, c.MediaType, c.DigestAlg, c.Size = "oci", "signer", ociTypes[0], "sha256", 528
	} else {
		c.Target, c.Entry, c.MediaType = "blob", "signer", blobTypes[0]
	}
	return c
}

// honestModel renders the payload an honest plugin would sign for the request of c.
func honestModel(c Case) *pm {
	dg, size := ownDigest(c.DigestAlg, c.Content), c.Size
	if c.Target == "blob" {
		dg, size = ownDigest(specDigest[c.KeySpec], c.Content), int64(len(c.Content))
	}
	p := &pm{targetKey: "targetArtifact", annKey: "annotations",
		desc: []mem{{"mediaType", quote(c.MediaType)}, {"digest", quote(dg)}, {"size", strconv.FormatInt(size, 10)}}}
	for _, a := range c.Ann { // c.Ann of fuzzCase is sorted by key, as encoding/json renders maps
		p.hasAnn = true
		p.ann = append(p.ann, mem{a.K, quote(a.V)})
	}
	return p
}

type fuzzSeed struct {
	payload []byte
	sel     byte
	honest  bool
}

func fuzzSeeds() []fuzzSeed {
	var out []fuzzSeed
	for _, sel := range []byte{0, 1, 32, 33, 2, 3, 4, 5, 6, 7, 14, 15, 22, 23, 35, 37, 39} {
		out = append(out, fuzzSeed{honestModel(fuzzCase(sel)).bytes(), sel, true})
	}
	for _, sel := range []byte{0, 1, 33} {
		for _, d := range envEdits {
			if d.group == "envelope" {
				continue // not a payload edit
			}
			for n := 0; n < 2; n++ {
				p := honestModel(fuzzCase(sel))
				p.editPayload(Edit{d.name, n})
				out = append(out, fuzzSeed{p.bytes(), sel, false})
			}
		}
	}
	return out
}

// readCorpusFile decodes a "go test fuzz v1" file with a []byte and a byte value.
func readCorpusFile(path string) ([]byte, byte, bool) {
	b, err := os.ReadFile(path)
	if err != nil {
		return nil, 0, false
	}
	var payload []byte
	var sel byte
	got := 0
	for _, l := range strings.Split(string(b), "\n") {
		l = strings.TrimSpace(l)
		switch {
		case strings.HasPrefix(l, "[]byte(") && strings.HasSuffix(l, ")"):
			s, err := strconv.Unquote(l[len("[]byte(") : len(l)-1])
			if err != nil {
				return nil, 0, false
			}
			payload = []byte(s)
			got++
		case strings.HasPrefix(l, "byte(") && strings.HasSuffix(l, ")"):
			s, err := strconv.Unquote(l[len("byte(") : len(l)-1])
			if err != nil || s == "" {
				return nil, 0, false
			}
			sel = byte([]rune(s)[0])
			got++
		}
	}
	return payload, sel, got == 2
}

func fuzzOne(t failer, rec *stats.Recorder, payload []byte, sel byte) *result {
	c := fuzzCase(sel)
	c.RawPayload = append([]byte{}, payload...)
	return evaluate(t, rec, &c)
}

func FuzzC18_PluginPayload(f *testing.F) {
	rec := stats.New(f, "C18", rule)
	for _, s := range fuzzSeeds() {
		f.Add(s.payload, s.sel)
	}
	if p := os.Getenv("VERIF_FUZZ_INPUT"); p != "" {
		payload, sel, ok := readCorpusFile(p)
		if !ok {
			f.Fatalf("harness: cannot read fuzz input %s", p)
		}
		f.Add(payload, sel)
	}
	f.Fuzz(func(t *testing.T, payload []byte, sel byte) {
		fuzzOne(t, rec, payload, sel)
	})
}

// TestC18_FuzzSeeds runs the fuzz function over its seed corpus so that the quick tier covers it.
func TestC18_FuzzSeeds(t *testing.T) {
	rec := stats.New(t, "C18", rule)
	if replayed(t, rec) {
		return
	}
	shard, shards := stats.Shard()
	for i, s := range fuzzSeeds() {
		if i%shards != shard {
			continue
		}
		r := fuzzOne(t, rec, s.payload, s.sel)
		if s.honest && r != nil && r.pan == nil && r.err != nil {
			t.Fatalf("harness: the honest seed payload %q (selector %d) was refused: %v", s.payload, s.sel, r.err)
		}
	}
}
