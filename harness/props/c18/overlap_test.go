package c18

import (
	"context"
	"errors"
	"fmt"
	"strings"
	"sync"
	"testing"
	"time"

	"github.com/notaryproject/notation-go"
	"github.com/notaryproject/notation-go/signer"
	pf "github.com/notaryproject/notation-plugin-framework-go/plugin"
	"github.com/opencontainers/go-digest"
	ocispec "github.com/opencontainers/image-spec/specs-go/v1"

	"verifharness/internal/envb"
	"verifharness/internal/pki"
	"verifharness/internal/stats"
)

// overlapPlugin is an envelope generator that owns the schedule of two overlapping signing calls
// on one signer: the request for descriptor A is held until a complete, honest signing of
// descriptor B has gone through the same signer; then A's request is answered with a perfectly
// valid envelope - over B.
type overlapPlugin struct {
	chain    *pki.Chain
	digestA  string
	payloadB []byte
	entered  chan struct{} // closed when the request for A has arrived
	release  chan struct{} // closed when the signing of B has returned
	once     sync.Once
}

func (p *overlapPlugin) GetMetadata(ctx context.Context, req *pf.GetMetadataRequest) (*pf.GetMetadataResponse, error) {
	return &pf.GetMetadataResponse{Name: "overlap", Description: "scripted", Version: "1.0.0", URL: "https://example.invalid",
		SupportedContractVersions: []string{"1.0"}, Capabilities: []pf.Capability{pf.CapabilityEnvelopeGenerator}}, nil
}
func (p *overlapPlugin) DescribeKey(ctx context.Context, req *pf.DescribeKeyRequest) (*pf.DescribeKeyResponse, error) {
	return &pf.DescribeKeyResponse{KeyID: req.KeyID, KeySpec: pf.KeySpecEC256}, nil
}
func (p *overlapPlugin) GenerateSignature(ctx context.Context, req *pf.GenerateSignatureRequest) (*pf.GenerateSignatureResponse, error) {
	return nil, errors.New("envelope generator only")
}
func (p *overlapPlugin) VerifySignature(ctx context.Context, req *pf.VerifySignatureRequest) (*pf.VerifySignatureResponse, error) {
	return nil, errors.New("not a verification plugin")
}
func (p *overlapPlugin) GenerateEnvelope(ctx context.Context, req *pf.GenerateEnvelopeRequest) (*pf.GenerateEnvelopeResponse, error) {
	payload := req.Payload
	if strings.Contains(string(req.Payload), p.digestA) {
		p.once.Do(func() { close(p.entered) })
		select {
		case <-p.release:
		case <-time.After(20 * time.Second):
			return nil, errors.New("harness: the second signing never happened")
		}
		payload = p.payloadB
	}
	now := time.Now()
	env := envb.Build(envb.Spec{Format: req.SignatureEnvelopeType, Payload: payload, ContentType: req.PayloadType, Scheme: envb.SchemeX509, SigningTime: now,
		Chain: p.chain.X509(), Key: p.chain.Leaf().Key, Agent: "overlap plugin"})
	return &pf.GenerateEnvelopeResponse{SignatureEnvelope: env, SignatureEnvelopeType: req.SignatureEnvelopeType}, nil
}

// TestC18_OverlappingSigns: whatever a signing call returns was checked against THAT call's
// request, also when another signing runs on the same signer object at the same time.
func TestC18_OverlappingSigns(t *testing.T) {
	rec := stats.New(t, "C18", rule)
	if s, n := stats.Shard(); s != 1%n {
		t.Skip("runs in one shard")
	}
	ch := pki.NewChain(pki.ChainOpts{Intermediates: 1, Name: "c18 overlap"})
	for _, format := range []string{envb.MTJWS, envb.MTCOSE} {
		for _, withAnn := range []bool{false, true} {
			name := fmt.Sprintf("overlap:%s:annotations=%v", format, withAnn)
			rec.Case([]string{"overlapping-signs", "overlap-format=" + format}, true, stats.Fingerprint("overlap", format, withAnn), func() any { return name })
			a := ocispec.Descriptor{MediaType: "application/vnd.oci.image.manifest.v1+json", Digest: digest.FromString("c18 overlap artifact A " + name), Size: 1111}
			b := ocispec.Descriptor{MediaType: "application/vnd.oci.image.manifest.v1+json", Digest: digest.FromString("c18 overlap artifact B " + name), Size: 2222}
			if withAnn {
				a.Annotations = map[string]string{"release": "candidate", "owner": "team-a"}
			}
			p := &overlapPlugin{chain: ch, digestA: a.Digest.String(), payloadB: envb.PayloadFor(b.MediaType, b.Digest.String(), b.Size, nil),
				entered: make(chan struct{}), release: make(chan struct{})}
			s, err := signer.NewPluginSigner(p, "key-1", nil)
			if err != nil {
				t.Fatalf("harness: %v", err)
			}
			opts := notation.SignerSignOptions{SignatureMediaType: format}
			type res struct {
				env []byte
				err error
			}
			done := make(chan res, 1)
			go func() {
				env, _, err := s.Sign(context.Background(), a, opts)
				done <- res{env, err}
			}()
			select {
			case <-p.entered:
			case r := <-done:
				t.Fatalf("harness: the signing of A returned before its plugin request arrived: %v", r.err)
			case <-time.After(20 * time.Second):
				t.Fatalf("harness: the plugin request for A never arrived")
			}
			_, _, errB := s.Sign(context.Background(), b, opts)
			close(p.release)
			ra := <-done
			if errB != nil {
				rec.Failf(t, "C18:overlap:honest-signing-refused", name, "an honest signing of B on the same signer failed while A was in flight: %v", errB)
				continue
			}
			if ra.err != nil {
				continue // the answer over B was refused for A, as it must be
			}
			v, verr := envb.IndependentVerify(format, ra.env)
			if verr != nil {
				rec.Failf(t, "C18:overlap:invalid-envelope-returned", name, "Sign(A) returned an envelope the harness cannot verify: %v", verr)
				continue
			}
			tgt, derr := envb.DecodeTarget(v.Payload)
			if derr != nil || !tgt.HasTarget || tgt.Digest != a.Digest.String() || tgt.Size.String() != fmt.Sprint(a.Size) {
				rec.Failf(t, "C18:overlap:signature-over-other-descriptor", name, "Sign(A = %s, %d bytes) returned a signature whose payload is %s: the plugin's answer was checked against another call's request", a.Digest, a.Size, v.Payload)
			}
		}
	}
}
