package c20

// Metamorphic relation of C20: "the installed plugin is the same whether the source is the
// executable or the directory holding it, whatever other files that directory contains".
//
// Three fresh roots with the same prior state receive the same plugin (same bytes) from
//   A: the executable file,
//   B: a directory holding only that executable,
//   C: a directory holding it (executable or as the sole non-executable candidate) plus
//      unrelated regular files, sub-directories and symlinks.
// A and B must be identical; C must differ from B only by the extra top-level regular files.

import (
	"encoding/json"
	"fmt"
	"os"
	"path"
	"path/filepath"
	"reflect"
	"sort"
	"strings"
	"testing"

	"github.com/notaryproject/notation-go/dir"
	"github.com/notaryproject/notation-go/plugin"
	pluginfw "github.com/notaryproject/notation-plugin-framework-go/plugin"
	"pgregory.net/rapid"

	"verifharness/internal/rp"
	"verifharness/internal/stats"
)

const shapeRule = "case = (plugin name, version, prior state, directory shape: candidate executable or not, extra files, sub-directories, symlinks); non-trivial = the directory has extra entries; distinct by the tuple"

// ShapeCase is one metamorphic case.
type ShapeCase struct {
	Prior string `json:"prior"` // none | lower | same-overwrite
	Src   Src    `json:"src"`   // the decorated directory (root C)
}

// normal form of an installed tree: path -> "dir" | "sha256 x|-" (x = owner-executable)
func normalize(es []Entry) map[string]string {
	out := map[string]string{}
	for _, e := range es {
		switch {
		case e.Mode.IsDir():
			out[e.Path] = "dir"
		case e.Mode.IsRegular():
			x := "-"
			if e.Mode.Perm()&0o100 != 0 {
				x = "x"
			}
			out[e.Path] = e.Sum + " " + x
		default:
			out[e.Path] = "other " + e.Mode.String() + " " + e.Link
		}
	}
	return out
}

func showNorm(m map[string]string) string {
	var ks []string
	for k := range m {
		ks = append(ks, k)
	}
	sort.Strings(ks)
	var sb strings.Builder
	for _, k := range ks {
		fmt.Fprintf(&sb, "  %s: %s\n", k, m[k])
	}
	return sb.String()
}

func TestC20_SourceShape(t *testing.T) {
	rec := stats.New(t, "C20", shapeRule)
	rp.Check(t, 400, 8000, func(rt *rapid.T) {
		base, err := os.MkdirTemp("", "c20-")
		if err != nil {
			rt.Fatalf("harness: %v", err)
		}
		defer os.RemoveAll(base)

		c := ShapeCase{Prior: rp.Pick(rt, "prior", "none", "lower", "same-overwrite")}
		s := Src{Kind: "dir", Name: rp.Pick(rt, "name", "alpha", "beta"), Meta: "ok", Marker: "s1"}
		s.Version = validVersions[rapid.IntRange(0, len(validVersions)-1).Draw(rt, "version")].v
		s.CandExec = rapid.IntRange(0, 2).Draw(rt, "candNonExec") != 2
		genDirShape(rt, &s, false)
		c.Src = s
		fail := func(key, format string, args ...any) { rec.Failf(rt, key, c, format, args...) }

		decorated := len(s.Extras)+len(s.Subdirs)+len(s.Links) > 0
		cl := []string{"shape", "prior=" + c.Prior}
		if len(s.Extras) > 0 {
			cl = append(cl, "shape:extra-files")
		}
		if len(s.Subdirs) > 0 {
			cl = append(cl, "shape:subdirs")
		}
		if len(s.Links) > 0 {
			cl = append(cl, "shape:symlinks")
		}
		if !s.CandExec {
			cl = append(cl, "shape:nonexec-candidate")
		}
		js, _ := json.Marshal(c)
		rec.Case(cl, decorated, stats.Fingerprint(js), func() any { return c })

		plain := Src{Kind: "dir", Name: s.Name, Version: s.Version, Meta: "ok", Marker: s.Marker, CandExec: true}
		file := plain
		file.Kind = "file"
		want := newScript(s.Name, s.Version, "ok", s.Marker).Meta()
		overwrite := c.Prior == "same-overwrite"

		var norms [3]map[string]string
		var builtC *Built
		for i, src := range []Src{file, plain, s} {
			tag := string(rune('A' + i))
			root := filepath.Join(base, "root"+tag, "plugins")
			mgr := plugin.NewCLIManager(dir.NewSysFS(root))
			if c.Prior != "none" {
				pv := "0.0.1" // lower than every version of the pool
				if overwrite {
					pv = s.Version
				}
				prior := Src{Kind: "file", Name: s.Name, Version: pv, Meta: "ok", Marker: "s0"}
				pb, err := build(filepath.Join(base, "prior"+tag), prior)
				if err != nil {
					rt.Fatalf("harness: %v", err)
				}
				if _, _, err := mgr.Install(ctx, plugin.CLIInstallOptions{PluginPath: pb.Path}); err != nil {
					fail("C20:source-shape:plain-install-failed", "installing the prior version from its executable into a fresh root failed: %v", err)
					return
				}
			}
			b, err := build(filepath.Join(base, "src"+tag), src)
			if err != nil {
				rt.Fatalf("harness: %v", err)
			}
			if i == 2 {
				builtC = b
			}
			_, _, err = mgr.Install(ctx, plugin.CLIInstallOptions{PluginPath: b.Path, Overwrite: overwrite})
			if err != nil {
				switch {
				case i < 2:
					fail("C20:source-shape:plain-install-failed", "root %s: installing from %s failed: %v", tag, src.Kind, err)
				case !s.CandExec && followedByFile(s, s.Name):
					fail("C20:source-shape:nonexec-candidate-refused", "the directory with the sole (non-executable) candidate followed by other files was refused: %v", err)
				case !s.CandExec:
					fail("C20:source-shape:nonexec-candidate-unfollowed-refused", "the directory with the sole (non-executable) candidate was refused: %v", err)
				default:
					fail("C20:source-shape:decorated-directory-refused", "the directory with extra entries was refused: %v", err)
				}
				return // listed finding: nothing to compare
			}
			es, err := Snapshot(root)
			if err != nil {
				rt.Fatalf("harness: %v", err)
			}
			norms[i] = normalize(es)
			if i == 2 {
				continue // compared below, the plugin may have been overwritten (checked there)
			}
			p, err := mgr.Get(ctx, s.Name)
			if err != nil {
				fail("C20:source-shape:not-fetchable", "root %s: Get failed: %v", tag, err)
				return
			}
			if got, err := p.GetMetadata(ctx, &pluginfw.GetMetadataRequest{}); err != nil || !reflect.DeepEqual(got, want) {
				fail("C20:source-shape:metadata-differs", "root %s: plugin answers %+v (err %v), want %+v", tag, got, err, want)
				return
			}
		}
		if !reflect.DeepEqual(norms[0], norms[1]) {
			fail("C20:source-shape:file-vs-directory-differ", "installed from the executable:\n%sinstalled from the directory holding only it:\n%s", showNorm(norms[0]), showNorm(norms[1]))
			return
		}
		// C = B + the extra top-level regular files (names, bytes)
		wantC := map[string]string{}
		for k, v := range norms[1] {
			wantC[k] = v
		}
		for _, e := range s.Extras {
			wantC[s.Name+"/"+e] = sum(builtC.Top[e].Content) + " -"
		}
		gotC := map[string]string{}
		for k, v := range norms[2] {
			if rel := strings.TrimPrefix(k, s.Name+"/"); builtC.Links[rel] {
				continue // unspecified cell: top-level symlinks of the source
			}
			if _, isExtra := builtC.Top[strings.TrimPrefix(k, s.Name+"/")]; isExtra && strings.HasSuffix(v, " x") && !strings.HasSuffix(k, "/notation-"+s.Name) {
				v = strings.TrimSuffix(v, " x") + " -" // the statement fixes names and bytes of extra files, not their modes
			}
			gotC[k] = v
		}
		if !reflect.DeepEqual(gotC, wantC) {
			// explained by nested files copied flat?
			nestedSums := map[string]bool{}
			for rel, content := range builtC.Nested {
				nestedSums[path.Base(rel)+" "+sum(content)] = true
			}
			explained := true
			for k, v := range gotC {
				if wantC[k] == v {
					continue
				}
				f := strings.Fields(v)
				if len(f) != 2 || !nestedSums[path.Base(k)+" "+f[0]] || path.Dir(k) != s.Name {
					explained = false
				}
			}
			for k := range wantC {
				if _, ok := gotC[k]; !ok {
					explained = false
				}
			}
			key := "C20:source-shape:extra-entries-change-result"
			if explained {
				key = "C20:source-shape:nested-files-copied"
			}
			fail(key, "directory with extra entries installed as:\n%sexpected (plain directory + its extra top-level regular files):\n%s", showNorm(gotC), showNorm(wantC))
			return
		}
		mgr := plugin.NewCLIManager(dir.NewSysFS(filepath.Join(base, "rootC", "plugins")))
		p, err := mgr.Get(ctx, s.Name)
		if err != nil {
			fail("C20:source-shape:not-fetchable", "root C: Get failed: %v", err)
			return
		}
		if got, err := p.GetMetadata(ctx, &pluginfw.GetMetadataRequest{}); err != nil || !reflect.DeepEqual(got, want) {
			fail("C20:source-shape:metadata-differs", "root C: plugin answers %+v (err %v), want %+v", got, err, want)
		}
	})
}
