// C20 — plugin installation follows the version rules and never half-replaces a plugin.
//
// A rapid state machine drives plugin.CLIManager (Install / Uninstall / Get / List) over a real,
// sacrificial plugin root with generated shell-script plugins. The oracle is a model written
// from the property statement: name -> (version, metadata, verified tree), the harness's own
// semver precedence (semver_test.go) and full tree snapshots before/after every operation
// (DESIGN.md section 5, C20).
//
// Cells the statement leaves open (both outcomes are accepted, but the result must still be
// "refused => tree identical" or "succeeded => exactly the new plugin"):
//   - an invalid (non-semver, non-empty) version that is never compared: first installation
//     or overwrite — the statement lists "invalid version" as a reason for refusal but does
//     not say that an uncompared version must be validated (the code accepts it);
//     (a valid version installed without overwrite over a plugin whose own version is not a
//     semantic version is NOT open: the statement is "replaces only if the new version is
//     strictly higher by semantic-version precedence", and no precedence is defined against
//     something that is not a semantic version - so without overwrite nothing may be replaced);
//   - a single NON-executable file as the source (the code refuses; an implementation that
//     made it executable like it does for a directory's sole candidate would be as good);
//   - a directory with exactly one executable notation-* file and a second, non-executable
//     one (the code installs the executable one);
//   - symlinks at the top level of a source directory: they are not regular files, so they
//     are not part of the expected file set, but an entry of that name in the result is
//     tolerated.
package c20

import (
	"context"
	"encoding/json"
	"errors"
	"flag"
	"fmt"
	"os"
	"path"
	"path/filepath"
	"reflect"
	"sort"
	"strings"
	"testing"

	"github.com/notaryproject/notation-go/dir"
	"github.com/notaryproject/notation-go/plugin"
	pluginfw "github.com/notaryproject/notation-plugin-framework-go/plugin"
	"pgregory.net/rapid"

	"verifharness/internal/rp"
	"verifharness/internal/stats"
)

const rule = "case = one sequence of <= 6 operations (install / uninstall / get / list) with its generated sources; non-trivial = contains an install over an existing plugin or a directory source with extra entries; distinct by initial state + operation list"

const maxOps = 6

// Finding keys of the two defects known on the pinned tree plus the one found by this check.
const (
	keyNonExecRefused  = "C20:dir-install:nonexec-candidate-refused"            // F9
	keyNestedCopied    = "C20:dir-install:nested-files-copied"                  // F10
	keySameNamedSubdir = "C20:dir-install:same-named-subdir-candidate-counted"  // sub-directory named like the source is searched for candidates
	keyNonExecAlone    = "C20:dir-install:nonexec-candidate-unfollowed-refused" // sole non-executable candidate refused although no file follows it
	keyUnexpectedRefus = "C20:install:unexpected-refusal"                       // anything else that should have installed
)

// Op is one operation of a sequence (also the replay/evidence format).
type Op struct {
	Kind      string `json:"op"` // install | uninstall | get | list
	Name      string `json:"name,omitempty"`
	Overwrite bool   `json:"overwrite,omitempty"`
	Src       *Src   `json:"src,omitempty"`
	Expect    string `json:"expect,omitempty"`  // what the model demands
	Outcome   string `json:"outcome,omitempty"` // what happened
}

// Case is one sequence.
type Case struct {
	Init string `json:"init"` // absent | empty | populated
	// RootSpelling: how the plugin root is handed to the manager ("" absolute, "relative")
	RootSpelling string `json:"rootSpelling,omitempty"`
	Ops  []Op   `json:"ops"`
}

type installed struct {
	version string
	meta    *pluginfw.GetMetadataResponse
	tree    []Entry // entries at or below <name>, as verified after the installation
}

type machine struct {
	rec        *stats.Recorder
	top, base, root string
	mgr        *plugin.CLIManager
	model      map[string]*installed
	static     []Entry // entries placed by the harness that no operation targets
	c          Case
	nsrc       int
	dead       bool // a listed finding without a continuation rule was hit: stop operating
	overExist  bool
	dirExtras  bool
}

var ctx = context.Background()

func (m *machine) snap(rt *rapid.T) []Entry {
	es, err := Snapshot(m.root)
	if err != nil {
		rt.Fatalf("harness: snapshot of %s: %v", m.root, err)
	}
	return es
}

func (m *machine) done() bool { return m.dead || len(m.c.Ops) >= maxOps }

// fail reports a violation; it only returns when the key is a listed known finding.
func (m *machine) fail(rt *rapid.T, key, format string, args ...any) {
	m.rec.Failf(rt, key, m.c, format, args...)
}

func (m *machine) cls(labels ...string) {
	for _, l := range labels {
		m.rec.Class(l, 1)
	}
}

func (m *machine) names() []string {
	var ns []string
	for n := range m.model {
		ns = append(ns, n)
	}
	sort.Strings(ns)
	return ns
}

// ---- the model's decision ---------------------------------------------------------------

type verdict struct {
	expect      string // succeed | refuse | either
	reason      string // refuse: unusable-source, invalid-metadata, misnamed-metadata, invalid-version, lower, equal
	loose       []string
	plugin      string // the name a success installs under ("" when the source names none)
	script      Script
	rel         string // relation new vs installed version: none | lt | eq | gt | invalid | old-invalid
	soleNonExec bool
}

func decide(s Src, b *Built, model map[string]*installed, overwrite bool) verdict {
	v := verdict{rel: "none"}
	refuse := func(why string) verdict { v.expect, v.reason = "refuse", why; return v }
	var cand candidate
	switch s.Kind {
	case "missing", "file-badname":
		return refuse("unusable-source")
	case "file":
		cand = b.Candidates[0]
	case "file-nonexec":
		cand = b.Candidates[0]
		v.loose = append(v.loose, "nonexec-file-source")
	case "dir":
		var execs []candidate
		for _, c := range b.Candidates {
			if c.Exec {
				execs = append(execs, c)
			}
		}
		switch {
		case len(execs) >= 2: // "MUST contain one and only one valid plugin executable file"
			return refuse("unusable-source")
		case len(execs) == 1:
			// a second file named notation-* without the executable bit is one of the "other files that
			// directory contains": the executable is the plugin, wherever the other file sorts
			cand = execs[0]
		case len(b.Candidates) == 1: // documented: the sole candidate is made executable and installed
			cand = b.Candidates[0]
			v.soleNonExec = true
		default: // no candidate, or several and none executable
			return refuse("unusable-source")
		}
	}
	v.plugin, v.script = cand.Plugin, cand.Script
	old := model[v.plugin]
	nv, newOK := parseSemver(cand.Script.Version)
	if old != nil {
		ov, oldOK := parseSemver(old.version)
		switch {
		case !newOK:
			v.rel = "invalid"
		case !oldOK:
			v.rel = "old-invalid"
		default:
			v.rel = map[int]string{-1: "lt", 0: "eq", 1: "gt"}[semverCompare(nv, ov)]
		}
	} else if !newOK {
		v.rel = "invalid"
	}
	if !cand.Script.MetadataOK() {
		if cand.Script.Kind == "misnamed" || cand.Script.Kind == "misnamed-case" {
			return refuse("misnamed-metadata")
		}
		return refuse("invalid-metadata")
	}
	if old == nil || overwrite {
		if !newOK {
			v.loose = append(v.loose, "invalid-version-not-compared")
		}
	} else {
		switch v.rel {
		case "invalid":
			return refuse("invalid-version")
		case "old-invalid":
			return refuse("existing-version-not-comparable")
		case "lt":
			return refuse("lower")
		case "eq":
			return refuse("equal")
		}
	}
	v.expect = "succeed"
	if len(v.loose) > 0 {
		v.expect = "either"
	}
	return v
}

// followedByFile: input class of finding F9 — a directory whose sole, non-executable candidate
// is followed (in name order, the sub-directory named like the source included) by another
// regular file. Used only to choose the finding key.
func followedByFile(s Src, plugin string) bool {
	cand := "notation-" + plugin
	for _, e := range s.Extras {
		if e > cand {
			return true
		}
	}
	for _, sd := range s.Subdirs {
		if sd.Name != srcDirName || sd.Name < cand {
			continue
		}
		for _, f := range sd.Files {
			if !strings.Contains(f, "/") {
				return true
			}
		}
	}
	return false
}

func nonExecKey(s Src, plugin string) string {
	if followedByFile(s, plugin) {
		return keyNonExecRefused
	}
	return keyNonExecAlone
}

func sameNamedSubdirCandidate(s Src) bool {
	for _, sd := range s.Subdirs {
		if sd.Name != srcDirName {
			continue
		}
		for _, f := range sd.Files {
			if strings.HasPrefix(path.Base(f), "notation-") {
				return true
			}
		}
	}
	return false
}

// ---- checking an installed directory -----------------------------------------------------

type problem struct {
	kind   string // not-a-directory | missing-file | extra-entry | wrong-content | not-executable
	detail string
	nested bool // explained by a file of a sub-directory having been copied flat
}

// diffInstalled compares the entries at/below <name> with the regular top-level files of the
// source: names and bytes exactly, the plugin executable with the owner-executable bit.
func diffInstalled(in []Entry, name string, b *Built) []problem {
	var ps []problem
	nestedSums := map[string]map[string]bool{} // base name -> content hashes of nested files
	for rel, c := range b.Nested {
		bn := path.Base(rel)
		if nestedSums[bn] == nil {
			nestedSums[bn] = map[string]bool{}
		}
		nestedSums[bn][sum(c)] = true
	}
	got := map[string]Entry{}
	for _, e := range in {
		got[e.Path] = e
	}
	if d, ok := got[name]; !ok || !d.Mode.IsDir() {
		return []problem{{"not-a-directory", fmt.Sprintf("%s is not a directory (%v)", name, d.Mode), false}}
	}
	execName := "notation-" + name
	var topNames []string
	for fn := range b.Top {
		topNames = append(topNames, fn)
	}
	sort.Strings(topNames)
	for _, fn := range topNames {
		e, ok := got[name+"/"+fn]
		switch {
		case !ok:
			ps = append(ps, problem{"missing-file", fn + " is missing", false})
			continue
		case !e.Mode.IsRegular():
			ps = append(ps, problem{"wrong-content", fmt.Sprintf("%s is not a regular file (%v)", fn, e.Mode), false})
			continue
		}
		overwritten := false
		if e.Sum != sum(b.Top[fn].Content) {
			overwritten = nestedSums[fn][e.Sum]
			ps = append(ps, problem{"wrong-content", fmt.Sprintf("%s does not hold the bytes of the source's top-level file (holds a nested file's bytes: %v)", fn, overwritten), overwritten})
		}
		if fn == execName && e.Mode.Perm()&0o100 == 0 {
			ps = append(ps, problem{"not-executable", fmt.Sprintf("%s has mode %v", fn, e.Mode), overwritten})
		}
	}
	for _, e := range in {
		if e.Path == name {
			continue
		}
		rel := strings.TrimPrefix(e.Path, name+"/")
		if _, ok := b.Top[rel]; ok {
			continue
		}
		if b.Links[rel] {
			continue // unspecified cell: a top-level symlink of the source may or may not be represented
		}
		nested := e.Mode.IsRegular() && nestedSums[rel][e.Sum]
		ps = append(ps, problem{"extra-entry", fmt.Sprintf("unexpected entry %s (a nested file of the source copied flat: %v)", e, nested), nested})
	}
	return ps
}

// ---- operations ------------------------------------------------------------------------

var extraPool = []string{"LICENSE", "a.txt", "lib.so", "notes", "zzz.txt", ".release", ".DS_Store", "~backup", "README.md~"} // notes, zzz.txt and ~backup sort after notation-*; dot files are regular files like any other
var subdirPool = []string{"lib", srcDirName, "zsub"}                       // before / same name as the source dir / after
var nestedPool = []string{"nested.txt", "LICENSE", "zzz.txt", "inner/deep.txt", "a.txt"}
var linkPool = []string{"alink", "zlinkdir", "dangling", "mlink"}

func genDirShape(rt *rapid.T, s *Src, allowSameNamedCandidate bool) {
	mask := rapid.IntRange(0, 1<<len(extraPool)-1).Draw(rt, "extras")
	for i, e := range extraPool {
		if mask&(1<<i) != 0 {
			s.Extras = append(s.Extras, e)
		}
	}
	nsub := rp.Pick(rt, "nsub", 0, 0, 1, 1, 2)
	first := rapid.IntRange(0, len(subdirPool)-1).Draw(rt, "subdir")
	for k := 0; k < nsub; k++ {
		sd := Subdir{Name: subdirPool[(first+k)%len(subdirPool)]}
		fm := rapid.IntRange(0, 31).Draw(rt, "nestedFiles")
		for i, f := range nestedPool {
			if fm&(1<<i) != 0 {
				sd.Files = append(sd.Files, f)
			}
		}
		if sd.Name != srcDirName || allowSameNamedCandidate {
			switch rapid.IntRange(0, 9).Draw(rt, "nestedCandidate") {
			case 8:
				sd.Files = append(sd.Files, "notation-"+s.Name)
			case 9:
				sd.Files = append(sd.Files, "notation-"+other(s.Name))
			}
		}
		s.Subdirs = append(s.Subdirs, sd)
	}
	if rapid.IntRange(0, 3).Draw(rt, "withLinks") == 0 {
		lm := rapid.IntRange(1, 15).Draw(rt, "links")
		for i, l := range linkPool {
			if lm&(1<<i) != 0 {
				s.Links = append(s.Links, l)
			}
		}
	}
}

// pickName draws alpha or beta; when exactly one of them is installed it is preferred (3:1) so
// that operations meet existing plugins often enough.
func (m *machine) pickName(rt *rapid.T) string {
	a, b := m.model["alpha"] != nil, m.model["beta"] != nil
	switch {
	case a && !b:
		return rp.Pick(rt, "name", "alpha", "beta", "alpha", "alpha")
	case b && !a:
		return rp.Pick(rt, "name", "beta", "alpha", "beta", "beta")
	}
	return rp.Pick(rt, "name", "alpha", "beta")
}

func (m *machine) genSrc(rt *rapid.T) Src {
	s := Src{Name: m.pickName(rt), Marker: fmt.Sprintf("m%d", m.nsrc+1)}
	s.Kind = rp.Pick(rt, "kind", "file", "dir", "file", "dir", "dir", "dir", "file", "dir", "file", "dir", "dir", "file-nonexec", "file-badname", "missing")
	s.Meta = rp.Pick(rt, "meta", "ok", "ok", "ok", "ok", "ok", "ok", "ok", "ok", "ok", "ok", "ok", "ok", "misnamed", "misnamed-case", "badjson", "missing", "exit1", "trailing", "trailing-brace")
	switch rp.Pick(rt, "vmode", "pool", "pool", "pool", "pool", "same", "invalid") {
	case "pool":
		s.Version = validVersions[rapid.IntRange(0, len(validVersions)-1).Draw(rt, "version")].v
	case "same": // the installed version or one of equal precedence (build metadata differs)
		s.Version = validVersions[rapid.IntRange(0, len(validVersions)-1).Draw(rt, "version")].v
		if old := m.model[s.Name]; old != nil {
			s.Version = old.version
			var sib []string
			for _, a := range validVersions {
				for _, b := range validVersions {
					if a.v == old.version && a.rank == b.rank {
						sib = append(sib, b.v)
					}
				}
			}
			if len(sib) > 1 {
				s.Version = sib[rapid.IntRange(0, len(sib)-1).Draw(rt, "sibling")]
			}
		}
	case "invalid":
		s.Version = invalidVersions[rapid.IntRange(0, len(invalidVersions)-1).Draw(rt, "invalidVersion")]
	}
	if s.Kind == "dir" {
		s.CandExec = rapid.IntRange(0, 3).Draw(rt, "candNonExec") != 3
		s.NoCand = rapid.IntRange(0, 11).Draw(rt, "noCandidate") == 11
		s.Second = rp.Pick(rt, "second", "", "", "", "", "", "", "exec", "nonexec")
		// candidate-named files inside the sub-directory named like the source: only next to a usable
		// executable candidate, so that the only question is whether sub-directories are ignored
		genDirShape(rt, &s, s.CandExec && !s.NoCand)
	}
	return s
}

func (m *machine) install(rt *rapid.T) {
	if m.done() {
		return
	}
	src := m.genSrc(rt)
	if src.Kind == "dir" || src.Kind == "file" {
		src.Spelling = rp.Pick(rt, "pathSpelling", "", "", "", "trailing-slash", "double-slash", "dot-segment", "up-and-down", "relative", "relative")
		if src.Kind == "file" && (src.Spelling == "trailing-slash" || src.Spelling == "up-and-down") {
			src.Spelling = "double-slash" // a file cannot be followed by a separator
		}
	}
	overwrite := rapid.IntRange(0, 2).Draw(rt, "overwrite") == 2
	m.nsrc++
	b, err := build(filepath.Join(m.base, fmt.Sprintf("src%d", m.nsrc)), src)
	if err != nil {
		rt.Fatalf("harness: building source: %v", err)
	}
	v := decide(src, b, m.model, overwrite)
	expect := v.expect
	if v.reason != "" {
		expect += ":" + v.reason
	}
	if len(v.loose) > 0 {
		expect += " (open: " + strings.Join(v.loose, ",") + ")"
	}
	m.c.Ops = append(m.c.Ops, Op{Kind: "install", Name: v.plugin, Overwrite: overwrite, Src: &src, Expect: expect})
	op := &m.c.Ops[len(m.c.Ops)-1]
	old := m.model[v.plugin]

	m.cls("op=install", "meta="+src.Meta, "expect="+v.expect)
	if src.Spelling != "" {
		m.cls("source-path-spelling=" + src.Spelling)
	}
	if src.Kind == "dir" {
		m.cls("src=dir")
		if len(src.Extras)+len(src.Subdirs)+len(src.Links) > 0 || src.Second != "" {
			m.cls("dir-extra-entries")
			m.dirExtras = true
		}
		if len(src.Subdirs) > 0 {
			m.cls("dir-subdir")
			for _, sd := range src.Subdirs {
				if sd.Name == srcDirName {
					m.cls("dir-subdir-named-like-source")
				}
			}
		}
		if len(b.Nested) > 0 {
			for rel := range b.Nested {
				if _, ok := b.Top[path.Base(rel)]; ok {
					m.cls("dir-nested-name-collision")
					break
				}
			}
		}
		if v.soleNonExec {
			m.cls("dir-nonexec-candidate")
		}
		if src.Second != "" {
			m.cls("dir-two-candidates")
		}
		if len(src.Links) > 0 {
			m.cls("dir-symlinks")
		}
		if src.NoCand && src.Second == "" {
			m.cls("dir-no-candidate")
		}
	} else {
		m.cls("src=" + src.Kind)
	}
	if overwrite {
		m.cls("overwrite")
	}
	if old != nil {
		m.overExist = true
		m.cls("over-existing", "version-relation="+v.rel)
	} else if v.rel == "invalid" {
		m.cls("version-relation=invalid")
	}

	before := m.snap(rt)
	existing, newMeta, err := m.mgr.Install(ctx, plugin.CLIInstallOptions{PluginPath: spell(b.Path, src.Spelling, src.Kind == "dir"), Overwrite: overwrite})
	after := m.snap(rt)

	if err != nil {
		op.Outcome = "refused: " + err.Error()
		m.cls("install=refused")
		m.checkRefused(rt, src, v, before, after, err)
		return
	}
	op.Outcome = "installed"
	if old == nil {
		m.cls("install=fresh")
	} else {
		m.cls("install=replaced")
	}
	m.checkInstalled(rt, src, b, v, before, after, existing, newMeta)
	if !m.dead && rapid.IntRange(0, 2).Draw(rt, "sourceRewrittenInPlace") == 0 {
		// the owner of the source goes on working on it: every regular file below the source is
		// rewritten IN PLACE (same inode). What was installed is the library's own copy
		m.cls("source-rewritten-in-place-after-install")
		filepath.Walk(filepath.Join(m.base, fmt.Sprintf("src%d", m.nsrc)), func(p string, fi os.FileInfo, err error) error {
			if err == nil && fi.Mode().IsRegular() {
				if f, err := os.OpenFile(p, os.O_WRONLY|os.O_TRUNC, 0); err == nil {
					f.WriteString("#!/bin/sh\necho 'rewritten by the owner of the source'\n")
					f.Close()
				}
			}
			return nil
		})
		want := append([]Entry{}, m.static...)
		for _, n := range m.names() {
			want = append(want, m.model[n].tree...)
		}
		sort.Slice(want, func(i, j int) bool { return want[i].Path < want[j].Path })
		if got := m.snap(rt); render(got) != render(want) {
			m.fail(rt, "C20:install-result:installed-files-change-with-the-source", "after the installation the source was rewritten in place; the installed plugin changed with it (the installed files share storage with the source).\nmodel:\n%sdisk:\n%s", render(want), render(got))
			m.dead = true
		}
	}
}

func (m *machine) checkRefused(rt *rapid.T, src Src, v verdict, before, after []Entry, err error) {
	// a refused installation leaves the installed plugins' files exactly as they were
	if render(before) != render(after) {
		key := "C20:refused-install:tree-changed"
		if v.plugin != "" && m.model[v.plugin] != nil {
			if in, _ := under(after, v.plugin); len(in) == 0 {
				key = "C20:refused-install:installed-plugin-removed"
			}
		}
		m.fail(rt, key, "install failed (%v) but the plugin root changed.\nbefore:\n%safter:\n%s", err, render(before), render(after))
		m.dead = true
		return
	}
	if v.expect == "succeed" {
		key := keyUnexpectedRefus
		switch {
		case sameNamedSubdirCandidate(src):
			key = keySameNamedSubdir
		case v.soleNonExec:
			key = nonExecKey(src, v.plugin)
		}
		m.fail(rt, key, "the model expects this installation to install/replace %q (version relation %s) but it was refused: %v", v.plugin, v.rel, err)
		// listed finding: the tree is unchanged (checked above), so the model stays as it is
	}
	if len(v.loose) == 0 {
		// documented error types of the version rule. For the two input classes with a finding of
		// their own (sole non-executable candidate, candidate inside the same-named sub-directory)
		// a refusal for another reason than the version is that finding, not a new one.
		typeKey := func(k string) string {
			switch {
			case sameNamedSubdirCandidate(src):
				return keySameNamedSubdir
			case v.soleNonExec:
				return nonExecKey(src, v.plugin)
			}
			return k
		}
		switch v.reason {
		case "lower":
			var de plugin.PluginDowngradeError
			if !errors.As(err, &de) {
				m.fail(rt, typeKey("C20:refused-install:downgrade-error-type"), "lower version refused with %T (%v), not PluginDowngradeError", err, err)
			}
		case "equal":
			var ee plugin.InstallEqualVersionError
			if !errors.As(err, &ee) {
				m.fail(rt, typeKey("C20:refused-install:equal-version-error-type"), "equal version refused with %T (%v), not InstallEqualVersionError", err, err)
			}
		}
	}
	// ... and its behaviour: the plugin the installation aimed at (or else the first installed
	// one) still answers with the old metadata
	target := v.plugin
	if m.model[target] == nil {
		target = ""
		for _, n := range m.names() {
			if n != "gamma" {
				target = n
				break
			}
		}
	}
	if target != "" {
		m.checkAnswers(rt, target, m.model[target].meta, "C20:refused-install:old-plugin-behaviour")
	}
}

// checkAnswers: Get(name).GetMetadata must answer want.
func (m *machine) checkAnswers(rt *rapid.T, name string, want *pluginfw.GetMetadataResponse, key string) {
	p, err := m.mgr.Get(ctx, name)
	if err != nil {
		m.fail(rt, key, "Get(%q) failed: %v", name, err)
		m.dead = true
		return
	}
	got, err := p.GetMetadata(ctx, &pluginfw.GetMetadataRequest{})
	if err != nil || !reflect.DeepEqual(got, want) {
		m.fail(rt, key, "plugin %q answers %+v (err %v), the model says %+v", name, got, err, want)
		m.dead = true
	}
}

func (m *machine) checkInstalled(rt *rapid.T, src Src, b *Built, v verdict, before, after []Entry, existing, newMeta *pluginfw.GetMetadataResponse) {
	if v.expect == "refuse" {
		key := map[string]string{
			"lower":                           "C20:version-rule:lower-version-installed",
			"equal":                           "C20:version-rule:equal-version-installed",
			"invalid-version":                 "C20:version-rule:invalid-version-installed",
			"existing-version-not-comparable": "C20:version-rule:replaced-plugin-whose-version-is-not-comparable",
			"invalid-metadata":                "C20:install:invalid-metadata-installed",
			"misnamed-metadata":               "C20:install:misnamed-metadata-installed",
			"unusable-source":                 "C20:install:unusable-source-installed",
		}[v.reason]
		m.fail(rt, key, "the model refuses this installation (%s, relation %s) but Install returned nil; new metadata %+v", v.reason, v.rel, newMeta)
		m.dead = true
		return
	}
	name := v.plugin
	old := m.model[name]
	special := sameNamedSubdirCandidate(src) // input class of its own finding
	in, rest := under(after, name)
	_, restBefore := under(before, name)
	if render(rest) != render(restBefore) {
		m.fail(rt, "C20:install:other-entries-changed", "installing %s changed other entries of the root.\nbefore:\n%safter:\n%s", name, render(restBefore), render(rest))
		m.dead = true
		return
	}
	if ps := diffInstalled(in, name, b); len(ps) > 0 {
		key := ""
		var msgs []string
		for _, p := range ps {
			msgs = append(msgs, p.detail)
			if !p.nested && key == "" {
				key = "C20:install-result:" + p.kind
			}
		}
		repairable := key == ""
		if repairable {
			key = keyNestedCopied
			if special {
				key = keySameNamedSubdir
			}
		}
		m.fail(rt, key, "%s/%s does not hold exactly the regular top-level files of the source: %s\ntree:\n%s", "<root>", name, strings.Join(msgs, "; "), render(in))
		if !repairable {
			m.dead = true
			return
		}
		// listed finding: put the directory into the state the statement demands and go on
		if err := forceDir(m.root, name, b.Top, "notation-"+name); err != nil {
			rt.Fatalf("harness: repairing %s: %v", name, err)
		}
		in, _ = under(m.snap(rt), name)
		if ps := diffInstalled(in, name, b); len(ps) > 0 {
			rt.Fatalf("harness: repaired directory still differs: %+v", ps)
		}
	}
	want := v.script.Meta()
	if newMeta == nil || !reflect.DeepEqual(newMeta, want) {
		key := "C20:install-result:returned-new-metadata"
		if special {
			key = keySameNamedSubdir
		}
		m.fail(rt, key, "Install returned new metadata %+v, the source's plugin reports %+v", newMeta, want)
	}
	switch {
	case old == nil && existing != nil:
		m.fail(rt, "C20:install-result:returned-existing-metadata", "nothing was installed before but Install returned existing metadata %+v", existing)
	case old != nil && (existing == nil || !reflect.DeepEqual(existing, old.meta)):
		m.fail(rt, "C20:install-result:returned-existing-metadata", "Install returned existing metadata %+v, the replaced plugin reported %+v", existing, old.meta)
	}
	m.model[name] = &installed{version: v.script.Version, meta: want, tree: in}
	m.checkAnswers(rt, name, want, "C20:install-result:plugin-answers-wrong-metadata")
	if m.dead {
		return
	}
	m.checkList(rt, "C20:install-result:not-listed")
}

func (m *machine) checkList(rt *rapid.T, key string) {
	got, err := m.mgr.List(ctx)
	sort.Strings(got)
	want := m.names()
	if err != nil || strings.Join(got, ",") != strings.Join(want, ",") {
		m.fail(rt, key, "List returned %v (err %v), installed are %v", got, err, want)
		m.dead = true
	}
}

func (m *machine) uninstall(rt *rapid.T) {
	if m.done() {
		return
	}
	name := m.pickName(rt)
	m.c.Ops = append(m.c.Ops, Op{Kind: "uninstall", Name: name})
	op := &m.c.Ops[len(m.c.Ops)-1]
	m.cls("op=uninstall")
	before := m.snap(rt)
	err := m.mgr.Uninstall(ctx, name)
	after := m.snap(rt)
	in, rest := under(after, name)
	_, restBefore := under(before, name)
	if render(rest) != render(restBefore) {
		m.fail(rt, "C20:uninstall:other-entries-changed", "Uninstall(%q) changed other entries.\nbefore:\n%safter:\n%s", name, render(before), render(after))
		m.dead = true
		return
	}
	if m.model[name] == nil {
		op.Outcome = fmt.Sprint("not installed: ", err)
		m.cls("uninstall=absent")
		// documented: "If the plugin dir does not exist, os.ErrNotExist is returned"
		if err == nil || !errors.Is(err, os.ErrNotExist) {
			m.fail(rt, "C20:uninstall:absent-plugin-error", "Uninstall(%q) of a plugin that is not installed returned %v", name, err)
		}
		if len(in) > 0 {
			m.fail(rt, "C20:uninstall:absent-plugin-created", "Uninstall(%q) created %s", name, render(in))
			m.dead = true
		}
		return
	}
	op.Outcome = fmt.Sprint("removed: ", err)
	m.cls("uninstall=installed")
	if err != nil {
		m.fail(rt, "C20:uninstall:failed", "Uninstall(%q) of an installed plugin failed: %v", name, err)
		m.dead = true
		return
	}
	if len(in) > 0 {
		m.fail(rt, "C20:uninstall:directory-remains", "after Uninstall(%q):\n%s", name, render(in))
		m.dead = true
		return
	}
	delete(m.model, name)
	if _, err := m.mgr.Get(ctx, name); err == nil {
		m.fail(rt, "C20:uninstall:still-fetchable", "Get(%q) succeeds after Uninstall", name)
	}
	m.checkList(rt, "C20:uninstall:still-listed")
}

func (m *machine) get(rt *rapid.T) {
	if m.done() {
		return
	}
	name := m.pickName(rt)
	m.c.Ops = append(m.c.Ops, Op{Kind: "get", Name: name})
	m.cls("op=get")
	if inst := m.model[name]; inst != nil {
		m.cls("get=installed")
		m.checkAnswers(rt, name, inst.meta, "C20:get:installed-plugin-metadata")
		return
	}
	m.cls("get=absent")
	// documented: "If the plugin is not found, the error is of type os.ErrNotExist"
	if _, err := m.mgr.Get(ctx, name); err == nil || !errors.Is(err, os.ErrNotExist) {
		m.fail(rt, "C20:get:absent-plugin-error", "Get(%q) of a plugin that is not installed returned err=%v", name, err)
	}
}

func (m *machine) list(rt *rapid.T) {
	if m.done() {
		return
	}
	m.c.Ops = append(m.c.Ops, Op{Kind: "list"})
	m.cls("op=list")
	m.checkList(rt, "C20:list:names")
}

// invariant: the disk is exactly what the model says (every operation above already compared
// before/after, so a difference here is a bookkeeping error of the harness or an operation
// that changed the tree although it is a pure query).
func (m *machine) invariant(rt *rapid.T) {
	if m.dead {
		return
	}
	want := append([]Entry{}, m.static...)
	for _, n := range m.names() {
		want = append(want, m.model[n].tree...)
	}
	sort.Slice(want, func(i, j int) bool { return want[i].Path < want[j].Path })
	if got := m.snap(rt); render(got) != render(want) {
		if len(m.c.Ops) > 0 && (m.c.Ops[len(m.c.Ops)-1].Kind == "get" || m.c.Ops[len(m.c.Ops)-1].Kind == "list") {
			m.fail(rt, "C20:query:tree-changed", "a Get/List changed the plugin root.\nmodel:\n%sdisk:\n%s", render(want), render(got))
			m.dead = true
			return
		}
		rt.Fatalf("harness: model and disk diverge after %+v.\nmodel:\n%sdisk:\n%s", m.c.Ops, render(want), render(got))
	}
}

func newMachine(rt *rapid.T, rec *stats.Recorder) *machine {
	top, err := os.MkdirTemp("", "c20-")
	if err != nil {
		rt.Fatalf("harness: %v", err)
	}
	// two levels below the temporary directory: a relative spelling of a path in here, evaluated
	// from another directory than the working directory, does not by accident lead back here
	base := filepath.Join(top, "n1", "n2")
	if err := os.MkdirAll(base, 0o755); err != nil {
		rt.Fatalf("harness: %v", err)
	}
	m := &machine{rec: rec, top: top, base: base, root: filepath.Join(base, "plugins"), model: map[string]*installed{}}
	// the plugin root as the caller spells it: absolute, or relative to the working directory
	m.c.RootSpelling = rp.Pick(rt, "rootSpelling", "", "", "relative")
	m.mgr = plugin.NewCLIManager(dir.NewSysFS(spell(m.root, m.c.RootSpelling, true)))
	if m.c.RootSpelling != "" {
		m.cls("plugin-root-spelt-relative")
	}
	m.c.Init = rp.Pick(rt, "init", "absent", "empty", "populated")
	switch m.c.Init {
	case "empty":
		err = os.MkdirAll(m.root, 0o755)
	case "populated": // a plugin and a stray file no operation targets: must stay untouched, gamma is listed
		g := newScript("gamma", "1.2.3", "ok", "g0")
		if err = forceDir(m.root, "gamma", map[string]fileSpec{"notation-gamma": {g.Bytes(), 0o755}, "LICENSE": {[]byte("gamma licence\n"), 0o644}}, "notation-gamma"); err == nil {
			err = writeFile(filepath.Join(m.root, "README"), []byte("stray file\n"), 0o644)
		}
		if err == nil {
			es := m.snap(rt)
			in, rest := under(es, "gamma")
			m.model["gamma"] = &installed{version: "1.2.3", meta: g.Meta(), tree: in}
			m.static = rest
		}
	}
	if err != nil {
		os.RemoveAll(top)
		rt.Fatalf("harness: %v", err)
	}
	return m
}

func TestC20_Sequences(t *testing.T) {
	if msg := selfCheckSemver(); msg != "" {
		t.Fatalf("harness: own semver implementation disagrees with the hand-ordered pool: %s", msg)
	}
	rec := stats.New(t, "C20", rule)
	// rapid's Repeat draws a geometric number of actions around rapid.steps; operations after
	// the sixth are no-ops, so every sequence has at most 6 operations.
	_ = flag.Set("rapid.steps", "12")
	rp.Check(t, 1200, 25000, func(rt *rapid.T) {
		m := newMachine(rt, rec)
		defer os.RemoveAll(m.top)
		rt.Repeat(map[string]func(*rapid.T){
			"":          m.invariant,
			"install-a": m.install,
			"install-b": m.install,
			"install-c": m.install,
			"install-d": m.install,
			"uninstall": m.uninstall,
			"get":       m.get,
			"list":      m.list,
		})
		seq := "seq=plain"
		switch {
		case m.overExist && m.dirExtras:
			seq = "seq=over-existing+dir-extras"
		case m.overExist:
			seq = "seq=over-existing"
		case m.dirExtras:
			seq = "seq=dir-extras"
		}
		c := m.c
		bare := Case{Init: c.Init, Ops: append([]Op{}, c.Ops...)}
		for i := range bare.Ops {
			bare.Ops[i].Outcome = "" // error texts contain the sandbox path
		}
		js, _ := json.Marshal(bare)
		rec.Case([]string{seq, fmt.Sprintf("len=%d", len(c.Ops)), "init=" + c.Init}, m.overExist || m.dirExtras, stats.Fingerprint(js), func() any { return c })
	})
}
