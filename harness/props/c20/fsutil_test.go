package c20

// Tree snapshots and generated plugin sources (shell scripts) for C20.

import (
	"crypto/sha256"
	"encoding/hex"
	"fmt"
	"io/fs"
	"os"
	"path"
	"path/filepath"
	"sort"
	"strings"

	pluginfw "github.com/notaryproject/notation-plugin-framework-go/plugin"
)

// Entry is one node of a tree snapshot (the directory itself is not included).
type Entry struct {
	Path string      // slash separated, relative to the snapshot root
	Mode fs.FileMode // type and permission bits as lstat reports them
	Size int64       // regular files only
	Sum  string      // sha256 of regular files
	Link string      // symlink target
}

func (e Entry) String() string {
	return fmt.Sprintf("%s %v size=%d sha256=%s link=%q", e.Path, e.Mode, e.Size, e.Sum, e.Link)
}

// Snapshot lists everything below dir (paths, modes, sizes, sha256, symlink targets), sorted
// by path. A missing dir is an empty tree.
func Snapshot(dir string) ([]Entry, error) {
	var out []Entry
	if _, err := os.Lstat(dir); os.IsNotExist(err) {
		return nil, nil
	}
	err := filepath.WalkDir(dir, func(p string, d fs.DirEntry, err error) error {
		if err != nil {
			return err
		}
		if p == dir {
			return nil
		}
		rel, err := filepath.Rel(dir, p)
		if err != nil {
			return err
		}
		fi, err := os.Lstat(p)
		if err != nil {
			return err
		}
		e := Entry{Path: filepath.ToSlash(rel), Mode: fi.Mode()}
		switch {
		case fi.Mode().IsRegular():
			b, err := os.ReadFile(p)
			if err != nil {
				return err
			}
			e.Size = fi.Size()
			e.Sum = sum(b)
		case fi.Mode()&fs.ModeSymlink != 0:
			if e.Link, err = os.Readlink(p); err != nil {
				return err
			}
		}
		out = append(out, e)
		return nil
	})
	sort.Slice(out, func(i, j int) bool { return out[i].Path < out[j].Path })
	return out, err
}

func sum(b []byte) string {
	h := sha256.Sum256(b)
	return hex.EncodeToString(h[:])
}

func render(es []Entry) string {
	var sb strings.Builder
	for _, e := range es {
		sb.WriteString(e.String())
		sb.WriteByte('\n')
	}
	return sb.String()
}

// under returns the entries at or below the top-level name; without returns all others.
func under(es []Entry, name string) (in, out []Entry) {
	for _, e := range es {
		if e.Path == name || strings.HasPrefix(e.Path, name+"/") {
			in = append(in, e)
		} else {
			out = append(out, e)
		}
	}
	return
}

// ---- generated plugins ----------------------------------------------------------------

// Script describes one generated plugin executable (a shell script answering every command
// with the same output).
type Script struct {
	MetaName string // name reported in the metadata
	Version  string
	Kind     string // ok | misnamed | badjson | missing | exit1
	Marker   string // makes bytes and description unique
}

const metaKinds = "ok misnamed badjson missing exit1"

func other(name string) string {
	if name == "alpha" {
		return "beta"
	}
	return "alpha"
}

// newScript builds the script of plugin `name`; kind "misnamed" reports the other name.
func newScript(name, version, kind, marker string) Script {
	s := Script{MetaName: name, Version: version, Kind: kind, Marker: marker}
	if kind == "misnamed" {
		s.MetaName = other(name)
	}
	if kind == "misnamed-case" { // the file's name in another letter case is another name
		s.MetaName = strings.ToUpper(name[:1]) + name[1:]
	}
	return s
}

func (s Script) json() string {
	url := `"url":"https://x",`
	if s.Kind == "missing" {
		url = ""
	}
	return fmt.Sprintf(`{"name":%q,"description":%q,"version":%q,%s"supportedContractVersions":["1.0"],"capabilities":["SIGNATURE_GENERATOR.RAW"]}`,
		s.MetaName, "d-"+s.Marker, s.Version, url)
}

// Bytes is the file content. The JSON never contains a single quote, so it is passed to the
// shell's printf builtin inside single quotes (one process per call, no here-doc needed).
func (s Script) Bytes() []byte {
	head := "#!/bin/sh\n# marker " + s.Marker + "\n"
	switch s.Kind {
	case "badjson":
		return []byte(head + "printf '%s\\n' '{\"name\": '\nexit 0\n")
	case "exit1":
		return []byte(head + "exit 1\n")
	case "trailing": // complete metadata followed by something that is not white space: not a JSON reply
		return []byte(head + "printf '%s\n' '" + s.json() + "'\nprintf '%s\n' '{\"more\":1}'\nexit 0\n")
	case "trailing-brace":
		return []byte(head + "printf '%s\n' '" + s.json() + " }'\nexit 0\n")
	}
	return []byte(head + "printf '%s\\n' '" + s.json() + "'\nexit 0\n")
}

// MetadataOK says whether the manager can accept the metadata at all (independent of the
// version rule): complete, well-formed, named like the file. An empty version is a missing
// field.
func (s Script) MetadataOK() bool { return s.Kind == "ok" && s.Version != "" }

// Meta is the metadata the script reports (meaningful when Kind is ok, misnamed or misnamed-case).
func (s Script) Meta() *pluginfw.GetMetadataResponse {
	return &pluginfw.GetMetadataResponse{Name: s.MetaName, Description: "d-" + s.Marker, Version: s.Version, URL: "https://x",
		SupportedContractVersions: []string{"1.0"}, Capabilities: []pluginfw.Capability{"SIGNATURE_GENERATOR.RAW"}}
}

// ---- sources --------------------------------------------------------------------------

// Subdir is a sub-directory of a source directory; Files are slash-separated relative paths.
type Subdir struct {
	Name  string   `json:"name"`
	Files []string `json:"files"`
}

// Src is the structured description of an installation source (also the replay format).
type Src struct {
	Kind     string   `json:"kind"` // file | file-nonexec | file-badname | missing | dir
	Name     string   `json:"name"` // alpha | beta
	Version  string   `json:"version"`
	Meta     string   `json:"meta"`
	Marker   string   `json:"marker"`
	CandExec bool     `json:"cand_exec,omitempty"` // dir: candidate has the executable bit
	NoCand   bool     `json:"no_candidate,omitempty"`
	Extras   []string `json:"extras,omitempty"`  // dir: extra top-level regular files
	Second   string   `json:"second,omitempty"`  // dir: second file named notation-<other>: exec | nonexec
	Subdirs  []Subdir `json:"subdirs,omitempty"` // dir
	Links    []string `json:"links,omitempty"`   // dir: top-level symlinks
	// Spelling: how the path of the source is written in the call - "" canonical, "trailing-slash"
	// (directories), "double-slash", "dot-segment", "up-and-down"; all name the same file or directory
	Spelling string `json:"spelling,omitempty"`
}

// spell rewrites a clean absolute path into another spelling of the same path.
func spell(p, how string, isDir bool) string {
	d, b := filepath.Dir(p), filepath.Base(p)
	switch how {
	case "trailing-slash":
		if isDir {
			return p + "/"
		}
	case "double-slash":
		return d + "//" + b
	case "dot-segment":
		return d + "/./" + b
	case "up-and-down":
		return d + "/" + b + "/../" + b
	case "relative": // relative to the working directory of the process
		if wd, err := os.Getwd(); err == nil {
			if r, err := filepath.Rel(wd, p); err == nil {
				return r
			}
		}
	}
	return p
}

const srcDirName = "pkg" // base name of every source directory; sorts after "notation-*"

type fileSpec struct {
	Content []byte
	Mode    fs.FileMode
}

type candidate struct {
	Plugin string
	Script Script
	Exec   bool
}

// Built is a materialised source together with what the harness knows about it.
type Built struct {
	Path       string              // the PluginPath to install from
	Top        map[string]fileSpec // regular top-level files (for a file source: that file)
	Nested     map[string][]byte   // files inside sub-directories by relative path
	Links      map[string]bool     // top-level symlink names
	Candidates []candidate         // top-level regular files named notation-*
}

var linkTargets = map[string]string{"alink": "LICENSE", "zlinkdir": "lib", "dangling": "nope", "mlink": "notation-alpha"}

// build writes the source below dir (which must not exist) and returns its description.
func build(dir string, s Src) (*Built, error) {
	b := &Built{Top: map[string]fileSpec{}, Nested: map[string][]byte{}, Links: map[string]bool{}}
	if err := os.MkdirAll(dir, 0o755); err != nil {
		return nil, err
	}
	main := newScript(s.Name, s.Version, s.Meta, s.Marker)
	switch s.Kind {
	case "missing":
		b.Path = filepath.Join(dir, "nothing-here")
		return b, nil
	case "file", "file-nonexec", "file-badname":
		fn, mode := "notation-"+s.Name, fs.FileMode(0o755)
		if s.Kind == "file-nonexec" {
			mode = 0o644
		}
		if s.Kind == "file-badname" {
			fn = "plugin-" + s.Name
		}
		b.Path = filepath.Join(dir, fn)
		b.Top[fn] = fileSpec{main.Bytes(), mode}
		if s.Kind != "file-badname" {
			b.Candidates = []candidate{{s.Name, main, mode&0o100 != 0}}
		}
		return b, writeFile(b.Path, main.Bytes(), mode)
	case "dir":
	default:
		return nil, fmt.Errorf("unknown source kind %q", s.Kind)
	}
	root := filepath.Join(dir, srcDirName)
	b.Path = root
	if err := os.Mkdir(root, 0o755); err != nil {
		return nil, err
	}
	if !s.NoCand {
		mode := fs.FileMode(0o644)
		if s.CandExec {
			mode = 0o755
		}
		b.Top["notation-"+s.Name] = fileSpec{main.Bytes(), mode}
		b.Candidates = append(b.Candidates, candidate{s.Name, main, s.CandExec})
	}
	if s.Second != "" {
		sc := newScript(other(s.Name), "3.0.0", "ok", s.Marker+"-second")
		mode := fs.FileMode(0o644)
		if s.Second == "exec" {
			mode = 0o755
		}
		b.Top["notation-"+other(s.Name)] = fileSpec{sc.Bytes(), mode}
		b.Candidates = append(b.Candidates, candidate{other(s.Name), sc, s.Second == "exec"})
	}
	for _, e := range s.Extras {
		b.Top[e] = fileSpec{[]byte("extra " + e + " " + s.Marker + "\n"), 0o644}
	}
	for name, f := range b.Top {
		if err := writeFile(filepath.Join(root, name), f.Content, f.Mode); err != nil {
			return nil, err
		}
	}
	for _, sd := range s.Subdirs {
		for _, f := range sd.Files {
			rel := sd.Name + "/" + f
			content := []byte("nested " + rel + " " + s.Marker + "\n")
			mode := fs.FileMode(0o644)
			if pn, ok := strings.CutPrefix(path.Base(f), "notation-"); ok {
				// a nested file named like a plugin executable: a working plugin of another version
				content = newScript(pn, "9.9.9", "ok", s.Marker+"-nested-"+sd.Name).Bytes()
				mode = 0o755
			}
			b.Nested[rel] = content
			p := filepath.Join(root, filepath.FromSlash(rel))
			if err := os.MkdirAll(filepath.Dir(p), 0o755); err != nil {
				return nil, err
			}
			if err := writeFile(p, content, mode); err != nil {
				return nil, err
			}
		}
		if err := os.MkdirAll(filepath.Join(root, sd.Name), 0o755); err != nil { // empty sub-directory
			return nil, err
		}
	}
	for _, l := range s.Links {
		if err := os.Symlink(linkTargets[l], filepath.Join(root, l)); err != nil {
			return nil, err
		}
		b.Links[l] = true
	}
	sort.Slice(b.Candidates, func(i, j int) bool { return b.Candidates[i].Plugin < b.Candidates[j].Plugin })
	return b, nil
}

func writeFile(p string, content []byte, mode fs.FileMode) error {
	if err := os.WriteFile(p, content, mode); err != nil {
		return err
	}
	return os.Chmod(p, mode) // independent of the umask
}

// forceDir puts <root>/<name> into exactly the state `files` (used only to continue behind a
// known finding).
func forceDir(root, name string, files map[string]fileSpec, execName string) error {
	d := filepath.Join(root, name)
	if err := os.RemoveAll(d); err != nil {
		return err
	}
	if err := os.MkdirAll(d, 0o755); err != nil {
		return err
	}
	for fn, f := range files {
		mode := f.Mode & 0o755
		if fn == execName {
			mode |= 0o100
		}
		if err := writeFile(filepath.Join(d, fn), f.Content, mode); err != nil {
			return err
		}
	}
	return nil
}
