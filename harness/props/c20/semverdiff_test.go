package c20

// Differential check of the version comparison that decides "strictly higher by
// semantic-version precedence": the library's internal comparison (reached through the
// verif-tag export plugin.VerifComparePluginVersion) against the harness's own implementation
// of semver.org (semver_test.go), over version strings generated from a grammar with hostile
// identifiers. The install state machine samples 16 hand-ranked versions through real
// installations; this test puts millions of pairs through the same decision function.

import (
	"fmt"
	"strings"
	"testing"

	"github.com/notaryproject/notation-go/plugin"
	"pgregory.net/rapid"

	"verifharness/internal/rp"
	"verifharness/internal/stats"
)

var (
	coreIDs  = []string{"0", "0", "1", "1", "2", "9", "10", "11", "99", "100", "4294967296", "18446744073709551615", "18446744073709551616", "99999999999999999999999"}
	preIDs   = []string{"0", "1", "2", "9", "10", "11", "a", "A", "b", "alpha", "beta", "rc", "-", "--", "a-b", "0a", "1a", "a1", "x-1", "Z", "z", "18446744073709551616", "99999999999999999999998", "99999999999999999999999"}
	buildIDs = []string{"b1", "001", "-", "a", "0", "exp-sha-5114f85"}
	badIDs   = []string{"", "01", "00", "a_b", "a b", "é", "１", "+", "1.", ".", "a\n"}
)

func genVersion(rt *rapid.T, label string) string {
	damage := rp.Pick(rt, label+"damage", "", "", "", "", "", "", "", "", "prefix", "suffix", "bad-core", "bad-core", "bad-pre", "bad-build", "drop-part", "extra-part")
	var core, pre, build []string
	for i := 0; i < 3; i++ {
		core = append(core, rp.Pick(rt, label+"core", coreIDs...))
	}
	for i, n := 0, rp.Pick(rt, label+"preN", 0, 0, 1, 1, 2, 3); i < n; i++ {
		pre = append(pre, rp.Pick(rt, label+"pre", preIDs...))
	}
	for i, n := 0, rp.Pick(rt, label+"buildN", 0, 0, 0, 1, 2); i < n; i++ {
		build = append(build, rp.Pick(rt, label+"build", buildIDs...))
	}
	bad := func() string { return rp.Pick(rt, label+"bad", badIDs...) }
	switch damage {
	case "bad-core":
		core[rapid.IntRange(0, 2).Draw(rt, label+"badAt")] = bad()
	case "bad-pre":
		pre = append(pre, "")
		copy(pre[1:], pre)
		pre[0] = bad()
		if len(pre) > 1 && rapid.Bool().Draw(rt, label+"badLast") {
			pre[0], pre[len(pre)-1] = pre[len(pre)-1], pre[0]
		}
	case "bad-build":
		build = append(build, bad())
	case "drop-part":
		core = core[1:]
	case "extra-part":
		core = append(core, rp.Pick(rt, label+"core", coreIDs...))
	}
	s := strings.Join(core, ".")
	if len(pre) > 0 {
		s += "-" + strings.Join(pre, ".")
	}
	if len(build) > 0 {
		s += "+" + strings.Join(build, ".")
	}
	switch damage {
	case "prefix":
		s = rp.Pick(rt, label+"pfx", "v", " ", "V", "=", "+", "-", "0") + s
	case "suffix":
		s += rp.Pick(rt, label+"sfx", " ", "\n", "-", "+", ".", "\x00", "+b+c")
	}
	return s
}

// judgeVersions compares the library's answer for (a, b) with the reference; returns key, message.
func judgeVersions(a, b string) (string, string, []string) {
	pa, okA := parseSemver(a)
	pb, okB := parseSemver(b)
	var cl []string
	for _, x := range []struct {
		s  string
		ok bool
	}{{a, okA}, {b, okB}} {
		if got := plugin.VerifIsValidVersion(x.s); got != x.ok {
			return "C20:semver:validity", fmt.Sprintf("version %q: library says valid=%v, semver.org says %v", x.s, got, x.ok), nil
		}
	}
	got, err := plugin.VerifComparePluginVersion(a, b)
	if !okA || !okB {
		cl = append(cl, "semver-pair-with-invalid")
		if err == nil {
			return "C20:semver:invalid-compared", fmt.Sprintf("comparing %q with %q gave %d without an error although one of them is not a semantic version", a, b, got), cl
		}
		return "", "", cl
	}
	if err != nil {
		return "C20:semver:valid-refused", fmt.Sprintf("comparing the valid versions %q and %q failed: %v", a, b, err), cl
	}
	want := semverCompare(pa, pb)
	cl = append(cl, "semver-pair-valid", fmt.Sprintf("semver-order=%d", want))
	if pa.pre != nil || pb.pre != nil {
		cl = append(cl, "semver-with-prerelease")
	}
	if want == 0 && a != b {
		cl = append(cl, "semver-equal-but-different-text")
	}
	if sign(got) != want {
		return "C20:semver:precedence", fmt.Sprintf("precedence of %q vs %q: library %d, semver.org section 11 says %d", a, b, got, want), cl
	}
	back, err := plugin.VerifComparePluginVersion(b, a)
	if err != nil || sign(back) != -want {
		return "C20:semver:antisymmetry", fmt.Sprintf("compare(%q,%q)=%d but compare(%q,%q)=%d (%v)", a, b, got, b, a, back, err), cl
	}
	return "", "", cl
}

func TestC20_SemverDifferential(t *testing.T) {
	rec := stats.New(t, "C20", rule)
	if msg := selfCheckSemver(); msg != "" {
		t.Fatalf("harness: reference semver implementation disagrees with its own table: %s", msg)
	}
	var pair [2]string
	if rp.ReplayCase(&pair) {
		if key, msg, _ := judgeVersions(pair[0], pair[1]); key != "" {
			rec.Failf(t, key, pair, "%s", msg)
		}
		return
	}
	rp.Check(t, 60000, 6000000, func(rt *rapid.T) {
		a := genVersion(rt, "a")
		b := a
		switch rp.Pick(rt, "relation", "independent", "independent", "same-core", "same-but-build", "identical") {
		case "independent":
			b = genVersion(rt, "b")
		case "same-core": // same MAJOR.MINOR.PATCH, another tail: the pre-release rules decide
			core := strings.SplitN(strings.SplitN(a, "+", 2)[0], "-", 2)[0]
			tail := genVersion(rt, "b")
			if i := strings.IndexAny(tail, "-+"); i >= 0 {
				b = core + tail[i:]
			} else {
				b = core
			}
		case "same-but-build":
			b = strings.SplitN(a, "+", 2)[0] + "+" + rp.Pick(rt, "otherBuild", buildIDs...)
		}
		key, msg, cl := judgeVersions(a, b)
		rec.Case(append(cl, "semver-differential"), true, stats.Fingerprint("semver", a, b), func() any { return [2]string{a, b} })
		if key != "" {
			rec.Failf(rt, key, [2]string{a, b}, "%s", msg)
		}
	})
}

// FuzzC20_Semver: the same oracle under Go's coverage-guided fuzzer (thorough tier).
func FuzzC20_Semver(f *testing.F) {
	rec := stats.New(f, "C20", rule)
	for i, a := range validVersions {
		f.Add(a.v, validVersions[(i+1)%len(validVersions)].v)
	}
	for _, s := range invalidVersions {
		f.Add(s, "1.0.0")
	}
	f.Add("1.0.0-18446744073709551616", "1.0.0-99999999999999999999999")
	f.Add("1.0.0-a.b.c+x.y", "1.0.0-a.b+z")
	f.Fuzz(func(t *testing.T, a, b string) {
		key, msg, cl := judgeVersions(a, b)
		rec.Case(append(cl, "semver-fuzz"), true, stats.Fingerprint("semver", a, b), func() any { return [2]string{a, b} })
		if key != "" {
			rec.Failf(t, key, [2]string{a, b}, "%s", msg)
		}
	})
}
