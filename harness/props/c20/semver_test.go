package c20

// The harness's own semantic-version implementation, written from https://semver.org
// (sections 2, 9, 10 for validity and section 11 for precedence). It deliberately does not
// use golang.org/x/mod/semver or the library's internal/semver.

import "strings"

type semVersion struct {
	core [3]string // numeric identifiers as digit strings (no leading zeros)
	pre  []string  // pre-release identifiers; nil when absent
}

func isDigits(s string) bool {
	if s == "" {
		return false
	}
	for i := 0; i < len(s); i++ {
		if s[i] < '0' || s[i] > '9' {
			return false
		}
	}
	return true
}

func isIdentChars(s string) bool {
	if s == "" {
		return false
	}
	for i := 0; i < len(s); i++ {
		c := s[i]
		if !(c >= '0' && c <= '9' || c >= 'a' && c <= 'z' || c >= 'A' && c <= 'Z' || c == '-') {
			return false
		}
	}
	return true
}

// numericOK: a numeric identifier is "0" or digits without a leading zero.
func numericOK(s string) bool {
	return isDigits(s) && (s == "0" || s[0] != '0')
}

// parseSemver parses MAJOR.MINOR.PATCH[-pre][+build]; ok=false for anything else.
func parseSemver(s string) (v semVersion, ok bool) {
	rest := s
	if i := strings.IndexByte(rest, '+'); i >= 0 {
		build := rest[i+1:]
		rest = rest[:i]
		for _, id := range strings.Split(build, ".") {
			if !isIdentChars(id) { // section 10: non-empty, [0-9A-Za-z-]
				return v, false
			}
		}
	}
	if i := strings.IndexByte(rest, '-'); i >= 0 {
		pre := rest[i+1:]
		rest = rest[:i]
		for _, id := range strings.Split(pre, ".") {
			if !isIdentChars(id) { // section 9: non-empty, [0-9A-Za-z-]
				return v, false
			}
			if isDigits(id) && !numericOK(id) { // numeric identifiers: no leading zeros
				return v, false
			}
			v.pre = append(v.pre, id)
		}
	}
	parts := strings.Split(rest, ".")
	if len(parts) != 3 {
		return v, false
	}
	for i, p := range parts {
		if !numericOK(p) { // section 2
			return v, false
		}
		v.core[i] = p
	}
	return v, true
}

// cmpNumeric compares two digit strings without leading zeros numerically.
func cmpNumeric(a, b string) int {
	if len(a) != len(b) {
		if len(a) < len(b) {
			return -1
		}
		return 1
	}
	return strings.Compare(a, b)
}

// semverCompare implements section 11. Both arguments must be valid.
func semverCompare(a, b semVersion) int {
	for i := 0; i < 3; i++ { // 11.2
		if c := cmpNumeric(a.core[i], b.core[i]); c != 0 {
			return c
		}
	}
	// 11.3: a pre-release version has lower precedence than the normal version
	switch {
	case a.pre == nil && b.pre == nil:
		return 0
	case a.pre == nil:
		return 1
	case b.pre == nil:
		return -1
	}
	// 11.4
	for i := 0; i < len(a.pre) && i < len(b.pre); i++ {
		x, y := a.pre[i], b.pre[i]
		xn, yn := isDigits(x), isDigits(y)
		var c int
		switch {
		case xn && yn: // 11.4.1
			c = cmpNumeric(x, y)
		case xn: // 11.4.3 numeric < alphanumeric
			c = -1
		case yn:
			c = 1
		default: // 11.4.2 ASCII order
			c = strings.Compare(x, y)
		}
		if c != 0 {
			return c
		}
	}
	switch { // 11.4.4 larger set of fields wins
	case len(a.pre) < len(b.pre):
		return -1
	case len(a.pre) > len(b.pre):
		return 1
	}
	return 0
}

// validVersions is ordered by precedence; the rank (second field) is equal for versions
// that differ only in build metadata. The order is stated here by hand from the examples
// of semver.org section 11 and is cross-checked against semverCompare by selfCheckSemver.
var validVersions = []struct {
	v    string
	rank int
}{
	{"0.9.0", 0},
	{"1.0.0-2", 1},
	{"1.0.0-10", 2}, // numeric identifiers compare numerically: 2 < 10
	{"1.0.0-a", 3},  // numeric < alphanumeric
	{"1.0.0-alpha", 4},
	{"1.0.0-alpha.1", 5}, // larger set of fields wins
	{"1.0.0-alpha.beta", 6},
	{"1.0.0-rc.1", 7},
	{"1.0.0-rc.1+b1", 7},
	{"1.0.0", 8},
	{"1.0.0+b1", 8},
	{"1.0.0+b2", 8},
	{"1.9.0", 9},
	{"1.10.0", 10}, // string order would say 1.10.0 < 1.9.0
	{"2.0.0", 11},
	{"10.0.0", 12}, // string order would say 10.0.0 < 2.0.0
}

// "1.0" and "2" are shorthands some comparison libraries accept as 1.0.0 / 2.0.0
var invalidVersions = []string{"1.0", "2", "v1.0.0", "01.0.0", "1.0.0-01", ""}

func sign(x int) int {
	switch {
	case x < 0:
		return -1
	case x > 0:
		return 1
	}
	return 0
}

// selfCheckSemver returns a description of the first disagreement between the hand-written
// ranks and semverCompare, or "".
func selfCheckSemver() string {
	for _, a := range validVersions {
		pa, ok := parseSemver(a.v)
		if !ok {
			return "valid version rejected: " + a.v
		}
		for _, b := range validVersions {
			pb, _ := parseSemver(b.v)
			if semverCompare(pa, pb) != sign(a.rank-b.rank) {
				return "precedence of " + a.v + " vs " + b.v
			}
		}
	}
	for _, s := range append([]string{"1", "1.0.0.0", "1.0.0-", "1.0.0+", "1.0.0-a..b", "1.0.0-a_b", " 1.0.0", "1.0.0 ", "-1.0.0", "1.00.0"}, invalidVersions...) {
		if _, ok := parseSemver(s); ok {
			return "invalid version accepted: " + s
		}
	}
	return ""
}
