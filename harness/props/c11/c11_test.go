// C11 — signing an OCI artifact signs exactly what was resolved and changes nothing else.
// Sequences of 1..3 SignOCI calls against a retaining scripted repository, an in-memory
// store and an on-disk OCI layout; deep-snapshot and tree-diff oracles. DESIGN.md section 5, C11.
package c11

import (
	"context"
	"crypto/sha256"
	"encoding/hex"
	"encoding/json"
	"errors"
	"fmt"
	"os"
	"path/filepath"
	"reflect"
	"sort"
	"strings"
	"sync"
	"testing"
	"time"

	"github.com/notaryproject/notation-core-go/signature"
	"github.com/notaryproject/notation-go"
	"github.com/notaryproject/notation-go/registry"
	"github.com/notaryproject/notation-go/signer"
	pf "github.com/notaryproject/notation-plugin-framework-go/plugin"
	"github.com/opencontainers/go-digest"
	ocispec "github.com/opencontainers/image-spec/specs-go/v1"
	"oras.land/oras-go/v2"
	"oras.land/oras-go/v2/content/memory"
	"oras.land/oras-go/v2/content/oci"
	"pgregory.net/rapid"

	"verifharness/internal/envb"
	"verifharness/internal/mocks"
	"verifharness/internal/pki"
	"verifharness/internal/rp"
	"verifharness/internal/sandbox"
	"verifharness/internal/stats"
)

const rule = "case = (repository kind, artifact annotations, user metadata shape, reference shape, number of identical SignOCI calls, reopen between calls); non-trivial = the artifact has annotations or the sequence has >= 2 calls; distinct by the tuple"

// Case is the replay format.
type Case struct {
	Repo      string            `json:"repo"` // scripted memory oci-layout
	ArtAnn    map[string]string `json:"artifactAnnotations"`
	Metadata  map[string]string `json:"metadata"`
	MetaKind  string            `json:"metaKind"` // nil empty disjoint colliding reserved
	Ref       string            `json:"ref"`      // tag digest full-tag full-digest digest-elsewhere
	Calls     int               `json:"calls"`
	Reopen    bool              `json:"reopen"`
	Format    string            `json:"format"`
	PluginCfg map[string]string `json:"pluginConfig"`
	// SignerAnn: the signer also offers manifest annotations of its own (as a plugin-backed signer
	// does): "disjoint" keys, or "clashing" with the thumbprint / signing-time annotations, which
	// the statement fixes
	SignerAnn string `json:"signerAnnotations,omitempty"`
	// PluginSigner: the signer is the library's plugin-backed signer around an honest in-process
	// plugin ("raw" or "envelope" generator), created with a signer-level plugin configuration
	PluginSigner string `json:"pluginSigner,omitempty"`
	// MovingTag (scripted repository): what the reference names changes after it has been resolved once
	MovingTag bool `json:"movingTag,omitempty"`
	// TwinChain: the signer uses a re-issued twin of the usual chain: same subjects, same serial
	// numbers, other keys (the annotations speak about the certificates actually used)
	TwinChain bool `json:"twinChain,omitempty"`
	// Zone: the local time zone of the signing process ("" = UTC as in this sandbox, else an offset in
	// minutes east of Greenwich): the signing-time annotation names an instant, wherever the host is
	Zone int `json:"zone,omitempty"`
	// KeySpec: the signer's key is of another kind than the default P-256 (its signature
	// algorithm then uses another hash than SHA-256; the thumbprints are SHA-256 all the same)
	KeySpec string `json:"keySpec,omitempty"`
	// ElsewhereAlg / ElsewhereForm (Ref digest-elsewhere): the digest reference that the
	// repository resolves to a different digest uses this algorithm and this spelling
	ElsewhereAlg  string `json:"elsewhereAlg,omitempty"`  // "" (sha256) sha384 sha512
	ElsewhereForm string `json:"elsewhereForm,omitempty"` // "" bare digest, "repo@digest", "repo:tag@digest"
}

var (
	once  sync.Once
	chain *pki.Chain
)

func theChain() *pki.Chain {
	once.Do(func() {
		chain = pki.NewChain(pki.ChainOpts{Intermediates: 1, Name: "c11"})
		twin = pki.NewChain(pki.ChainOpts{Intermediates: 1, Name: "c11", SerialsOf: chain})
	})
	return chain
}

var twin *pki.Chain

// chainOf is the chain the case's signer uses.
func chainOf(c *Case) *pki.Chain {
	theChain()
	if c.KeySpec != "" {
		specMu.Lock()
		defer specMu.Unlock()
		if specChains[c.KeySpec] == nil {
			specChains[c.KeySpec] = pki.NewChain(pki.ChainOpts{Intermediates: 1, Name: "c11 " + c.KeySpec, LeafKey: pki.Key(c.KeySpec, 0)})
		}
		return specChains[c.KeySpec]
	}
	if c.TwinChain {
		return twin
	}
	return chain
}

var (
	specMu     sync.Mutex
	specChains = map[string]*pki.Chain{}
)

// spySigner wraps the real local signer and records what it was asked to sign.
type spySigner struct {
	inner notation.Signer
	got   []ocispec.Descriptor
	opts  []notation.SignerSignOptions
}

func (s *spySigner) Sign(ctx context.Context, desc ocispec.Descriptor, opts notation.SignerSignOptions) ([]byte, *signature.SignerInfo, error) {
	s.got = append(s.got, deepCopyDesc(desc))
	s.opts = append(s.opts, opts)
	return s.inner.Sign(ctx, desc, opts)
}

// annSpySigner is a spySigner that also offers manifest annotations (a fresh map per call).
type annSpySigner struct {
	*spySigner
	kind string
}

func (a annSpySigner) PluginAnnotations() map[string]string {
	m := map[string]string{"com.example.plugin.note": "from the signer"}
	if a.kind == "clashing" {
		m["io.cncf.notary.x509chain.thumbprint#S256"] = `["0000000000000000000000000000000000000000000000000000000000000000"]`
		m["org.opencontainers.image.created"] = "1999-12-31T23:59:59Z"
	}
	return m
}

func deepCopyDesc(d ocispec.Descriptor) ocispec.Descriptor {
	c := d
	if d.Annotations != nil {
		c.Annotations = map[string]string{}
		for k, v := range d.Annotations {
			c.Annotations[k] = v
		}
	}
	c.URLs = append([]string(nil), d.URLs...)
	c.Data = append([]byte(nil), d.Data...)
	return c
}

// spyRepo wraps a repository and records pushes; in "scripted" mode it is the whole
// repository and retains (shares) the descriptor it hands out.
type push struct {
	mediaType   string
	blob        []byte
	subject     ocispec.Descriptor
	annotations map[string]string
}

type spyRepo struct {
	inner    registry.Repository // nil => scripted
	retained ocispec.Descriptor  // scripted: handed out as is, Annotations map shared
	elseDesc ocispec.Descriptor  // what a "digest-elsewhere" reference resolves to
	pushes   []push
	resolves []string
	resolved []ocispec.Descriptor // pristine copies of what Resolve returned
	// moving (scripted): the tag / digest resolves to the artifact the first time it is asked for within a
	// signing call and to another manifest from then on (somebody re-tags while the signer works)
	moving       bool
	callResolves int
}

func (r *spyRepo) Resolve(ctx context.Context, ref string) (ocispec.Descriptor, error) {
	r.resolves = append(r.resolves, ref)
	var d ocispec.Descriptor
	var err error
	switch {
	case r.inner != nil:
		d, err = r.inner.Resolve(ctx, ref)
	case (ref == "v1" || ref == r.retained.Digest.String()) && r.moving && r.callResolves > 0:
		d = r.elseDesc
	case ref == "v1" || ref == r.retained.Digest.String():
		d = r.retained // shares the Annotations map on purpose, as caching stores do
	default:
		d = r.elseDesc
	}
	r.callResolves++
	if err == nil {
		r.resolved = append(r.resolved, deepCopyDesc(d))
	}
	return d, err
}
func (r *spyRepo) ListSignatures(ctx context.Context, d ocispec.Descriptor, fn func([]ocispec.Descriptor) error) error {
	if r.inner != nil {
		return r.inner.ListSignatures(ctx, d, fn)
	}
	return fn(nil)
}
func (r *spyRepo) FetchSignatureBlob(ctx context.Context, d ocispec.Descriptor) ([]byte, ocispec.Descriptor, error) {
	if r.inner != nil {
		return r.inner.FetchSignatureBlob(ctx, d)
	}
	return nil, ocispec.Descriptor{}, errors.New("not stored")
}
func (r *spyRepo) PushSignature(ctx context.Context, mediaType string, blob []byte, subject ocispec.Descriptor, annotations map[string]string) (ocispec.Descriptor, ocispec.Descriptor, error) {
	ann := map[string]string{}
	for k, v := range annotations {
		ann[k] = v
	}
	r.pushes = append(r.pushes, push{mediaType, append([]byte{}, blob...), deepCopyDesc(subject), ann})
	if r.inner != nil {
		return r.inner.PushSignature(ctx, mediaType, blob, subject, annotations)
	}
	return ocispec.Descriptor{MediaType: mediaType, Digest: digest.FromBytes(blob), Size: int64(len(blob))},
		ocispec.Descriptor{MediaType: ocispec.MediaTypeImageManifest, Digest: digest.FromString(fmt.Sprint("m", len(r.pushes))), Size: 7}, nil
}

func copyMap(m map[string]string) map[string]string {
	if m == nil {
		return nil
	}
	c := map[string]string{}
	for k, v := range m {
		c[k] = v
	}
	return c
}

func thumbprints(certs []*pki.Cert) string {
	var tp []string
	for _, c := range certs {
		s := sha256.Sum256(c.Cert.Raw)
		tp = append(tp, hex.EncodeToString(s[:]))
	}
	b, _ := json.Marshal(tp)
	return string(b)
}

type indexEntry struct {
	Digest      string            `json:"digest"`
	MediaType   string            `json:"mediaType"`
	Size        int64             `json:"size"`
	Annotations map[string]string `json:"annotations"`
}

func readIndexEntry(dir string, dg digest.Digest) (*indexEntry, error) {
	b, err := os.ReadFile(filepath.Join(dir, "index.json"))
	if err != nil {
		return nil, err
	}
	var idx struct {
		Manifests []indexEntry `json:"manifests"`
	}
	if err := json.Unmarshal(b, &idx); err != nil {
		return nil, err
	}
	for _, m := range idx.Manifests {
		if m.Digest == dg.String() {
			e := m
			return &e, nil
		}
	}
	return nil, nil
}

func run(c *Case) (string, string) {
	ctx := context.Background()
	if c.Zone != 0 {
		old := time.Local
		time.Local = time.FixedZone("verif", c.Zone*60)
		defer func() { time.Local = old }()
	}
	ch := chainOf(c)
	var inner notation.Signer
	inner, err := signer.NewGenericSigner(ch.Leaf().Key, ch.X509())
	if err != nil {
		return "harness", err.Error()
	}
	if c.PluginSigner != "" {
		caps := []pf.Capability{pf.CapabilitySignatureGenerator}
		if strings.HasPrefix(c.PluginSigner, "envelope") {
			caps = []pf.Capability{pf.CapabilityEnvelopeGenerator}
		}
		ps, err := signer.NewPluginSigner(&mocks.HonestSignPlugin{Caps: caps, Chain: ch, KeySpec: keySpecOf(c), DropAnnotations: c.PluginSigner == "envelope-drops-annotations"}, "key-1", map[string]string{"signer-level": "configuration", "k": "signer"})
		if err != nil {
			return "harness", err.Error()
		}
		inner = ps
	}
	repo := &spyRepo{}
	var dir string
	var art, elsewhere ocispec.Descriptor
	open := func() (registry.Repository, error) { return nil, nil }
	switch c.Repo {
	case "scripted":
		art = ocispec.Descriptor{MediaType: ocispec.MediaTypeImageManifest, Digest: digest.FromString("c11 artifact"), Size: 321, Annotations: copyMap(c.ArtAnn)}
		elsewhere = ocispec.Descriptor{MediaType: ocispec.MediaTypeImageManifest, Digest: digest.FromString("c11 other artifact"), Size: 99}
		repo.retained, repo.elseDesc = art, elsewhere
	case "memory", "oci-layout":
		var store oras.GraphTarget
		if c.Repo == "memory" {
			store = memory.New()
		} else {
			d, err := os.MkdirTemp("", "c11-")
			if err != nil {
				return "harness", err.Error()
			}
			dir = d
			defer os.RemoveAll(dir)
			s, err := oci.New(dir)
			if err != nil {
				return "harness", err.Error()
			}
			store = s
		}
		packed, err := oras.PackManifest(ctx, store, oras.PackManifestVersion1_1, "application/vnd.verif.c11", oras.PackManifestOptions{ManifestAnnotations: map[string]string{"org.opencontainers.image.created": "2026-01-01T00:00:00Z"}})
		if err != nil {
			return "harness", "pack: " + err.Error()
		}
		art = packed
		art.Annotations = copyMap(c.ArtAnn)
		art.ArtifactType = ""
		if err := store.Tag(ctx, art, "v1"); err != nil {
			return "harness", "tag: " + err.Error()
		}
		if c.Repo == "memory" { // the memory store resolves only what was tagged; registries resolve digests too
			plain := packed
			plain.ArtifactType = ""
			if err := store.Tag(ctx, plain, art.Digest.String()); err != nil {
				return "harness", "tag: " + err.Error()
			}
		}
		other, err := oras.PackManifest(ctx, store, oras.PackManifestVersion1_1, "application/vnd.verif.c11.other", oras.PackManifestOptions{ManifestAnnotations: map[string]string{"org.opencontainers.image.created": "2026-01-02T00:00:00Z"}})
		if err != nil {
			return "harness", "pack: " + err.Error()
		}
		elsewhere = other
		if c.Repo == "memory" {
			repo.inner = registry.NewRepository(store)
		} else {
			open = func() (registry.Repository, error) {
				return registry.NewOCIRepository(dir, registry.RepositoryOptions{})
			}
			r, err := open()
			if err != nil {
				return "harness", "open layout: " + err.Error()
			}
			repo.inner = r
		}
	}
	reference := map[string]string{"tag": "v1", "digest": art.Digest.String(), "full-tag": "registry.example/c11/repo:v1",
		"full-digest": "registry.example/c11/repo@" + art.Digest.String()}[c.Ref]
	if c.Ref == "digest-elsewhere" {
		// a digest reference the repository resolves to a different digest
		if c.Repo != "scripted" {
			return "harness", "digest-elsewhere needs the scripted repository"
		}
		alg := map[string]digest.Algorithm{"": digest.SHA256, "sha384": digest.SHA384, "sha512": digest.SHA512}[c.ElsewhereAlg]
		reference = map[string]string{"": "", "repo@digest": "registry.example/c11/repo@", "repo:tag@digest": "registry.example/c11/repo:v1@"}[c.ElsewhereForm] + alg.FromString("c11 dangling").String()
	}
	refuse := ""
	switch {
	case c.Ref == "digest-elsewhere":
		refuse = "digest-mismatch"
	case c.MetaKind == "reserved":
		refuse = "reserved-prefix"
	}
	var firstSnapshot sandbox.Tree
	var entryBefore *indexEntry
	if dir != "" {
		firstSnapshot, _ = sandbox.Snapshot(dir)
		entryBefore, _ = readIndexEntry(dir, art.Digest)
		if entryBefore == nil {
			return "harness", "artifact not in index.json"
		}
	}
	site := c.Repo + ":" + c.Ref
	// the repository's view of the artifact, by tag and by digest, before any signing call
	viewOf := func() map[string]ocispec.Descriptor {
		view := map[string]ocispec.Descriptor{}
		if repo.inner == nil {
			return view
		}
		for _, r := range []string{"v1", art.Digest.String()} {
			if d, err := repo.inner.Resolve(ctx, r); err == nil {
				view[r] = deepCopyDesc(d)
			}
		}
		return view
	}
	view0 := viewOf()
	succeeded := 0 // calls that had to succeed (and, having got past the checks below, did)
	for call := 1; call <= c.Calls; call++ {
		if call > 1 && c.Reopen && dir != "" {
			r, err := open()
			if err != nil {
				return "C11:layout-unusable-after-sign:" + site, fmt.Sprintf("re-opening the layout after call %d failed: %v", call-1, err)
			}
			repo.inner = r
		}
		spy := &spySigner{inner: inner}
		meta, cfg := copyMap(c.Metadata), copyMap(c.PluginCfg)
		retainedBefore := deepCopyDesc(repo.retained)
		pushesBefore := len(repo.pushes)
		var before sandbox.Tree
		if dir != "" {
			before, _ = sandbox.Snapshot(dir)
		}
		opts := notation.SignOptions{SignerSignOptions: notation.SignerSignOptions{SignatureMediaType: c.Format, PluginConfig: cfg, SigningAgent: "c11"}, ArtifactReference: reference, UserMetadata: meta}
		repo.moving, repo.callResolves = c.MovingTag && c.Repo == "scripted", 0
		var theSigner notation.Signer = spy
		if c.SignerAnn != "" {
			theSigner = annSpySigner{spy, c.SignerAnn}
		}
		artDesc, sigDesc, err := notation.SignOCI(ctx, theSigner, repo, opts)
		// the caller's option maps are never changed
		if !reflect.DeepEqual(meta, c.Metadata) || !reflect.DeepEqual(cfg, c.PluginCfg) {
			return "C11:caller-maps-changed:" + site, fmt.Sprintf("call %d changed the caller's option maps: metadata %v (was %v), plugin config %v (was %v)", call, meta, c.Metadata, cfg, c.PluginCfg)
		}
		// the descriptor objects it was handed are unchanged
		if c.Repo == "scripted" && !reflect.DeepEqual(deepCopyDesc(repo.retained), retainedBefore) {
			return "C11:resolved-descriptor-mutated:" + site, fmt.Sprintf("call %d changed the descriptor the repository handed out: annotations %v (were %v)", call, repo.retained.Annotations, retainedBefore.Annotations)
		}
		refuse := refuse
		if refuse == "" && len(repo.resolved) > 0 {
			// metadata that would overwrite an annotation of the artifact as it was resolved
			for k := range c.Metadata {
				if _, ok := repo.resolved[len(repo.resolved)-1].Annotations[k]; ok {
					refuse = "colliding-annotation"
				}
			}
		}
		if view := viewOf(); !reflect.DeepEqual(view, view0) {
			return "C11:repository-view-of-artifact-changed:" + site, fmt.Sprintf("after call %d the repository resolves the artifact to %+v, before any call to %+v", call, view, view0)
		}
		if refuse == "" && c.PluginSigner == "envelope-drops-annotations" && len(repo.resolved) > 0 && (len(repo.resolved[len(repo.resolved)-1].Annotations) > 0 || len(c.Metadata) > 0) {
			// the plugin signed something else than "the resolved descriptor plus the user metadata"
			refuse = "plugin-signed-without-annotations"
		}
		if refuse != "" {
			if err == nil {
				return "C11:not-refused:" + refuse + ":" + site, fmt.Sprintf("call %d succeeded although it must be refused (%s)", call, refuse)
			}
			if len(repo.pushes) != pushesBefore {
				return "C11:refused-after-push:" + refuse + ":" + site, "a refused signing call pushed a signature"
			}
			if dir != "" {
				after, _ := sandbox.Snapshot(dir)
				if d := sandbox.Diff(before, after); len(d) > 0 {
					return "C11:refused-but-layout-changed:" + refuse + ":" + site, fmt.Sprintf("refused call changed the layout: %v", d)
				}
			}
			continue
		}
		succeeded++
		if err != nil {
			if call == 1 {
				return "C11:legal-sign-failed:" + site, fmt.Sprintf("first signing call failed: %v", err)
			}
			return "C11:repeat-sign-failed:" + site, fmt.Sprintf("call %d with the same options failed after call 1 succeeded: %v", call, err)
		}
		if len(spy.got) != 1 || len(repo.pushes) != pushesBefore+1 || len(repo.resolved) == 0 {
			return "C11:call-counts:" + site, fmt.Sprintf("call %d: signer invoked %d times, %d pushes", call, len(spy.got), len(repo.pushes)-pushesBefore)
		}
		resolved := repo.resolved[len(repo.resolved)-1]
		if artDesc.Digest != resolved.Digest || artDesc.Digest != art.Digest {
			return "C11:returned-descriptor:" + site, fmt.Sprintf("returned artifact descriptor %v, resolved %v", artDesc.Digest, resolved.Digest)
		}
		// the signer received exactly resolved descriptor + metadata
		wantAnn := copyMap(resolved.Annotations)
		if len(c.Metadata) > 0 && wantAnn == nil {
			wantAnn = map[string]string{}
		}
		for k, v := range c.Metadata {
			wantAnn[k] = v
		}
		got := spy.got[0]
		if got.Digest != resolved.Digest || got.Size != resolved.Size || got.MediaType != resolved.MediaType {
			return "C11:signer-input:descriptor:" + site, fmt.Sprintf("signer received %v/%d/%s, resolved was %v/%d/%s", got.Digest, got.Size, got.MediaType, resolved.Digest, resolved.Size, resolved.MediaType)
		}
		if !eqMap(got.Annotations, wantAnn) {
			return "C11:signer-input:annotations:" + site, fmt.Sprintf("call %d: signer received annotations %v, expected resolved annotations + metadata = %v", call, got.Annotations, wantAnn)
		}
		// the produced envelope's payload equals it
		p := repo.pushes[len(repo.pushes)-1]
		if p.mediaType != c.Format {
			return "C11:push:media-type:" + site, fmt.Sprintf("pushed as %q, requested %q", p.mediaType, c.Format)
		}
		ver, verr := envb.IndependentVerify(c.Format, p.blob)
		if verr != nil {
			return "C11:push:invalid-envelope:" + site, verr.Error()
		}
		tgt, derr := envb.DecodeTarget(ver.Payload)
		if derr != nil || !tgt.HasTarget {
			return "C11:push:payload-shape:" + site, string(ver.Payload)
		}
		if tgt.Digest != resolved.Digest.String() || tgt.Size.String() != fmt.Sprint(resolved.Size) || tgt.MediaType != resolved.MediaType || !eqMap(tgt.Annotations, wantAnn) {
			return "C11:push:payload-content:" + site, fmt.Sprintf("signed payload %s does not equal resolved descriptor + metadata (%v)", ver.Payload, wantAnn)
		}
		// pushed with the resolved descriptor as subject, and the prescribed annotations
		if !reflect.DeepEqual(p.subject, resolved) {
			return "C11:push:subject-not-resolved-descriptor:" + site, fmt.Sprintf("call %d: subject %+v differs from the resolved descriptor %+v", call, p.subject, resolved)
		}
		var keys []string
		for k := range p.annotations {
			keys = append(keys, k)
		}
		sort.Strings(keys)
		wantKeys := "io.cncf.notary.x509chain.thumbprint#S256,org.opencontainers.image.created"
		gotKeys := strings.Join(keys, ",")
		if c.SignerAnn != "" { // what the signer offers beside the two prescribed annotations may be passed on
			gotKeys = strings.TrimPrefix(gotKeys, "com.example.plugin.note,")
		}
		if gotKeys != wantKeys {
			return "C11:push:annotation-keys:" + site, fmt.Sprintf("signature manifest annotations %v", p.annotations)
		}
		if p.annotations["io.cncf.notary.x509chain.thumbprint#S256"] != thumbprints(chainOf(c).Certs) {
			return "C11:push:thumbprints:" + site, p.annotations["io.cncf.notary.x509chain.thumbprint#S256"]
		}
		st, _, terr := envelopeSigningTime(c.Format, p.blob)
		created, perr := time.Parse(time.RFC3339, p.annotations["org.opencontainers.image.created"])
		if terr != nil || perr != nil || !created.Equal(st) {
			return "C11:push:created-annotation:" + site, fmt.Sprintf("created=%q signing time=%v (%v %v)", p.annotations["org.opencontainers.image.created"], st, terr, perr)
		}
		// on disk: exactly one manifest + envelope blob (+ empty config on first call) + index entry
		if dir != "" {
			after, _ := sandbox.Snapshot(dir)
			d := sandbox.Diff(before, after)
			added, other := 0, []string{}
			for _, line := range d {
				switch {
				case strings.HasPrefix(line, "+ blobs/"):
					added++
				case line == "~ index.json":
				default:
					other = append(other, line)
				}
			}
			if len(other) > 0 || added < 2 || added > 3 {
				return "C11:layout-diff:" + site, fmt.Sprintf("call %d changed the layout by %v", call, d)
			}
			entry, _ := readIndexEntry(dir, art.Digest)
			if entry == nil || !reflect.DeepEqual(entry, entryBefore) {
				return "C11:artifact-index-entry-changed:" + site, fmt.Sprintf("call %d: the artifact's index.json entry is now %+v, was %+v", call, entry, entryBefore)
			}
			for path, e := range firstSnapshot {
				if path != "index.json" && after[path] != e {
					return "C11:preexisting-blob-changed:" + site, path
				}
			}
			_ = sigDesc
		}
	}
	if dir != "" && succeeded > 0 {
		// "attaches it to that resolved artifact": what was attached is there for whoever opens the
		// layout next (a later process), not only for the handle that signed
		fresh, err := open()
		if err != nil {
			return "C11:layout-unusable-after-sign:" + site, fmt.Sprintf("opening the layout after the last call failed: %v", err)
		}
		d, err := fresh.Resolve(ctx, "v1")
		if err != nil {
			return "C11:layout-unusable-after-sign:" + site, fmt.Sprintf("resolving the artifact through a fresh handle failed: %v", err)
		}
		n := 0
		if err := fresh.ListSignatures(ctx, d, func(ds []ocispec.Descriptor) error { n += len(ds); return nil }); err != nil || n != succeeded {
			return "C11:attached-signatures-not-visible-through-a-fresh-handle:" + site, fmt.Sprintf("%d successful SignOCI calls; a handle opened afterwards lists %d signatures of the artifact (err %v)", succeeded, n, err)
		}
	}
	return "", ""
}

func eqMap(a, b map[string]string) bool {
	if len(a) != len(b) {
		return false
	}
	for k, v := range a {
		if w, ok := b[k]; !ok || w != v {
			return false
		}
	}
	return true
}

func TestC11_Sequences(t *testing.T) {
	rec := stats.New(t, "C11", rule)
	rp.Check(t, 2400, 400000, func(rt *rapid.T) {
		c := &Case{Repo: rp.Pick(rt, "repo", "scripted", "scripted", "memory", "oci-layout", "oci-layout"), Format: rp.Pick(rt, "format", envb.MTJWS, envb.MTCOSE),
			Calls: rapid.IntRange(1, 3).Draw(rt, "calls"), Reopen: rapid.Bool().Draw(rt, "reopen")}
		switch rp.Pick(rt, "artifactAnnotations", "none", "some", "some", "empty-map") {
		case "some":
			c.ArtAnn = map[string]string{"org.example.title": "artifact", "env": rp.Pick(rt, "annEnv", "prod", "")}
		case "empty-map":
			c.ArtAnn = map[string]string{}
		}
		c.MetaKind = rp.Pick(rt, "metadata", "nil", "empty", "disjoint", "disjoint", "disjoint", "colliding", "reserved")
		if c.MetaKind == "colliding" && len(c.ArtAnn) == 0 {
			c.MetaKind = "disjoint"
		}
		switch c.MetaKind {
		case "empty":
			c.Metadata = map[string]string{}
		case "disjoint":
			c.Metadata = map[string]string{"build": rp.Pick(rt, "mv", "42", ""), "stage": "release"}
			if rapid.Bool().Draw(rt, "one") {
				delete(c.Metadata, "stage")
			}
		case "colliding":
			c.Metadata = map[string]string{"env": rp.Pick(rt, "collideValue", "prod", "other"), "build": "42"}
		case "reserved":
			c.Metadata = map[string]string{rp.Pick(rt, "reservedKey", "io.cncf.notary.x", "io.cncf.notary", "io.cncf.notary.x509chain.thumbprint#S256", "io.cncf.notary-verified", "io.cncf.notaryproject.ok", "io.cncf.notary#S256", "io.cncf.notary/x", "io.cncf.notary "): "v", "build": "42"}
		}
		c.Ref = rp.Pick(rt, "ref", "tag", "tag", "digest", "full-tag", "full-digest", "digest-elsewhere")
		c.SignerAnn = rp.Pick(rt, "signerAnnotations", "", "", "disjoint", "clashing", "clashing")
		c.PluginSigner = rp.Pick(rt, "pluginSigner", "", "", "raw", "envelope", "envelope-drops-annotations")
		c.MovingTag = c.Repo == "scripted" && rapid.IntRange(0, 2).Draw(rt, "movingTag") == 0
		c.TwinChain = rapid.Bool().Draw(rt, "twinChain")
		c.Zone = rp.Pick(rt, "zone", 0, 0, 330, -480, 840, -210)
		if c.Ref == "digest-elsewhere" && c.Repo != "scripted" {
			c.Ref = "tag"
		}
		if c.Ref == "digest-elsewhere" {
			c.ElsewhereAlg = rp.Pick(rt, "elsewhereAlg", "", "sha384", "sha512", "sha512")
			c.ElsewhereForm = rp.Pick(rt, "elsewhereForm", "", "", "repo@digest", "repo:tag@digest")
		}
		if !c.TwinChain {
			c.KeySpec = rp.Pick(rt, "keySpec", "", "EC-384", "EC-521", "RSA-3072")
		}
		if rapid.Bool().Draw(rt, "pluginConfig") {
			c.PluginCfg = map[string]string{"k": "v"}
		}
		cl := []string{"repo=" + c.Repo, "meta=" + c.MetaKind, "ref=" + c.Ref, fmt.Sprintf("calls=%d", c.Calls)}
		if c.Calls >= 2 {
			cl = append(cl, "calls>=2")
		}
		if c.Ref == "digest-elsewhere" {
			cl = append(cl, "ref=digest-mismatch")
			if c.ElsewhereAlg != "" {
				cl = append(cl, "ref=digest-mismatch-other-algorithm")
			}
		}
		if c.KeySpec != "" {
			cl = append(cl, "signing-key-with-other-hash-than-sha256")
		}
		if len(c.ArtAnn) > 0 {
			cl = append(cl, "artifact-annotations")
		}
		if c.Reopen && c.Repo == "oci-layout" && c.Calls >= 2 {
			cl = append(cl, "reopen")
		}
		if c.SignerAnn != "" {
			cl = append(cl, "signer-annotations="+c.SignerAnn)
		}
		if c.PluginSigner != "" {
			cl = append(cl, "plugin-backed-signer="+c.PluginSigner)
		}
		if c.MovingTag {
			cl = append(cl, "reference-moves-after-first-resolve")
		}
		if c.Zone != 0 {
			cl = append(cl, "host-not-in-utc")
		}
		rec.Case(cl, len(c.ArtAnn) > 0 || c.Calls >= 2, stats.Fingerprint(fmt.Sprintf("%+v", *c)), func() any { return c })
		key, msg := run(c)
		if key == "harness" {
			rt.Fatalf("harness: %s (%+v)", msg, *c)
		}
		if key != "" {
			rec.Failf(rt, key, c, "%s", msg)
		}
	})
}

func keySpecOf(c *Case) string {
	if c.KeySpec != "" {
		return c.KeySpec
	}
	return "EC-256"
}
