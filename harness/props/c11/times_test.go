package c11

import (
	"encoding/base64"
	"encoding/json"
	"fmt"
	"time"

	"github.com/fxamacker/cbor/v2"

	"verifharness/internal/envb"
)

// envelopeSigningTime reads signing time and expiry from the protected header (own parsing).
func envelopeSigningTime(format string, env []byte) (signing, expiry time.Time, err error) {
	if format == envb.MTJWS {
		p, e := envb.SplitJWS(env)
		if e != nil {
			return signing, expiry, e
		}
		raw, e := base64.RawURLEncoding.DecodeString(p.Protected)
		if e != nil {
			return signing, expiry, e
		}
		var h map[string]any
		if e := json.Unmarshal(raw, &h); e != nil {
			return signing, expiry, e
		}
		if s, ok := h["io.cncf.notary.signingTime"].(string); ok {
			signing, err = time.Parse(time.RFC3339, s)
		}
		return
	}
	m, e := envb.SplitCOSE(env)
	if e != nil {
		return signing, expiry, e
	}
	var h map[any]any
	if e := cbor.Unmarshal(m.Protected, &h); e != nil {
		return signing, expiry, e
	}
	switch x := h["io.cncf.notary.signingTime"].(type) {
	case time.Time:
		signing = x
	case cbor.Tag:
		switch n := x.Content.(type) {
		case uint64:
			signing = time.Unix(int64(n), 0)
		case int64:
			signing = time.Unix(n, 0)
		}
	case uint64:
		signing = time.Unix(int64(x), 0)
	default:
		err = fmt.Errorf("unexpected time encoding %T", x)
	}
	return
}
