package c17

import (
	"context"
	"fmt"
	"sync"
	"testing"

	"github.com/notaryproject/notation-go/log"
	"pgregory.net/rapid"

	"verifharness/internal/stats"
)

// hookLogger is a log.Logger whose every method runs fn: the library's own log statements
// become points at which the harness schedules other work.
type hookLogger struct{ fn func() }

func (h hookLogger) Debug(args ...interface{})                 { h.fn() }
func (h hookLogger) Debugf(format string, args ...interface{}) { h.fn() }
func (h hookLogger) Debugln(args ...interface{})               { h.fn() }
func (h hookLogger) Info(args ...interface{})                  { h.fn() }
func (h hookLogger) Infof(format string, args ...interface{})  { h.fn() }
func (h hookLogger) Infoln(args ...interface{})                { h.fn() }
func (h hookLogger) Warn(args ...interface{})                  { h.fn() }
func (h hookLogger) Warnf(format string, args ...interface{})  { h.fn() }
func (h hookLogger) Warnln(args ...interface{})                { h.fn() }
func (h hookLogger) Error(args ...interface{})                 { h.fn() }
func (h hookLogger) Errorf(format string, args ...interface{}) { h.fn() }
func (h hookLogger) Errorln(args ...interface{})               { h.fn() }

// TestC17_InterleavedReplies owns the schedule instead of hoping for it: plugin A is called with a
// context whose logger, at every log statement the library makes during the call (before the
// process starts, after it ended, before the reply is decoded ...), lets ANOTHER goroutine make a
// complete call to plugin B and waits for it. Both calls are judged by their own scripts. A host
// that shares anything between calls (buffers, decoded values, error objects) shows here whatever
// the timing of the machine.
func TestC17_InterleavedReplies(t *testing.T) {
	rec := stats.New(t, "C17", rule)
	shard, shards := stats.Shard()
	if shard != 3%shards {
		t.Skip("runs in one shard")
	}
	if _, err := fakepluginBinary(); err != nil {
		t.Fatalf("harness: %v", err)
	}
	n := 16
	if stats.Tier() == "thorough" {
		n = 120
	}
	var cases []*Case
	var sbs []*sandbox
	defer func() {
		for _, sb := range sbs {
			sb.cleanup()
		}
	}()
	for i := 0; len(cases) < n; i++ {
		c := rapid.Custom(genProduct).Example(int(stats.Seed()>>8) + 9000 + i)
		if c.Kill || c.Ctx == "cancelable" {
			continue
		}
		c.Test = "interleaved"
		sb, err := prepare(c)
		if err != nil {
			t.Fatalf("harness: sandbox: %v", err)
		}
		cases, sbs = append(cases, c), append(sbs, sb)
	}
	hooks := 0
	for i := range cases {
		a, sa := cases[i], sbs[i]
		b, sb := cases[(i+1)%n], sbs[(i+1)%n]
		var inner []*result
		sa.base = log.WithLogger(context.Background(), hookLogger{fn: func() {
			if len(inner) >= 6 {
				return
			}
			done := make(chan *result)
			go func() { done <- sb.call(b) }()
			inner = append(inner, <-done)
		}})
		ra := sa.call(a)
		sa.base = nil
		hooks += len(inner)
		rec.Case([]string{"interleaved-calls", fmt.Sprintf("interleaved-at-%d-points", len(inner))}, len(inner) > 0, stats.Fingerprint("interleaved", a.Name, b.Name, a.Stdout, b.Stdout), func() any {
			return map[string]any{"outer": a, "inner": b, "innerCalls": len(inner)}
		})
		if ra.getErr != nil {
			t.Fatalf("harness: %v", ra.getErr)
		}
		if key, msg := judgeOutcome(a, ra); key != "" {
			rec.Failf(t, "C17:interleaved:outer:"+key[len("C17:"):], map[string]any{"outer": a, "inner": b}, "a complete call to another plugin ran at %d log points of this call: %s", len(inner), msg)
			return
		}
		for _, rb := range inner {
			if rb.getErr != nil {
				t.Fatalf("harness: %v", rb.getErr)
			}
			if key, msg := judgeOutcome(b, rb); key != "" {
				rec.Failf(t, "C17:interleaved:inner:"+key[len("C17:"):], map[string]any{"outer": a, "inner": b}, "called from a log point of another plugin call: %s", msg)
				return
			}
		}
	}
	rec.Add("count_interleaving_points", int64(hooks))
	if hooks == 0 {
		t.Fatalf("harness: the library made no log statement during %d plugin calls: the interleaving test is vacuous", n)
	}
}

// TestC17_ConcurrentReplies: "a call succeeds only if THE process exited successfully with a reply
// of the expected shape ... a failing process yields THE plugin's own error": every call is judged
// by what its own process printed, also when several plugin calls run in the same host process at
// the same time. Eight different scripted plugins (valid replies with distinct values, malformed
// replies, failing processes with distinct structured errors) are called in parallel, over and
// over, each judged by the ordinary single-call oracle against its own script. Runs in one shard.
func TestC17_ConcurrentReplies(t *testing.T) {
	rec := stats.New(t, "C17", rule)
	shard, shards := stats.Shard()
	if shard != 2%shards {
		t.Skip("runs in one shard")
	}
	if _, err := fakepluginBinary(); err != nil {
		t.Fatalf("harness: %v", err)
	}
	const workers = 8
	rounds := 25
	if stats.Tier() == "thorough" {
		rounds = 200
	}
	var cases []*Case
	var sbs []*sandbox
	defer func() {
		for _, sb := range sbs {
			sb.cleanup()
		}
	}()
	for i := 0; len(cases) < workers; i++ {
		c := rapid.Custom(genProduct).Example(int(stats.Seed()>>8) + 5000 + i)
		if c.Kill || c.Ctx == "cancelable" {
			continue // keep the concurrent calls cheap and their outcome independent of timing
		}
		c.Test = "concurrent"
		sb, err := prepare(c)
		if err != nil {
			t.Fatalf("harness: sandbox: %v", err)
		}
		cases, sbs = append(cases, c), append(sbs, sb)
	}
	type bad struct {
		key, msg string
		c        *Case
	}
	var mu sync.Mutex
	var first *bad
	calls := 0
	var wg sync.WaitGroup
	for w := 0; w < workers; w++ {
		c, sb := cases[w], sbs[w]
		wg.Add(1)
		go func() {
			defer wg.Done()
			for i := 0; i < rounds; i++ {
				mu.Lock()
				stop := first != nil
				mu.Unlock()
				if stop {
					return
				}
				r := sb.call(c)
				mu.Lock()
				calls++
				if r.getErr != nil {
					if first == nil {
						first = &bad{"harness", r.getErr.Error(), c}
					}
				} else if key, msg := judgeOutcome(c, r); key != "" && first == nil {
					first = &bad{key, msg, c}
				}
				mu.Unlock()
			}
		}()
	}
	wg.Wait()
	rec.Case([]string{"concurrent-calls"}, true, stats.Fingerprint("concurrent", workers, rounds), func() any {
		return map[string]any{"plugins": workers, "calls": calls}
	})
	rec.Add("count_concurrent_plugin_calls", int64(calls))
	if first == nil {
		return
	}
	if first.key == "harness" {
		t.Fatalf("harness: %s", first.msg)
	}
	rec.Failf(t, "C17:concurrent:"+first.key[len("C17:"):], first.c, "with %d plugin calls in flight in one process: %s", workers, fmt.Sprint(first.msg))
}
