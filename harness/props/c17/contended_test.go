package c17

import (
	"context"
	"sync"
	"testing"
	"time"

	"github.com/notaryproject/notation-go/plugin"

	"verifharness/internal/stats"
)

// TestC17_Contended: the bound on a call's return after its deadline must not depend on how many
// other plugin calls are in flight in the same process. Seven calls hang in slow plugins (their
// contexts stay open), then one more call with a 400 ms deadline is made; it has to come back within
// the same bound as if it were alone.
func TestC17_Contended(t *testing.T) {
	rec := stats.New(t, "C17", rule)
	shard, shards := stats.Shard()
	if shard != 1%shards {
		t.Skip("runs in one shard")
	}
	var slow []*Case
	for _, c := range timingCases(84, uint64(stats.Seed())) {
		if c.Timing == "slow" {
			slow = append(slow, c)
		}
	}
	const hangers = 7
	if len(slow) < hangers+1 {
		t.Fatalf("harness: only %d slow cases", len(slow))
	}
	var sbs []*sandbox
	defer func() {
		for _, sb := range sbs {
			sb.stopDescendants()
			sb.cleanup()
		}
	}()
	for _, c := range slow[:hangers+1] {
		sb, err := prepare(c)
		if err != nil {
			t.Fatalf("harness: sandbox: %v", err)
		}
		sbs = append(sbs, sb)
	}
	bg := context.Background()
	var wg sync.WaitGroup
	var cancels []context.CancelFunc
	for i := 0; i < hangers; i++ {
		c, sb := slow[i], sbs[i]
		p, err := plugin.NewCLIPlugin(bg, c.Name, sb.exe)
		if err != nil {
			t.Fatalf("harness: %v", err)
		}
		ctx, cancel := context.WithCancel(bg)
		cancels = append(cancels, cancel)
		wg.Add(1)
		go func() {
			defer wg.Done()
			request(c.Cmd, false)(ctx, p)
		}()
	}
	// wait until the hanging plugins really run
	deadline := time.Now().Add(20 * time.Second)
	for i := 0; i < hangers; i++ {
		for !sbs[i].started() && time.Now().Before(deadline) {
			time.Sleep(20 * time.Millisecond)
		}
	}
	running := 0
	for i := 0; i < hangers; i++ {
		if sbs[i].started() {
			running++
		}
	}
	probe := slow[hangers]
	probe.Ctx, probe.DeadlineMs, probe.CancelMs = "deadline", 400, 0
	r := sbs[hangers].call(probe)
	for _, cancel := range cancels {
		cancel()
	}
	wg.Wait()
	rec.Case([]string{"timing=contended"}, true, stats.Fingerprint("contended", running), func() any {
		return map[string]any{"calls_in_flight": running, "probe_deadline_ms": 400, "probe_returned_after_ms": r.elapsed.Milliseconds()}
	})
	rec.Set("contended_calls_in_flight", running)
	if r.getErr != nil {
		t.Fatalf("harness: %v", r.getErr)
	}
	if r.late {
		rec.Failf(t, "C17:time:blocked-behind-other-plugin-calls", probe, "with %d other plugin calls in flight, a call with a 400 ms deadline was still blocked %v after the deadline (it returned after %v)", running, timeBound, r.elapsed)
	}
}
