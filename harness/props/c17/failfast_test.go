package c17

import (
	"fmt"
	"os"
	"strconv"
	"strings"
	"sync"
	"testing"
	"time"

	"pgregory.net/rapid"

	"verifharness/internal/stats"
)

// TestC17_FailingFastUnderDeadline: a plugin that fails at once with a structured error - every
// error code, the ones that sound retryable (TIMEOUT, THROTTLED) included - is called under a
// deadline of a few hundred milliseconds and under a cancellation. The process is gone long
// before the context ends, so nothing can justify a return later than the usual bound after it,
// and the error has to be the plugin's own. Runs in one shard, all calls in parallel.
func TestC17_FailingFastUnderDeadline(t *testing.T) {
	rec := stats.New(t, "C17", rule)
	shard, shards := stats.Shard()
	if shard != 4%shards {
		t.Skip("runs in one shard")
	}
	if _, err := fakepluginBinary(); err != nil {
		t.Fatalf("harness: %v", err)
	}
	var cases []*Case
	for i, code := range errorCodes {
		for j, ctxKind := range []string{"deadline", "cancel"} {
			c := rapid.Custom(func(rt *rapid.T) *Case { return genBase(rt, commands[(i+j)%len(commands)]) }).Example(int(stats.Seed()>>8) + 7000 + 2*i + j)
			c.Test, c.Timing = "failfast", "failing-fast"
			c.Exit, c.Err, c.ErrCode = 1+i%2, "structured", code
			c.Stderr = structuredError(c)
			c.Ctx, c.DeadlineMs, c.CancelMs = ctxKind, 0, 0
			if ctxKind == "deadline" {
				c.DeadlineMs = 2500
			} else {
				c.CancelMs = 2500
			}
			cases = append(cases, c)
		}
	}
	sbs := make([]*sandbox, len(cases))
	for i, c := range cases {
		sb, err := prepare(c)
		if err != nil {
			t.Fatalf("harness: sandbox: %v", err)
		}
		sbs[i] = sb
	}
	defer func() {
		for _, sb := range sbs {
			sb.cleanup()
		}
	}()
	results := make([]*result, len(cases))
	starts := make([]time.Time, len(cases))
	var wg sync.WaitGroup
	for i := range cases {
		wg.Add(1)
		go func(i int) {
			defer wg.Done()
			starts[i] = time.Now()
			results[i] = sbs[i].call(cases[i])
		}(i)
	}
	wg.Wait()
	for i, c := range cases {
		r := results[i]
		if r.getErr != nil {
			t.Fatalf("harness: obtaining the plugin %q failed: %v", c.Name, r.getErr)
		}
		rec.Case([]string{"timingkind=failing-fast", "failing-fast-code=" + c.ErrCode, "ctx=" + c.Ctx}, true, stats.Fingerprint("failfast", c.ErrCode, c.Ctx, c.Cmd), func() any { return c })
		if r.late {
			rec.Failf(t, "C17:time:failing-plugin-not-returned", c, "the plugin failed at once with %s; the context ended after %d ms, yet %s was still blocked %v after that (it returned after %v)",
				c.ErrCode, c.DeadlineMs+c.CancelMs, c.Cmd, timeBound, r.elapsed.Round(time.Millisecond))
			continue
		}
		// The plugin's first (and, as far as the statement goes, only) run started - and, having
		// nothing to do but print its error, ended - at firstRun. When that was more than a second
		// before the context ended, the host had the process's exit status and complete output in
		// hand with the context still alive: the ordinary outcome oracle applies in full, whenever
		// the call returned. (starts[i] is earlier than the creation of the call's context.)
		ctxEnd := starts[i].Add(time.Duration(c.DeadlineMs+c.CancelMs) * time.Millisecond)
		firstRun, ok := firstRunOf(sbs[i])
		if ok && firstRun.Add(time.Second).Before(ctxEnd) {
			rec.Class("failing-fast-judged-in-full", 1)
			plain := *c
			plain.Timing = "immediate" // judged like a call without any time pressure
			if key, msg := judgeOutcome(&plain, r); key != "" {
				rec.Failf(t, key, c, "the plugin had failed with its structured error %v before the context ended, the call returned after %v: %s", ctxEnd.Sub(firstRun).Round(time.Millisecond), r.elapsed.Round(time.Millisecond), fmt.Sprint(msg))
			}
		} else if r.err == nil {
			rec.Failf(t, "C17:success-only-if:exit-nonzero", c, "%s succeeded although the process ended with exit=%d", c.Cmd, c.Exit)
		}
	}
}

// firstRunOf reads the start time of the plugin's first execution from the sandbox's marker file.
func firstRunOf(sb *sandbox) (time.Time, bool) {
	b, err := os.ReadFile(sb.marker)
	if err != nil {
		return time.Time{}, false
	}
	line, _, _ := strings.Cut(string(b), "\n")
	_, ts, ok := strings.Cut(line, "\t")
	if !ok {
		return time.Time{}, false
	}
	n, err := strconv.ParseInt(strings.TrimSpace(ts), 10, 64)
	if err != nil {
		return time.Time{}, false
	}
	return time.Unix(0, n), true
}
