// C17 — plugin processes are contained: validated replies, bounded output, bounded time.
//
// Every case runs a REAL child process: cmd/fakeplugin hard-linked to <root>/<name>/notation-<name>
// with a side-car behaviour.json that scripts exit status, stdout, stderr and timing. The oracle is
// decided from the structured behaviour the generator built (DESIGN.md section 5, C17):
//
//   - success  <=>  exit 0 /\ the reply decodes as the expected shape /\ (metadata) every mandatory field
//     present and non-empty, contract version supported, name == the plugin's name; on success the
//     response equals the generated reply field by field;
//   - a failing process (exit != 0, killed) yields proto.RequestError with the printed code / message /
//     metadata when stderr is a structured error, else a typed PluginMalformedError /
//     PluginExecutableFileError (which of the two is not in the statement: either is accepted);
//   - exit 0 with a bad reply => some error (its type is not in the statement, only recorded);
//   - an over-cap reply is never a success, an over-cap error message is never returned in full, and the
//     host's cumulative allocation during the call stays <= 8 x cap;
//   - with deadline / cancellation at d the call returns within d + 10 s even if a descendant that
//     inherited stdout/stderr sleeps 40 s.
package c17

import (
	"bytes"
	"context"
	"encoding/json"
	"errors"
	"fmt"
	"go/constant"
	"go/token"
	"go/types"
	"io"
	"os"
	"os/exec"
	"path/filepath"
	"reflect"
	"regexp"
	"runtime"
	"runtime/debug"
	"sort"
	"strconv"
	"strings"
	"sync"
	"syscall"
	"testing"
	"time"

	"github.com/notaryproject/notation-go/dir"
	"github.com/notaryproject/notation-go/plugin"
	"github.com/notaryproject/notation-go/plugin/proto"
	pf "github.com/notaryproject/notation-plugin-framework-go/plugin"
	"pgregory.net/rapid"

	"verifharness/internal/rp"
	"verifharness/internal/stats"
)

const rule = "case = (command, exit status, stdout kind, stderr kind (+ error code), timing kind, context kind, access path) with generated reply / error values; " +
	"non-trivial = anything but (exit 0, valid reply, immediate); distinct by the behaviour tuple (kinds, not the generated texts)"

const (
	defaultCap  = 64 << 20         // maxPluginOutputSize in /repo/plugin/plugin.go (unexported)
	allocFactor = 8                // DESIGN C17: cumulative allocation during a call <= 8 x cap (deliberately generous)
	timeBound   = 10 * time.Second // DESIGN C17: B; descendants sleep 40 s, so the margin is immune to load
	longSleepMs = 40000
)

// outputCap reads maxPluginOutputSize from the source under test (a parameter of the property, not its
// behaviour); falls back to 64 MiB when the constant cannot be read.
var outputCap = sync.OnceValue(func() int64 {
	repo := os.Getenv("VERIF_REPO")
	if repo == "" {
		repo = "/repo"
	}
	src, err := os.ReadFile(filepath.Join(repo, "plugin", "plugin.go"))
	if err != nil {
		return defaultCap
	}
	m := regexp.MustCompile(`(?m)^\s*(?:const\s+)?maxPluginOutputSize\s*(?:int64\s*)?=\s*([^/\n]+)`).FindSubmatch(src)
	if m == nil {
		return defaultCap
	}
	tv, err := types.Eval(token.NewFileSet(), nil, token.NoPos, strings.TrimSpace(string(m[1])))
	if err != nil || tv.Value == nil {
		return defaultCap
	}
	v, ok := constant.Int64Val(constant.ToInt(tv.Value))
	if !ok || v < 1<<20 || v > 256<<20 {
		return defaultCap
	}
	return v
})

// ---------------------------------------------------------------------------------------------
// the case

// Case is one scripted plugin behaviour plus the call made against it (also the replay format).
type Case struct {
	Test   string `json:"test"` // product | cap | timing
	Name   string `json:"name"` // plugin name
	Via    string `json:"via"`  // new (plugin.NewCLIPlugin) | manager (CLIManager.Get)
	Cmd    string `json:"cmd"`
	Exit   int    `json:"exit"`
	Kill   bool   `json:"kill"`   // the plugin kills itself with SIGKILL after writing its output
	Out    string `json:"out"`    // stdout kind
	Err    string `json:"err"`    // stderr kind
	Timing string `json:"timing"` // immediate | slow | cancel | descendant* | nodeadline
	Ctx    string `json:"ctx"`    // background | generous | cancelable | deadline | cancel

	Reply  string `json:"reply"`  // the generated VALID reply (JSON of the response struct): the expectation on success
	Stdout string `json:"stdout"` // what the plugin prints on stdout (before padding)
	Stderr string `json:"stderr"` // what the plugin prints on stderr (before padding)

	ErrCode string            `json:"errCode,omitempty"` // generated structured error
	ErrMsg  string            `json:"errMsg,omitempty"`
	ErrMeta map[string]string `json:"errMeta,omitempty"`

	PadStdout    int64  `json:"padStdout,omitempty"`
	// Earlier: before the judged call the SAME plugin object answers one get-plugin-metadata call
	// with a complete, valid reply (the executable's behaviour is rewritten in between): what a
	// plugin object saw in an earlier reply is not part of a later reply
	Earlier      bool   `json:"earlier,omitempty"`
	// ExeLink (metadata, reply with a wrong name): <root>/<name>/notation-<name> is a symbolic link to
	// an executable called notation-<ExeLink>, and the reply names <ExeLink>: the plugin's file name
	// is the name it is installed and looked up under, not where a link leads
	ExeLink      string `json:"exeLink,omitempty"`
	PadStderr    int64  `json:"padStderr,omitempty"`
	PadStdoutKey string `json:"padStdoutKey,omitempty"`
	PadStderrKey string `json:"padStderrKey,omitempty"`

	DeadlineMs   int `json:"deadlineMs,omitempty"`
	CancelMs     int `json:"cancelMs,omitempty"`
	SleepMs      int `json:"sleepMs,omitempty"`
	ChildSleepMs int `json:"childSleepMs,omitempty"`
	// ChildDetached: the descendant holding the pipes has left the plugin's session and process group
	ChildDetached bool `json:"childDetached,omitempty"`
	// LingerMs: the plugin writes its complete output at once and then stays alive that long
	LingerMs int `json:"lingerMs,omitempty"`
	// UnreadStdin: the request is far larger than a pipe buffer (1 MiB), neither the plugin nor its
	// descendant ever reads it, and the descendant keeps the request pipe open as well
	UnreadStdin bool `json:"unreadStdin,omitempty"`
	// BlankStdout / StdoutTail: after the stdout text the plugin writes that many blanks and then the tail
	BlankStdout int64  `json:"blankStdout,omitempty"`
	StdoutTail  string `json:"stdoutTail,omitempty"`

	want any // the generated response struct (nil after a replay: then decoded from Reply)
}

var commands = []string{"get-plugin-metadata", "describe-key", "generate-signature", "generate-envelope", "verify-signature"}

var errorCodes = []string{"VALIDATION_ERROR", "UNSUPPORTED_CONTRACT_VERSION", "ACCESS_DENIED", "TIMEOUT", "THROTTLED", "ERROR"}

var metaFields = []string{"name", "description", "version", "url", "supportedContractVersions", "capabilities"}

// ---------------------------------------------------------------------------------------------
// generators

var textRunes = []rune("abcxyzXYZ0189 _-./:;=+\"\\'<>&{}[](),\n\t\u00e9\u00df\u6f22\U0001F600\u2028")

// genText: non-empty, starts with a letter (so that it is not blank), valid UTF-8.
func genText(rt *rapid.T, label string) string {
	first := rapid.RuneFrom([]rune("abcdefghkmnpqrstwxyzABCXYZ")).Draw(rt, label+"0")
	return string(first) + rapid.StringOfN(rapid.RuneFrom(textRunes), 0, 24, -1).Draw(rt, label)
}

func genBytes(rt *rapid.T, label string) []byte {
	return rapid.SliceOfN(rapid.Byte(), 1, 40).Draw(rt, label)
}

func genName(rt *rapid.T) string {
	return rapid.StringMatching(`[a-z][a-z0-9]{0,6}(-[a-z0-9]{1,3})?`).Draw(rt, "name")
}

func genStrMap(rt *rapid.T, label string, max int) map[string]string {
	n := rapid.IntRange(0, max).Draw(rt, label+"N")
	if n == 0 {
		return nil
	}
	m := map[string]string{}
	for i := 0; i < n; i++ {
		m[fmt.Sprintf("k%d%s", i, rapid.StringMatching(`[a-zA-Z.]{0,6}`).Draw(rt, label+"K"))] = genText(rt, label+"V")
	}
	return m
}

var unsupportedVersions = []string{"2.0", "0.1", "1.1", "3.5", "10"}

var capabilities = []pf.Capability{pf.CapabilitySignatureGenerator, pf.CapabilityEnvelopeGenerator,
	pf.CapabilityTrustedIdentityVerifier, pf.CapabilityRevocationCheckVerifier}

// genReply draws a valid reply of the command's response type.
func genReply(rt *rapid.T, cmd, name string) any {
	switch cmd {
	case "get-plugin-metadata":
		var vers []string
		for i, n := 0, rapid.IntRange(0, 2).Draw(rt, "otherVersions"); i < n; i++ {
			vers = append(vers, rp.Pick(rt, "otherVersion", unsupportedVersions...))
		}
		at := rapid.IntRange(0, len(vers)).Draw(rt, "supportedAt")
		vers = append(vers[:at:at], append([]string{pf.ContractVersion}, vers[at:]...)...)
		var caps []pf.Capability
		for _, c := range capabilities {
			if rapid.Bool().Draw(rt, "cap") {
				caps = append(caps, c)
			}
		}
		if len(caps) == 0 {
			caps = append(caps, rp.Pick(rt, "cap1", capabilities...))
		}
		return &pf.GetMetadataResponse{
			Name:        name,
			Description: genText(rt, "description"),
			Version: fmt.Sprintf("%d.%d.%d", rapid.IntRange(0, 20).Draw(rt, "maj"), rapid.IntRange(0, 20).Draw(rt, "min"),
				rapid.IntRange(0, 20).Draw(rt, "pat")),
			URL:                       "https://" + rapid.StringMatching(`[a-z]{1,8}\.example/[a-z0-9]{0,6}`).Draw(rt, "url"),
			SupportedContractVersions: vers,
			Capabilities:              caps,
		}
	case "describe-key":
		return &pf.DescribeKeyResponse{KeyID: genText(rt, "keyId"),
			KeySpec: rp.Pick(rt, "keySpec", pf.KeySpecRSA2048, pf.KeySpecRSA3072, pf.KeySpecRSA4096, pf.KeySpecEC256, pf.KeySpecEC384, pf.KeySpecEC521)}
	case "generate-signature":
		chain := [][]byte{}
		for i, n := 0, rapid.IntRange(1, 3).Draw(rt, "chainLen"); i < n; i++ {
			chain = append(chain, genBytes(rt, "cert"))
		}
		return &pf.GenerateSignatureResponse{KeyID: genText(rt, "keyId"), Signature: genBytes(rt, "signature"),
			SigningAlgorithm: rp.Pick(rt, "alg", pf.SignatureAlgorithmECDSA_SHA256, pf.SignatureAlgorithmECDSA_SHA384, pf.SignatureAlgorithmECDSA_SHA512,
				pf.SignatureAlgorithmRSASSA_PSS_SHA256, pf.SignatureAlgorithmRSASSA_PSS_SHA384, pf.SignatureAlgorithmRSASSA_PSS_SHA512),
			CertificateChain: chain}
	case "generate-envelope":
		return &pf.GenerateEnvelopeResponse{SignatureEnvelope: genBytes(rt, "envelope"),
			SignatureEnvelopeType: rp.Pick(rt, "envType", "application/jose+json", "application/cose"),
			Annotations:           genStrMap(rt, "annotations", 2)}
	case "verify-signature":
		res := map[pf.Capability]*pf.VerificationResult{}
		for i, n := 0, rapid.IntRange(1, 2).Draw(rt, "results"); i < n; i++ {
			r := &pf.VerificationResult{Success: rapid.Bool().Draw(rt, "success")}
			if rapid.Bool().Draw(rt, "hasReason") {
				r.Reason = genText(rt, "reason")
			}
			res[[]pf.Capability{pf.CapabilityTrustedIdentityVerifier, pf.CapabilityRevocationCheckVerifier}[i]] = r
		}
		attrs := []interface{}{}
		for i, n := 0, rapid.IntRange(0, 2).Draw(rt, "attrs"); i < n; i++ {
			attrs = append(attrs, genText(rt, "attr"))
		}
		return &pf.VerifySignatureResponse{VerificationResults: res, ProcessedAttributes: attrs}
	}
	panic("harness: unknown command " + cmd)
}

func mustJSON(v any) string {
	b, err := json.Marshal(v)
	if err != nil {
		panic("harness: marshal: " + err.Error())
	}
	return string(b)
}

func objectOf(replyJSON string) map[string]json.RawMessage {
	m := map[string]json.RawMessage{}
	if err := json.Unmarshal([]byte(replyJSON), &m); err != nil {
		panic("harness: generated reply is not an object: " + err.Error())
	}
	return m
}

func sortedKeys(m map[string]json.RawMessage) []string {
	ks := make([]string, 0, len(m))
	for k := range m {
		ks = append(ks, k)
	}
	sort.Strings(ks)
	return ks
}

// stdoutKinds lists the reply classes of a command.
func stdoutKinds(cmd string) []string {
	ks := []string{"nonjson", "trailing", "empty", "toptype-array", "toptype-string", "toptype-number", "fieldtype"}
	if cmd == "get-plugin-metadata" {
		for _, f := range metaFields {
			ks = append(ks, "missing-"+f, "empty-"+f)
		}
		ks = append(ks, "wrongname", "badversion")
	}
	return ks
}

// genStdout renders the text printed on stdout for a reply kind, from the valid reply.
func genStdout(rt *rapid.T, kind, reply, name string) string {
	switch {
	case kind == "valid":
		// the same value in the layouts a plugin may print it in
		switch rp.Pick(rt, "validLayout", "compact", "compact", "compact", "indented", "newline", "padded") {
		case "indented":
			return reindent(reply, "  ") + "\n"
		case "newline":
			return reply + "\n"
		case "padded":
			return "\n\t " + reply + " \n\n"
		}
		return reply
	case kind == "empty":
		return ""
	case kind == "nonjson":
		return rp.Pick(rt, "nonjson", "not json", "{", `{"name":`, "<html><body>500</body></html>", reply[:len(reply)-1],
			reply[:len(reply)/2], "\n", "\x00\x01\x02", "Error: something failed")
	case kind == "trailing": // a complete valid reply followed by something that is not white space
		return reply + rp.Pick(rt, "trailing", "\nplugin: done", reply, "}", " x", "\n"+reply, "null", "\x00")
	case kind == "toptype-array":
		return rp.Pick(rt, "array", "[]", "["+reply+"]", `["a","b"]`)
	case kind == "toptype-string":
		return mustJSON(rp.Pick(rt, "string", "ok", reply, name))
	case kind == "toptype-number":
		return rp.Pick(rt, "number", "0", "42", "-1.5e3")
	case kind == "fieldtype":
		m := objectOf(reply)
		var cand []string
		for _, k := range sortedKeys(m) {
			if c := m[k][0]; c == '"' || c == '[' || c == '{' {
				cand = append(cand, k)
			}
		}
		k := rp.Pick(rt, "fieldtypeKey", cand...)
		if m[k][0] == '"' {
			// (not an array: encoding/json decodes an array of numbers into a []byte field)
			m[k] = json.RawMessage(rp.Pick(rt, "wrongType", "123", "{}", "true"))
		} else {
			m[k] = json.RawMessage(rp.Pick(rt, "wrongType", `"x"`, "7", "true"))
		}
		return mustJSON(m)
	case strings.HasPrefix(kind, "missing-"):
		m := objectOf(reply)
		delete(m, strings.TrimPrefix(kind, "missing-"))
		return mustJSON(m)
	case strings.HasPrefix(kind, "empty-"):
		m := objectOf(reply)
		f := strings.TrimPrefix(kind, "empty-")
		zero := `""`
		if f == "supportedContractVersions" || f == "capabilities" {
			zero = "[]"
		}
		m[f] = json.RawMessage(rp.Pick(rt, "emptyAs", zero, "null"))
		return mustJSON(m)
	case kind == "wrongname":
		m := objectOf(reply)
		// unrelated names, and names that only relate to the file name (equal is equal: byte for byte)
		other := rp.Pick(rt, "otherName", name+"x", "x"+name, name+"-2", "other", name+name,
			strings.ToUpper(name), strings.ToUpper(name[:1])+name[1:], name+" ", " "+name, name+"\n", "notation-"+name, name+".exe",
			strings.NewReplacer("k", "\u212a", "s", "\u017f").Replace(name))
		if other == name {
			other = strings.ToUpper(name)
		}
		m["name"] = json.RawMessage(mustJSON(other))
		return mustJSON(m)
	case kind == "badversion":
		m := objectOf(reply)
		var vers []string
		for i, n := 0, rapid.IntRange(1, 3).Draw(rt, "badVersions"); i < n; i++ {
			vers = append(vers, rp.Pick(rt, "badVersion", unsupportedVersions...))
		}
		m["supportedContractVersions"] = json.RawMessage(mustJSON(vers))
		return mustJSON(m)
	}
	panic("harness: unknown stdout kind " + kind)
}

var stderrKinds = []string{"empty", "structured", "structured", "structured", "nonjson", "json-not-object"}

func structuredError(c *Case) string {
	m := map[string]any{"errorCode": c.ErrCode}
	if c.ErrMsg != "" {
		m["errorMessage"] = c.ErrMsg
	}
	if len(c.ErrMeta) > 0 {
		m["errorMetadata"] = c.ErrMeta
	}
	return mustJSON(m)
}

// genError draws the structured error triple of a case.
func genError(rt *rapid.T, c *Case) {
	c.ErrCode = rp.Pick(rt, "errorCode", errorCodes...)
	if rapid.IntRange(0, 9).Draw(rt, "emptyMessage") > 0 {
		c.ErrMsg = genText(rt, "errorMessage")
	}
	c.ErrMeta = genStrMap(rt, "errorMetadata", 2)
}

func genStderr(rt *rapid.T, kind string, c *Case) string {
	switch kind {
	case "empty":
		return ""
	case "structured":
		// the same JSON value in the layouts a plugin may print it in: compact, indented over
		// several lines (json.MarshalIndent / a pretty printer), surrounded by white space
		e := structuredError(c)
		switch rp.Pick(rt, "structuredLayout", "compact", "compact", "indented", "indented-tabs", "padded") {
		case "indented":
			e = reindent(e, "  ")
		case "indented-tabs":
			e = reindent(e, "\t")
		case "padded":
			e = "\n  " + e + " "
		}
		return e + rp.Pick(rt, "structuredTail", "", "", "\n")
	case "nonjson":
		s := structuredError(c)
		return rp.Pick(rt, "nonjsonErr", "boom", "panic: runtime error: index out of range\n\ngoroutine 1 [running]:\nmain.main()\n",
			s[:len(s)-1], "{", "Error: access denied\n", "\n", "\x00")
	case "json-not-object":
		// valid JSON that cannot be a structured error whatever the decoder's leniency
		return rp.Pick(rt, "jsonNotObject", `[1,2]`, `"ACCESS_DENIED"`, `17`, `[`+structuredError(c)+`]`)
	}
	panic("harness: unknown stderr kind " + kind)
}

// reindent re-serialises a JSON object over several lines.
func reindent(compact, indent string) string {
	var buf bytes.Buffer
	if err := json.Indent(&buf, []byte(compact), "", indent); err != nil {
		panic("harness: " + err.Error())
	}
	return buf.String()
}

// genBase draws what every case has: name, command, access path, a valid reply, an error triple.
func genBase(rt *rapid.T, cmd string) *Case {
	c := &Case{Name: genName(rt), Via: rp.Pick(rt, "via", "new", "manager"), Cmd: cmd, Out: "valid", Err: "empty", Timing: "immediate", Ctx: "background"}
	if cmd == "" {
		c.Cmd = rp.Pick(rt, "cmd", append([]string{"get-plugin-metadata", "get-plugin-metadata"}, commands...)...)
	}
	c.want = genReply(rt, c.Cmd, c.Name)
	c.Reply = mustJSON(c.want)
	c.Stdout = c.Reply
	if rapid.IntRange(0, 3).Draw(rt, "replyIndented") == 0 { // a valid reply pretty-printed over several lines is the same reply
		c.Stdout = reindent(c.Reply, "  ") + "\n"
	}
	genError(rt, c)
	return c
}

// genProduct draws a case of the exit x stdout x stderr product (timing immediate).
func genProduct(rt *rapid.T) *Case {
	c := genBase(rt, "")
	c.Test = "product"
	switch rapid.IntRange(0, 7).Draw(rt, "exit") {
	case 0, 1, 2, 3:
		c.Exit = 0
	case 4, 5:
		c.Exit = 1
	case 6:
		c.Exit = rp.Pick(rt, "exitCode", 2, 2, 64, 125, 126, 127, 137, 200, 255)
	case 7:
		c.Kill = true
		c.Exit = rapid.IntRange(0, 1).Draw(rt, "exitIfNotKilled")
	}
	if rapid.IntRange(0, 2).Draw(rt, "validReply") != 0 {
		c.Out = rp.Pick(rt, "stdoutKind", stdoutKinds(c.Cmd)...)
	}
	c.Stdout = genStdout(rt, c.Out, c.Reply, c.Name)
	if c.Cmd == "get-plugin-metadata" && c.Out == "wrongname" && rapid.IntRange(0, 2).Draw(rt, "exeIsLink") == 0 {
		c.ExeLink = c.Name + "x"
		m := objectOf(c.Reply)
		m["name"] = json.RawMessage(mustJSON(c.ExeLink))
		c.Stdout = mustJSON(m)
	}
	c.Err = rp.Pick(rt, "stderrKind", stderrKinds...)
	if c.Err == "structured" && rapid.IntRange(0, 5).Draw(rt, "largeStructuredError") == 0 {
		// a structured error whose message is large but far below the output cap: it is the plugin's
		// own error all the same (the fake plugin writes the message as PadStderr times 'a')
		c.ErrMsg = ""
		c.PadStderrKey, c.PadStderr = "errorMessage", rp.Pick(rt, "largeMessage", int64(60<<10), 64<<10, 64<<10+1, 100<<10, 1<<20, 5<<20)
	}
	c.Stderr = genStderr(rt, c.Err, c)
	c.Ctx = rp.Pick(rt, "ctx", "background", "background", "generous", "cancelable")
	// Earlier: the same plugin object has answered a complete get-plugin-metadata reply before
	c.Earlier = rapid.IntRange(0, 2).Draw(rt, "earlierMetadataCall") == 0
	return c
}

// ---------------------------------------------------------------------------------------------
// the fake plugin binary and the per-case sandbox

var (
	binOnce sync.Once
	binPath string
	binErr  error
	binTmp  string
)

func fakepluginBinary() (string, error) {
	binOnce.Do(func() {
		if d := os.Getenv("VERIF_BIN_DIR"); d != "" {
			p := filepath.Join(d, "fakeplugin")
			if _, err := os.Stat(p); err == nil {
				binPath = p
				return
			}
		}
		// manual `go test`: build it once per process
		hd := os.Getenv("VERIF_HARNESS_DIR")
		if hd == "" {
			wd, _ := os.Getwd()
			hd = filepath.Join(wd, "..", "..")
		}
		binTmp, binErr = os.MkdirTemp("", "c17-bin-")
		if binErr != nil {
			return
		}
		binPath = filepath.Join(binTmp, "fakeplugin")
		cmd := exec.Command("go", "build", "-tags", "verif", "-o", binPath, "verifharness/cmd/fakeplugin")
		cmd.Dir = hd
		if out, err := cmd.CombinedOutput(); err != nil {
			binErr = fmt.Errorf("building fakeplugin in %s: %v\n%s", hd, err, out)
		}
	})
	return binPath, binErr
}

func TestMain(m *testing.M) {
	code := m.Run()
	if binTmp != "" {
		os.RemoveAll(binTmp)
	}
	os.Exit(code)
}

type sandbox struct {
	root, dir, exe, marker, pidFile string
	behaviour, honest               []byte // the case's behaviour file and an honest metadata-only one
	// base, when set, is the context every call of this sandbox derives its own context from
	// (used to hand the library a logger that doubles as a scheduling point)
	base context.Context
}

// prepare builds <root>/<name>/notation-<name> + behaviour.json for the case.
func prepare(c *Case) (*sandbox, error) {
	bin, err := fakepluginBinary()
	if err != nil {
		return nil, err
	}
	root, err := os.MkdirTemp("", "c17-")
	if err != nil {
		return nil, err
	}
	sb := &sandbox{root: root, dir: filepath.Join(root, "plugins", c.Name)}
	sb.exe = filepath.Join(sb.dir, "notation-"+c.Name)
	sb.marker = filepath.Join(root, "marker")
	sb.pidFile = filepath.Join(root, "childpid")
	if err := os.MkdirAll(sb.dir, 0o755); err != nil {
		sb.cleanup()
		return nil, err
	}
	if err := os.Link(bin, sb.exe); err != nil {
		// other file system: copy (closed before any process is started by this case)
		if err := copyFile(bin, sb.exe); err != nil {
			sb.cleanup()
			return nil, err
		}
	}
	if c.ExeLink != "" {
		target := filepath.Join(sb.dir, "notation-"+c.ExeLink)
		if err := os.Rename(sb.exe, target); err != nil {
			sb.cleanup()
			return nil, err
		}
		if err := os.Symlink(target, sb.exe); err != nil {
			sb.cleanup()
			return nil, err
		}
	}
	b := map[string]any{"exit": c.Exit, "kill": c.Kill, "stdout": c.Stdout, "stderr": c.Stderr, "marker": sb.marker,
		"padStdout": c.PadStdout, "padStderr": c.PadStderr, "padStdoutKey": c.PadStdoutKey, "padStderrKey": c.PadStderrKey,
		"sleepMs": c.SleepMs, "childSleepMs": c.ChildSleepMs, "childPidFile": sb.pidFile, "childDetached": c.ChildDetached, "lingerMs": c.LingerMs,
		"noStdin": c.UnreadStdin, "childHoldsStdin": c.UnreadStdin, "blankStdout": c.BlankStdout, "stdoutTail": c.StdoutTail}
	script := map[string]any{c.Cmd: b}
	if c.Cmd != "get-plugin-metadata" {
		// should the host ever ask for the metadata before another command, it gets an honest answer
		script["get-plugin-metadata"] = map[string]any{"stdout": mustJSON(&pf.GetMetadataResponse{Name: c.Name, Description: "fake plugin", Version: "1.0.0",
			URL: "https://example.test/plugin", SupportedContractVersions: []string{pf.ContractVersion}, Capabilities: capabilities})}
	}
	sb.behaviour = []byte(mustJSON(script))
	sb.honest = []byte(mustJSON(map[string]any{"get-plugin-metadata": map[string]any{"stdout": mustJSON(&pf.GetMetadataResponse{Name: c.Name, Description: "fake plugin (earlier, complete reply)", Version: "9.9.9",
		URL: "https://example.test/earlier", SupportedContractVersions: []string{pf.ContractVersion}, Capabilities: capabilities})}}))
	if err := os.WriteFile(filepath.Join(sb.dir, "behaviour.json"), sb.behaviour, 0o644); err != nil {
		sb.cleanup()
		return nil, err
	}
	return sb, nil
}

func copyFile(src, dst string) error {
	in, err := os.Open(src)
	if err != nil {
		return err
	}
	defer in.Close()
	out, err := os.OpenFile(dst, os.O_CREATE|os.O_WRONLY|os.O_TRUNC, 0o755)
	if err != nil {
		return err
	}
	if _, err := io.Copy(out, in); err != nil {
		out.Close()
		return err
	}
	return out.Close()
}

// stopDescendants ends the sleeping descendant (stop file it polls + SIGKILL by pid) and a sleeping plugin.
func (sb *sandbox) stopDescendants() {
	_ = os.WriteFile(filepath.Join(sb.dir, "stop"), nil, 0o644)
	if b, err := os.ReadFile(sb.pidFile); err == nil {
		if pid, err := strconv.Atoi(strings.TrimSpace(string(b))); err == nil && pid > 1 {
			_ = syscall.Kill(pid, syscall.SIGKILL)
		}
	}
}

func (sb *sandbox) cleanup() {
	sb.stopDescendants()
	os.RemoveAll(sb.root) // a descendant that has not seen the stop file ends when its executable is gone
}

func (sb *sandbox) started() bool {
	_, err := os.Stat(sb.marker)
	return err == nil
}

// ---------------------------------------------------------------------------------------------
// the call

type result struct {
	resp    any
	err     error
	elapsed time.Duration // from the call to its return
	since   time.Duration // from the expiry / cancellation of the context to the return (timing cases)
	late    bool          // the harness had to end the descendant / plugin to get the call back
	alloc   uint64        // TotalAlloc delta of the host process around the call
	started bool          // the plugin process ran (execution witness)
	getErr  error         // error of NewCLIPlugin / CLIManager.Get
}

func request(cmd string, big bool) func(ctx context.Context, p pf.Plugin) (any, error) {
	filler := ""
	if big {
		filler = strings.Repeat("r", 1<<20)
	}
	switch cmd {
	case "get-plugin-metadata":
		return func(ctx context.Context, p pf.Plugin) (any, error) {
			r, err := p.GetMetadata(ctx, &pf.GetMetadataRequest{PluginConfig: map[string]string{"a": "b" + filler}})
			return r, err
		}
	case "describe-key":
		return func(ctx context.Context, p pf.Plugin) (any, error) {
			r, err := p.DescribeKey(ctx, &pf.DescribeKeyRequest{KeyID: "key-1", PluginConfig: map[string]string{"a": filler}})
			return r, err
		}
	case "generate-signature":
		return func(ctx context.Context, p pf.Plugin) (any, error) {
			r, err := p.GenerateSignature(ctx, &pf.GenerateSignatureRequest{ContractVersion: pf.ContractVersion, KeyID: "key-1",
				KeySpec: pf.KeySpecEC256, Hash: pf.HashAlgorithmSHA256, Payload: []byte("payload" + filler)})
			return r, err
		}
	case "generate-envelope":
		return func(ctx context.Context, p pf.Plugin) (any, error) {
			r, err := p.GenerateEnvelope(ctx, &pf.GenerateEnvelopeRequest{KeyID: "key-1", PayloadType: "application/vnd.cncf.notary.payload.v1+json",
				SignatureEnvelopeType: "application/jose+json", Payload: []byte(`{"targetArtifact":{}}`), ExpiryDurationInSeconds: 3600, PluginConfig: map[string]string{"a": filler}})
			return r, err
		}
	case "verify-signature":
		return func(ctx context.Context, p pf.Plugin) (any, error) {
			r, err := p.VerifySignature(ctx, &pf.VerifySignatureRequest{ContractVersion: pf.ContractVersion,
				Signature: pf.Signature{CriticalAttributes: pf.CriticalAttributes{ContentType: "application/vnd.cncf.notary.payload.v1+json", SigningScheme: "notary.x509"},
					UnprocessedAttributes: []string{"x" + filler}, CertificateChain: [][]byte{{0x30, 0x00}}},
				TrustPolicy: pf.TrustPolicy{TrustedIdentities: []string{"*"}, SignatureVerification: []pf.Capability{pf.CapabilityTrustedIdentityVerifier}}})
			return r, err
		}
	}
	panic("harness: unknown command " + cmd)
}

// call obtains the plugin and performs the case's call. Bounded cases (deadline / cancel / nodeadline)
// run under a watchdog: when the call is still blocked after limit, the verdict "late" is fixed and the
// harness ends the descendant so that the case does not have to sit out its 40 s.
func (sb *sandbox) call(c *Case) *result {
	r := &result{}
	bg := context.Background()
	if sb.base != nil {
		bg = sb.base
	}
	var p pf.Plugin
	var err error
	if c.Via == "manager" {
		p, err = plugin.NewCLIManager(dir.NewSysFS(filepath.Join(sb.root, "plugins"))).Get(bg, c.Name)
	} else {
		p, err = plugin.NewCLIPlugin(bg, c.Name, sb.exe)
	}
	if err != nil {
		r.getErr = err
		return r
	}
	if c.Earlier {
		// not judged: a complete reply served by the same plugin object
		if os.WriteFile(filepath.Join(sb.dir, "behaviour.json"), sb.honest, 0o644) == nil {
			p.GetMetadata(bg, &pf.GetMetadataRequest{})
		}
		os.WriteFile(filepath.Join(sb.dir, "behaviour.json"), sb.behaviour, 0o644)
		os.Remove(sb.marker)
	}
	do := request(c.Cmd, c.UnreadStdin)
	ctx, cancel := bg, context.CancelFunc(func() {})
	var cancelledAt time.Time
	var limit time.Duration // 0: unbounded, call on this goroutine
	var mu sync.Mutex
	switch c.Ctx {
	case "generous":
		ctx, cancel = context.WithTimeout(bg, 10*time.Minute)
	case "cancelable":
		ctx, cancel = context.WithCancel(bg)
	case "deadline":
		ctx, cancel = context.WithTimeout(bg, time.Duration(c.DeadlineMs)*time.Millisecond)
		limit = time.Duration(c.DeadlineMs)*time.Millisecond + timeBound
	case "cancel":
		var cf context.CancelFunc
		ctx, cf = context.WithCancel(bg)
		cancel = cf
		tm := time.AfterFunc(time.Duration(c.CancelMs)*time.Millisecond, func() {
			mu.Lock()
			cancelledAt = time.Now()
			mu.Unlock()
			cf()
		})
		defer tm.Stop()
		limit = time.Duration(c.CancelMs)*time.Millisecond + timeBound
	case "background":
		if c.Timing == "nodeadline" {
			limit = time.Duration(c.SleepMs)*time.Millisecond + 60*time.Second
		}
	}
	defer cancel()

	var m0, m1 runtime.MemStats
	if limit == 0 {
		runtime.ReadMemStats(&m0)
		start := time.Now()
		r.resp, r.err = do(ctx, p)
		r.elapsed = time.Since(start)
		runtime.ReadMemStats(&m1)
		r.alloc = m1.TotalAlloc - m0.TotalAlloc
		r.started = sb.started()
		return r
	}
	done := make(chan struct{})
	start := time.Now()
	var end time.Time
	go func() {
		defer close(done)
		r.resp, r.err = do(ctx, p)
		end = time.Now()
	}()
	watchdog := time.NewTimer(limit + 500*time.Millisecond)
	defer watchdog.Stop()
	select {
	case <-done:
	case <-watchdog.C:
		r.late = true
		sb.stopDescendants()
		<-done
	}
	r.elapsed = end.Sub(start)
	switch c.Ctx {
	case "deadline":
		r.since = r.elapsed - time.Duration(c.DeadlineMs)*time.Millisecond
	case "cancel":
		mu.Lock()
		if !cancelledAt.IsZero() {
			r.since = end.Sub(cancelledAt)
		}
		mu.Unlock()
	}
	if r.since > timeBound {
		r.late = true
	}
	r.started = sb.started()
	return r
}

// ---------------------------------------------------------------------------------------------
// the oracle

func sameStrings[S ~string](a, b []S) bool {
	if len(a) != len(b) {
		return false
	}
	for i := range a {
		if a[i] != b[i] {
			return false
		}
	}
	return true
}

func sameMap(a, b map[string]string) bool {
	if len(a) != len(b) {
		return false
	}
	for k, v := range a {
		if w, ok := b[k]; !ok || v != w {
			return false
		}
	}
	return true
}

func sameChain(a, b [][]byte) bool {
	if len(a) != len(b) {
		return false
	}
	for i := range a {
		if !bytes.Equal(a[i], b[i]) {
			return false
		}
	}
	return true
}

// wantOf returns the expected response struct of the case.
func wantOf(c *Case) (any, error) {
	if c.want != nil {
		return c.want, nil
	}
	var v any
	switch c.Cmd {
	case "get-plugin-metadata":
		v = &pf.GetMetadataResponse{}
	case "describe-key":
		v = &pf.DescribeKeyResponse{}
	case "generate-signature":
		v = &pf.GenerateSignatureResponse{}
	case "generate-envelope":
		v = &pf.GenerateEnvelopeResponse{}
	case "verify-signature":
		v = &pf.VerifySignatureResponse{}
	default:
		return nil, fmt.Errorf("unknown command %q", c.Cmd)
	}
	if err := json.Unmarshal([]byte(c.Reply), v); err != nil {
		return nil, err
	}
	return v, nil
}

// diffResponse compares the returned response with the generated reply field by field
// (nil and empty collections are the same reply); it returns the first differing field.
func diffResponse(want, got any) string {
	if got == nil || reflect.ValueOf(got).IsNil() {
		return "response is nil"
	}
	switch w := want.(type) {
	case *pf.GetMetadataResponse:
		g, ok := got.(*pf.GetMetadataResponse)
		switch {
		case !ok:
			return fmt.Sprintf("response type %T", got)
		case g.Name != w.Name:
			return "name"
		case g.Description != w.Description:
			return "description"
		case g.Version != w.Version:
			return "version"
		case g.URL != w.URL:
			return "url"
		case !sameStrings(g.SupportedContractVersions, w.SupportedContractVersions):
			return "supportedContractVersions"
		case !sameStrings(g.Capabilities, w.Capabilities):
			return "capabilities"
		}
	case *pf.DescribeKeyResponse:
		g, ok := got.(*pf.DescribeKeyResponse)
		switch {
		case !ok:
			return fmt.Sprintf("response type %T", got)
		case g.KeyID != w.KeyID:
			return "keyId"
		case g.KeySpec != w.KeySpec:
			return "keySpec"
		}
	case *pf.GenerateSignatureResponse:
		g, ok := got.(*pf.GenerateSignatureResponse)
		switch {
		case !ok:
			return fmt.Sprintf("response type %T", got)
		case g.KeyID != w.KeyID:
			return "keyId"
		case !bytes.Equal(g.Signature, w.Signature):
			return "signature"
		case g.SigningAlgorithm != w.SigningAlgorithm:
			return "signingAlgorithm"
		case !sameChain(g.CertificateChain, w.CertificateChain):
			return "certificateChain"
		}
	case *pf.GenerateEnvelopeResponse:
		g, ok := got.(*pf.GenerateEnvelopeResponse)
		switch {
		case !ok:
			return fmt.Sprintf("response type %T", got)
		case !bytes.Equal(g.SignatureEnvelope, w.SignatureEnvelope):
			return "signatureEnvelope"
		case g.SignatureEnvelopeType != w.SignatureEnvelopeType:
			return "signatureEnvelopeType"
		case !sameMap(g.Annotations, w.Annotations):
			return "annotations"
		}
	case *pf.VerifySignatureResponse:
		g, ok := got.(*pf.VerifySignatureResponse)
		if !ok {
			return fmt.Sprintf("response type %T", got)
		}
		if len(g.VerificationResults) != len(w.VerificationResults) {
			return "verificationResults"
		}
		for k, wr := range w.VerificationResults {
			gr := g.VerificationResults[k]
			if gr == nil || wr == nil || *gr != *wr {
				return "verificationResults[" + string(k) + "]"
			}
		}
		if len(g.ProcessedAttributes) != len(w.ProcessedAttributes) {
			return "processedAttributes"
		}
		for i := range w.ProcessedAttributes {
			if !reflect.DeepEqual(g.ProcessedAttributes[i], w.ProcessedAttributes[i]) {
				return "processedAttributes"
			}
		}
	default:
		return fmt.Sprintf("harness: unexpected expectation type %T", want)
	}
	return ""
}

// asRequestError extracts a proto.RequestError (value or pointer) from the chain.
func asRequestError(err error) (proto.RequestError, bool) {
	var v proto.RequestError
	if errors.As(err, &v) {
		return v, true
	}
	var p *proto.RequestError
	if errors.As(err, &p) && p != nil {
		return *p, true
	}
	return v, false
}

// errType names the typed error found in the chain.
func errType(err error) string {
	if err == nil {
		return "none"
	}
	if _, ok := asRequestError(err); ok {
		return "RequestError"
	}
	var mp *plugin.PluginMalformedError
	var mv plugin.PluginMalformedError
	if errors.As(err, &mp) || errors.As(err, &mv) {
		return "PluginMalformedError"
	}
	var ep *plugin.PluginExecutableFileError
	var ev plugin.PluginExecutableFileError
	if errors.As(err, &ep) || errors.As(err, &ev) {
		return "PluginExecutableFileError"
	}
	return "untyped"
}

func (c *Case) failing() bool { return c.Exit != 0 || c.Kill }

// stdoutClass groups the reply kinds for finding keys.
func stdoutClass(kind string) string {
	switch {
	case kind == "nonjson" || kind == "trailing" || kind == "empty" || strings.HasPrefix(kind, "toptype-"):
		return "reply-not-a-json-object"
	case kind == "fieldtype":
		return "reply-field-of-wrong-type"
	case strings.HasPrefix(kind, "missing-") || strings.HasPrefix(kind, "empty-"):
		return "metadata-mandatory-field"
	case kind == "wrongname":
		return "metadata-wrong-name"
	case kind == "badversion":
		return "metadata-unsupported-contract-version"
	case strings.HasPrefix(kind, "overcap"):
		return "overcap-reply"
	}
	return kind
}

// errText renders an error for a message; an Error method that panics (a typed error built without
// its inner error) must not take the harness down.
func errText(err error) (s string) {
	defer func() {
		if p := recover(); p != nil {
			s = fmt.Sprintf("(%T: Error() panicked: %v)", err, p)
		}
	}()
	return short(err.Error())
}

func short(s string) string {
	if len(s) > 300 {
		return s[:300] + fmt.Sprintf("...(%d bytes)", len(s))
	}
	return s
}

// judgeOutcome applies the success / error-mapping clauses; it returns (finding key, message) or "".
func judgeOutcome(c *Case, r *result) (string, string) {
	et := errType(r.err)
	overOut := strings.HasPrefix(c.Out, "overcap")
	overErr := strings.HasPrefix(c.Err, "overcap")
	killedByHost := c.Timing == "slow" || c.Timing == "cancel" || c.Timing == "descendant-slowparent" || c.Timing == "descendant-unread-stdin" || c.Timing == "lingers" || c.Timing == "lingers-after-error"
	switch {
	case killedByHost:
		// the process never wrote a reply and was killed at the deadline / cancellation
		if r.err == nil {
			return "C17:success-only-if:plugin-killed-at-deadline", fmt.Sprintf("the plugin sleeps %d ms and the context ended after %d ms, yet %s succeeded", c.SleepMs, c.DeadlineMs+c.CancelMs, c.Cmd)
		}
		if c.Timing == "lingers-after-error" {
			// a failing process (it had to be killed) that printed its own structured error in full
			re, ok := asRequestError(r.err)
			if !ok {
				return "C17:error-mapping:structured-error-not-returned", fmt.Sprintf("the plugin printed the structured error %s and was killed when the context ended; the call returned %T %q", short(c.Stderr), r.err, errText(r.err))
			}
			msg := ""
			if re.Err != nil {
				msg = re.Err.Error()
			}
			if string(re.Code) != c.ErrCode || msg != c.ErrMsg || !sameMap(re.Metadata, c.ErrMeta) {
				return "C17:error-mapping:structured-error-content", fmt.Sprintf("printed %s, returned code=%q message=%q metadata=%v", short(c.Stderr), re.Code, short(msg), re.Metadata)
			}
			return "", ""
		}
		if c.Stderr == "" && c.PadStderr == 0 && et == "untyped" {
			// a process that the host had to kill is a failing process, and this one printed nothing
			return "C17:error-mapping:killed-silent-plugin-not-typed", fmt.Sprintf("the plugin printed nothing on stderr and was killed when the context ended: error %T %q is not a typed executable/malformed-plugin error", r.err, errText(r.err))
		}
		return "", ""
	case c.failing():
		if r.err == nil {
			return "C17:success-only-if:exit-nonzero", fmt.Sprintf("%s succeeded although the process ended with exit=%d killed=%v", c.Cmd, c.Exit, c.Kill)
		}
		if overOut {
			// the plugin is cut off while writing stdout and may never get to print its error: any error
			return "", ""
		}
		if overErr {
			if re, ok := asRequestError(r.err); ok && re.Err != nil && int64(len(re.Err.Error())) >= c.PadStderr {
				return "C17:cap:overcap-error-returned", fmt.Sprintf("a structured error whose message has %d bytes (> cap %d) was returned in full: the host buffered more than the cap", c.PadStderr, outputCap())
			}
			if et == "untyped" {
				return "C17:error-mapping:unstructured-not-typed", fmt.Sprintf("over-cap stderr: error %T %q is neither the structured error nor a typed executable/malformed-plugin error", r.err, errText(r.err))
			}
			return "", ""
		}
		if c.Timing != "immediate" && c.Timing != "nodeadline" {
			// failing plugin + descendant + expired context: some error (whether the printed error is still
			// reported once the wait was abandoned is not in the statement)
			return "", ""
		}
		if c.Err == "structured" {
			re, ok := asRequestError(r.err)
			if !ok {
				return "C17:error-mapping:structured-error-not-returned", fmt.Sprintf("the failing plugin printed the structured error %s, the call returned %T %q", short(c.Stderr), r.err, errText(r.err))
			}
			msg := ""
			if re.Err != nil {
				msg = re.Err.Error()
			}
			wantMsg := c.ErrMsg
			if c.PadStderr > 0 && c.PadStderrKey == "errorMessage" {
				wantMsg = strings.Repeat("a", int(c.PadStderr))
			}
			if string(re.Code) != c.ErrCode || msg != wantMsg || !sameMap(re.Metadata, c.ErrMeta) {
				return "C17:error-mapping:structured-error-content", fmt.Sprintf("printed %s (message of %d bytes), returned code=%q message=%q (%d bytes) metadata=%v", short(c.Stderr), len(wantMsg), re.Code, short(msg), len(msg), re.Metadata)
			}
			return "", ""
		}
		if et != "PluginMalformedError" && et != "PluginExecutableFileError" {
			return "C17:error-mapping:unstructured-not-typed", fmt.Sprintf("failing plugin with stderr kind %s (%q): error %T %q is not a typed executable/malformed-plugin error", c.Err, short(c.Stderr), r.err, errText(r.err))
		}
		return "", ""
	case overOut:
		if r.err == nil {
			return "C17:cap:overcap-reply-succeeded", fmt.Sprintf("%s succeeded on a reply of more than %d bytes (cap %d)", c.Cmd, c.PadStdout, outputCap())
		}
		return "", ""
	case overErr:
		// exit 0, valid reply, over-cap stderr: the statement does not say whether the call may still
		// succeed; both outcomes are accepted (only the allocation bound is checked)
		if r.err == nil {
			return diffKey(c, r)
		}
		return "", ""
	case c.Out != "valid":
		if r.err == nil {
			return "C17:success-only-if:" + stdoutClass(c.Out), fmt.Sprintf("%s succeeded on the %s reply %q (plugin name %q)", c.Cmd, c.Out, short(c.Stdout), c.Name)
		}
		// the error's type for a process that exited 0 is not in the statement: recorded only
		return "", ""
	case strings.HasPrefix(c.Timing, "descendant"):
		// exit 0 with a valid reply, but the wait for the pipes was cut short by the context: the statement
		// allows success (the process exited successfully with a valid reply) and does not demand it
		if r.err == nil {
			return diffKey(c, r)
		}
		return "", ""
	default:
		if r.err != nil {
			site := "other-command"
			if c.Cmd == "get-plugin-metadata" {
				site = "metadata"
			}
			return "C17:valid-reply-rejected:" + site, fmt.Sprintf("exit 0 with the valid reply %s (stderr kind %s): %s returned %T %q", short(c.Stdout), c.Err, c.Cmd, r.err, errText(r.err))
		}
		return diffKey(c, r)
	}
}

func diffKey(c *Case, r *result) (string, string) {
	want, err := wantOf(c)
	if err != nil {
		return "", "" // unreachable: replies are generated valid
	}
	if d := diffResponse(want, r.resp); d != "" {
		return "C17:response-differs:" + c.Cmd, fmt.Sprintf("field %s of the response differs from the plugin's reply %s; got %s", d, short(c.Reply), short(mustJSON(r.resp)))
	}
	return "", ""
}

// judgeTime applies the bounded-delay clause.
func judgeTime(c *Case, r *result) (string, string) {
	if !r.late {
		return "", ""
	}
	switch {
	case strings.HasPrefix(c.Timing, "descendant"):
		return "C17:time:descendant-holds-pipes", fmt.Sprintf("context %s (deadline %d ms / cancel at %d ms): %s was still blocked %v after the context ended, "+
			"because a descendant of the plugin holds stdout/stderr; it returned after %v, only once the harness ended the descendant",
			c.Ctx, c.DeadlineMs, c.CancelMs, c.Cmd, timeBound, r.elapsed.Round(time.Millisecond))
	case c.Timing == "nodeadline":
		return "C17:time:no-deadline-no-return", fmt.Sprintf("the plugin exits after %d ms, the call had not returned 60 s later (returned after %v)", c.SleepMs, r.elapsed.Round(time.Millisecond))
	case c.Timing == "cancel":
		return "C17:time:cancelled", fmt.Sprintf("cancelled after %d ms, %s returned only after %v", c.CancelMs, c.Cmd, r.elapsed.Round(time.Millisecond))
	default:
		return "C17:time:slow-plugin", fmt.Sprintf("deadline %d ms, %s returned only after %v", c.DeadlineMs, c.Cmd, r.elapsed.Round(time.Millisecond))
	}
}

// ---------------------------------------------------------------------------------------------
// statistics

func classesOf(c *Case, r *result) []string {
	cl := []string{"cmd=" + c.Cmd}
	if c.failing() {
		cl = append(cl, "exit!=0")
		if c.Kill {
			cl = append(cl, "exit=killed")
		} else {
			cl = append(cl, fmt.Sprint("exit=", c.Exit))
		}
	} else {
		cl = append(cl, "exit=0")
	}
	cl = append(cl, "stdout="+c.Out, "stderr="+c.Err, "ctx="+c.Ctx, "via="+c.Via, "timingkind="+c.Timing)
	if c.ExeLink != "" {
		cl = append(cl, "executable-is-a-link-to-a-differently-named-file")
	}
	if c.Earlier {
		cl = append(cl, "plugin-object-served-a-complete-metadata-reply-before")
		if c.Cmd == "get-plugin-metadata" && (strings.HasPrefix(c.Out, "missing-") || strings.HasPrefix(c.Out, "empty-")) {
			cl = append(cl, "incomplete-metadata-after-complete-metadata-on-one-object")
		}
	}
	if c.Err == "structured" && c.PadStderr > 0 && c.PadStderrKey == "errorMessage" {
		cl = append(cl, "structured-error-with-large-message")
	}
	if c.ChildSleepMs > 0 {
		cl = append(cl, map[bool]string{true: "descendant-left-the-process-group", false: "descendant-in-the-process-group"}[c.ChildDetached])
	}
	if strings.HasPrefix(c.Out, "overcap") {
		cl = append(cl, "stdout=overcap")
	}
	if strings.HasPrefix(c.Err, "overcap") {
		cl = append(cl, "stderr=overcap")
	}
	if c.Err == "structured" {
		cl = append(cl, "errcode="+c.ErrCode)
	}
	switch {
	case strings.HasPrefix(c.Timing, "descendant"):
		cl = append(cl, "timing=descendant")
	default:
		cl = append(cl, "timing="+c.Timing)
	}
	if r != nil {
		if r.err == nil {
			cl = append(cl, "outcome=success")
		} else {
			cl = append(cl, "outcome=error", "errtype="+errType(r.err))
			if !c.failing() {
				cl = append(cl, "exit0-errtype="+errType(r.err))
			}
		}
		if c.Ctx == "deadline" || c.Ctx == "cancel" {
			if r.late {
				cl = append(cl, "returned=after-bound")
			} else {
				cl = append(cl, "returned=within-bound")
			}
		}
	}
	return cl
}

func record(rec *stats.Recorder, c *Case, r *result) {
	nt := !(c.Exit == 0 && !c.Kill && c.Out == "valid" && c.Timing == "immediate")
	fp := stats.Fingerprint(c.Test, c.Cmd, c.Exit, c.Kill, c.Out, c.Err, c.ErrCode, c.ErrMsg == "", len(c.ErrMeta), c.Timing, c.Ctx, c.Via,
		c.PadStdout, c.PadStderr, c.PadStdoutKey, c.PadStderrKey, c.Earlier, c.ExeLink)
	rec.Case(classesOf(c, r), nt, fp, func() any { return c })
}

// ---------------------------------------------------------------------------------------------
// tests

// runCase prepares, calls, cleans up. A nil result means a harness problem (reported on t).
func runCase(t *testing.T, c *Case) *result {
	sb, err := prepare(c)
	if err != nil {
		t.Fatalf("harness: sandbox: %v", err)
	}
	defer sb.cleanup()
	r := sb.call(c)
	if r.getErr != nil {
		t.Fatalf("harness: obtaining the plugin %q failed: %v", c.Name, r.getErr)
	}
	return r
}

// notStarted guards against infrastructure failures (fork failure under load, ...) being read as a
// verdict: a case whose plugin process never ran says nothing about the property.
func notStarted(t *testing.T, c *Case, r *result, key string) {
	if !r.started && c.Timing == "immediate" {
		t.Fatalf("harness: the plugin process of case %+v never ran (err=%v); would have been %s", c, r.err, key)
	}
}

func TestC17_Product(t *testing.T) {
	rec := stats.New(t, "C17", rule)
	if _, err := fakepluginBinary(); err != nil {
		t.Fatalf("harness: %v", err)
	}
	rp.Check(t, 600, 20000, func(rt *rapid.T) {
		c := genProduct(rt)
		r := runCase(t, c)
		record(rec, c, r)
		if key, msg := judgeOutcome(c, r); key != "" {
			notStarted(t, c, r, key)
			rec.Failf(rt, key, c, "%s", msg)
		}
	})
}

// gridCases enumerates the product of the small factors: for get-plugin-metadata every
// (stdout kind x exit x stderr kind), for the other commands every (stdout kind x exit) with the stderr kind
// cycling (so that every pair of factor values occurs); the error codes cycle through all six. The
// generated details (name, reply values, error message / metadata, garbage variant) come from the seed.
func gridCases(seed uint64) []*Case {
	type exitKind struct {
		exit int
		kill bool
	}
	exits := []exitKind{{0, false}, {1, false}, {2, false}, {0, true}}
	errKinds := []string{"empty", "structured", "nonjson", "json-not-object"}
	var out []*Case
	add := func(cmd, outKind string, ek exitKind, errKind string) {
		i := len(out)
		c := rapid.Custom(func(rt *rapid.T) *Case {
			c := genBase(rt, cmd)
			c.ErrCode = errorCodes[i%len(errorCodes)]
			c.Out, c.Err = outKind, errKind
			c.Stdout = genStdout(rt, c.Out, c.Reply, c.Name)
			c.Stderr = genStderr(rt, c.Err, c)
			return c
		}).Example(int(seed>>8) + 5000 + i)
		c.Test, c.Exit, c.Kill = "grid", ek.exit, ek.kill
		if cmd == "get-plugin-metadata" && outKind == "wrongname" && errKind == "empty" {
			// the executable is a link to a file of another name and the reply carries that name (every
			// run has these cases, whatever the seed)
			c.ExeLink = c.Name + "x"
			m := objectOf(c.Reply)
			m["name"] = json.RawMessage(mustJSON(c.ExeLink))
			c.Stdout = mustJSON(m)
		}
		out = append(out, c)
	}
	for _, cmd := range commands {
		for ki, k := range append([]string{"valid"}, stdoutKinds(cmd)...) {
			for ei, ek := range exits {
				if cmd == "get-plugin-metadata" {
					for _, errKind := range errKinds {
						add(cmd, k, ek, errKind)
					}
				} else {
					add(cmd, k, ek, errKinds[(ki+ei)%len(errKinds)])
					add(cmd, k, ek, errKinds[(ki+ei+2)%len(errKinds)])
				}
			}
		}
	}
	return out
}

func TestC17_Grid(t *testing.T) {
	rec := stats.New(t, "C17", rule)
	var rc Case
	if rp.ReplayCase(&rc) {
		if rc.Test != "grid" && rc.Test != "product" {
			return
		}
		r := runCase(t, &rc)
		if key, msg := judgeOutcome(&rc, r); key != "" {
			notStarted(t, &rc, r, key)
			rec.Failf(t, key, &rc, "%s", msg)
		}
		return
	}
	shard, shards := stats.Shard()
	for i, c := range gridCases(stats.Seed()) {
		if i%shards != shard {
			continue
		}
		r := runCase(t, c)
		record(rec, c, r)
		if key, msg := judgeOutcome(c, r); key != "" {
			notStarted(t, c, r, key)
			rec.Failf(t, key, c, "%s", msg)
		}
	}
	rec.Exhaustive()
}

// capCases enumerates the over-cap behaviours; details (command, name, reply, error) are generated.
func capCases(n int, seed uint64) []*Case {
	cp := outputCap()
	over := cp + 16<<20
	huge := 12 * cp
	padKeyOf := map[string]string{"get-plugin-metadata": "description", "describe-key": "keyId", "generate-signature": "keyId", "generate-envelope": "signatureEnvelopeType"}
	type spec struct {
		kind   string // stdout-ignored | stdout-field | stderr-message | stderr-ignored | under-cap
		size   int64
		exit   int
		kill   bool
		cmd    string
		stderr string // stderr kind for stdout cases ("" = empty)
		exact  bool   // size is the exact total length of the stream
	}
	specs := []spec{
		{kind: "stdout-ignored", size: over, cmd: "get-plugin-metadata"},
		{kind: "stderr-message", size: over, exit: 1},
		{kind: "stdout-field", size: over, cmd: "describe-key"},
		{kind: "stdout-ignored", size: huge},
		{kind: "stdout-valid-prefix"},
		// thorough only
		{kind: "stderr-message", size: huge, exit: 2},
		{kind: "stdout-ignored", size: cp + 1, exact: true, cmd: "generate-envelope"},
		{kind: "stdout-field", size: over, cmd: "get-plugin-metadata", stderr: "structured"},
		{kind: "stderr-ignored", size: over, exit: 1},
		{kind: "stderr-message", size: over, kill: true},
		{kind: "stderr-message", size: over, exit: 0},
		{kind: "stdout-ignored", size: over, exit: 1, stderr: "structured"},
		{kind: "under-cap", size: 256 << 10},
	}
	var out []*Case
	for i := 0; i < n && i < len(specs); i++ {
		s := specs[i]
		c := rapid.Custom(func(rt *rapid.T) *Case {
			cmd := s.cmd
			if cmd == "" && (s.kind == "stdout-field" || s.kind == "under-cap") {
				cmd = rp.Pick(rt, "cmd", "get-plugin-metadata", "describe-key", "generate-signature", "generate-envelope")
			}
			c := genBase(rt, cmd)
			if s.stderr == "structured" {
				c.Err = "structured"
				c.Stderr = structuredError(c)
			}
			return c
		}).Example(int(seed>>8) + i)
		c.Test, c.Exit, c.Kill = "cap", s.exit, s.kill
		switch s.kind {
		case "stdout-ignored":
			c.Out, c.PadStdoutKey, c.PadStdout = "overcap-ignored-field", "pad", s.size
			if s.exact {
				// total = len(reply) - 1 + len(`,"pad":"`) + pad + len(`"}`)
				c.PadStdout = s.size - int64(len(c.Stdout)) - 9
				c.Out = "overcap-by-one"
			}
			if s.size == huge {
				c.Out = "overcap-huge"
			}
		case "stdout-field":
			c.Out, c.PadStdoutKey, c.PadStdout = "overcap-real-field", padKeyOf[c.Cmd], s.size
		case "stdout-valid-prefix":
			// the first <cap> bytes are the complete valid reply followed by blanks; what follows is not
			// JSON and small enough to sit in a pipe buffer, so the plugin can still exit 0. A host that
			// stops reading at the cap without noticing that there was more would take the prefix for the reply
			c.Out, c.BlankStdout, c.StdoutTail = "overcap-valid-prefix", cp-int64(len(c.Stdout)), "XXXXXXXXXX"
		case "stderr-message", "stderr-ignored":
			c.Err, c.PadStderrKey, c.PadStderr = "overcap-message", "errorMessage", s.size
			if s.kind == "stderr-ignored" {
				c.Err, c.PadStderrKey = "overcap-ignored-field", "pad"
			}
			if s.size == huge {
				c.Err = "overcap-huge"
			}
			c.Stderr = structuredError(c)
		case "under-cap":
			// a large but legal reply: the big value sits in a real string field of the generated reply
			big := strings.Repeat("abcdefgh", int(s.size/8))
			switch w := c.want.(type) {
			case *pf.GetMetadataResponse:
				w.Description = big
			case *pf.DescribeKeyResponse:
				w.KeyID = big
			case *pf.GenerateSignatureResponse:
				w.KeyID = big
			case *pf.GenerateEnvelopeResponse:
				w.SignatureEnvelope = []byte(big)
			}
			c.Out = "valid-large"
			c.Reply = mustJSON(c.want)
			c.Stdout = c.Reply
		}
		out = append(out, c)
	}
	return out
}

func TestC17_Cap(t *testing.T) {
	rec := stats.New(t, "C17", rule)
	var cases []*Case
	var rc Case
	if rp.ReplayCase(&rc) {
		if rc.Test != "cap" {
			return
		}
		cases = []*Case{&rc}
	} else {
		if shard, _ := stats.Shard(); shard != 0 {
			t.Skip("over-cap cases run in shard 0 only")
		}
		n := 5
		if stats.Tier() == "thorough" {
			n = 13
		}
		cases = capCases(n, stats.Seed())
	}
	rec.Set("output_cap", outputCap())
	limit := uint64(allocFactor * outputCap())
	var maxAlloc int64
	for _, c := range cases {
		runtime.GC()
		r := runCase(t, c)
		record(rec, c, r)
		t.Logf("cap case out=%s err=%s cmd=%s exit=%d kill=%v: %v, alloc %d MiB, outcome %s", c.Out, c.Err, c.Cmd, c.Exit, c.Kill,
			r.elapsed.Round(time.Millisecond), r.alloc>>20, errType(r.err))
		if a := int64(r.alloc >> 20); a > maxAlloc {
			maxAlloc = a
			rec.Set("max_alloc_mib_over_cap_call", maxAlloc)
		}
		if c.Out == "valid-large" {
			c2 := *c
			c2.Out = "valid" // judged like any valid reply
			if key, msg := judgeOutcome(&c2, r); key != "" {
				rec.Failf(t, key, c, "%s", msg)
			}
		} else if key, msg := judgeOutcome(c, r); key != "" {
			rec.Failf(t, key, c, "%s", msg)
		}
		if r.alloc > limit {
			rec.Failf(t, "C17:cap:allocation", c, "the host allocated %d MiB during a call whose plugin wrote %d MiB to one stream: more than %d x cap (%d MiB)",
				r.alloc>>20, (c.PadStdout+c.PadStderr)>>20, allocFactor, outputCap()>>20)
		}
		r.resp, r.err = nil, nil
		debug.FreeOSMemory()
	}
}

// timingCases enumerates the timing behaviours; details are generated.
func timingCases(n int, seed uint64) []*Case {
	kinds := []string{"descendant", "slow", "cancel", "descendant-slowparent", "nodeadline", "descendant-cancel", "descendant-failing", "lingers", "lingers-after-error", "descendant-unread-stdin"}
	var out []*Case
	for i := 0; i < n; i++ {
		kind := kinds[i%len(kinds)]
		c := rapid.Custom(func(rt *rapid.T) *Case {
			c := genBase(rt, "")
			c.DeadlineMs = rapid.IntRange(300, 500).Draw(rt, "deadlineMs")
			c.CancelMs = rapid.IntRange(150, 400).Draw(rt, "cancelMs")
			c.SleepMs = rapid.IntRange(200, 400).Draw(rt, "sleepMs")
			return c
		}).Example(int(seed>>8) + 1000 + i)
		c.Test, c.Timing = "timing", kind
		switch kind {
		case "descendant": // the plugin answers at once, its descendant keeps the pipes
			c.Ctx, c.CancelMs, c.SleepMs, c.ChildSleepMs = "deadline", 0, 0, longSleepMs
		case "descendant-failing":
			c.Ctx, c.CancelMs, c.SleepMs, c.ChildSleepMs = "deadline", 0, 0, longSleepMs
			c.Exit, c.Err = 1, "structured"
			c.Stderr = structuredError(c)
		case "descendant-cancel":
			c.Ctx, c.DeadlineMs, c.SleepMs, c.ChildSleepMs = "cancel", 0, 0, longSleepMs
		case "descendant-slowparent": // plugin and descendant both outlive the deadline
			c.Ctx, c.CancelMs, c.SleepMs, c.ChildSleepMs = "deadline", 0, longSleepMs, longSleepMs
		case "descendant-unread-stdin": // a request larger than a pipe buffer that nobody reads; plugin and descendant outlive the deadline, the descendant holds all three pipes
			c.Ctx, c.CancelMs, c.SleepMs, c.ChildSleepMs, c.UnreadStdin = "deadline", 0, longSleepMs, longSleepMs, true
		case "lingers": // the complete valid reply is out at once, the process outlives the deadline and is killed: no successful exit
			c.Ctx, c.CancelMs, c.SleepMs, c.LingerMs = "deadline", 0, 0, longSleepMs
		case "lingers-after-error": // the plugin's complete structured error is out at once, then the process hangs and is killed
			c.Ctx, c.CancelMs, c.SleepMs, c.LingerMs = "deadline", 0, 0, longSleepMs
			c.Exit, c.Err, c.Out, c.Stdout = 1, "structured", "empty", ""
			c.Stderr = structuredError(c)
		case "slow":
			c.Ctx, c.CancelMs, c.SleepMs = "deadline", 0, longSleepMs
		case "cancel":
			c.Ctx, c.DeadlineMs, c.SleepMs = "cancel", 0, longSleepMs
		case "nodeadline": // control: no deadline, no descendant: the call returns when the process exits
			c.Ctx, c.DeadlineMs, c.CancelMs = "background", 0, 0
		}
		if c.ChildSleepMs > 0 {
			c.ChildDetached = (i/len(kinds))%2 == 0 // alternately inside and outside the plugin's process group
		}
		out = append(out, c)
	}
	return out
}

func TestC17_Timing(t *testing.T) {
	rec := stats.New(t, "C17", rule)
	var cases []*Case
	var rc Case
	if rp.ReplayCase(&rc) {
		if rc.Test != "timing" {
			return
		}
		cases = []*Case{&rc}
	} else {
		n := 10 // one case of every timing kind (cancellation without deadline + descendant included)
		if stats.Tier() == "thorough" {
			n = 60
		}
		shard, shards := stats.Shard()
		for i, c := range timingCases(n, uint64(stats.Seed())) {
			if (i+1)%shards == shard { // shard 0 already runs the over-cap cases
				cases = append(cases, c)
			}
		}
	}
	if len(cases) == 0 {
		t.Skip("no timing case in this shard")
	}
	// all sandboxes first (no executable is written while processes are being started), then the
	// calls in parallel: a case blocked by a descendant costs d + 10.5 s
	sbs := make([]*sandbox, len(cases))
	for i, c := range cases {
		sb, err := prepare(c)
		if err != nil {
			for _, s := range sbs[:i] {
				s.cleanup()
			}
			t.Fatalf("harness: sandbox: %v", err)
		}
		sbs[i] = sb
	}
	results := make([]*result, len(cases))
	var wg sync.WaitGroup
	for i := range cases {
		wg.Add(1)
		go func(i int) {
			defer wg.Done()
			results[i] = sbs[i].call(cases[i])
		}(i)
	}
	wg.Wait()
	for _, sb := range sbs {
		sb.cleanup()
	}
	for i, c := range cases {
		r := results[i]
		if r.getErr != nil {
			t.Fatalf("harness: obtaining the plugin %q failed: %v", c.Name, r.getErr)
		}
		record(rec, c, r)
		t.Logf("timing case %s cmd=%s ctx=%s deadline=%dms cancel=%dms: returned after %v (late=%v), outcome %s", c.Timing, c.Cmd, c.Ctx, c.DeadlineMs, c.CancelMs,
			r.elapsed.Round(time.Millisecond), r.late, errType(r.err))
	}
	// verdicts after every process of the batch is gone; the time clause first, then the outcome
	for i, c := range cases {
		if key, msg := judgeTime(c, results[i]); key != "" {
			rec.Failf(t, key, c, "%s", msg)
		}
	}
	for i, c := range cases {
		if key, msg := judgeOutcome(c, results[i]); key != "" {
			if c.Timing == "nodeadline" && !results[i].started {
				t.Fatalf("harness: the plugin process of case %+v never ran (err=%v)", c, results[i].err)
			}
			rec.Failf(t, key, c, "%s", msg)
		}
	}
}
