package c12

// Verifier construction from a configuration, the five verification entry points, and the
// consistency oracle of the statement (families 1-3 share this file).

import (
	"bytes"
	"context"
	"errors"
	"fmt"
	"strings"

	"github.com/notaryproject/notation-go"
	nplugin "github.com/notaryproject/notation-go/plugin"
	"github.com/notaryproject/notation-go/verifier"
	"github.com/notaryproject/notation-go/verifier/trustpolicy"
	pf "github.com/notaryproject/notation-plugin-framework-go/plugin"
	"github.com/opencontainers/go-digest"
	ocispec "github.com/opencontainers/image-spec/specs-go/v1"

	"github.com/notaryproject/notation-core-go/revocation/result"

	"verifharness/internal/envb"
	"verifharness/internal/kit"
	"verifharness/internal/mocks"
	"verifharness/internal/stats"
)

var (
	entriesOCI  = []string{"verifier.Verify", "SkipVerify", "notation.Verify"}
	entriesBlob = []string{"verifier.VerifyBlob", "notation.VerifyBlob"}
	entriesAll  = []string{"verifier.Verify", "verifier.VerifyBlob", "SkipVerify", "notation.Verify", "notation.VerifyBlob"}
	levels      = []string{"strict", "permissive", "audit", "skip"}
)

func isOCIEntry(e string) bool {
	return e == "verifier.Verify" || e == "SkipVerify" || e == "notation.Verify"
}

// Cfg is one way of constructing a verifier.
type Cfg struct {
	Docs       string            `json:"docs"`               // oci | blob | both
	Level      string            `json:"level"`              // level of the OCI statement and of the named blob statement
	Override   map[string]string `json:"override,omitempty"` // optional customisation of that level
	BlobStmt   string            `json:"blobStmt"`           // named | global | named+global (global statements use Level unless it is skip)
	PM         string            `json:"pm"`                 // nil | scripted | empty (manager without the plugin) | failing (Get errors) | hostile (plugin answers are zero/garbage values)
	Trust      string            `json:"trust"`              // trusted | untrusted | empty (store loads zero certificates) | error
	TSA        bool              `json:"tsa"`                // the statements list a tsa trust store
	Identity   string            `json:"identity"`           // wildcard | pinned | other
	Revocation string            `json:"revocation"`         // ok | revoked | unknown | error
	// RevWiring: which of the revocation-related options the caller supplies; what is left out is the
	// library's to default. "" = both validators, "codesigning-only", "timestamping-only",
	// "client-only" (the deprecated client), "none"
	RevWiring string `json:"revWiring,omitempty"`
	// BadDoc: one of the configured documents is not a valid policy document ("blob-level": unknown
	// level name, "blob-override": illegal override, "oci-level"); a verifier must not come out of it
	// - and if one does, using it must still not crash
	BadDoc string `json:"badDoc,omitempty"`
	VerifyTS   string            `json:"verifyTimestamp,omitempty"`
}

func (c Cfg) key() string {
	return fmt.Sprintf("%s/%s%v/%s/%s/%s/%v/%s/%s/%s/%s/%s", c.Docs, c.Level, c.Override, c.BlobStmt, c.PM, c.Trust, c.TSA, c.Identity, c.Revocation, c.VerifyTS, c.RevWiring, c.BadDoc)
}

func defaultCfg(docs, level string) Cfg {
	return Cfg{Docs: docs, Level: level, BlobStmt: "named", PM: "scripted", Trust: "trusted", Identity: "wildcard", Revocation: "ok"}
}

// Opts are the per-call options, including the odd ones.
type Opts struct {
	Ref         string `json:"ref"`         // digest | empty | nodigest | tag | mismatch | malformed | tagdigest
	PolicyName  string `json:"policyName"`  // named | empty | unknown | blank
	Media       string `json:"media"`       // the signature media type string handed over
	Meta        string `json:"meta"`        // nil | empty | match | mismatch
	PluginCfg   string `json:"pluginCfg"`   // nil | empty | set
	Max         int    `json:"max"`         // MaxSignatureAttempts
	ContentType string `json:"contentType"` // ok | empty | invalid (notation.VerifyBlob)
	Logging     bool   `json:"logging"`
	// Desc "other": the artifact presented is not the one the signature was made for (same media
	// type and size, another digest / other blob bytes)
	Desc string `json:"desc,omitempty"`
}

func defaultOpts(media string) Opts {
	return Opts{Ref: "digest", PolicyName: "named", Media: media, Meta: "nil", PluginCfg: "nil", Max: 1, ContentType: "ok"}
}

// Case is the replay format of families 1 and 2.
type Case struct {
	Family   int    `json:"family"`
	Entry    string `json:"entry"`
	Cfg      Cfg    `json:"cfg"`
	Opts     Opts   `json:"opts"`
	Source   string `json:"source"`             // base envelope name or "random"
	Mutation string `json:"mutation,omitempty"` // recipe
	Input    []byte `json:"input"`              // the envelope bytes
}

// ---------- construction ----------

// hostilePlugin answers with zero / garbage values inside non-nil responses. (A nil response
// with a nil error is outside the quantifier, see guard_test.go.)
type hostilePlugin struct {
	mocks.Plugin
	mode int
}

func (p *hostilePlugin) GetMetadata(ctx context.Context, req *pf.GetMetadataRequest) (*pf.GetMetadataResponse, error) {
	switch p.mode % 6 {
	case 0:
		return &pf.GetMetadataResponse{}, nil
	case 1:
		return &pf.GetMetadataResponse{Name: pluginName, Version: "not-semver", Capabilities: []pf.Capability{pf.CapabilityTrustedIdentityVerifier}}, nil
	case 2:
		return &pf.GetMetadataResponse{Name: pluginName, Version: "1.0.0"}, nil // no capabilities
	case 3:
		return nil, errors.New("scripted metadata failure")
	}
	return &pf.GetMetadataResponse{Name: pluginName, Description: "hostile", Version: "1.0.0", URL: "u", SupportedContractVersions: []string{"1.0"},
		Capabilities: []pf.Capability{pf.CapabilityTrustedIdentityVerifier, pf.CapabilityRevocationCheckVerifier, "", "UNKNOWN"}}, nil
}

func (p *hostilePlugin) VerifySignature(ctx context.Context, req *pf.VerifySignatureRequest) (*pf.VerifySignatureResponse, error) {
	switch p.mode % 6 {
	case 4:
		return &pf.VerifySignatureResponse{}, nil // nil map, nil slice
	default:
		return &pf.VerifySignatureResponse{
			VerificationResults: map[pf.Capability]*pf.VerificationResult{pf.CapabilityTrustedIdentityVerifier: nil, pf.CapabilityRevocationCheckVerifier: {Success: false}, "": {}},
			ProcessedAttributes: []any{nil, 5, map[string]any{"a": 1}, []any{"c12.custom"}, "c12.custom", 1.5},
		}, nil
	}
}

// build constructs the verifier of a configuration. The error is the constructor's.
func build(r *runner, c Cfg) (v verifierAPI, err error) {
	f := fixtures()
	ts := mocks.NewTrustStore()
	for _, typ := range []string{"ca", "signingAuthority"} {
		switch c.Trust {
		case "trusted":
			ts.Put(typ, "x", f.roots()...)
		case "untrusted":
			ts.Put(typ, "x", f.other.Root().Cert)
		case "empty":
			ts.PutEmpty(typ, "x")
		case "error":
			ts.Fail(typ, "x", errors.New("scripted trust store failure"))
		}
	}
	ts.Put("tsa", "x", f.tsaRoot.Cert)
	stores := []string{"ca:x", "signingAuthority:x"}
	if c.TSA {
		stores = append(stores, "tsa:x")
	}
	ids := map[string][]string{"wildcard": {"*"}, "pinned": {"x509.subject:C=US,ST=WA,O=verif"}, "other": {"x509.subject:C=US,ST=WA,O=somebody else"}}[c.Identity]
	sv := func(level string) (trustpolicy.SignatureVerification, []string, []string) {
		s := kit.Level{Base: level, Override: c.Override}.SV(c.VerifyTS)
		if level == "skip" {
			s.Override, s.VerifyTimestamp = nil, ""
			return s, nil, nil
		}
		return s, stores, ids
	}
	opts := verifier.VerifierOptions{}
	rev := &mocks.Revocation{}
	switch c.Revocation {
	case "revoked":
		rev.Results = []result.Result{result.ResultRevoked}
	case "unknown":
		rev.Results = []result.Result{result.ResultOK, result.ResultUnknown}
	case "error":
		rev.Err = errors.New("scripted revocation failure")
	}
	switch c.RevWiring {
	case "codesigning-only":
		opts.RevocationCodeSigningValidator = rev
	case "timestamping-only":
		opts.RevocationTimestampingValidator = &mocks.Revocation{}
	case "client-only":
		opts.RevocationClient = rev.Client()
	case "none":
	default:
		opts.RevocationCodeSigningValidator, opts.RevocationTimestampingValidator = rev, &mocks.Revocation{}
	}
	if c.Docs == "oci" || c.Docs == "both" {
		s, st, id := sv(c.Level)
		opts.OCITrustPolicy = &trustpolicy.OCIDocument{Version: "1.0", TrustPolicies: []trustpolicy.OCITrustPolicy{{
			Name: ociStmt, SignatureVerification: s, TrustStores: st, TrustedIdentities: id, RegistryScopes: []string{"*"}}}}
	}
	if c.Docs == "blob" || c.Docs == "both" {
		doc := &trustpolicy.BlobDocument{Version: "1.0"}
		if strings.Contains(c.BlobStmt, "named") {
			s, st, id := sv(c.Level)
			doc.TrustPolicies = append(doc.TrustPolicies, trustpolicy.BlobTrustPolicy{Name: namedBlobStmt, SignatureVerification: s, TrustStores: st, TrustedIdentities: id})
		}
		if strings.Contains(c.BlobStmt, "global") {
			lv := c.Level
			if c.BlobStmt == "named+global" && lv == "skip" {
				lv = "strict" // a global statement cannot skip; the lone global+skip document must be refused by the constructor
			}
			s, st, id := sv(lv)
			doc.TrustPolicies = append(doc.TrustPolicies, trustpolicy.BlobTrustPolicy{Name: "global-statement", SignatureVerification: s, TrustStores: st, TrustedIdentities: id, GlobalPolicy: true})
		}
		switch c.BadDoc {
		case "blob-level":
			for i := range doc.TrustPolicies {
				doc.TrustPolicies[i].SignatureVerification.VerificationLevel = "bogus-level"
			}
		case "blob-override":
			for i := range doc.TrustPolicies {
				if doc.TrustPolicies[i].SignatureVerification.VerificationLevel != "skip" {
					doc.TrustPolicies[i].SignatureVerification.Override = map[trustpolicy.ValidationType]trustpolicy.ValidationAction{"integrity": "skip", "bogus": "log"}
				}
			}
		}
		opts.BlobTrustPolicy = doc
	}
	if c.BadDoc == "oci-level" && opts.OCITrustPolicy != nil {
		opts.OCITrustPolicy.TrustPolicies[0].SignatureVerification.VerificationLevel = "bogus-level"
	}
	newGood := func() mocks.Plugin {
		return mocks.Plugin{Name: pluginName, Version: "1.0.0", Capabilities: []pf.Capability{pf.CapabilityTrustedIdentityVerifier, pf.CapabilityRevocationCheckVerifier},
			Processed: []any{"c12.custom"}}
	}
	switch {
	case c.PM == "scripted":
		good := newGood()
		opts.PluginManager = &mocks.Manager{Plugins: map[string]nplugin.Plugin{pluginName: &good}}
	case c.PM == "empty":
		opts.PluginManager = &mocks.Manager{Plugins: map[string]nplugin.Plugin{}}
	case c.PM == "failing":
		opts.PluginManager = &mocks.Manager{Err: errors.New("scripted manager failure")}
	case strings.HasPrefix(c.PM, "hostile"):
		mode := 0
		fmt.Sscanf(c.PM, "hostile%d", &mode)
		opts.PluginManager = &mocks.Manager{Plugins: map[string]nplugin.Plugin{pluginName: &hostilePlugin{Plugin: newGood(), mode: mode}}}
	}
	r.call("verifier.NewVerifierWithOptions", 0, func() {
		vv, e := verifier.NewVerifierWithOptions(ts, opts)
		touchErr(e)
		err = e
		if e == nil {
			v = vv
		}
	})
	return v, err
}

// verifierAPI is what the concrete verifier type offers.
type verifierAPI interface {
	notation.Verifier
	notation.BlobVerifier
	SkipVerify(ctx context.Context, opts notation.VerifierVerifyOptions) (bool, *trustpolicy.VerificationLevel, error)
}

// ---------- the scripted one-signature repository ----------

type oneSigRepo struct {
	desc ocispec.Descriptor
	env  []byte
	mt   string
}

func (r *oneSigRepo) Resolve(ctx context.Context, ref string) (ocispec.Descriptor, error) {
	return r.desc, nil
}
func (r *oneSigRepo) ListSignatures(ctx context.Context, d ocispec.Descriptor, fn func([]ocispec.Descriptor) error) error {
	return fn([]ocispec.Descriptor{{MediaType: ocispec.MediaTypeImageManifest, Digest: digest.FromBytes(r.env), Size: 1}})
}
func (r *oneSigRepo) FetchSignatureBlob(ctx context.Context, d ocispec.Descriptor) ([]byte, ocispec.Descriptor, error) {
	return r.env, ocispec.Descriptor{MediaType: r.mt, Digest: digest.FromBytes(r.env), Size: int64(len(r.env))}, nil
}
func (r *oneSigRepo) PushSignature(ctx context.Context, mediaType string, blob []byte, subject ocispec.Descriptor, annotations map[string]string) (ocispec.Descriptor, ocispec.Descriptor, error) {
	return ocispec.Descriptor{}, ocispec.Descriptor{}, errors.New("not supported")
}

// ---------- running an entry point ----------

type callResult struct {
	called   bool
	err      error
	outcome  *notation.VerificationOutcome
	outcomes []*notation.VerificationOutcome
	skip     bool
	level    *trustpolicy.VerificationLevel
	parsed   bool
}

func reference(kind string) string {
	d := fixtures().art.Digest.String()
	switch kind {
	case "digest":
		return "registry.example/verif/repo@" + d
	case "empty":
		return ""
	case "nodigest":
		return "registry.example/verif/repo"
	case "tag":
		return "registry.example/verif/repo:v1"
	case "tagdigest":
		return "registry.example/verif/repo:v1@" + d
	case "mismatch":
		return "registry.example/verif/repo@" + digest.FromString("another artifact").String()
	case "malformed":
		return "registry.example/Verif Repo:bad tag@@sha256:zz"
	}
	panic(harnessPanic{"harness: unknown reference kind " + kind})
}

func optMap(kind string, match map[string]string) map[string]string {
	switch kind {
	case "nil":
		return nil
	case "empty":
		return map[string]string{}
	case "match", "set":
		return match
	case "mismatch":
		return map[string]string{"env": "dev", "absent": ""}
	}
	panic(harnessPanic{"harness: unknown map kind " + kind})
}

// policySelectionError reports whether err is a failure to select a statement (no applicable
// statement, or no document of the needed kind): the statement promises an outcome only for
// failures after that point.
func policySelectionError(err error) bool {
	var na notation.ErrorNoApplicableTrustPolicy
	if errors.As(err, &na) {
		return true
	}
	return strings.Contains(err.Error(), "TrustPolicyDoc is nil")
}

// invoke builds the verifier of c.Cfg, calls c.Entry with c.Input and applies the oracle.
func invoke(r *runner, c *Case) callResult {
	f := fixtures()
	var res callResult
	v, cerr := build(r, c.Cfg)
	if cerr != nil || v == nil {
		r.class("construct=error")
		return res
	}
	ctx := ctxFor(c.Opts.Logging)
	policyName := map[string]string{"named": namedBlobStmt, "empty": "", "unknown": "no-such-statement", "blank": "  "}[c.Opts.PolicyName]
	if c.Opts.PolicyName == "named" && c.Cfg.BlobStmt == "global" {
		policyName = "global-statement"
	}
	meta := optMap(c.Opts.Meta, map[string]string{"env": "prod"})
	pcfg := optMap(c.Opts.PluginCfg, map[string]string{"k": "v"})
	ref := reference(c.Opts.Ref)
	contentType := map[string]string{"ok": "application/octet-stream", "empty": "", "invalid": "not a media type;;="}[c.Opts.ContentType]
	gen := func(alg digest.Algorithm) (ocispec.Descriptor, error) {
		if !alg.Available() {
			return ocispec.Descriptor{}, errors.New("unavailable algorithm")
		}
		return ocispec.Descriptor{MediaType: contentType, Digest: alg.FromBytes(f.blob), Size: int64(len(f.blob))}, nil
	}
	touch := func(o *notation.VerificationOutcome) {
		if o != nil {
			_, _ = o.UserMetadata()
			touchErr(o.Error)
			for _, vr := range o.VerificationResults {
				if vr != nil {
					touchErr(vr.Error)
				}
			}
		}
	}
	art, blob := f.art, f.blob
	if c.Opts.Desc == "other" {
		art.Digest = digest.FromString("c12: another artifact")
		blob = append([]byte("X"), f.blob[1:]...)
		inner := gen
		gen = func(alg digest.Algorithm) (ocispec.Descriptor, error) {
			d, err := inner(alg)
			if err == nil {
				d.Digest = alg.FromBytes(blob)
			}
			return d, err
		}
	}
	res.called = true
	panicked := r.call(c.Entry, len(c.Input), func() {
		switch c.Entry {
		case "verifier.Verify":
			res.outcome, res.err = v.Verify(ctx, art, c.Input, notation.VerifierVerifyOptions{ArtifactReference: ref, SignatureMediaType: c.Opts.Media, PluginConfig: pcfg, UserMetadata: meta})
			touch(res.outcome)
		case "verifier.VerifyBlob":
			res.outcome, res.err = v.VerifyBlob(ctx, gen, c.Input, notation.BlobVerifierVerifyOptions{SignatureMediaType: c.Opts.Media, PluginConfig: pcfg, UserMetadata: meta, TrustPolicyName: policyName})
			touch(res.outcome)
		case "SkipVerify":
			res.skip, res.level, res.err = v.SkipVerify(ctx, notation.VerifierVerifyOptions{ArtifactReference: ref, SignatureMediaType: c.Opts.Media, PluginConfig: pcfg, UserMetadata: meta})
		case "notation.Verify":
			_, res.outcomes, res.err = notation.Verify(ctx, v, &oneSigRepo{desc: art, env: c.Input, mt: c.Opts.Media}, notation.VerifyOptions{ArtifactReference: ref, PluginConfig: pcfg, MaxSignatureAttempts: c.Opts.Max, UserMetadata: meta})
			for _, o := range res.outcomes {
				touch(o)
			}
		case "notation.VerifyBlob":
			_, res.outcome, res.err = notation.VerifyBlob(ctx, v, bytes.NewReader(blob), c.Input, notation.VerifyBlobOptions{ContentMediaType: contentType,
				BlobVerifierVerifyOptions: notation.BlobVerifierVerifyOptions{SignatureMediaType: c.Opts.Media, PluginConfig: pcfg, UserMetadata: meta, TrustPolicyName: policyName}})
			touch(res.outcome)
		default:
			panic(harnessPanic{"harness: unknown entry " + c.Entry})
		}
		touchErr(res.err)
	})
	if panicked {
		return res // the call did not return: nothing to compare
	}
	oracle(r, c, &res)
	// "parsed": the envelope is structurally an envelope of the declared type, or the library
	// delivered its content
	if res.outcome != nil && res.outcome.EnvelopeContent != nil {
		res.parsed = true
	}
	for _, o := range res.outcomes {
		if o != nil && o.EnvelopeContent != nil {
			res.parsed = true
		}
	}
	if !res.parsed {
		switch c.Opts.Media {
		case envb.MTJWS:
			_, e := envb.SplitJWS(c.Input)
			res.parsed = e == nil
		case envb.MTCOSE:
			_, e := envb.SplitCOSE(c.Input)
			res.parsed = e == nil
		}
	}
	return res
}

// oracle holds the consistency clauses of the statement.
func oracle(r *runner, c *Case, res *callResult) {
	e := c.Entry
	switch e {
	case "verifier.Verify", "verifier.VerifyBlob":
		if res.err == nil {
			if res.outcome == nil {
				r.fail("C12:consistency:"+e+":no-error-nil-outcome", "%s returned no error and a nil outcome", e)
			} else if res.outcome.Error != nil {
				r.fail("C12:consistency:"+e+":no-error-outcome-error-set", "%s returned no error but outcome.Error = %v", e, res.outcome.Error)
			}
		} else if !policySelectionError(res.err) {
			// a verification failure after policy selection always comes with an outcome whose error is set
			if res.outcome == nil {
				r.fail("C12:consistency:"+e+":failure-nil-outcome", "%s failed after policy selection (%v) without an outcome", e, res.err)
			} else if res.outcome.Error == nil {
				r.fail("C12:consistency:"+e+":failure-outcome-error-unset", "%s failed after policy selection (%v) but outcome.Error is nil", e, res.err)
			}
		}
	case "notation.Verify":
		if res.err == nil {
			if len(res.outcomes) == 0 {
				r.fail("C12:consistency:"+e+":no-error-no-outcome", "notation.Verify returned no error and no outcome")
			}
			for i, o := range res.outcomes {
				if o == nil {
					r.fail("C12:consistency:"+e+":no-error-nil-outcome", "notation.Verify returned no error and outcome %d is nil", i)
				} else if o.Error != nil {
					r.fail("C12:consistency:"+e+":no-error-outcome-error-set", "notation.Verify returned no error but outcome %d has Error = %v", i, o.Error)
				}
			}
		}
	case "notation.VerifyBlob":
		if res.err == nil {
			if res.outcome == nil {
				r.fail("C12:consistency:"+e+":no-error-nil-outcome", "notation.VerifyBlob returned no error and a nil outcome")
			} else if res.outcome.Error != nil {
				r.fail("C12:consistency:"+e+":no-error-outcome-error-set", "notation.VerifyBlob returned no error but outcome.Error = %v", res.outcome.Error)
			}
		}
	case "SkipVerify":
		// the "outcome" of SkipVerify is the level: notation.Verify puts it into the outcome it reports
		if res.err == nil && res.level == nil {
			r.fail("C12:consistency:SkipVerify:no-error-nil-level", "SkipVerify returned no error and a nil verification level (skip=%v)", res.skip)
		}
	}
	// an entry point of the kind the verifier has no policy document for cannot succeed
	if res.err == nil && ((isOCIEntry(e) && c.Cfg.Docs == "blob") || (!isOCIEntry(e) && c.Cfg.Docs == "oci")) {
		r.fail("C12:consistency:"+e+":no-error-without-policy-document", "%s succeeded on a verifier constructed with %s policy only", e, c.Cfg.Docs)
	}
}

// classes of a family 1/2 case.
func (c *Case) classes(res *callResult) []string {
	cl := []string{"entry=" + c.Entry, fmt.Sprint("family=", c.Family), "docs=" + c.Cfg.Docs, "level=" + c.Cfg.Level, "pm=" + c.Cfg.PM, "media=" + mediaClass(c.Opts.Media)}
	if c.Cfg.Docs != "oci" {
		cl = append(cl, "blobstmt="+c.Cfg.BlobStmt)
	}
	if c.Cfg.BadDoc != "" {
		cl = append(cl, "invalid-policy-document="+c.Cfg.BadDoc)
		if c.Cfg.Docs == "both" {
			cl = append(cl, "invalid-policy-document-next-to-a-valid-one")
		}
	}
	if !res.called {
		return append(cl, "construct=error")
	}
	if res.err == nil {
		cl = append(cl, "outcome=ok", "outcome=ok:"+c.Entry)
	} else {
		cl = append(cl, "outcome=err")
		if policySelectionError(res.err) {
			cl = append(cl, "err=policy-selection")
		} else if res.outcome != nil {
			cl = append(cl, "err=with-outcome")
		}
	}
	if res.parsed {
		cl = append(cl, "parsed")
	}
	if res.outcome != nil && res.outcome.EnvelopeContent != nil {
		cl = append(cl, "envelope-content") // past parsing and the integrity check
	}
	if (isOCIEntry(c.Entry) && c.Cfg.Docs == "blob") || (!isOCIEntry(c.Entry) && c.Cfg.Docs == "oci") {
		cl = append(cl, "wrong-kind-verifier")
	}
	if c.Cfg.Level == "skip" {
		cl = append(cl, "skip-level:"+c.Entry)
	}
	if c.Cfg.RevWiring != "" {
		cl = append(cl, "revocation-wiring="+c.Cfg.RevWiring)
		if c.Cfg.TSA {
			cl = append(cl, "revocation-wiring-partial+tsa-store")
		}
	}
	d := defaultOpts("")
	for _, kv := range [][3]string{{"ref", c.Opts.Ref, d.Ref}, {"policyName", c.Opts.PolicyName, d.PolicyName}, {"meta", c.Opts.Meta, d.Meta},
		{"pluginCfg", c.Opts.PluginCfg, d.PluginCfg}, {"contentType", c.Opts.ContentType, d.ContentType}} {
		if kv[1] != kv[2] {
			cl = append(cl, "odd:"+kv[0]+"="+kv[1])
		}
	}
	if c.Opts.Max != 1 {
		cl = append(cl, fmt.Sprint("odd:max=", c.Opts.Max))
	}
	return cl
}

func mediaClass(m string) string {
	switch m {
	case envb.MTJWS:
		return "jws"
	case envb.MTCOSE:
		return "cose"
	case "":
		return "empty"
	}
	return "unknown"
}

func (c *Case) fingerprint() uint64 {
	return stats.Fingerprint(c.Entry, c.Cfg.key(), fmt.Sprintf("%+v", c.Opts), c.Input)
}
