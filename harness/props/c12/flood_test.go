package c12

import (
	"context"
	"os"
	"path/filepath"
	"testing"

	nplugin "github.com/notaryproject/notation-go/plugin"
	pf "github.com/notaryproject/notation-plugin-framework-go/plugin"

	"verifharness/internal/stats"
)

// TestC12_PluginFloodsOutput: plugin output is untrusted input whose size the plugin chooses. A
// forty-line script answers get-plugin-metadata / describe-key with a well-formed reply whose one
// string member is 700 MB long (generated on the fly, on stdout or on stderr): whatever the call
// returns, it may not allocate in proportion to what the plugin prints. Runs in one shard.
func TestC12_PluginFloodsOutput(t *testing.T) {
	rec := stats.New(t, "C12", rule)
	if s, n := stats.Shard(); s != 5%n {
		t.Skip("runs in one shard")
	}
	root, err := os.MkdirTemp("", "c12-flood-")
	if err != nil {
		t.Fatalf("harness: %v", err)
	}
	defer os.RemoveAll(root)
	pdir := filepath.Join(root, "flood")
	os.MkdirAll(pdir, 0o755)
	exe := filepath.Join(pdir, "notation-flood")
	script := `#!/bin/sh
flood() { head -c 734003200 /dev/zero | tr '\000' a; }
case "$1" in
  get-plugin-metadata)
    printf '{"name":"flood","description":"'
    flood
    printf '","version":"1.0.0","url":"https://example.invalid","supportedContractVersions":["1.0"],"capabilities":["SIGNATURE_GENERATOR.RAW"]}'
    ;;
  describe-key)
    printf '{"errorCode":"ERROR","errorMessage":"' >&2
    flood >&2
    printf '"}' >&2
    exit 1
    ;;
esac
`
	if err := os.WriteFile(exe, []byte(script), 0o755); err != nil {
		t.Fatalf("harness: %v", err)
	}
	ctx := context.Background()
	p, err := nplugin.NewCLIPlugin(ctx, "flood", exe)
	if err != nil {
		t.Fatalf("harness: %v", err)
	}
	for _, call := range []struct {
		entry string
		fn    func()
	}{
		{"CLIPlugin.GetMetadata", func() { p.GetMetadata(ctx, &pf.GetMetadataRequest{}) }},
		{"CLIPlugin.DescribeKey", func() { p.DescribeKey(ctx, &pf.DescribeKeyRequest{KeyID: "k"}) }},
	} {
		rec.Case([]string{"family=6", "plugin-floods-output", "entry=" + call.entry}, true, stats.Fingerprint("flood", call.entry), func() any { return call.entry + ": script printing 700 MB" })
		if f := guard(call.entry, len(script), call.fn); f != nil {
			rec.Failf(t, f.Key+":flooding-plugin", call.entry, "%s", f.Msg)
		}
	}
}
