package c12

// Family 4: hostile registry content. (a) An on-disk OCI layout holding an artifact, maybe a
// valid signature, and generated hostile referrer manifests, then hand-edited on disk and
// reopened. (b) The same kind of content served by an in-process HTTP registry to the real
// oras remote client (the other known oras.GraphTarget behind registry.NewRepository).
// Entry points: registry.NewOCIRepository, Repository.Resolve / ListSignatures /
// FetchSignatureBlob / PushSignature and notation.Verify with real verifiers (strict, skip).

import (
	"bytes"
	"context"
	"encoding/hex"
	"encoding/json"
	"fmt"
	"net/http"
	"net/http/httptest"
	"os"
	"path/filepath"
	"regexp"
	"strings"
	"sync"
	"testing"
	"time"

	"github.com/notaryproject/notation-go"
	"github.com/notaryproject/notation-go/registry"
	"github.com/opencontainers/go-digest"
	ocispec "github.com/opencontainers/image-spec/specs-go/v1"
	"oras.land/oras-go/v2/content/oci"
	"oras.land/oras-go/v2/registry/remote"
	"pgregory.net/rapid"

	"verifharness/internal/envb"
	"verifharness/internal/rp"
	"verifharness/internal/stats"
)

const (
	mtArtifactManifest = "application/vnd.oci.artifact.manifest.v1+json"
	mtNotation         = "application/vnd.cncf.notary.signature"
	emptyJSONDigest    = "sha256:44136fa355b3678a1146ad16f7e8649e94fb4fc21fe77e8310c060f61caaff8a"
)

// ---------- the artifact of the layouts and its valid signatures ----------

type layoutFixture struct {
	layer    []byte
	manifest []byte
	desc     ocispec.Descriptor
	envs     map[string][]byte // format -> valid envelope for desc
}

var (
	lfOnce sync.Once
	lfx    *layoutFixture
)

func layoutFixtures() *layoutFixture {
	lfOnce.Do(func() {
		f := fixtures()
		l := &layoutFixture{layer: []byte("c12 layer"), envs: map[string][]byte{}}
		l.manifest = []byte(fmt.Sprintf(`{"schemaVersion":2,"mediaType":%q,"config":{"mediaType":"application/vnd.oci.empty.v1+json","digest":%q,"size":2},"layers":[{"mediaType":"application/vnd.c12.layer","digest":%q,"size":%d}]}`,
			ocispec.MediaTypeImageManifest, emptyJSONDigest, digest.FromBytes(l.layer), len(l.layer)))
		l.desc = ocispec.Descriptor{MediaType: ocispec.MediaTypeImageManifest, Digest: digest.FromBytes(l.manifest), Size: int64(len(l.manifest))}
		for _, format := range envb.Formats {
			l.envs[format] = envb.Build(envb.Spec{Format: format, ContentType: envb.PayloadType, Scheme: envb.SchemeX509, SigningTime: time.Now().Add(-time.Hour),
				Chain: f.chain.X509(), Key: f.chain.Leaf().Key, Payload: envb.PayloadFor(l.desc.MediaType, l.desc.Digest.String(), l.desc.Size, nil)})
		}
		lfx = l
	})
	return lfx
}

// ---------- hostile manifests ----------

// Referrer is one generated referrer: its manifest bytes, how it is announced, the blobs
// that exist next to it.
type Referrer struct {
	MediaType    string   `json:"mediaType"`              // media type of the announcing descriptor
	Manifest     []byte   `json:"manifest"`               // raw manifest JSON
	Blobs        [][]byte `json:"blobs,omitempty"`        // content stored under its real sha256 digest
	ListedDigest string   `json:"listedDigest,omitempty"` // remote only: digest string of the listing ("" = the real one)
	ListedSize   *int64   `json:"listedSize,omitempty"`   // remote only
	Recipe       string   `json:"recipe"`
}

func descJSON(mt string, content []byte) *jv {
	return jobj(jm{"mediaType", jstr(mt)}, jm{"digest", jstr(digest.FromBytes(content).String())}, jm{"size", jnum(fmt.Sprint(len(content)))})
}

func subjectJSON() *jv {
	l := layoutFixtures()
	return jobj(jm{"mediaType", jstr(l.desc.MediaType)}, jm{"digest", jstr(l.desc.Digest.String())}, jm{"size", jnum(fmt.Sprint(l.desc.Size))})
}

var hostileDigests = []string{"", "nocolon", "md5:abcd", "sha256:zz", "sha256:", ":", "sha256:" + strings.Repeat("a", 63), "SHA256:" + strings.Repeat("a", 64), "sha512:" + strings.Repeat("0", 128),
	"sha256:" + strings.Repeat("0", 64), "sha256+b64:AAAA", "sha384:" + strings.Repeat("1", 96), "blake3:" + strings.Repeat("a", 64), "sha256:../../../../etc/passwd", " sha256:" + strings.Repeat("a", 64)}

func drawReferrer(rt *rapid.T, remoteMode bool) Referrer {
	l := layoutFixtures()
	format := rp.Pick(rt, "sigFormat", envb.MTJWS, envb.MTCOSE)
	blob := rp.Pick(rt, "sigBlob", l.envs[format], l.envs[format], []byte("garbage signature"), []byte{}, fixtures().byName["jws/oci/plain"].Env)
	ref := Referrer{MediaType: ocispec.MediaTypeImageManifest, Blobs: [][]byte{blob}}
	layer := descJSON(format, blob)
	m := jobj(jm{"schemaVersion", jnum("2")}, jm{"mediaType", jstr(ocispec.MediaTypeImageManifest)},
		jm{"config", jobj(jm{"mediaType", jstr(mtNotation)}, jm{"digest", jstr(emptyJSONDigest)}, jm{"size", jnum("2")})},
		jm{"layers", jarr(layer)}, jm{"subject", subjectJSON()},
		jm{"annotations", jobj(jm{"io.cncf.notary.x509chain.thumbprint#S256", jstr("[]")}, jm{"org.opencontainers.image.created", jstr("2024-01-01T00:00:00Z")})})
	var recipe []string
	for i, n := 0, rapid.IntRange(1, 3).Draw(rt, "manifestEdits"); i < n; i++ {
		op := rp.Pick(rt, "manifestOp", "json", "json", "json", "layers-count", "layer-size", "layer-digest", "layer-digest", "layer-mediatype", "config", "subject", "annotations", "artifact-manifest", "blob-missing", "big", "none")
		switch op {
		case "json":
			recipe = append(recipe, jsonEdit(rt, m, false))
			continue
		case "layers-count":
			n := rp.Pick(rt, "layers", 0, 2, 2, 50, 5000)
			ls := jarr()
			for j := 0; j < n; j++ {
				ls.arr = append(ls.arr, layer.clone())
			}
			m.set("layers", ls)
			op += fmt.Sprint("=", n)
		case "layer-size":
			layer.set("size", jnum(rp.Pick(rt, "size", "-1", "0", "1099511627776", "4611686018427387904", "34603009", "33554432", "1e30", "1.5", "9223372036854775808", fmt.Sprint(len(blob)+1))))
		case "layer-digest":
			layer.set("digest", jstr(rp.Pick(rt, "digest", hostileDigests...)))
		case "layer-mediatype":
			layer.set("mediaType", jstr(rp.Pick(rt, "layerMT", "", "text/plain", otherFormat(format), strings.Repeat("t", 10000), "application/jose+json; charset=utf-8", ocispec.MediaTypeImageManifest, ocispec.MediaTypeImageIndex)))
			if mt := layer.get("mediaType").s; mt == ocispec.MediaTypeImageManifest || mt == ocispec.MediaTypeImageIndex {
				// a manifest-typed layer is followed by the store: keep its declared size survivable (see "oversized")
				big := "1073741824"
				if shard, _ := stats.Shard(); shard != 0 {
					big = fmt.Sprint(len(blob) + 7)
				}
				layer.set("size", jnum(rp.Pick(rt, "manifestLayerSize", fmt.Sprint(len(blob)), big, "0", "-1")))
				op += "=manifest-typed"
			}
		case "config":
			m.set("config", rp.Pick(rt, "config", jobj(), jobj(jm{"mediaType", jstr("application/vnd.oci.image.config.v1+json")}, jm{"digest", jstr(emptyJSONDigest)}, jm{"size", jnum("2")}),
				jobj(jm{"mediaType", jstr(mtNotation)}, jm{"digest", jstr("md5:abcd")}, jm{"size", jnum("2")}), jobj(jm{"mediaType", jstr(mtNotation)}, jm{"digest", jstr(digest.FromString("absent config").String())}, jm{"size", jnum("-5")}),
				jobj(jm{"mediaType", jstr(strings.ToUpper(mtNotation))}, jm{"digest", jstr(emptyJSONDigest)}, jm{"size", jnum("2")})))
			if rapid.Bool().Draw(rt, "artifactType") {
				m.set("artifactType", jstr(rp.Pick(rt, "artifactTypeValue", mtNotation, "application/vnd.other", "")))
			}
		case "subject":
			s := subjectJSON()
			switch rp.Pick(rt, "subjectKind", "own-layer", "size+1", "other-mediatype", "absent", "hostile-digest", "valid-signature-blob", "with-annotations", "oversized", "oversized") {
			case "oversized":
				// An existing manifest announced with a huge size. The store follows manifest-typed
				// successors when it indexes a layout, so this size reaches its reader. 1 and 2 GiB are
				// beyond the runaway threshold yet survivable for this process; terabyte sizes are never
				// put on a manifest-typed descriptor (an honest out-of-memory kill would take the shard
				// down instead of producing a finding).
				if shard, _ := stats.Shard(); shard != 0 {
					s.set("size", jnum(fmt.Sprint(l.desc.Size+7))) // one shard pays for the gigabytes
				} else if stats.Tier() == "thorough" {
					s.set("size", jnum(rp.Pick(rt, "oversize", "1073741824", "2147483648", "600000000")))
				} else {
					s.set("size", jnum(rp.Pick(rt, "oversize", "1073741824", "600000000")))
				}
				op += "=oversized"
			case "own-layer": // the closest a content-addressed manifest gets to pointing at itself
				s = layer.clone()
			case "size+1":
				s.set("size", jnum(fmt.Sprint(l.desc.Size+1)))
			case "other-mediatype":
				s.set("mediaType", jstr("application/vnd.oci.image.index.v1+json"))
			case "absent":
				s.set("digest", jstr(digest.FromString("absent subject").String()))
			case "hostile-digest":
				s.set("digest", jstr(rp.Pick(rt, "subjectDigest", hostileDigests...)))
			case "valid-signature-blob":
				s = descJSON(format, l.envs[format])
			case "with-annotations":
				s.set("annotations", jobj(jm{"a", jstr("b")}))
				s.set("urls", jarr(jstr("https://example.invalid/x")))
			}
			m.set("subject", s)
		case "annotations":
			m.set("annotations", rp.Pick(rt, "annotations", jarr(), jstr("x"), jobj(jm{"k", jnum("5")}), jobj(jm{"k", jlit("null")}), jlit("null"),
				jobj(jm{"io.cncf.notary.x509chain.thumbprint#S256", jstr("not json")}), jobj(jm{"big", jstr(strings.Repeat("v", 1<<20))}),
				jraw("{"+strings.TrimSuffix(strings.Repeat(`"k":"v",`, 5000), ",")+"}")))
		case "artifact-manifest":
			ref.MediaType = mtArtifactManifest
			am := jobj(jm{"mediaType", jstr(mtArtifactManifest)}, jm{"artifactType", jstr(rp.Pick(rt, "artifactType", mtNotation, mtNotation, "application/vnd.other", ""))})
			for _, kv := range [][2]string{{"blobs", "layers"}, {"subject", "subject"}, {"annotations", "annotations"}} {
				if v := m.get(kv[1]); v != nil { // earlier edits may have dropped the member
					am.mem = append(am.mem, jm{kv[0], v})
				}
			}
			m = am
		case "blob-missing":
			ref.Blobs = nil
		case "big": // just below / above the 4 MiB manifest cap
			m.set("annotations", jobj(jm{"pad", jstr(strings.Repeat("p", rp.Pick(rt, "pad", 4<<20-2000, 4<<20+10)))}))
		}
		recipe = append(recipe, op)
	}
	ref.Manifest = survivable(m.bytes())
	if rapid.IntRange(0, 9).Draw(rt, "descriptorType") == 0 {
		ref.MediaType = rp.Pick(rt, "descMT", mtArtifactManifest, ocispec.MediaTypeImageManifest, ocispec.MediaTypeImageIndex, "application/octet-stream", "")
	}
	if remoteMode {
		switch rapid.IntRange(0, 5).Draw(rt, "listing") {
		case 0:
			ref.ListedDigest = rp.Pick(rt, "listedDigest", hostileDigests...)
		case 1:
			sz := rp.Pick(rt, "listedSize", int64(-1), int64(0), int64(4<<20+1), int64(1<<40), int64(len(ref.Manifest)+1))
			ref.ListedSize = &sz
		}
	}
	ref.Recipe = strings.Join(recipe, ";")
	return ref
}

// followedTypes are the media types whose content the store fetches and parses when it
// indexes a layout (oras content.Successors): a descriptor of such a type is "followed".
var followedTypes = map[string]bool{ocispec.MediaTypeImageManifest: true, ocispec.MediaTypeImageIndex: true, mtArtifactManifest: true,
	"application/vnd.docker.distribution.manifest.v2+json": true, "application/vnd.docker.distribution.manifest.list.v2+json": true}

const (
	survivableSize = 2147483648 // 2 GiB: the largest size this harness lets a followed descriptor declare
	oversizedFrom  = runawayBytes
)

// followedSizes calls fn for every size member of an object that (also) names a followed media
// type, anywhere in v. Keys are matched case-insensitively, as encoding/json does.
func followedSizes(v *jv, fn func(size *jv)) {
	if v == nil {
		return
	}
	if v.k == 'o' {
		followed := false
		for _, m := range v.mem {
			if strings.EqualFold(m.key, "mediaType") && m.val != nil && m.val.k == 's' && followedTypes[m.val.s] {
				followed = true
			}
		}
		for _, m := range v.mem {
			if followed && strings.EqualFold(m.key, "size") && m.val != nil && m.val.k == 'n' {
				fn(m.val)
			}
			followedSizes(m.val, fn)
		}
	}
	for _, e := range v.arr {
		followedSizes(e, fn)
	}
}

func sizeValue(n *jv) (int64, bool) {
	if len(n.s) > 19 || strings.ContainsAny(n.s, ".eE-") {
		return 0, false // not an int64 the decoder would accept (or negative): no allocation
	}
	var x int64
	if _, err := fmt.Sscanf(n.s, "%d", &x); err != nil {
		return 0, false
	}
	return x, true
}

// survivable bounds the size a followed descriptor declares in a document the store will
// parse (a referrer manifest, index.json). The store allocates that size up front when it
// indexes the layout (known finding C12:runaway-allocation:registry.NewOCIRepository); with
// terabytes the process is killed for lack of memory, and beyond 2^48 bytes the store's
// goroutine panics ("makeslice: len out of range") - both take the whole test process down
// instead of producing a finding, so the generator keeps the same defect observable at a
// size this process survives. Sizes on descriptors that are not followed (signature layers,
// config) are left alone: they exercise notation-go's own size caps.
func survivable(doc []byte) []byte {
	t, err := jparse(doc)
	if err != nil {
		// not one clean JSON value (truncated, trailing data, very deep): bound every long integer after a size key
		return sizeRE.ReplaceAllFunc(doc, func(m []byte) []byte {
			sub := sizeRE.FindSubmatch(m)
			if len(sub[2]) >= 10 && string(sub[2]) > "2147483648" || len(sub[2]) > 10 {
				return append(append([]byte{}, sub[1]...), []byte(fmt.Sprint(survivableSize))...)
			}
			return m
		})
	}
	changed := false
	followedSizes(t, func(n *jv) {
		if x, ok := sizeValue(n); ok && x > survivableSize {
			n.s, changed = fmt.Sprint(survivableSize), true
		}
	})
	if !changed {
		return doc
	}
	return t.bytes()
}

var sizeRE = regexp.MustCompile(`(?i)("size"\s*:\s*)(\d+)`)

// hasOversizedFollowed reports whether a document declares a followed descriptor beyond the
// runaway threshold: the cell of the known finding.
func hasOversizedFollowed(doc []byte) bool {
	t, err := jparse(doc)
	if err != nil {
		for _, m := range sizeRE.FindAllSubmatch(doc, -1) {
			if len(m[2]) >= 9 {
				return true
			}
		}
		return false
	}
	found := false
	followedSizes(t, func(n *jv) {
		if x, ok := sizeValue(n); ok && x > oversizedFrom {
			found = true
		}
	})
	return found
}

// HandEdit is one manual change of the layout directory.
type HandEdit struct {
	Op     string `json:"op"`     // write | remove | truncate
	Target string `json:"target"` // index.json | oci-layout | blob:<digest> | blobs
	Data   []byte `json:"data,omitempty"`
}

// LayoutCase is the replay format of family 4.
type LayoutCase struct {
	Family    int        `json:"family"`
	Mode      string     `json:"mode"`     // layout | remote
	ValidSig  string     `json:"validSig"` // "" | media type of a valid signature pushed first
	Envelope  []byte     `json:"envelope,omitempty"`
	Referrers []Referrer `json:"referrers"`
	Edits     []HandEdit `json:"edits,omitempty"`
	Inject    bool       `json:"inject"`              // list every referrer in index.json by hand (layout) before reopening
	IndexJSON []byte     `json:"indexJSON,omitempty"` // remote: the referrers response ("" = honest listing)
	TagSchema bool       `json:"tagSchema,omitempty"` // remote: referrers API answers 404, listing lives under the fallback tag
	NoDigestH bool       `json:"noDigestHeader,omitempty"`
	AnyBlob   bool       `json:"anyBlob,omitempty"` // remote: unknown blob digests are answered with content all the same
	Logging   bool       `json:"logging"`
}

func (c *LayoutCase) fingerprint() uint64 {
	parts := []any{c.Mode, c.ValidSig, c.Inject, c.TagSchema, c.AnyBlob, c.IndexJSON}
	for _, r := range c.Referrers {
		parts = append(parts, r.MediaType, r.Manifest, r.ListedDigest, len(r.Blobs))
	}
	for _, e := range c.Edits {
		parts = append(parts, e.Op, e.Target, e.Data)
	}
	return stats.Fingerprint(parts...)
}

// ---------- probing a repository ----------

type probeStats struct {
	listed, fetched, verified int
}

func probe(r *runner, c *LayoutCase, repo registry.Repository, ps *probeStats) {
	l := layoutFixtures()
	ctx := ctxFor(c.Logging)
	r.call("Repository.Resolve", 0, func() {
		_, err := repo.Resolve(ctx, "v1")
		touchErr(err)
		_, err = repo.Resolve(ctx, l.desc.Digest.String())
		touchErr(err)
	})
	var listed []ocispec.Descriptor
	r.call("Repository.ListSignatures", 0, func() {
		err := repo.ListSignatures(ctx, l.desc, func(ds []ocispec.Descriptor) error {
			listed = append(listed, ds...)
			return nil
		})
		touchErr(err)
	})
	ps.listed += len(listed)
	known := append([]ocispec.Descriptor{}, listed...)
	for _, ref := range c.Referrers {
		d := ocispec.Descriptor{MediaType: ref.MediaType, Digest: digest.FromBytes(ref.Manifest), Size: int64(len(ref.Manifest))}
		known = append(known, d)
		if ref.MediaType != ocispec.MediaTypeImageManifest { // the same content announced as an image manifest
			d.MediaType = ocispec.MediaTypeImageManifest
			known = append(known, d)
		}
		if ref.ListedDigest != "" {
			d.Digest = digest.Digest(ref.ListedDigest)
			known = append(known, d)
		}
	}
	if len(known) > 12 {
		known = known[:12]
	}
	for _, d := range known {
		d := d
		r.call("Repository.FetchSignatureBlob", 0, func() {
			_, _, err := repo.FetchSignatureBlob(ctx, d)
			touchErr(err)
			if err == nil {
				ps.fetched++
			}
		})
		// a referrer as the subject of a listing. The subject descriptor of a direct call is the
		// caller's input, not registry content (notation.Verify passes what Resolve returned, and
		// the stores validate that), so only well-formed digests are offered here.
		if d.Digest.Validate() == nil {
			r.call("Repository.ListSignatures", 0, func() {
				touchErr(repo.ListSignatures(ctx, d, func(ds []ocispec.Descriptor) error { return nil }))
			})
		}
	}
	for _, level := range []string{"strict", "skip"} {
		v, err := build(r, defaultCfg("oci", level))
		if err != nil {
			panic(harnessPanic{"harness: verifier construction: " + err.Error()})
		}
		for _, ref := range []string{"registry.example/verif/repo@" + l.desc.Digest.String(), "registry.example/verif/repo:v1"} {
			var res callResult
			cc := &Case{Entry: "notation.Verify", Cfg: defaultCfg("oci", level)}
			panicked := r.call("notation.Verify", 0, func() {
				_, res.outcomes, res.err = notation.Verify(ctx, v, repo, notation.VerifyOptions{ArtifactReference: ref, MaxSignatureAttempts: 50})
				touchErr(res.err)
				for _, o := range res.outcomes {
					if o != nil {
						_, _ = o.UserMetadata()
					}
				}
			})
			if !panicked {
				oracle(r, cc, &res)
				if res.err == nil && level == "strict" {
					ps.verified++
				}
			}
		}
	}
}

// ---------- (a) on-disk layout ----------

func blobFile(dir string, d digest.Digest) string {
	return filepath.Join(dir, "blobs", d.Algorithm().String(), d.Encoded())
}

func pushRaw(store *oci.Store, mt string, content []byte) error {
	d := ocispec.Descriptor{MediaType: mt, Digest: digest.FromBytes(content), Size: int64(len(content))}
	err := store.Push(context.Background(), d, bytes.NewReader(content))
	if err != nil && strings.Contains(err.Error(), "already exists") {
		return nil
	}
	return err
}

func runLayout(r *runner, c *LayoutCase) (classes []string, nontrivial bool) {
	l := layoutFixtures()
	dir, err := os.MkdirTemp("", "c12-layout-")
	if err != nil {
		panic(harnessPanic{"harness: " + err.Error()})
	}
	defer os.RemoveAll(dir)
	store, err := oci.New(dir)
	if err != nil {
		panic(harnessPanic{"harness: oci.New on an empty directory: " + err.Error()})
	}
	for _, p := range []struct {
		mt string
		b  []byte
	}{{"application/vnd.c12.layer", l.layer}, {"application/vnd.oci.empty.v1+json", []byte("{}")}, {ocispec.MediaTypeImageManifest, l.manifest}} {
		if err := pushRaw(store, p.mt, p.b); err != nil {
			panic(harnessPanic{"harness: pushing the artifact: " + err.Error()})
		}
	}
	if err := store.Tag(context.Background(), l.desc, "v1"); err != nil {
		panic(harnessPanic{"harness: tagging the artifact: " + err.Error()})
	}
	repoA := registry.NewRepository(store)
	if c.ValidSig != "" {
		r.call("Repository.PushSignature", len(c.Envelope), func() {
			_, _, err := repoA.PushSignature(ctxFor(c.Logging), c.ValidSig, c.Envelope, l.desc, map[string]string{"k": "v"})
			touchErr(err)
		})
	}
	refused := 0
	for _, ref := range c.Referrers {
		for _, b := range ref.Blobs {
			if err := pushRaw(store, "application/octet-stream", b); err != nil {
				panic(harnessPanic{"harness: pushing a blob: " + err.Error()})
			}
		}
		// the store indexes manifests while pushing and may refuse them: that is oras' error return
		func() {
			defer func() {
				if p := recover(); p != nil {
					refused++ // a panic of oras' own Push is not notation-go's
				}
			}()
			if err := pushRaw(store, ref.MediaType, ref.Manifest); err != nil {
				refused++
			}
		}()
	}
	ps := &probeStats{}
	probe(r, c, repoA, ps)
	classes = append(classes, "phase=pushed")
	if refused > 0 {
		classes = append(classes, "push-refused")
	}

	// hand edits, then a fresh store instance over the directory
	if c.Inject {
		var idx struct {
			SchemaVersion int               `json:"schemaVersion"`
			Manifests     []json.RawMessage `json:"manifests"`
		}
		if b, err := os.ReadFile(filepath.Join(dir, "index.json")); err == nil && json.Unmarshal(b, &idx) == nil {
			for _, ref := range c.Referrers {
				os.WriteFile(blobFile(dir, digest.FromBytes(ref.Manifest)), ref.Manifest, 0o644)
				d, _ := json.Marshal(ocispec.Descriptor{MediaType: ref.MediaType, Digest: digest.FromBytes(ref.Manifest), Size: int64(len(ref.Manifest))})
				idx.Manifests = append(idx.Manifests, d)
			}
			nb, _ := json.Marshal(idx)
			os.WriteFile(filepath.Join(dir, "index.json"), nb, 0o644)
		}
	}
	for _, e := range c.Edits {
		var path string
		switch {
		case e.Target == "index.json" || e.Target == "oci-layout" || e.Target == "blobs":
			path = filepath.Join(dir, e.Target)
		case strings.HasPrefix(e.Target, "blob:sha256:") && len(e.Target) == len("blob:sha256:")+64:
			if _, err := hex.DecodeString(e.Target[len("blob:sha256:"):]); err != nil {
				continue
			}
			path = filepath.Join(dir, "blobs", "sha256", e.Target[len("blob:sha256:"):])
		default:
			continue
		}
		switch e.Op {
		case "write":
			os.Remove(path)
			os.WriteFile(path, e.Data, 0o644)
		case "remove":
			os.RemoveAll(path)
		case "truncate":
			if b, err := os.ReadFile(path); err == nil {
				os.WriteFile(path, b[:len(b)/2], 0o644)
			}
		}
		classes = append(classes, "handedit="+e.Op+":"+strings.SplitN(e.Target, ":", 2)[0])
	}
	var repoB registry.Repository
	r.call("registry.NewOCIRepository", 0, func() {
		rb, err := registry.NewOCIRepository(dir, registry.RepositoryOptions{})
		touchErr(err)
		if err == nil {
			repoB = rb
		}
	})
	// The known cell: a followed descriptor with an oversized declaration makes the store allocate
	// that size while it opens the layout. A runaway allocation of the same call WITHOUT such a
	// descriptor in the case is another mechanism and gets its own key.
	oversized := false
	for _, ref := range c.Referrers {
		oversized = oversized || hasOversizedFollowed(ref.Manifest)
	}
	for _, e := range c.Edits {
		oversized = oversized || (e.Target == "index.json" && hasOversizedFollowed(e.Data))
	}
	if oversized {
		classes = append(classes, "oversized-followed-descriptor")
	}
	for i := range r.findings {
		if r.findings[i].Key == "C12:runaway-allocation:registry.NewOCIRepository" {
			if oversized {
				classes = append(classes, "runaway:known-cell")
			} else {
				r.findings[i].Key += ":no-oversized-descriptor"
			}
		}
	}
	if repoB != nil {
		probe(r, c, repoB, ps)
		classes = append(classes, "phase=reopened")
	} else {
		classes = append(classes, "reopen-refused")
	}
	return append(classes, probeClasses(ps)...), ps.listed > 0 || ps.fetched > 0
}

func probeClasses(ps *probeStats) []string {
	var cl []string
	if ps.listed > 0 {
		cl = append(cl, "listed>0")
	}
	if ps.fetched > 0 {
		cl = append(cl, "parsed", "manifest-fetched")
	}
	if ps.verified > 0 {
		cl = append(cl, "outcome=ok")
	} else {
		cl = append(cl, "outcome=err")
	}
	return cl
}

func drawHandEdit(rt *rapid.T, c *LayoutCase) HandEdit {
	l := layoutFixtures()
	// blobs that certainly exist: artifact manifest, its layer, the referrers' manifests and blobs
	var targets []string
	targets = append(targets, "blob:"+l.desc.Digest.String(), "blob:"+digest.FromBytes(l.layer).String(), "blob:"+emptyJSONDigest)
	for _, ref := range c.Referrers {
		targets = append(targets, "blob:"+digest.FromBytes(ref.Manifest).String(), "blob:"+digest.FromBytes(ref.Manifest).String())
		for _, b := range ref.Blobs {
			targets = append(targets, "blob:"+digest.FromBytes(b).String())
		}
	}
	switch rp.Pick(rt, "handEdit", "manifest-content", "manifest-content", "truncate", "remove", "index", "index", "oci-layout", "blobs-dir") {
	case "manifest-content":
		return HandEdit{Op: "write", Target: rp.Pick(rt, "target", targets...), Data: []byte(rp.Pick(rt, "content", "null", "[]", `{"layers":null}`, "{}", "", `{"layers":[{}]}`, `{"schemaVersion":2,"layers":[null]}`, "\x00\x01", `{"subject":`+string(subjectJSON().bytes())+`}`))}
	case "truncate":
		return HandEdit{Op: "truncate", Target: rp.Pick(rt, "target", targets...)}
	case "remove":
		return HandEdit{Op: "remove", Target: rp.Pick(rt, "target", targets...)}
	case "index":
		descs := jarr()
		for _, ref := range c.Referrers {
			descs.arr = append(descs.arr, jobj(jm{"mediaType", jstr(ref.MediaType)}, jm{"digest", jstr(digest.FromBytes(ref.Manifest).String())}, jm{"size", jnum(fmt.Sprint(len(ref.Manifest)))}))
		}
		descs.arr = append(descs.arr, jobj(jm{"mediaType", jstr(l.desc.MediaType)}, jm{"digest", jstr(l.desc.Digest.String())}, jm{"size", jnum(fmt.Sprint(l.desc.Size))},
			jm{"annotations", jobj(jm{"org.opencontainers.image.ref.name", jstr("v1")})}))
		idx := jobj(jm{"schemaVersion", jnum("2")}, jm{"manifests", descs})
		switch rp.Pick(rt, "indexKind", "edited", "edited", "edited", "null", "array", "empty-object", "manifests-null", "truncated", "garbage", "hostile-descriptor") {
		case "edited":
			jsonEdit(rt, idx, false)
			return HandEdit{Op: "write", Target: "index.json", Data: survivable(idx.bytes())}
		case "null":
			return HandEdit{Op: "write", Target: "index.json", Data: []byte("null")}
		case "array":
			return HandEdit{Op: "write", Target: "index.json", Data: []byte("[]")}
		case "empty-object":
			return HandEdit{Op: "write", Target: "index.json", Data: []byte("{}")}
		case "manifests-null":
			return HandEdit{Op: "write", Target: "index.json", Data: []byte(`{"schemaVersion":2,"manifests":null}`)}
		case "truncated":
			b := idx.bytes()
			return HandEdit{Op: "write", Target: "index.json", Data: survivable(b[:len(b)/2])}
		case "garbage":
			return HandEdit{Op: "write", Target: "index.json", Data: []byte("\xff\x00garbage")}
		default:
			descs.arr = append(descs.arr, jobj(jm{"mediaType", jstr(ocispec.MediaTypeImageManifest)}, jm{"digest", jstr(rp.Pick(rt, "indexDigest", hostileDigests...))}, jm{"size", jnum(rp.Pick(rt, "indexSize", "-1", "0", "5", "1099511627776"))},
				jm{"annotations", jobj(jm{"org.opencontainers.image.ref.name", jstr(rp.Pick(rt, "refName", "v1", "v2", "", "../x", strings.Repeat("t", 300)))})}))
			return HandEdit{Op: "write", Target: "index.json", Data: survivable(idx.bytes())}
		}
	case "oci-layout":
		if rapid.Bool().Draw(rt, "removeLayoutFile") {
			return HandEdit{Op: "remove", Target: "oci-layout"}
		}
		return HandEdit{Op: "write", Target: "oci-layout", Data: []byte(rp.Pick(rt, "layoutFile", "null", "{}", `{"imageLayoutVersion":"9.9.9"}`, `{"imageLayoutVersion":5}`, "", "["))}
	}
	if rapid.Bool().Draw(rt, "blobsAsFile") {
		return HandEdit{Op: "write", Target: "blobs", Data: []byte("not a directory")}
	}
	return HandEdit{Op: "remove", Target: "blobs"}
}

// ---------- (b) hostile remote registry ----------

func runRemote(r *runner, c *LayoutCase) (classes []string, nontrivial bool) {
	l := layoutFixtures()
	type served struct {
		content []byte
		mt      string
	}
	manifests := map[string]served{l.desc.Digest.String(): {l.manifest, l.desc.MediaType}, "v1": {l.manifest, l.desc.MediaType}}
	blobs := map[string][]byte{digest.FromBytes(l.layer).String(): l.layer, emptyJSONDigest: []byte("{}")}
	listing := jarr()
	add := func(mt string, manifest []byte, listedDigest string, listedSize *int64, blobsOf [][]byte) {
		real := digest.FromBytes(manifest).String()
		manifests[real] = served{manifest, mt}
		dg, size := real, int64(len(manifest))
		if listedDigest != "" {
			dg = listedDigest
			manifests[dg] = served{manifest, mt}
		}
		if listedSize != nil {
			size = *listedSize
		}
		listing.arr = append(listing.arr, jobj(jm{"mediaType", jstr(mt)}, jm{"digest", jstr(dg)}, jm{"size", jnum(fmt.Sprint(size))}, jm{"artifactType", jstr(mtNotation)}))
		for _, b := range blobsOf {
			blobs[digest.FromBytes(b).String()] = b
		}
	}
	if c.ValidSig != "" {
		layer := descJSON(c.ValidSig, c.Envelope)
		m := jobj(jm{"schemaVersion", jnum("2")}, jm{"mediaType", jstr(ocispec.MediaTypeImageManifest)},
			jm{"config", jobj(jm{"mediaType", jstr(mtNotation)}, jm{"digest", jstr(emptyJSONDigest)}, jm{"size", jnum("2")})},
			jm{"layers", jarr(layer)}, jm{"subject", subjectJSON()})
		add(ocispec.MediaTypeImageManifest, m.bytes(), "", nil, [][]byte{c.Envelope})
	}
	for _, ref := range c.Referrers {
		add(ref.MediaType, ref.Manifest, ref.ListedDigest, ref.ListedSize, ref.Blobs)
	}
	index := jobj(jm{"schemaVersion", jnum("2")}, jm{"mediaType", jstr(ocispec.MediaTypeImageIndex)}, jm{"manifests", listing}).bytes()
	if len(c.IndexJSON) > 0 {
		index = c.IndexJSON
	}
	fallbackTag := strings.Replace(l.desc.Digest.String(), ":", "-", 1)
	srv := httptest.NewServer(http.HandlerFunc(func(w http.ResponseWriter, req *http.Request) {
		p := req.URL.Path
		const base = "/v2/verif/repo/"
		switch {
		case p == "/v2/" || p == "/v2":
			w.WriteHeader(http.StatusOK)
		case strings.HasPrefix(p, base+"referrers/"):
			if c.TagSchema {
				w.WriteHeader(http.StatusNotFound)
				return
			}
			w.Header().Set("Content-Type", ocispec.MediaTypeImageIndex)
			w.Write(index)
		case strings.HasPrefix(p, base+"manifests/"):
			ref := strings.TrimPrefix(p, base+"manifests/")
			s, ok := manifests[ref]
			if !ok && c.TagSchema && ref == fallbackTag {
				s, ok = served{index, ocispec.MediaTypeImageIndex}, true
			}
			if !ok {
				w.WriteHeader(http.StatusNotFound)
				return
			}
			w.Header().Set("Content-Type", s.mt)
			if !c.NoDigestH {
				w.Header().Set("Docker-Content-Digest", digest.FromBytes(s.content).String())
			}
			w.Header().Set("Content-Length", fmt.Sprint(len(s.content)))
			if req.Method != http.MethodHead {
				w.Write(s.content)
			}
		case strings.HasPrefix(p, base+"blobs/"):
			ref := strings.TrimPrefix(p, base+"blobs/")
			b, ok := blobs[ref]
			if !ok && c.AnyBlob {
				b, ok = []byte("sig"), true
			}
			if !ok {
				w.WriteHeader(http.StatusNotFound)
				return
			}
			w.Header().Set("Content-Type", "application/octet-stream")
			if req.Method != http.MethodHead {
				w.Write(b)
			}
		default:
			w.WriteHeader(http.StatusNotFound)
		}
	}))
	defer srv.Close()
	rr, err := remote.NewRepository(strings.TrimPrefix(srv.URL, "http://") + "/verif/repo")
	if err != nil {
		panic(harnessPanic{"harness: remote.NewRepository: " + err.Error()})
	}
	rr.PlainHTTP = true
	ps := &probeStats{}
	probe(r, c, registry.NewRepository(rr), ps)
	classes = append(classes, "phase=remote")
	if c.TagSchema {
		classes = append(classes, "remote:tag-schema")
	}
	return append(classes, probeClasses(ps)...), ps.listed > 0 || ps.fetched > 0
}

// ---------- the tests ----------

func runLayoutCase(t stats.Failer, rec *stats.Recorder, c *LayoutCase, extra ...string) {
	r := &runner{}
	var cl []string
	var nt bool
	if c.Mode == "remote" {
		cl, nt = runRemote(r, c)
	} else {
		cl, nt = runLayout(r, c)
	}
	classes := append([]string{"family=4", "mode=" + c.Mode, "entry=notation.Verify", "entry=Repository.ListSignatures", "entry=Repository.FetchSignatureBlob"}, cl...)
	classes = append(classes, extra...)
	if c.ValidSig != "" {
		classes = append(classes, "with-valid-signature")
	}
	for _, ref := range c.Referrers {
		for _, op := range strings.Split(ref.Recipe, ";") {
			if i := strings.Index(op, "@"); i > 0 {
				op = "json:" + op[:i]
			}
			if i := strings.Index(op, "="); i > 0 {
				op = op[:i]
			}
			if op != "" {
				classes = append(classes, "manifest="+op)
			}
		}
	}
	rec.Case(classes, nt, c.fingerprint(), func() any {
		var recipes []string
		for _, ref := range c.Referrers {
			recipes = append(recipes, ref.MediaType+": "+ref.Recipe)
		}
		return map[string]any{"mode": c.Mode, "validSig": c.ValidSig, "referrers": recipes, "edits": len(c.Edits), "inject": c.Inject}
	})
	r.report(t, rec, c)
}

func drawLayoutCase(rt *rapid.T, mode string) *LayoutCase {
	l := layoutFixtures()
	c := &LayoutCase{Family: 4, Mode: mode, Logging: rapid.Bool().Draw(rt, "logging")}
	if rapid.Bool().Draw(rt, "validSignature") {
		c.ValidSig = rp.Pick(rt, "validFormat", envb.MTJWS, envb.MTCOSE)
		c.Envelope = l.envs[c.ValidSig]
	}
	for i, n := 0, rapid.IntRange(1, 3).Draw(rt, "referrers"); i < n; i++ {
		c.Referrers = append(c.Referrers, drawReferrer(rt, mode == "remote"))
	}
	return c
}

func TestC12_HostileLayout(t *testing.T) {
	rec := stats.New(t, "C12", rule)
	var rc LayoutCase
	if rp.ReplayCase(&rc) {
		if rc.Family == 4 && len(rc.Referrers)+len(rc.Edits) > 0 {
			runLayoutCase(t, rec, &rc, "replay")
		}
		return
	}
	if shard, _ := stats.Shard(); shard == 0 {
		// The cell of the known finding, once per run and deterministically: an otherwise valid
		// referrer whose subject keeps the artifact's digest but declares 1 GiB.
		l := layoutFixtures()
		sub := subjectJSON()
		sub.set("size", jnum("1073741824"))
		m := jobj(jm{"schemaVersion", jnum("2")}, jm{"mediaType", jstr(ocispec.MediaTypeImageManifest)},
			jm{"config", jobj(jm{"mediaType", jstr(mtNotation)}, jm{"digest", jstr(emptyJSONDigest)}, jm{"size", jnum("2")})},
			jm{"layers", jarr(descJSON(envb.MTJWS, l.envs[envb.MTJWS]))}, jm{"subject", sub})
		runLayoutCase(t, rec, &LayoutCase{Family: 4, Mode: "layout", Referrers: []Referrer{{MediaType: ocispec.MediaTypeImageManifest, Manifest: m.bytes(),
			Blobs: [][]byte{l.envs[envb.MTJWS]}, Recipe: "subject=oversized"}}}, "known-cell-probe")
	}
	rp.Check(t, 320, 8000, property(func(rt *rapid.T) {
		c := drawLayoutCase(rt, "layout")
		c.Inject = rapid.IntRange(0, 2).Draw(rt, "inject") == 0
		for i, n := 0, rapid.IntRange(0, 2).Draw(rt, "handEdits"); i < n; i++ {
			c.Edits = append(c.Edits, drawHandEdit(rt, c))
		}
		runLayoutCase(rt, rec, c)
	}))
}

func TestC12_HostileRegistry(t *testing.T) {
	rec := stats.New(t, "C12", rule)
	var rc LayoutCase
	if rp.ReplayCase(&rc) {
		return // replayed by TestC12_HostileLayout
	}
	rp.Check(t, 320, 8000, property(func(rt *rapid.T) {
		c := drawLayoutCase(rt, "remote")
		c.TagSchema = rapid.IntRange(0, 4).Draw(rt, "tagSchema") == 0
		c.NoDigestH = rapid.Bool().Draw(rt, "noDigestHeader")
		c.AnyBlob = rapid.Bool().Draw(rt, "anyBlob")
		if rapid.IntRange(0, 5).Draw(rt, "hostileIndex") == 0 {
			idx := jobj(jm{"schemaVersion", jnum("2")}, jm{"mediaType", jstr(ocispec.MediaTypeImageIndex)},
				jm{"manifests", jarr(jobj(jm{"mediaType", jstr(ocispec.MediaTypeImageManifest)}, jm{"digest", jstr(digest.FromBytes(c.Referrers[0].Manifest).String())},
					jm{"size", jnum(fmt.Sprint(len(c.Referrers[0].Manifest)))}, jm{"artifactType", jstr(mtNotation)}))})
			jsonEdit(rt, idx, false)
			c.IndexJSON = idx.bytes()
		}
		runLayoutCase(rt, rec, c)
	}))
}
