package c12

// Family 5: policy, configuration, signing-key, key-pair, trust-store and CRL-cache files with
// arbitrary content. The dir.User*Dir package variables are set per case and restored; the
// tests of this package never run in parallel.

import (
	"context"
	"crypto/sha256"
	"encoding/base64"
	"encoding/hex"
	"fmt"
	"os"
	"path/filepath"
	"strings"
	"sync"
	"testing"
	"time"

	"github.com/notaryproject/notation-go"
	"github.com/notaryproject/notation-go/config"
	"github.com/notaryproject/notation-go/dir"
	"github.com/notaryproject/notation-go/signer"
	"github.com/notaryproject/notation-go/verifier"
	"github.com/notaryproject/notation-go/verifier/crl"
	"github.com/notaryproject/notation-go/verifier/trustpolicy"
	"github.com/notaryproject/notation-go/verifier/truststore"
	"pgregory.net/rapid"

	corecrl "github.com/notaryproject/notation-core-go/revocation/crl"

	"verifharness/internal/envb"
	"verifharness/internal/kit"
	"verifharness/internal/mocks"
	"verifharness/internal/pki"
	"verifharness/internal/rp"
	"verifharness/internal/stats"
)

var fileKinds = []string{"oci-policy", "oci-policy-legacy", "blob-policy", "config", "signingkeys", "crl-cache", "keypair", "truststore"}

const crlURL = "http://crl.example/c12.crl"

// FileCase is the replay format of family 5.
type FileCase struct {
	Family  int    `json:"family"`
	Kind    string `json:"kind"`
	Content []byte `json:"content"`
	Second  []byte `json:"second,omitempty"` // keypair: the certificate file; oci-policy: a legacy trustpolicy.json next to it
	Recipe  string `json:"recipe"`
	Logging bool   `json:"logging"`
	FuzzSel []byte `json:"fuzzSel,omitempty"`
}

type fileFixture struct {
	valid  map[string][]byte
	keyPEM []byte
	crtPEM []byte
}

var (
	ffOnce sync.Once
	ffx    *fileFixture
)

func fileFixtures() *fileFixture {
	ffOnce.Do(func() {
		f := fixtures()
		ff := &fileFixture{valid: map[string][]byte{}}
		ff.valid["oci-policy"] = []byte(`{"version":"1.0","trustPolicies":[` +
			`{"name":"wabbit","registryScopes":["registry.example/verif/repo","registry.acme-rockets.io/software/net-monitor"],"signatureVerification":{"level":"strict","override":{"revocation":"log"},"verifyTimestamp":"afterCertExpiry"},"trustStores":["ca:x","tsa:x"],"trustedIdentities":["x509.subject: C=US, ST=WA, O=verif"]},` +
			`{"name":"skipped","registryScopes":["registry.example/skip/repo"],"signatureVerification":{"level":"skip"}},` +
			`{"name":"everything-else","registryScopes":["*"],"signatureVerification":{"level":"audit"},"trustStores":["ca:x","signingAuthority:x"],"trustedIdentities":["*"]}]}`)
		ff.valid["oci-policy-legacy"] = ff.valid["oci-policy"]
		ff.valid["blob-policy"] = []byte(`{"version":"1.0","trustPolicies":[` +
			`{"name":"` + namedBlobStmt + `","signatureVerification":{"level":"strict","override":{"expiry":"log"}},"trustStores":["ca:x"],"trustedIdentities":["x509.subject: C=US, ST=WA, O=verif","x509.subject: C=US, ST=CA, O=other"]},` +
			`{"name":"skipped","signatureVerification":{"level":"skip"}},` +
			`{"name":"global-statement","signatureVerification":{"level":"permissive","verifyTimestamp":"always"},"trustStores":["ca:x","tsa:x"],"trustedIdentities":["*"],"globalPolicy":true}]}`)
		ff.valid["config"] = []byte(`{"insecureRegistries":["reg.example:5000","localhost:5000"],"credsStore":"desktop","credHelpers":{"reg.example":"helper"},"signatureFormat":"cose"}`)
		ff.valid["signingkeys"] = []byte(`{"default":"k1","keys":[{"name":"k1","keyPath":"/nonexistent/k1.key","certPath":"/nonexistent/k1.crt"},{"name":"k2","id":"kid","pluginName":"c12plug","pluginConfig":{"a":"b"}},{"name":"k3"}]}`)
		now := time.Now()
		base := pki.CRL(f.chain.Root(), 5, now.Add(-time.Hour), now.Add(24*time.Hour), 3, nil)
		delta := pki.CRL(f.chain.Root(), 6, now.Add(-time.Minute), now.Add(24*time.Hour), 1, nil)
		ff.valid["crl-cache"] = []byte(fmt.Sprintf(`{"baseCRL":%q,"deltaCRL":%q}`, base64.StdEncoding.EncodeToString(base.Raw), base64.StdEncoding.EncodeToString(delta.Raw)))
		ff.keyPEM = pki.KeyPEM(f.chain.Leaf().Key)
		ff.crtPEM = pki.PEM(f.chain.X509()...)
		ff.valid["keypair"] = ff.keyPEM
		ff.valid["truststore"] = pki.PEM(f.chain.Root().Cert, f.chainRSA.Root().Cert)
		ffx = ff
	})
	return ffx
}

// byteEdit is a byte level mutation for any file.
func byteEdit(rt *rapid.T, in []byte) ([]byte, string) {
	out := append([]byte{}, in...)
	op := rp.Pick(rt, "fileByteOp", "flip", "truncate", "append", "bom", "nul", "double", "empty", "utf16")
	switch op {
	case "flip":
		if len(out) > 0 {
			out[rapid.IntRange(0, len(out)-1).Draw(rt, "at")] ^= byte(1 << rapid.IntRange(0, 7).Draw(rt, "bit"))
		}
	case "truncate":
		if len(out) > 0 {
			out = out[:rapid.IntRange(0, len(out)-1).Draw(rt, "len")]
		}
	case "append":
		out = append(out, []byte(rp.Pick(rt, "tail", "x", "{}", "\n\n", "\x00", "null", ",", "}"))...)
	case "bom":
		out = append([]byte("\xef\xbb\xbf"), out...)
	case "nul":
		out = append([]byte{0}, out...)
	case "double":
		out = append(out, out...)
	case "empty":
		out = nil
	case "utf16":
		var w []byte
		for _, c := range out {
			w = append(w, c, 0)
		}
		out = append([]byte{0xff, 0xfe}, w...)
	}
	return out, "bytes:" + op
}

func drawFileCase(rt *rapid.T) *FileCase {
	ff := fileFixtures()
	c := &FileCase{Family: 5, Kind: rp.Pick(rt, "fileKind", fileKinds...), Logging: rapid.Bool().Draw(rt, "logging")}
	valid := ff.valid[c.Kind]
	isJSON := c.Kind != "keypair" && c.Kind != "truststore"
	src := rp.Pick(rt, "fileSource", "mutated", "mutated", "mutated", "mutated", "mutated", "bytes", "arbitrary-json", "random", "valid")
	if !isJSON && (src == "mutated" || src == "arbitrary-json") {
		src = "pem"
	}
	switch src {
	case "valid":
		c.Content, c.Recipe = valid, "valid"
	case "mutated":
		tree, err := jparse(valid)
		if err != nil {
			panic(harnessPanic{"harness: valid " + c.Kind + " does not parse"})
		}
		var rs []string
		for i, n := 0, rapid.IntRange(1, 3).Draw(rt, "edits"); i < n; i++ {
			if c.Kind == "crl-cache" && rapid.Bool().Draw(rt, "derEdit") {
				key := rp.Pick(rt, "crlField", "baseCRL", "deltaCRL")
				if v := tree.get(key); v != nil && v.k == 's' {
					raw, _ := base64.StdEncoding.DecodeString(v.s)
					tree.set(key, jstr(base64.StdEncoding.EncodeToString(flipSome(rt, raw))))
					rs = append(rs, "der@."+key)
					continue
				}
			}
			rs = append(rs, jsonEdit(rt, tree, true))
		}
		c.Content, c.Recipe = tree.bytes(), "json:"+strings.Join(rs, ";")
	case "bytes":
		c.Content, c.Recipe = byteEdit(rt, valid)
	case "arbitrary-json":
		c.Content, c.Recipe = genJSON(rt, 0).bytes(), "arbitrary-json"
	case "random":
		c.Content, c.Recipe = rapid.SliceOfN(rapid.Byte(), 0, 300).Draw(rt, "bytes"), "random"
	case "pem":
		// PEM level: flip bytes inside the DER of a block, drop / duplicate / re-label blocks
		op := rp.Pick(rt, "pemOp", "der", "der", "relabel", "duplicate", "garbage-between", "headers", "truncate-pem")
		switch op {
		case "der":
			blocks := strings.SplitAfter(string(valid), "-----\n")
			c.Content = []byte(string(valid))
			if len(blocks) >= 2 {
				body := strings.Split(string(valid), "\n")
				i := rapid.IntRange(1, len(body)-2).Draw(rt, "line")
				if raw, err := base64.StdEncoding.DecodeString(body[i]); err == nil && len(raw) > 0 {
					body[i] = base64.StdEncoding.EncodeToString(flipSome(rt, raw))
				}
				c.Content = []byte(strings.Join(body, "\n"))
			}
		case "relabel":
			c.Content = []byte(strings.ReplaceAll(string(valid), rp.Pick(rt, "from", "CERTIFICATE", "PRIVATE KEY"), rp.Pick(rt, "to", "EC PRIVATE KEY", "RSA PRIVATE KEY", "CERTIFICATE", "X509 CRL", "")))
		case "duplicate":
			c.Content = append(append([]byte{}, valid...), valid...)
		case "garbage-between":
			c.Content = append(append([]byte("garbage\n"), valid...), []byte("\ntrailing garbage")...)
		case "headers":
			c.Content = []byte(strings.Replace(string(valid), "-----\n", "-----\nProc-Type: 4,ENCRYPTED\nDEK-Info: AES-128-CBC,00\n\n", 1))
		case "truncate-pem":
			c.Content = valid[:rapid.IntRange(0, len(valid)-1).Draw(rt, "len")]
		}
		c.Recipe = "pem:" + op
	}
	switch c.Kind {
	case "keypair":
		c.Second = ff.crtPEM
		if rapid.IntRange(0, 2).Draw(rt, "mutateCertInstead") == 0 { // hostile certificate file, honest key
			c.Second, c.Content = c.Content, ff.keyPEM
			if src == "valid" {
				c.Second = ff.crtPEM
			}
			c.Recipe += ",cert-file"
		}
	case "oci-policy":
		if rapid.IntRange(0, 4).Draw(rt, "legacyToo") == 0 {
			c.Second = ff.valid["oci-policy"]
		}
	}
	return c
}

var dirMu sync.Mutex

// withDirs points the library's directories at a fresh sandbox for the duration of fn.
func withDirs(fn func(root string)) {
	dirMu.Lock()
	defer dirMu.Unlock()
	root, err := os.MkdirTemp("", "c12-files-")
	if err != nil {
		panic(harnessPanic{"harness: " + err.Error()})
	}
	defer os.RemoveAll(root)
	oc, ol, oa := dir.UserConfigDir, dir.UserLibexecDir, dir.UserCacheDir
	defer func() { dir.UserConfigDir, dir.UserLibexecDir, dir.UserCacheDir = oc, ol, oa }()
	dir.UserConfigDir, dir.UserLibexecDir, dir.UserCacheDir = filepath.Join(root, "config"), filepath.Join(root, "libexec"), filepath.Join(root, "cache")
	for _, d := range []string{dir.UserConfigDir, dir.UserLibexecDir, dir.UserCacheDir} {
		if err := os.MkdirAll(d, 0o755); err != nil {
			panic(harnessPanic{"harness: " + err.Error()})
		}
	}
	fn(root)
}

func mustWrite(path string, b []byte) {
	if err := os.MkdirAll(filepath.Dir(path), 0o755); err != nil {
		panic(harnessPanic{"harness: " + err.Error()})
	}
	if err := os.WriteFile(path, b, 0o644); err != nil {
		panic(harnessPanic{"harness: " + err.Error()})
	}
}

var probeRefs = []string{"registry.example/verif/repo@sha256:" + strings.Repeat("a", 64), "registry.example/skip/repo@sha256:" + strings.Repeat("b", 64), "other.example/x@sha256:" + strings.Repeat("c", 64),
	"", "no-digest", "@", "registry.example/verif/repo:tag", "*@sha256:" + strings.Repeat("d", 64)}

// runFile executes one family 5 case; parsed reports whether the file's first parser accepted it.
func runFile(r *runner, c *FileCase) (parsed bool) {
	f := fixtures()
	ctx := ctxFor(c.Logging)
	n := len(c.Content)
	withDirs(func(root string) {
		switch c.Kind {
		case "oci-policy", "oci-policy-legacy":
			name := dir.PathOCITrustPolicy
			if c.Kind == "oci-policy-legacy" {
				name = dir.PathTrustPolicy
			}
			mustWrite(filepath.Join(dir.UserConfigDir, name), c.Content)
			if c.Second != nil {
				mustWrite(filepath.Join(dir.UserConfigDir, dir.PathTrustPolicy), c.Second)
			}
			var doc *trustpolicy.OCIDocument
			r.call("trustpolicy.LoadOCIDocument", n, func() {
				d, err := trustpolicy.LoadOCIDocument()
				touchErr(err)
				if err == nil {
					doc = d
				}
			})
			r.call("trustpolicy.LoadDocument", n, func() {
				_, err := trustpolicy.LoadDocument()
				touchErr(err)
			})
			if doc != nil {
				parsed = true
				r.call("OCIDocument.Validate", n, func() { touchErr(doc.Validate()) })
				for _, ref := range probeRefs {
					ref := ref
					r.call("OCIDocument.GetApplicableTrustPolicy", n, func() {
						p, err := doc.GetApplicableTrustPolicy(ref)
						touchErr(err)
						if err == nil && p != nil {
							_, e := p.SignatureVerification.GetVerificationLevel()
							touchErr(e)
						}
					})
				}
				for i := range doc.TrustPolicies {
					i := i
					r.call("SignatureVerification.GetVerificationLevel", n, func() {
						_, err := doc.TrustPolicies[i].SignatureVerification.GetVerificationLevel()
						touchErr(err)
					})
				}
				// a verifier over the loaded document (the constructor validates it)
				ts := mocks.NewTrustStore().Put("ca", "x", f.roots()...).Put("signingAuthority", "x", f.roots()...).Put("tsa", "x", f.tsaRoot.Cert)
				opts := kit.Options()
				opts.OCITrustPolicy = doc
				var v verifierAPI
				r.call("verifier.NewVerifierWithOptions", n, func() {
					vv, err := verifier.NewVerifierWithOptions(ts, opts)
					touchErr(err)
					if err == nil {
						v = vv
					}
				})
				if v != nil {
					r.class("policy-accepted")
					verifyLoaded(r, ctx, v, "oci")
				}
			}
			for _, ctor := range []string{"verifier.NewOCIVerifierFromConfig", "verifier.NewFromConfig"} {
				ctor := ctor
				r.call(ctor, n, func() {
					if ctor == "verifier.NewFromConfig" {
						_, err := verifier.NewFromConfig()
						touchErr(err)
						return
					}
					v, err := verifier.NewOCIVerifierFromConfig()
					touchErr(err)
					if err == nil && v != nil {
						// real (empty) trust store directory: the verification fails after policy selection
						env := f.byName["jws/oci/plain"].Env
						o, err := v.Verify(ctx, f.art, env, notation.VerifierVerifyOptions{ArtifactReference: reference("digest"), SignatureMediaType: envb.MTJWS})
						touchErr(err)
						res := callResult{called: true, err: err, outcome: o}
						oracle(r, &Case{Entry: "verifier.Verify", Cfg: Cfg{Docs: "oci"}}, &res)
					}
				})
			}
		case "blob-policy":
			mustWrite(filepath.Join(dir.UserConfigDir, dir.PathBlobTrustPolicy), c.Content)
			var doc *trustpolicy.BlobDocument
			r.call("trustpolicy.LoadBlobDocument", n, func() {
				d, err := trustpolicy.LoadBlobDocument()
				touchErr(err)
				if err == nil {
					doc = d
				}
			})
			if doc != nil {
				parsed = true
				r.call("BlobDocument.Validate", n, func() { touchErr(doc.Validate()) })
				names := []string{namedBlobStmt, "skipped", "global-statement", "", " ", "missing"}
				for _, p := range doc.TrustPolicies {
					if len(names) < 10 && len(p.Name) < 100 {
						names = append(names, p.Name)
					}
				}
				for _, name := range names {
					name := name
					r.call("BlobDocument.GetApplicableTrustPolicy", n, func() {
						p, err := doc.GetApplicableTrustPolicy(name)
						touchErr(err)
						if err == nil && p != nil {
							_, e := p.SignatureVerification.GetVerificationLevel()
							touchErr(e)
						}
					})
				}
				r.call("BlobDocument.GetGlobalTrustPolicy", n, func() {
					p, err := doc.GetGlobalTrustPolicy()
					touchErr(err)
					if err == nil && p != nil {
						_, e := p.SignatureVerification.GetVerificationLevel()
						touchErr(e)
					}
				})
				ts := mocks.NewTrustStore().Put("ca", "x", f.roots()...).Put("signingAuthority", "x", f.roots()...).Put("tsa", "x", f.tsaRoot.Cert)
				opts := kit.Options()
				opts.BlobTrustPolicy = doc
				var v verifierAPI
				r.call("verifier.NewVerifierWithOptions", n, func() {
					vv, err := verifier.NewVerifierWithOptions(ts, opts)
					touchErr(err)
					if err == nil {
						v = vv
					}
				})
				if v != nil {
					r.class("policy-accepted")
					verifyLoaded(r, ctx, v, "blob")
				}
			}
			r.call("verifier.NewBlobVerifierFromConfig", n, func() {
				_, err := verifier.NewBlobVerifierFromConfig()
				touchErr(err)
			})
		case "config":
			mustWrite(filepath.Join(dir.UserConfigDir, dir.PathConfigFile), c.Content)
			var cfg *config.Config
			r.call("config.LoadConfig", n, func() {
				cc, err := config.LoadConfig()
				touchErr(err)
				if err == nil {
					cfg = cc
				}
			})
			if cfg != nil {
				parsed = true
				r.call("Config.Save", n, func() { touchErr(cfg.Save()) })
				r.call("config.LoadConfig", n, func() {
					_, err := config.LoadConfig()
					touchErr(err)
				})
			}
		case "signingkeys":
			mustWrite(filepath.Join(dir.UserConfigDir, dir.PathSigningKeys), c.Content)
			ff := fileFixtures()
			keyPath, certPath := filepath.Join(root, "k.key"), filepath.Join(root, "k.crt")
			mustWrite(keyPath, ff.keyPEM)
			mustWrite(certPath, ff.crtPEM)
			var sk *config.SigningKeys
			r.call("config.LoadSigningKeys", n, func() {
				s, err := config.LoadSigningKeys()
				touchErr(err)
				if err == nil {
					sk = s
				}
			})
			if sk != nil {
				parsed = true
				names := []string{"", "k1", "k2", "k3", "missing"}
				for _, k := range sk.Keys {
					if len(names) < 10 && len(k.Name) < 100 {
						names = append(names, k.Name)
					}
				}
				r.call("SigningKeys.GetDefault", n, func() {
					k, err := sk.GetDefault()
					touchErr(err)
					_ = k.Is("k1")
				})
				for _, name := range names {
					name := name
					r.call("SigningKeys.Get", n, func() {
						k, err := sk.Get(name)
						touchErr(err)
						if err == nil {
							_ = fmt.Sprintf("%+v %v %v", k, k.X509KeyPair, k.ExternalKey)
						}
					})
					r.call("SigningKeys.UpdateDefault", n, func() { touchErr(sk.UpdateDefault(name)) })
				}
				r.call("SigningKeys.Add", n, func() { touchErr(sk.Add("added", keyPath, certPath, true)) })
				r.call("SigningKeys.Add", n, func() { touchErr(sk.Add("k1", keyPath, certPath, false)) })
				r.call("SigningKeys.Add", n, func() { touchErr(sk.Add("bad-files", certPath, keyPath, false)) })
				r.call("SigningKeys.AddPlugin", n, func() { touchErr(sk.AddPlugin(ctx, "plug", "kid", "absent-plugin", nil, true)) })
				r.call("SigningKeys.AddPlugin", n, func() { touchErr(sk.AddPlugin(ctx, "", "", "", map[string]string{}, false)) })
				r.call("SigningKeys.Save", n, func() { touchErr(sk.Save()) })
				r.call("SigningKeys.Remove", n, func() {
					_, err := sk.Remove(append(append([]string{}, names[1:]...), "")...)
					touchErr(err)
					_, err = sk.Remove("added", "added")
					touchErr(err)
				})
				r.call("SigningKeys.GetDefault", n, func() {
					_, err := sk.GetDefault()
					touchErr(err)
				})
				r.call("SigningKeys.Save", n, func() { touchErr(sk.Save()) })
			}
			mustWrite(filepath.Join(dir.UserConfigDir, dir.PathSigningKeys), c.Content)
			r.call("config.LoadExecSaveSigningKeys", n, func() {
				touchErr(config.LoadExecSaveSigningKeys(func(k *config.SigningKeys) error {
					if k == nil {
						return fmt.Errorf("nil keys")
					}
					_, err := k.GetDefault()
					_ = err
					return k.UpdateDefault("k2")
				}))
			})
		case "crl-cache":
			cacheRoot := filepath.Join(dir.UserCacheDir, dir.PathCRLCache)
			var fc *crl.FileCache
			r.call("crl.NewFileCache", 0, func() {
				c, err := crl.NewFileCache(cacheRoot)
				touchErr(err)
				fc = c
			})
			if fc == nil {
				panic(harnessPanic{"harness: crl.NewFileCache failed on a fresh directory"})
			}
			h := sha256.Sum256([]byte(crlURL))
			mustWrite(filepath.Join(cacheRoot, hex.EncodeToString(h[:])), c.Content)
			var got *corecrl.Bundle
			r.call("FileCache.Get", n, func() {
				b, err := fc.Get(ctx, crlURL)
				touchErr(err)
				if err == nil {
					got = b
				}
			})
			r.call("FileCache.Get", 0, func() {
				_, err := fc.Get(ctx, "http://crl.example/absent.crl")
				touchErr(err)
			})
			if got != nil {
				parsed = true
				// what was read can be stored again
				r.call("FileCache.Set", n, func() { touchErr(fc.Set(ctx, crlURL+"#copy", got)) })
				r.call("FileCache.Get", n, func() {
					_, err := fc.Get(ctx, crlURL+"#copy")
					touchErr(err)
				})
			}
			r.call("FileCache.Set", 0, func() { touchErr(fc.Set(ctx, crlURL, nil)) })
			r.call("FileCache.Set", 0, func() { touchErr(fc.Set(ctx, crlURL, &corecrl.Bundle{})) })
		case "keypair":
			keyPath, certPath := filepath.Join(root, "k.key"), filepath.Join(root, "k.crt")
			mustWrite(keyPath, c.Content)
			mustWrite(certPath, c.Second)
			r.call("signer.NewGenericSignerFromFiles", n+len(c.Second), func() {
				s, err := signer.NewGenericSignerFromFiles(keyPath, certPath)
				touchErr(err)
				if err == nil && s != nil {
					parsed = true
					_, _, e := s.Sign(ctx, f.art, notation.SignerSignOptions{SignatureMediaType: envb.MTJWS})
					touchErr(e)
				}
			})
			r.call("signer.NewFromFiles", n+len(c.Second), func() {
				_, err := signer.NewFromFiles(keyPath, certPath)
				touchErr(err)
				_, err = signer.NewFromFiles("", certPath)
				touchErr(err)
			})
			sk := config.NewSigningKeys()
			r.call("SigningKeys.Add", n+len(c.Second), func() { touchErr(sk.Add("k", keyPath, certPath, true)) })
		case "truststore":
			mustWrite(filepath.Join(dir.UserConfigDir, dir.X509TrustStoreDir("ca", "x"), "cert.pem"), c.Content)
			r.call("X509TrustStore.GetCertificates", n, func() {
				certs, err := truststore.NewX509TrustStore(dir.ConfigFS()).GetCertificates(ctx, truststore.TypeCA, "x")
				touchErr(err)
				parsed = err == nil && len(certs) > 0
			})
		default:
			panic(harnessPanic{"harness: unknown file kind " + c.Kind})
		}
	})
	return parsed
}

// verifyLoaded verifies the valid base envelopes through a verifier built from a loaded
// (hostile but accepted) policy document and applies the consistency oracle.
func verifyLoaded(r *runner, ctx context.Context, v verifierAPI, kind string) {
	f := fixtures()
	for _, format := range []string{"jws", "cose"} {
		b := f.byName[format+"/"+kind+"/plain"]
		if kind == "oci" {
			for _, ref := range probeRefs[:3] {
				c := &Case{Entry: "verifier.Verify", Cfg: Cfg{Docs: "oci"}}
				var res callResult
				if !r.call("verifier.Verify", len(b.Env), func() {
					res.outcome, res.err = v.Verify(ctx, f.art, b.Env, notation.VerifierVerifyOptions{ArtifactReference: ref, SignatureMediaType: b.Format})
					touchErr(res.err)
				}) {
					oracle(r, c, &res)
				}
				r.call("SkipVerify", 0, func() {
					_, _, err := v.SkipVerify(ctx, notation.VerifierVerifyOptions{ArtifactReference: ref})
					touchErr(err)
				})
			}
			continue
		}
		for _, name := range []string{"", namedBlobStmt, "skipped", "global-statement"} {
			c := &Case{Entry: "notation.VerifyBlob", Cfg: Cfg{Docs: "blob"}}
			var res callResult
			if !r.call("notation.VerifyBlob", len(b.Env), func() {
				_, res.outcome, res.err = notation.VerifyBlob(ctx, v, strings.NewReader(string(f.blob)), b.Env, notation.VerifyBlobOptions{ContentMediaType: "application/octet-stream",
					BlobVerifierVerifyOptions: notation.BlobVerifierVerifyOptions{SignatureMediaType: b.Format, TrustPolicyName: name}})
				touchErr(res.err)
			}) {
				oracle(r, c, &res)
			}
		}
	}
}

func runFileCase(t stats.Failer, rec *stats.Recorder, c *FileCase, extra ...string) {
	r := &runner{}
	parsed := runFile(r, c)
	cl := append([]string{"family=5", "file=" + c.Kind, "entry=file:" + c.Kind}, extra...)
	cl = append(cl, r.classes...)
	head := c.Recipe
	if i := strings.IndexAny(head, ":,"); i > 0 {
		head = head[:i]
	}
	cl = append(cl, "mutation=file:"+head)
	for _, part := range strings.Split(strings.TrimPrefix(c.Recipe, "json:"), ";") {
		if i := strings.Index(part, "@"); i > 0 && strings.HasPrefix(c.Recipe, "json:") {
			cl = append(cl, "edit="+part[:i])
		}
	}
	if parsed {
		cl = append(cl, "parsed", "parsed:"+c.Kind)
	}
	rec.Case(cl, parsed, stats.Fingerprint("file", c.Kind, c.Content, c.Second), func() any {
		return map[string]any{"kind": c.Kind, "recipe": c.Recipe, "len": len(c.Content), "head": string(c.Content[:minInt(len(c.Content), 160)]), "parsed": parsed}
	})
	r.report(t, rec, c)
}

func TestC12_Files(t *testing.T) {
	rec := stats.New(t, "C12", rule)
	var rc FileCase
	if rp.ReplayCase(&rc) {
		if rc.Family == 5 {
			runFileCase(t, rec, &rc, "replay")
		}
		return
	}
	rp.Check(t, 5000, 150000, property(func(rt *rapid.T) {
		runFileCase(rt, rec, drawFileCase(rt))
	}))
}
