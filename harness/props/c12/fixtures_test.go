package c12

// Keys, chains, the artifact and the valid base envelopes every family starts from. They are
// built once per process, so that a rapid case replayed in the same process sees the same
// bytes (rapid compares failure messages while shrinking).

import (
	"crypto"
	"crypto/sha256"
	"crypto/x509"
	"encoding/hex"
	"sync"
	"time"

	ocispec "github.com/opencontainers/image-spec/specs-go/v1"

	"verifharness/internal/envb"
	"verifharness/internal/kit"
	"verifharness/internal/pki"
)

const (
	pluginName    = "c12-plugin"
	namedBlobStmt = "blob-named"
	ociStmt       = "oci-wildcard"
)

// base is one valid envelope.
type base struct {
	Name    string // format/kind/variant
	Format  string
	Kind    string // oci | blob
	Variant string
	Env     []byte
	key     crypto.Signer
}

type fixture struct {
	chain    *pki.Chain // the trusted signer: root -> intermediate -> leaf (EC-256)
	chainRSA *pki.Chain
	other    *pki.Chain // a chain nobody trusts
	tsaRoot  *pki.Cert
	tsa      *pki.TSA
	art      ocispec.Descriptor
	blob     []byte
	blobDg   string
	bases    []*base
	byName   map[string]*base
}

var (
	fxOnce sync.Once
	fx     *fixture
)

var baseVariants = []string{"plain", "plugin", "plugin-minver", "timestamp", "sa", "expiry", "expired", "crit-unknown", "crit-int-label", "annotations", "rsa"}

func (f *fixture) payload(kind string, ann map[string]string) []byte {
	if kind == "oci" {
		return envb.PayloadFor(f.art.MediaType, f.art.Digest.String(), f.art.Size, ann)
	}
	return envb.PayloadFor("application/octet-stream", f.blobDg, int64(len(f.blob)), ann)
}

func fixtures() *fixture {
	fxOnce.Do(func() {
		f := &fixture{byName: map[string]*base{}}
		f.chain = pki.NewChain(pki.ChainOpts{Intermediates: 1, Name: "c12", LeafKey: pki.Key("EC-256", 0), LeafSubject: pki.DefaultLeafSubject("c12 signer")})
		f.chainRSA = pki.NewChain(pki.ChainOpts{Intermediates: 0, Name: "c12 rsa", LeafKey: pki.Key("RSA-2048", 0), LeafSubject: pki.DefaultLeafSubject("c12 rsa signer")})
		f.other = pki.NewChain(pki.ChainOpts{Intermediates: 0, Name: "c12 other", LeafKey: pki.Key("EC-256", 1)})
		now := time.Now()
		f.tsaRoot = pki.Mint(pki.Spec{Subject: pki.DefaultLeafSubject("c12 tsa root"), NotBefore: now.Add(-48 * time.Hour), NotAfter: now.Add(48 * time.Hour), IsCA: true, PathLen: 0}, nil)
		f.tsa = &pki.TSA{Leaf: pki.Mint(pki.Spec{Subject: pki.DefaultLeafSubject("c12 tsa"), NotBefore: now.Add(-48 * time.Hour), NotAfter: now.Add(48 * time.Hour), CritTSEKU: true}, f.tsaRoot)}
		f.art = kit.Artifact("c12")
		f.blob = []byte("c12 blob content")
		s := sha256.Sum256(f.blob)
		f.blobDg = "sha256:" + hex.EncodeToString(s[:])
		for _, format := range envb.Formats {
			for _, kind := range []string{"oci", "blob"} {
				for _, variant := range baseVariants {
					ch := f.chain
					if variant == "rsa" {
						ch = f.chainRSA
					}
					spec := envb.Spec{Format: format, ContentType: envb.PayloadType, Scheme: envb.SchemeX509, SigningTime: now.Add(-time.Hour),
						Chain: ch.X509(), Key: ch.Leaf().Key, Payload: f.payload(kind, nil)}
					switch variant {
					case "plugin":
						spec.Ext = []envb.Attr{{Key: envb.AttrPlugin, Critical: true, Value: pluginName}}
					case "plugin-minver":
						spec.Ext = []envb.Attr{{Key: envb.AttrPlugin, Critical: true, Value: pluginName}, {Key: envb.AttrPluginMinVer, Critical: true, Value: "1.0.0"}}
					case "timestamp":
						spec.Timestamp = func(sig []byte) []byte {
							return f.tsa.Token(pki.TokenSpec{Message: sig, Hash: crypto.SHA256, GenTime: now.Add(-30 * time.Minute), Accuracy: 1})
						}
					case "sa":
						spec.Scheme = envb.SchemeSA
					case "expiry":
						spec.Expiry = now.Add(24 * time.Hour)
					case "expired":
						spec.Expiry = now.Add(-time.Minute)
					case "crit-unknown":
						spec.Ext = []envb.Attr{{Key: envb.AttrPlugin, Critical: true, Value: pluginName}, {Key: "c12.custom", Critical: true, Value: "v"}}
					case "crit-int-label":
						// a critical extended attribute whose label is an integer (COSE allows it; in JWS every
						// header name is a string, so there the variant equals crit-unknown with another key)
						var key any = "c12.custom.2"
						if format == envb.MTCOSE {
							key = int64(99)
						}
						spec.Ext = []envb.Attr{{Key: envb.AttrPlugin, Critical: true, Value: pluginName}, {Key: key, Critical: true, Value: "v"}}
					case "annotations":
						spec.Payload = f.payload(kind, map[string]string{"env": "prod", "io.wabbit-networks.buildId": "123"})
						spec.Agent = "c12-agent/1.0"
					}
					b := &base{Name: map[string]string{envb.MTJWS: "jws", envb.MTCOSE: "cose"}[format] + "/" + kind + "/" + variant, Format: format, Kind: kind, Variant: variant,
						Env: envb.Build(spec), key: ch.Leaf().Key}
					f.bases = append(f.bases, b)
					f.byName[b.Name] = b
				}
			}
		}
		fx = f
	})
	return fx
}

// trustDER lists what a case's trust stores hold, for the replay file.
func (f *fixture) roots() []*x509.Certificate {
	return []*x509.Certificate{f.chain.Root().Cert, f.chainRSA.Root().Cert}
}

// ---------- deterministic re-signing ----------

var (
	sigMu    sync.Mutex
	sigCache = map[[32]byte][]byte{}
)

// resign signs msg with key; the same (key, msg) gives the same bytes within a process
// (ECDSA and PSS are randomised, and a failure message must not change between two runs
// of the same generated case).
func resign(key crypto.Signer, msg []byte) []byte {
	ai, _ := envb.AlgFor(key.Public())
	h := sha256.New()
	h.Write([]byte(ai.Spec))
	h.Write(msg)
	var k [32]byte
	copy(k[:], h.Sum(nil))
	sigMu.Lock()
	defer sigMu.Unlock()
	if s, ok := sigCache[k]; ok {
		return s
	}
	if len(sigCache) > 300000 {
		sigCache = map[[32]byte][]byte{}
	}
	s := envb.RawSign(key, msg)
	sigCache[k] = s
	return s
}
