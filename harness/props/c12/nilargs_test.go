package c12

// Nil / empty arguments the API documents as invalid-but-checked: every call must return
// (the statement's "a result or an error"), and where a verification entry point is involved
// the consistency clauses apply. A nil context, a nil receiver of the unexported verifier
// type and nil arguments without a documented check (e.g. a nil descriptor generator) are
// outside the quantifier.

import (
	"bytes"
	"context"
	"os"
	"path/filepath"
	"strings"
	"testing"

	"github.com/notaryproject/notation-go"
	nplugin "github.com/notaryproject/notation-go/plugin"
	"github.com/notaryproject/notation-go/registry"
	"github.com/notaryproject/notation-go/signer"
	"github.com/notaryproject/notation-go/verifier"
	"github.com/notaryproject/notation-go/verifier/trustpolicy"
	pf "github.com/notaryproject/notation-plugin-framework-go/plugin"

	"verifharness/internal/envb"
	"verifharness/internal/kit"
	"verifharness/internal/mocks"
	"verifharness/internal/rp"
	"verifharness/internal/stats"
)

func TestC12_NilArguments(t *testing.T) {
	rec := stats.New(t, "C12", rule)
	var probe struct {
		Family int `json:"family"`
	}
	if rp.ReplayCase(&probe) {
		return
	}
	if shard, _ := stats.Shard(); shard != 0 {
		return // a handful of fixed calls: one shard runs them
	}
	f := fixtures()
	ctx := context.Background()
	r := &runner{}
	v, err := build(r, defaultCfg("both", "strict"))
	if err != nil {
		t.Fatalf("harness: verifier construction: %v", err)
	}
	env := f.byName["jws/oci/plain"].Env
	benv := f.byName["jws/blob/plain"].Env
	repo := &oneSigRepo{desc: f.art, env: env, mt: envb.MTJWS}
	tmp, err := os.MkdirTemp("", "c12-nil-")
	if err != nil {
		t.Fatalf("harness: %v", err)
	}
	defer os.RemoveAll(tmp)
	file := filepath.Join(tmp, "file")
	mustWrite(file, []byte("x"))
	ps, _ := signer.NewPluginSigner(&scriptedSigner{&PluginCase{Answer: Answer{Meta: "envelope", Describe: "honest", GenSig: "honest", GenEnv: "honest"}}}, "key1", nil)
	signOpts := notation.SignerSignOptions{SignatureMediaType: envb.MTJWS}

	calls := []struct {
		name  string
		entry string
		fn    func() error
	}{
		{"verify-nil-verifier", "notation.Verify", func() error {
			_, _, err := notation.Verify(ctx, nil, repo, notation.VerifyOptions{ArtifactReference: reference("digest"), MaxSignatureAttempts: 1})
			return err
		}},
		{"verify-nil-repo", "notation.Verify", func() error {
			_, _, err := notation.Verify(ctx, v, nil, notation.VerifyOptions{ArtifactReference: reference("digest"), MaxSignatureAttempts: 1})
			return err
		}},
		{"verify-zero-options", "notation.Verify", func() error {
			_, _, err := notation.Verify(ctx, v, repo, notation.VerifyOptions{})
			return err
		}},
		{"verifyblob-nil-verifier", "notation.VerifyBlob", func() error {
			_, _, err := notation.VerifyBlob(ctx, nil, bytes.NewReader(f.blob), benv, notation.VerifyBlobOptions{})
			return err
		}},
		{"verifyblob-nil-reader", "notation.VerifyBlob", func() error {
			_, _, err := notation.VerifyBlob(ctx, v, nil, benv, notation.VerifyBlobOptions{})
			return err
		}},
		{"verifyblob-nil-signature", "notation.VerifyBlob", func() error {
			_, _, err := notation.VerifyBlob(ctx, v, bytes.NewReader(f.blob), nil, notation.VerifyBlobOptions{})
			return err
		}},
		{"verifyblob-zero-options", "notation.VerifyBlob", func() error {
			_, _, err := notation.VerifyBlob(ctx, v, bytes.NewReader(f.blob), benv, notation.VerifyBlobOptions{})
			return err
		}},
		{"verifier-verify-zero-everything", "verifier.Verify", func() error {
			o, err := v.Verify(ctx, f.art, nil, notation.VerifierVerifyOptions{})
			res := callResult{called: true, err: err, outcome: o}
			oracle(r, &Case{Entry: "verifier.Verify", Cfg: defaultCfg("both", "strict")}, &res)
			return err
		}},
		{"verifier-verify-nil-signature", "verifier.Verify", func() error {
			o, err := v.Verify(ctx, f.art, nil, notation.VerifierVerifyOptions{ArtifactReference: reference("digest"), SignatureMediaType: envb.MTJWS})
			res := callResult{called: true, err: err, outcome: o}
			oracle(r, &Case{Entry: "verifier.Verify", Cfg: defaultCfg("both", "strict")}, &res)
			return err
		}},
		{"new-verifier-nil-store", "verifier.NewVerifierWithOptions", func() error {
			opts := kit.Options()
			opts.OCITrustPolicy = kit.OCIDoc("p", kit.Level{Base: "strict"}.SV(""), []string{"ca:x"}, []string{"*"})
			_, err := verifier.NewVerifierWithOptions(nil, opts)
			return err
		}},
		{"new-verifier-no-documents", "verifier.NewVerifierWithOptions", func() error {
			_, err := verifier.NewVerifierWithOptions(mocks.NewTrustStore(), verifier.VerifierOptions{})
			return err
		}},
		{"new-verifier-empty-documents", "verifier.NewVerifierWithOptions", func() error {
			_, err := verifier.NewVerifierWithOptions(mocks.NewTrustStore(), verifier.VerifierOptions{OCITrustPolicy: &trustpolicy.OCIDocument{}, BlobTrustPolicy: &trustpolicy.BlobDocument{}})
			return err
		}},
		{"verifier-new-deprecated-nil", "verifier.New", func() error {
			_, err := verifier.New(nil, nil, nil)
			return err
		}},
		{"verifier-newwithoptions-deprecated-nil", "verifier.NewWithOptions", func() error {
			_, err := verifier.NewWithOptions(nil, mocks.NewTrustStore(), nil, verifier.VerifierOptions{})
			return err
		}},
		{"oci-document-nil-validate", "OCIDocument.Validate", func() error { return (*trustpolicy.OCIDocument)(nil).Validate() }},
		{"blob-document-nil-validate", "BlobDocument.Validate", func() error { return (*trustpolicy.BlobDocument)(nil).Validate() }},
		{"zero-signature-verification", "SignatureVerification.GetVerificationLevel", func() error {
			_, err := (&trustpolicy.SignatureVerification{}).GetVerificationLevel()
			return err
		}},
		{"plugin-signer-nil-plugin", "signer.NewPluginSigner", func() error {
			_, err := signer.NewPluginSigner(nil, "k", nil)
			return err
		}},
		{"plugin-signer-empty-key", "signer.NewPluginSigner", func() error {
			_, err := signer.NewPluginSigner(&scriptedSigner{&PluginCase{}}, "", nil)
			return err
		}},
		{"generic-signer-nil", "signer.NewGenericSigner", func() error {
			_, err := signer.NewGenericSigner(nil, nil)
			return err
		}},
		{"signer-from-files-empty", "signer.NewFromFiles", func() error {
			_, err := signer.NewFromFiles("", "")
			return err
		}},
		{"sign-nil-signer", "notation.SignOCI", func() error {
			_, _, err := notation.SignOCI(ctx, nil, repo, notation.SignOptions{SignerSignOptions: signOpts, ArtifactReference: reference("digest")})
			return err
		}},
		{"sign-nil-repo", "notation.SignOCI", func() error {
			_, _, err := notation.SignOCI(ctx, ps, nil, notation.SignOptions{SignerSignOptions: signOpts, ArtifactReference: reference("digest")})
			return err
		}},
		{"sign-zero-options", "notation.Sign", func() error {
			_, err := notation.Sign(ctx, ps, repo, notation.SignOptions{})
			return err
		}},
		{"sign-no-push-support", "notation.SignOCI", func() error {
			_, _, err := notation.SignOCI(ctx, ps, repo, notation.SignOptions{SignerSignOptions: signOpts, ArtifactReference: reference("digest"), UserMetadata: map[string]string{"k": "v"}})
			return err
		}},
		{"signblob-nil-signer", "notation.SignBlob", func() error {
			_, _, err := notation.SignBlob(ctx, nil, bytes.NewReader(f.blob), notation.SignBlobOptions{SignerSignOptions: signOpts, ContentMediaType: "text/plain"})
			return err
		}},
		{"signblob-nil-reader", "notation.SignBlob", func() error {
			_, _, err := notation.SignBlob(ctx, ps, nil, notation.SignBlobOptions{SignerSignOptions: signOpts, ContentMediaType: "text/plain"})
			return err
		}},
		{"signblob-zero-options", "notation.SignBlob", func() error {
			_, _, err := notation.SignBlob(ctx, ps, bytes.NewReader(f.blob), notation.SignBlobOptions{})
			return err
		}},
		{"oci-repository-missing-path", "registry.NewOCIRepository", func() error {
			_, err := registry.NewOCIRepository(filepath.Join(tmp, "absent"), registry.RepositoryOptions{})
			return err
		}},
		{"oci-repository-file-path", "registry.NewOCIRepository", func() error {
			_, err := registry.NewOCIRepository(file, registry.RepositoryOptions{})
			return err
		}},
		{"oci-repository-empty-path", "registry.NewOCIRepository", func() error {
			_, err := registry.NewOCIRepository("", registry.RepositoryOptions{})
			return err
		}},
		{"cli-plugin-missing", "plugin.NewCLIPlugin", func() error {
			_, err := nplugin.NewCLIPlugin(ctx, "x", filepath.Join(tmp, "absent"))
			return err
		}},
		{"cli-plugin-directory", "plugin.NewCLIPlugin", func() error {
			_, err := nplugin.NewCLIPlugin(ctx, "x", tmp)
			return err
		}},
		{"cli-plugin-not-executable", "CLIPlugin.GetMetadata", func() error {
			p, err := nplugin.NewCLIPlugin(ctx, "x", file)
			if err != nil {
				return err
			}
			_, err = p.GetMetadata(ctx, &pf.GetMetadataRequest{})
			return err
		}},
	}
	for _, c := range calls {
		c := c
		var err error
		r.call(c.entry, 0, func() {
			err = c.fn()
			touchErr(err)
		})
		cl := []string{"nil-args", "entry=" + c.entry, "family=2"}
		if err == nil {
			cl = append(cl, "outcome=ok")
		} else {
			cl = append(cl, "outcome=err")
		}
		rec.Case(cl, true, stats.Fingerprint("nil-args", c.name), func() any {
			msg := ""
			if err != nil {
				msg = err.Error()
				if len(msg) > 200 {
					msg = msg[:200]
				}
			}
			return map[string]any{"call": c.name, "error": msg}
		})
		// The statement only demands that the call returns; that these arguments are refused is
		// the library's documented behaviour and is recorded, not asserted.
		if err == nil && !strings.HasPrefix(c.name, "sign-no-push") {
			rec.Class("nil-args:accepted", 1)
		}
	}
	r.report(t, rec, map[string]any{"family": 0, "test": "nil-arguments"})
}
