package c12

import (
	"context"
	"fmt"
	"runtime/debug"
	"testing"

	"github.com/notaryproject/notation-go"
	"github.com/notaryproject/notation-go/signer"
	"github.com/notaryproject/notation-go/verifier"
	pf "github.com/notaryproject/notation-plugin-framework-go/plugin"
	ocispec "github.com/opencontainers/image-spec/specs-go/v1"

	"verifharness/internal/kit"
	"verifharness/internal/mocks"
)

type nilPlugin struct{ stage int }

func (p *nilPlugin) GetMetadata(ctx context.Context, req *pf.GetMetadataRequest) (*pf.GetMetadataResponse, error) {
	if p.stage == 0 {
		return nil, nil
	}
	return &pf.GetMetadataResponse{Name: "x", Capabilities: []pf.Capability{pf.CapabilitySignatureGenerator}}, nil
}
func (p *nilPlugin) DescribeKey(ctx context.Context, req *pf.DescribeKeyRequest) (*pf.DescribeKeyResponse, error) {
	return nil, nil
}
func (p *nilPlugin) GenerateSignature(ctx context.Context, req *pf.GenerateSignatureRequest) (*pf.GenerateSignatureResponse, error) {
	return nil, nil
}
func (p *nilPlugin) GenerateEnvelope(ctx context.Context, req *pf.GenerateEnvelopeRequest) (*pf.GenerateEnvelopeResponse, error) {
	return nil, nil
}

func try(name string, f func()) {
	defer func() {
		if r := recover(); r != nil {
			fmt.Printf("%s: PANIC %v\n%s\n", name, r, debug.Stack())
		}
	}()
	f()
}

func TestScratch(t *testing.T) {
	for st := 0; st < 2; st++ {
		ps, _ := signer.NewPluginSigner(&nilPlugin{stage: st}, "k", nil)
		try(fmt.Sprint("sign stage ", st), func() {
			_, _, err := ps.Sign(context.Background(), ocispec.Descriptor{}, notation.SignerSignOptions{SignatureMediaType: "application/jose+json"})
			fmt.Println("err", err)
		})
	}
	v, err := verifier.NewVerifierWithOptions(nil, kit.Options())
	fmt.Println(v == nil, err)
	try("nil receiver", func() {
		o, err := v.Verify(context.Background(), ocispec.Descriptor{}, []byte("x"), notation.VerifierVerifyOptions{})
		fmt.Println(o, err)
	})
	_ = mocks.NewTrustStore
}
