package c12

// Family 2: the verifier-configuration cross product. The core
// {OCI-only, blob-only, both} x level x {named, global blob statement} x plugin manager x
// {jws, cose} x {valid, invalid, plugin-naming signature} x entry point is enumerated
// exhaustively, with every option oddity applied one at a time (quick) or in full product
// (thorough). A sampled test adds the remaining configuration factors.

import (
	"encoding/base64"
	"fmt"
	"testing"

	"pgregory.net/rapid"

	"verifharness/internal/envb"
	"verifharness/internal/rp"
	"verifharness/internal/stats"
)

// invalidOf returns the base envelope with one bit of the signature value flipped: it still
// parses, integrity fails.
func invalidOf(b *base) []byte {
	if b.Format == envb.MTJWS {
		p, err := envb.SplitJWS(b.Env)
		if err != nil {
			panic(harnessPanic{"harness: split " + b.Name})
		}
		raw, _ := base64.RawURLEncoding.DecodeString(p.Signature)
		raw[len(raw)/2] ^= 0x10
		p.Signature = base64.RawURLEncoding.EncodeToString(raw)
		return envb.JoinJWS(p)
	}
	m, err := envb.SplitCOSE(b.Env)
	if err != nil {
		panic(harnessPanic{"harness: split " + b.Name})
	}
	m.Signature = append([]byte{}, m.Signature...)
	m.Signature[len(m.Signature)/2] ^= 0x10
	return envb.JoinCOSE(m)
}

func crossSignature(format, kind, sig string) (*base, []byte) {
	f := fixtures()
	fname := map[string]string{envb.MTJWS: "jws", envb.MTCOSE: "cose"}[format]
	switch sig {
	case "valid":
		b := f.byName[fname+"/"+kind+"/plain"]
		return b, b.Env
	case "invalid":
		b := f.byName[fname+"/"+kind+"/plain"]
		return b, invalidOf(b)
	case "plugin":
		b := f.byName[fname+"/"+kind+"/plugin"]
		return b, b.Env
	}
	panic(harnessPanic{"harness: unknown signature kind " + sig})
}

type oddity struct {
	name  string
	apply func(o *Opts)
	oci   bool // applies to OCI entry points
	blob  bool // applies to blob entry points
	only  string
}

func otherFormat(m string) string {
	if m == envb.MTJWS {
		return envb.MTCOSE
	}
	return envb.MTJWS
}

var oddityDims = [][]oddity{
	{ // reference
		{name: "ref=empty", apply: func(o *Opts) { o.Ref = "empty" }, oci: true},
		{name: "ref=nodigest", apply: func(o *Opts) { o.Ref = "nodigest" }, oci: true},
		{name: "ref=tag", apply: func(o *Opts) { o.Ref = "tag" }, oci: true},
		{name: "ref=tagdigest", apply: func(o *Opts) { o.Ref = "tagdigest" }, oci: true},
		{name: "ref=mismatch", apply: func(o *Opts) { o.Ref = "mismatch" }, oci: true},
		{name: "ref=malformed", apply: func(o *Opts) { o.Ref = "malformed" }, oci: true},
	},
	{ // statement name
		{name: "policyName=empty", apply: func(o *Opts) { o.PolicyName = "empty" }, blob: true},
		{name: "policyName=unknown", apply: func(o *Opts) { o.PolicyName = "unknown" }, blob: true},
		{name: "policyName=blank", apply: func(o *Opts) { o.PolicyName = "blank" }, blob: true},
	},
	{ // signature media type
		{name: "media=empty", apply: func(o *Opts) { o.Media = "" }, oci: true, blob: true},
		{name: "media=other-format", apply: func(o *Opts) { o.Media = otherFormat(o.Media) }, oci: true, blob: true},
		{name: "media=unknown", apply: func(o *Opts) { o.Media = "application/unknown" }, oci: true, blob: true},
	},
	{ // required metadata
		{name: "meta=empty", apply: func(o *Opts) { o.Meta = "empty" }, oci: true, blob: true},
		{name: "meta=match", apply: func(o *Opts) { o.Meta = "match" }, oci: true, blob: true},
		{name: "meta=mismatch", apply: func(o *Opts) { o.Meta = "mismatch" }, oci: true, blob: true},
	},
	{ // the artifact presented
		{name: "desc=other-artifact", apply: func(o *Opts) { o.Desc = "other" }, oci: true, blob: true},
		// two reasons to refuse at once would be one too few if the second check forgot the first
		{name: "desc=other-artifact+meta=match", apply: func(o *Opts) { o.Desc, o.Meta = "other", "match" }, oci: true, blob: true},
		{name: "desc=other-artifact+meta=empty", apply: func(o *Opts) { o.Desc, o.Meta = "other", "empty" }, oci: true, blob: true},
	},
	{ // plugin configuration
		{name: "pluginCfg=empty", apply: func(o *Opts) { o.PluginCfg = "empty" }, oci: true, blob: true},
		{name: "pluginCfg=set", apply: func(o *Opts) { o.PluginCfg = "set" }, oci: true, blob: true},
	},
	{ // attempts
		{name: "max=0", apply: func(o *Opts) { o.Max = 0 }, only: "notation.Verify"},
		{name: "max=-1", apply: func(o *Opts) { o.Max = -1 }, only: "notation.Verify"},
		{name: "max=2", apply: func(o *Opts) { o.Max = 2 }, only: "notation.Verify"},
	},
	{ // content media type
		{name: "contentType=empty", apply: func(o *Opts) { o.ContentType = "empty" }, only: "notation.VerifyBlob"},
		{name: "contentType=invalid", apply: func(o *Opts) { o.ContentType = "invalid" }, only: "notation.VerifyBlob"},
	},
	{
		{name: "logging", apply: func(o *Opts) { o.Logging = true }, oci: true, blob: true},
	},
}

func (o oddity) appliesTo(entry string) bool {
	if o.only != "" {
		return o.only == entry
	}
	if isOCIEntry(entry) {
		return o.oci
	}
	return o.blob
}

// optionVariants lists the option sets of one entry point: the default, every oddity alone,
// and (full) every combination across the dimensions.
func optionVariants(entry, media string, full bool) []Opts {
	out := []Opts{defaultOpts(media)}
	if !full {
		for _, dim := range oddityDims {
			for _, od := range dim {
				if od.appliesTo(entry) {
					o := defaultOpts(media)
					od.apply(&o)
					out = append(out, o)
				}
			}
		}
		return out
	}
	out = out[:0]
	var rec func(d int, o Opts)
	rec = func(d int, o Opts) {
		if d == len(oddityDims) {
			out = append(out, o)
			return
		}
		rec(d+1, o)
		for _, od := range oddityDims[d] {
			if od.appliesTo(entry) {
				o2 := o
				od.apply(&o2)
				rec(d+1, o2)
			}
		}
	}
	rec(0, defaultOpts(media))
	return out
}

// runCase evaluates one family 1/2 case and records it.
func runCase(t stats.Failer, rec *stats.Recorder, c *Case, extra ...string) *callResult {
	r := &runner{}
	res := invoke(r, c)
	cl := append(c.classes(&res), extra...)
	cl = append(cl, r.classes...)
	nontrivial := res.parsed || c.Family == 2
	rec.Case(cl, nontrivial, c.fingerprint(), func() any {
		cc := *c
		if len(cc.Input) > 64 {
			cc.Input = cc.Input[:64] // samples stay small; replay files keep all bytes
		}
		return map[string]any{"case": cc, "inputLen": len(c.Input), "error": fmt.Sprint(res.err)}
	})
	r.report(t, rec, c)
	return &res
}

func TestC12_ConfigCross(t *testing.T) {
	rec := stats.New(t, "C12", rule)
	var rc Case
	if rp.ReplayCase(&rc) {
		if rc.Family == 2 {
			runCase(t, rec, &rc, "replay")
		}
		return
	}
	full := stats.Tier() == "thorough"
	shard, shards := stats.Shard()
	n := 0
	type docsStmt struct{ docs, stmt string }
	for _, ds := range []docsStmt{{"oci", "named"}, {"blob", "named"}, {"blob", "global"}, {"both", "named"}, {"both", "global"}} {
		for _, level := range levels {
			for _, pm := range []string{"nil", "scripted"} {
				for _, format := range envb.Formats {
					for _, sig := range []string{"valid", "invalid", "plugin"} {
						for _, entry := range entriesAll {
							n++
							if n%shards != shard {
								continue
							}
							kind := "blob"
							if isOCIEntry(entry) {
								kind = "oci"
							}
							b, env := crossSignature(format, kind, sig)
							cfg := defaultCfg(ds.docs, level)
							cfg.BlobStmt, cfg.PM = ds.stmt, pm
							for i, o := range optionVariants(entry, format, full) {
								c := &Case{Family: 2, Entry: entry, Cfg: cfg, Opts: o, Source: b.Name, Mutation: sig, Input: env}
								res := runCase(t, rec, c, "config-cross", "sig="+sig)
								// harness validation: the plain valid signature verifies under the matching, trusted configuration
								wrongKind := (kind == "oci" && ds.docs == "blob") || (kind == "blob" && ds.docs == "oci")
								constructible := !(ds.stmt == "global" && level == "skip" && ds.docs != "oci")
								if i == 0 && sig == "valid" && !wrongKind && constructible && res.err != nil {
									t.Fatalf("harness: the valid %s signature was rejected by %s under %+v: %v", b.Name, entry, cfg, res.err)
								}
							}
						}
					}
				}
			}
		}
	}
	rec.Exhaustive()
	rec.Set("cross", "docs{oci,blob,both} x blob statement{named,global} x level{4} x plugin manager{nil,scripted} x format{2} x signature{valid,invalid,plugin} x entry{5} x option oddities ("+map[bool]string{false: "one at a time", true: "full product"}[full]+")")
}

// TestC12_ConfigSampled samples the whole configuration space (trust store behaviour, tsa
// store, identities, revocation answers, hostile plugin answers, customised levels, all base
// envelope variants) with several oddities at once.
func TestC12_ConfigSampled(t *testing.T) {
	rec := stats.New(t, "C12", rule)
	var rc Case
	if rp.ReplayCase(&rc) {
		return // replayed by TestC12_ConfigCross
	}
	f := fixtures()
	rp.Check(t, 6000, 150000, property(func(rt *rapid.T) {
		b := f.bases[rapid.IntRange(0, len(f.bases)-1).Draw(rt, "base")]
		c := &Case{Family: 2, Source: b.Name, Input: b.Env, Cfg: drawCfg(rt, b.Kind, true)}
		if rapid.IntRange(0, 4).Draw(rt, "invalid") == 0 {
			c.Input, c.Mutation = invalidOf(b), "invalid"
		}
		c.Entry = rp.Pick(rt, "entry", entriesAll...)
		if rapid.IntRange(0, 9).Draw(rt, "matchingEntry") != 0 { // mostly the entry points of the envelope's kind
			if b.Kind == "oci" {
				c.Entry = rp.Pick(rt, "ociEntry", entriesOCI...)
			} else {
				c.Entry = rp.Pick(rt, "blobEntry", entriesBlob...)
			}
		}
		c.Opts = drawOpts(rt, c.Entry, b.Format, 3)
		runCase(rt, rec, c, "config-cross", "config-sampled", "variant="+b.Variant)
	}))
}

// drawCfg draws a configuration; wide adds the factors the exhaustive cross keeps fixed.
func drawCfg(rt *rapid.T, kind string, wide bool) Cfg {
	c := Cfg{BlobStmt: rp.Pick(rt, "blobStmt", "named", "global", "named+global"), Level: rp.Pick(rt, "level", "strict", "strict", "strict", "permissive", "permissive", "audit", "audit", "audit", "skip"),
		PM:    rp.Pick(rt, "pm", "scripted", "scripted", "nil", "empty", "failing", "hostile0", "hostile1", "hostile2", "hostile3", "hostile4", "hostile5"),
		Trust: "trusted", Identity: "wildcard", Revocation: "ok"}
	other := map[string]string{"oci": "blob", "blob": "oci"}[kind]
	c.Docs = rp.Pick(rt, "docs", kind, kind, kind, "both", "both", "both", "both", "both", "both", other)
	if c.Level == "skip" && c.BlobStmt == "global" && rapid.IntRange(0, 3).Draw(rt, "keepGlobalSkip") != 0 {
		c.BlobStmt = "named+global" // a lone global statement cannot skip (the constructor refuses it): keep that rare
	}
	c.TSA = rapid.Bool().Draw(rt, "tsa")
	if wide {
		c.Trust = rp.Pick(rt, "trust", "trusted", "trusted", "trusted", "untrusted", "empty", "error")
		c.Identity = rp.Pick(rt, "identity", "wildcard", "wildcard", "pinned", "other")
		c.Revocation = rp.Pick(rt, "revocation", "ok", "ok", "revoked", "unknown", "error")
		c.RevWiring = rp.Pick(rt, "revWiring", "", "", "", "codesigning-only", "timestamping-only", "client-only", "none")
		c.BadDoc = rp.Pick(rt, "badDoc", "", "", "", "", "", "", "blob-level", "blob-override", "oci-level")
	}
	if c.Level != "skip" {
		switch rapid.IntRange(0, 5).Draw(rt, "override") {
		case 0:
			c.Override = map[string]string{"revocation": "skip"}
		case 1:
			c.Override = map[string]string{"authenticity": "log", "expiry": "log", "authenticTimestamp": "log", "revocation": "log"}
		case 2:
			c.Override = map[string]string{"authenticTimestamp": "enforce", "expiry": "enforce"}
		}
		c.VerifyTS = rp.Pick(rt, "verifyTimestamp", "", "", "always", "afterCertExpiry")
	}
	return c
}

// drawOpts draws options with up to maxOdd oddities.
func drawOpts(rt *rapid.T, entry, media string, maxOdd int) Opts {
	o := defaultOpts(media)
	o.Logging = rapid.Bool().Draw(rt, "logging")
	n := rapid.IntRange(0, maxOdd).Draw(rt, "oddities")
	for i := 0; i < n; i++ {
		dim := oddityDims[rapid.IntRange(0, len(oddityDims)-1).Draw(rt, "oddityDim")]
		od := dim[rapid.IntRange(0, len(dim)-1).Draw(rt, "oddity")]
		if od.appliesTo(entry) {
			od.apply(&o)
		}
	}
	return o
}
