package c12

import (
	"strings"
	"testing"

	"github.com/notaryproject/notation-go/verifier"
	"github.com/notaryproject/notation-go/verifier/truststore"
	"pgregory.net/rapid"

	"verifharness/internal/kit"
	"verifharness/internal/rp"
	"verifharness/internal/stats"
)

// DNCase (family 5c): a trusted identity is policy-file content. Distinguished names have a
// hex-string value form (attr=#<BER>) whose decoding is recursive in the nesting of the BER
// value; an identity may nest as deeply as the file is long. Identities built around that form -
// with the marker plain, escaped, after an escaped backslash, inside a multi-valued RDN - run
// through Validate and the verifier constructor under the guard (panics, heap, stack growth).
type DNCase struct {
	Family int    `json:"family"`
	Marker string `json:"marker"` // how "=#" is spelt
	Unit   string `json:"unit"`   // hex of the BER element that is repeated
	Depth  int    `json:"depth"`
	Doc    string `json:"doc"` // oci | blob
	Where  string `json:"where"`
}

func (c *DNCase) identity() string {
	hexv := strings.Repeat(c.Unit, c.Depth)
	dn := map[string]string{
		"plain":             "CN=#" + hexv,
		"escaped-equals":    `CN\=#` + hexv,
		"escaped-backslash": `CN\\=#` + hexv,
		"in-multivalued":    `OU=a+CN\\=#` + hexv,
		"after-quote":       `CN="x"\\=#` + hexv,
		"second-attribute":  `CN=x\\,OU\\=#` + hexv,
	}[c.Marker]
	switch c.Where {
	case "last":
		return "x509.subject:C=US,ST=WA,O=deep," + dn
	case "first":
		return "x509.subject:" + dn + ",C=US,ST=WA,O=deep"
	}
	return "x509.subject:" + dn
}

func runDN(r *runner, c *DNCase) {
	id := c.identity()
	sv := kit.Level{Base: "strict"}.SV("")
	opts := kit.Options()
	if c.Doc == "oci" {
		doc := kit.OCIDoc("deep", sv, []string{"ca:x"}, []string{id})
		r.call("OCIDocument.Validate", len(id), func() { touchErr(doc.Validate()) })
		opts.OCITrustPolicy = doc
	} else {
		doc := kit.BlobDoc("", sv, []string{"ca:x"}, []string{id})
		r.call("BlobDocument.Validate", len(id), func() { touchErr(doc.Validate()) })
		opts.BlobTrustPolicy = doc
	}
	r.call("verifier.NewVerifierWithOptions", len(id), func() {
		_, err := verifier.NewVerifierWithOptions(truststore.NewX509TrustStore(nil), opts)
		touchErr(err)
	})
}

func runDNCase(t stats.Failer, rec *stats.Recorder, c *DNCase, extra ...string) {
	r := &runner{}
	runDN(r, c)
	depthClass := "dn-depth<1000"
	if c.Depth >= 100000 {
		depthClass = "dn-depth>=100000"
	} else if c.Depth >= 1000 {
		depthClass = "dn-depth>=1000"
	}
	cl := append([]string{"family=5c", "entry=deep-identity", "dn-marker=" + c.Marker, depthClass}, extra...)
	rec.Case(cl, true, stats.Fingerprint("deepdn", c.Marker, c.Unit, c.Depth, c.Doc, c.Where), func() any { return c })
	r.report(t, rec, c)
}

func TestC12_DeepIdentities(t *testing.T) {
	rec := stats.New(t, "C12", rule)
	var rc DNCase
	if rp.ReplayCase(&rc) {
		if rc.Family == 56 {
			runDNCase(t, rec, &rc, "replay")
		}
		return
	}
	rp.Check(t, 150, 4000, property(func(rt *rapid.T) {
		c := &DNCase{Family: 56, Marker: rp.Pick(rt, "marker", "plain", "escaped-equals", "escaped-backslash", "escaped-backslash", "in-multivalued", "after-quote", "second-attribute"),
			Unit:  rp.Pick(rt, "unit", "3080", "3080", "3081ff", "a080", "2480", "30820000", "0c01", "31"),
			Depth: rp.Pick(rt, "depth", 1, 7, 200, 5000, 100000, 300000), Doc: rp.Pick(rt, "doc", "oci", "blob"), Where: rp.Pick(rt, "where", "alone", "last", "first")}
		runDNCase(rt, rec, c)
	}))
}
