// C12 — no untrusted input or unusual configuration crashes the library.
//
// Every call into the library runs under guard(): a recovered panic and a runaway
// allocation are violations; the (outcome, error) pairs of the four verification entry
// points are checked against the consistency clauses of the statement (DESIGN.md section 5,
// C12). The files of this package hold one input family each:
//
//	env_test.go     family 1  envelopes: arbitrary bytes and structured mutations (JSON / CBOR level)
//	cross_test.go   family 2  the exhaustive verifier-configuration cross product (+ family 3, the oracle)
//	layout_test.go  family 4  hostile OCI layouts and hostile registry content
//	files_test.go   family 5  policy / config / signing-key / CRL-cache files
//	plugin_test.go  family 6  plugin stdout/stderr (CLI plugin) and scripted in-process plugin answers
//	fuzz_test.go    native fuzz targets over the same guarded functions
//
// Limits (documented exclusions, see the coordinator's ruling): an in-process plugin that
// returns (nil response, nil error) and a nil *verifier receiver are outside the quantifier
// (the statement quantifies over plugin stdout/stderr, i.e. external plugin output); a nil
// context is not generated either.
package c12

import (
	"context"
	"encoding/json"
	"fmt"
	"io"
	"runtime"
	"runtime/debug"
	"runtime/metrics"
	"strings"

	"github.com/notaryproject/notation-go/log"
	"pgregory.net/rapid"

	"verifharness/internal/stats"
)

const rule = "case = (family, entry point, verifier configuration, option oddities, input bytes / mutation recipe); non-trivial = the input got past the first parser (envelope parsed, JSON decoded, manifest fetched) or the case belongs to the configuration cross; distinct by hash(entry, configuration, input bytes)"

const (
	libPrefix       = "github.com/notaryproject/notation-go"
	runawayBytes    = 512 << 20 // one call may not allocate more than this ...
	runawayInputMax = 4 << 20   // ... for an input smaller than this
)

// finding is one violation of the property.
type finding struct {
	Key string
	Msg string
}

// frame is one entry of a goroutine stack.
type frame struct {
	fn   string // function without arguments
	file string // file:line without the pc offset
}

// parseStack splits the text of debug.Stack() into frames, dropping argument lists and
// addresses (they differ from run to run; rapid compares failure messages while shrinking).
func parseStack(st []byte) []frame {
	lines := strings.Split(string(st), "\n")
	var out []frame
	for i := 1; i+1 < len(lines); i += 2 {
		fn := strings.TrimSpace(lines[i])
		if fn == "" {
			break
		}
		if strings.HasPrefix(fn, "created by ") {
			fn = strings.TrimPrefix(fn, "created by ")
			if j := strings.Index(fn, " in goroutine"); j >= 0 {
				fn = fn[:j]
			}
		} else if j := strings.LastIndex(fn, "("); j > 0 {
			fn = fn[:j]
		}
		file := strings.TrimSpace(lines[i+1])
		if j := strings.Index(file, " +0x"); j >= 0 {
			file = file[:j]
		}
		out = append(out, frame{fn, file})
	}
	return out
}

// libFunc renders a library function name without the module path.
func libFunc(fn string) string {
	s := strings.TrimPrefix(fn, libPrefix)
	s = strings.TrimPrefix(s, "/")
	if strings.HasPrefix(s, ".") {
		s = "notation" + s
	}
	return s
}

// analysePanic returns the frame where the panic originated, the top library frame at or
// below it, and a stable rendering of the stack from the origin downwards.
func analysePanic(st []byte) (origin, lib string, text string) {
	frames := parseStack(st)
	start := 0
	for i, f := range frames { // frames above the last "panic" frame belong to the recovery
		if f.fn == "panic" {
			start = i + 1
		}
	}
	for start < len(frames) && (strings.HasPrefix(frames[start].fn, "runtime.") || strings.HasPrefix(frames[start].fn, "runtime/")) {
		start++
	}
	var b strings.Builder
	for i := start; i < len(frames) && i < start+14; i++ {
		f := frames[i]
		if origin == "" {
			origin = f.fn
		}
		if lib == "" && strings.HasPrefix(f.fn, libPrefix) {
			lib = libFunc(f.fn)
		}
		if strings.HasPrefix(f.fn, "testing.") || strings.HasPrefix(f.fn, "pgregory.net/rapid.") {
			break
		}
		fmt.Fprintf(&b, "\n    %s (%s)", f.fn, f.file)
	}
	if lib == "" {
		for _, f := range frames[start:] {
			if strings.HasPrefix(f.fn, libPrefix) {
				lib = libFunc(f.fn)
				break
			}
		}
	}
	return origin, lib, b.String()
}

// totalAlloc returns the cumulative bytes allocated on the heap: the quantity
// runtime.MemStats.TotalAlloc reports, read through runtime/metrics (ReadMemStats stops the
// world, ~30 us per call, which would dominate the cost of the cheap calls). The tests of this
// package run on one goroutine, so the delta around a call is the call's own allocation (plus
// that of goroutines the library starts on its behalf).
func totalAlloc() uint64 {
	s := []metrics.Sample{{Name: "/gc/heap/allocs:bytes"}}
	metrics.Read(s)
	if s[0].Value.Kind() != metrics.KindUint64 {
		var m runtime.MemStats
		runtime.ReadMemStats(&m)
		return m.TotalAlloc
	}
	return s[0].Value.Uint64()
}

// stackBytes is the memory currently reserved for goroutine stacks. A call that recursed deeply
// leaves the calling goroutine with a grown stack (it shrinks at a later collection only).
func stackBytes() uint64 {
	s := []metrics.Sample{{Name: "/memory/classes/heap/stacks:bytes"}}
	metrics.Read(s)
	if s[0].Value.Kind() != metrics.KindUint64 {
		return 0
	}
	return s[0].Value.Uint64()
}

const runawayStackBytes = 64 << 20 // a call may not grow the stacks by more than this for a small input

// harnessPanic is raised (as a panic value) when the harness itself is at fault.
type harnessPanic struct{ msg string }

// guard runs fn, which must call exactly one library entry point (plus cheap accessors on
// its results). It returns a finding for a recovered panic or a runaway allocation.
func guard(entry string, inputLen int, fn func()) (f *finding) {
	before := totalAlloc()
	stackBefore := stackBytes()
	defer func() {
		if r := recover(); r != nil {
			if hp, ok := r.(harnessPanic); ok {
				panic(hp)
			}
			origin, lib, text := analysePanic(debug.Stack())
			if strings.HasPrefix(origin, "verifharness/") {
				// the harness's own code (a scripted collaborator, a generator) panicked
				panic(harnessPanic{fmt.Sprintf("harness: panic in harness code %s while calling %s: %v%s", origin, entry, r, text)})
			}
			if lib == "" {
				lib = "no-library-frame:" + origin
			}
			f = &finding{Key: "C12:panic:" + entry + ":" + lib,
				Msg: fmt.Sprintf("%s panicked: %v; top library frame %s; stack:%s", entry, r, lib, text)}
			return
		}
		if d := totalAlloc() - before; d > runawayBytes && inputLen < runawayInputMax {
			// the figure is rounded down to 64 MiB so that the message of a generated case is the same in every run
			f = &finding{Key: "C12:runaway-allocation:" + entry,
				Msg: fmt.Sprintf("%s allocated >= %d MiB for an input of %d bytes (limit %d MiB for inputs below %d MiB)", entry, d>>26<<6, inputLen, runawayBytes>>20, runawayInputMax>>20)}
			debug.FreeOSMemory() // give the gigabytes back before the next case
		}
		if sb := stackBytes(); f == nil && sb > stackBefore && sb-stackBefore > runawayStackBytes && inputLen < runawayInputMax {
			f = &finding{Key: "C12:runaway-allocation:stack:" + entry,
				Msg: fmt.Sprintf("%s grew the goroutine stacks by >= %d MiB for an input of %d bytes (unbounded recursion on input; limit %d MiB)", entry, (sb-stackBefore)>>24<<4, inputLen, runawayStackBytes>>20)}
			runtime.GC()
		}
	}()
	fn()
	return nil
}

// property decorates the body of a rapid property: a panic of the harness's own code
// (generators, classification) outside guard() is re-raised with the "harness:" label, so
// that it can never be mistaken for a failure of the property. rapid's own control-flow
// panics (exhausted bit stream, Fatalf) pass through untouched.
func property(body func(rt *rapid.T)) func(rt *rapid.T) {
	return func(rt *rapid.T) {
		defer func() {
			r := recover()
			if r == nil {
				return
			}
			if _, ok := r.(harnessPanic); ok || strings.HasPrefix(fmt.Sprintf("%T", r), "rapid.") || strings.HasPrefix(fmt.Sprintf("%T", r), "*rapid.") {
				panic(r)
			}
			_, _, text := analysePanic(debug.Stack())
			panic(harnessPanic{fmt.Sprintf("harness: panic in the harness's own code: %v%s", r, text)})
		}()
		body(rt)
	}
}

// fuzzBody does the same for a native fuzz function.
func fuzzBody(t interface{ Fatalf(string, ...any) }, body func()) {
	defer func() {
		if r := recover(); r != nil {
			if hp, ok := r.(harnessPanic); ok {
				t.Fatalf("%s", hp.msg)
			}
			_, _, text := analysePanic(debug.Stack())
			t.Fatalf("harness: panic in the harness's own code: %v%s", r, text)
		}
	}()
	body()
}

// runner collects the findings and the class labels of one case.
type runner struct {
	findings []finding
	classes  []string
	allocMax uint64
}

// call runs fn under guard; it reports whether fn panicked (its results are then void).
func (r *runner) call(entry string, inputLen int, fn func()) bool {
	if f := guard(entry, inputLen, fn); f != nil {
		r.findings = append(r.findings, *f)
		return strings.HasPrefix(f.Key, "C12:panic:")
	}
	return false
}

func (r *runner) fail(key, format string, args ...any) {
	r.findings = append(r.findings, finding{Key: key, Msg: fmt.Sprintf(format, args...)})
}

func (r *runner) class(c ...string) { r.classes = append(r.classes, c...) }

// touchErr exercises the error value the way every caller does (message, unwrap chain).
func touchErr(err error) {
	for i := 0; err != nil && i < 20; i++ {
		_ = err.Error()
		switch u := err.(type) {
		case interface{ Unwrap() error }:
			err = u.Unwrap()
		case interface{ Unwrap() []error }:
			for _, e := range u.Unwrap() {
				if e != nil {
					_ = e.Error()
				}
			}
			return
		default:
			return
		}
	}
}

// report turns the findings of a case into a test failure (known findings are counted and
// skipped by Failf).
func (r *runner) report(t stats.Failer, rec *stats.Recorder, cas any) {
	for _, f := range r.findings {
		if rec.Failf(t, f.Key, cas, "%s", f.Msg) {
			return
		}
	}
}

// failJSON renders the first finding the way the driver parses it (fuzz targets).
func (r *runner) failJSON(cas any) string {
	if len(r.findings) == 0 {
		return ""
	}
	f := stats.Failure{Property: "C12", Key: r.findings[0].Key, Message: r.findings[0].Msg, Case: cas}
	b, err := json.Marshal(f)
	if err != nil {
		f.Case = nil
		b, _ = json.Marshal(f)
	}
	return "VERIF-FAIL " + string(b)
}

// ---------- a logger that formats everything and throws it away ----------

// fmtLogger makes the library evaluate its log formatting (the default logger discards
// the arguments unformatted).
type fmtLogger struct{}

func (fmtLogger) Debug(args ...interface{})                 { fmt.Fprint(io.Discard, args...) }
func (fmtLogger) Debugf(format string, args ...interface{}) { fmt.Fprintf(io.Discard, format, args...) }
func (fmtLogger) Debugln(args ...interface{})               { fmt.Fprintln(io.Discard, args...) }
func (fmtLogger) Info(args ...interface{})                  { fmt.Fprint(io.Discard, args...) }
func (fmtLogger) Infof(format string, args ...interface{})  { fmt.Fprintf(io.Discard, format, args...) }
func (fmtLogger) Infoln(args ...interface{})                { fmt.Fprintln(io.Discard, args...) }
func (fmtLogger) Warn(args ...interface{})                  { fmt.Fprint(io.Discard, args...) }
func (fmtLogger) Warnf(format string, args ...interface{})  { fmt.Fprintf(io.Discard, format, args...) }
func (fmtLogger) Warnln(args ...interface{})                { fmt.Fprintln(io.Discard, args...) }
func (fmtLogger) Error(args ...interface{})                 { fmt.Fprint(io.Discard, args...) }
func (fmtLogger) Errorf(format string, args ...interface{}) { fmt.Fprintf(io.Discard, format, args...) }
func (fmtLogger) Errorln(args ...interface{})               { fmt.Fprintln(io.Discard, args...) }

// ctxFor returns a context; with logging the library formats its log lines.
func ctxFor(logging bool) context.Context {
	if logging {
		return log.WithLogger(context.Background(), fmtLogger{})
	}
	return context.Background()
}

func minInt(a, b int) int {
	if a < b {
		return a
	}
	return b
}
