package c12

// Native fuzz targets over the same guarded functions and oracle as the generated families.
// A finding fails the fuzz function with the driver's VERIF-FAIL line; TestC12_FuzzSeeds runs
// every seed (with several selectors) in the quick tier.

import (
	"os"
	"strings"
	"testing"

	"verifharness/internal/envb"
	"verifharness/internal/rp"
	"verifharness/internal/stats"
)

func knownFinding(key string) bool {
	for _, k := range strings.Split(os.Getenv("VERIF_KNOWN"), ",") {
		if strings.TrimSpace(k) == key && key != "" {
			return true
		}
	}
	return false
}

// fuzzFail reports the first finding that is not a listed known finding.
func fuzzFail(t *testing.T, r *runner, cas any) {
	kept := r.findings[:0]
	for _, f := range r.findings {
		if !knownFinding(f.Key) {
			kept = append(kept, f)
		}
	}
	r.findings = kept
	if msg := r.failJSON(cas); msg != "" {
		t.Fatalf("%s", msg)
	}
}

func selByte(sel []byte, i int) int {
	if i < len(sel) {
		return int(sel[i])
	}
	return 0
}

// envelopeCase decodes selector bytes into a family 1 case around data.
func envelopeCase(sel []byte, data []byte) *Case {
	media := []string{envb.MTJWS, envb.MTCOSE, envb.MTJWS, envb.MTCOSE, envb.MTJWS, envb.MTCOSE, "", "application/unknown"}[selByte(sel, 0)%8]
	entry := entriesAll[selByte(sel, 1)%len(entriesAll)]
	kind := "blob"
	if isOCIEntry(entry) {
		kind = "oci"
	}
	cfg := defaultCfg([]string{kind, "both", "both", map[string]string{"oci": "blob", "blob": "oci"}[kind]}[selByte(sel, 2)%4], []string{"strict", "audit", "permissive", "strict", "audit", "skip"}[selByte(sel, 3)%6])
	cfg.BlobStmt = []string{"named", "global", "named+global"}[selByte(sel, 4)%3]
	cfg.PM = []string{"scripted", "nil", "hostile4", "hostile5", "empty", "failing", "hostile0", "hostile1"}[(selByte(sel, 4)>>2)%8]
	cfg.TSA = selByte(sel, 5)&1 == 1
	cfg.Trust = []string{"trusted", "trusted", "untrusted", "empty"}[(selByte(sel, 5)>>1)%4]
	cfg.Identity = []string{"wildcard", "pinned", "other"}[(selByte(sel, 5)>>3)%3]
	opts := defaultOpts(media)
	opts.Logging = selByte(sel, 5)&0x80 != 0
	switch selByte(sel, 6) % 8 {
	case 1:
		opts.Meta = "match"
	case 2:
		opts.Meta = "mismatch"
	case 3:
		opts.PolicyName = "empty"
	case 4:
		opts.PluginCfg = "set"
	case 5:
		opts.Max = 2
	}
	return &Case{Family: 1, Entry: entry, Cfg: cfg, Opts: opts, Source: "fuzz", Input: data}
}

func fuzzEnvelope(t *testing.T, rec *stats.Recorder, sel, data []byte) {
	c := envelopeCase(sel, data)
	r := &runner{}
	res := invoke(r, c)
	if rec != nil {
		rec.Case(append(c.classes(&res), "fuzz-seed"), res.parsed, c.fingerprint(), nil)
	}
	fuzzFail(t, r, c)
}

func fuzzFile(t *testing.T, rec *stats.Recorder, kinds []string, sel byte, data, second []byte) {
	c := &FileCase{Family: 5, Kind: kinds[int(sel)%len(kinds)], Content: data, Recipe: "fuzz", Logging: sel&0x80 != 0, FuzzSel: []byte{sel}}
	if c.Kind == "keypair" {
		c.Second = second
	}
	r := &runner{}
	parsed := runFile(r, c)
	if rec != nil {
		cl := []string{"family=5", "file=" + c.Kind, "entry=file:" + c.Kind, "fuzz-seed"}
		if parsed {
			cl = append(cl, "parsed")
		}
		rec.Case(cl, parsed, stats.Fingerprint("file", c.Kind, c.Content), nil)
	}
	fuzzFail(t, r, c)
}

var (
	policyKinds = []string{"oci-policy", "blob-policy", "oci-policy-legacy"}
	configKinds = []string{"config", "signingkeys", "keypair", "truststore"}
	cacheKinds  = []string{"crl-cache"}
)

type envSeed struct {
	sel  []byte
	data []byte
}

func envelopeSeeds() []envSeed {
	f := fixtures()
	var out []envSeed
	for i, b := range f.bases {
		media := byte(0)
		if b.Format == envb.MTCOSE {
			media = 1
		}
		entry := byte(0) // verifier.Verify
		if b.Kind == "blob" {
			entry = 1
		}
		out = append(out, envSeed{[]byte{media, entry, byte(i), byte(i / 3), 0, byte(i * 5), 0}, b.Env})
		out = append(out, envSeed{[]byte{media, entry + 3, 1, 1, 0, 1, 0}, invalidOf(b)}) // notation.Verify / notation.VerifyBlob
	}
	out = append(out, envSeed{[]byte{0, 0, 0, 0, 0, 0, 0}, []byte(`{"payload":"e30","protected":"e30","header":{"x5c":[]},"signature":"AA"}`)},
		envSeed{[]byte{1, 0, 0, 0, 0, 0, 0}, []byte("\xd2\x84\x43\xa1\x01\x26\xa0\x40\x40")}, envSeed{[]byte{0, 4, 1, 5, 0, 0, 0}, []byte("{}")}, envSeed{[]byte{6, 2, 3, 0, 0, 0, 0}, nil})
	return out
}

func addReplay(f *testing.F, family int, add func(c any)) {
	switch family {
	case 1:
		var c Case
		if rp.ReplayCase(&c) && c.Family == 1 {
			add(&c)
		}
	case 5:
		var c FileCase
		if rp.ReplayCase(&c) && c.Family == 5 {
			add(&c)
		}
	}
}

func FuzzC12_Envelope(f *testing.F) {
	for _, s := range envelopeSeeds() {
		f.Add(s.sel, s.data)
	}
	var replay *Case
	addReplay(f, 1, func(c any) { replay = c.(*Case) })
	f.Fuzz(func(t *testing.T, sel []byte, data []byte) {
		fuzzBody(t, func() {
			if replay != nil { // a saved failure is re-evaluated exactly as recorded
				r := &runner{}
				invoke(r, replay)
				fuzzFail(t, r, replay)
			}
			fuzzEnvelope(t, nil, sel, data)
		})
	})
}

func fileSeeds(kinds []string) [][]byte {
	ff := fileFixtures()
	var out [][]byte
	for _, k := range kinds {
		out = append(out, ff.valid[k])
	}
	return append(out, []byte("{}"), []byte("null"), []byte(`{"version":"1.0","trustPolicies":[]}`), []byte(`{"default":"missing","keys":null}`), []byte(`{"keys":[{"name":"a"},{"name":"a"}]}`),
		[]byte(`{"baseCRL":"AAAA"}`), []byte(`{"baseCRL":null,"deltaCRL":""}`), nil)
}

func fuzzFileTarget(f *testing.F, kinds []string) {
	ff := fileFixtures()
	for i, s := range fileSeeds(kinds) {
		f.Add(byte(i), s)
	}
	var replay *FileCase
	addReplay(f, 5, func(c any) { replay = c.(*FileCase) })
	f.Fuzz(func(t *testing.T, sel byte, data []byte) {
		fuzzBody(t, func() {
			if replay != nil {
				r := &runner{}
				runFile(r, replay)
				fuzzFail(t, r, replay)
			}
			fuzzFile(t, nil, kinds, sel, data, ff.crtPEM)
		})
	})
}

func FuzzC12_PolicyJSON(f *testing.F) { fuzzFileTarget(f, policyKinds) }
func FuzzC12_ConfigJSON(f *testing.F) { fuzzFileTarget(f, configKinds) }
func FuzzC12_CacheEntry(f *testing.F) { fuzzFileTarget(f, cacheKinds) }

// TestC12_FuzzSeeds runs the fuzz functions over their seeds with varied selectors.
func TestC12_FuzzSeeds(t *testing.T) {
	rec := stats.New(t, "C12", rule)
	var probe struct {
		Family int `json:"family"`
	}
	if rp.ReplayCase(&probe) {
		return
	}
	shard, shards := stats.Shard()
	n := 0
	for _, s := range envelopeSeeds() {
		for v := 0; v < 24; v++ {
			n++
			if n%shards != shard {
				continue
			}
			sel := append([]byte{}, s.sel...)
			if v > 0 {
				sel[2], sel[3], sel[4], sel[5], sel[6] = byte(v), byte(v*7), byte(v*3), byte(v*11), byte(v)
				if v%5 == 4 {
					sel[0] = byte(v) // other media types, other entry points
					sel[1] = byte(v / 5)
				}
			}
			fuzzEnvelope(t, rec, sel, s.data)
		}
	}
	ff := fileFixtures()
	for _, kinds := range [][]string{policyKinds, configKinds, cacheKinds} {
		for _, s := range fileSeeds(kinds) {
			for k := range kinds {
				n++
				if n%shards != shard {
					continue
				}
				fuzzFile(t, rec, kinds, byte(k), s, ff.crtPEM)
			}
		}
	}
}
