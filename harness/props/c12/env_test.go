package c12

// Family 1: arbitrary bytes and structured mutations of valid JWS / COSE envelopes offered
// to the four verification entry points. Edits inside the protected header or the payload
// are (mostly) re-signed with the signer's real key, so that the hostile content gets past
// the integrity check and reaches the code behind it.

import (
	"encoding/base64"
	"fmt"
	"strings"
	"testing"

	"pgregory.net/rapid"

	"verifharness/internal/envb"
	"verifharness/internal/rp"
	"verifharness/internal/stats"
)

var b64u = base64.RawURLEncoding

func flipSome(rt *rapid.T, raw []byte) []byte {
	out := append([]byte{}, raw...)
	if len(out) == 0 {
		return []byte{0x30}
	}
	switch rp.Pick(rt, "derOp", "flip", "flip", "flip", "truncate", "zero-run", "length-byte", "append") {
	case "flip":
		n := rapid.IntRange(1, 3).Draw(rt, "flips")
		for i := 0; i < n; i++ {
			out[rapid.IntRange(0, len(out)-1).Draw(rt, "at")] ^= byte(1 << rapid.IntRange(0, 7).Draw(rt, "bit"))
		}
	case "truncate":
		out = out[:rapid.IntRange(0, len(out)-1).Draw(rt, "len")]
	case "zero-run":
		at := rapid.IntRange(0, len(out)-1).Draw(rt, "at")
		for i := at; i < len(out) && i < at+8; i++ {
			out[i] = 0
		}
	case "length-byte":
		// DER length octets live near the start of every TLV: make one of the first bytes huge
		at := rapid.IntRange(0, minInt(len(out)-1, 12)).Draw(rt, "at")
		out[at] = rp.Pick(rt, "lenByte", byte(0x84), byte(0xff), byte(0x80), byte(0x88), byte(0x00))
	case "append":
		out = append(out, out[:minInt(len(out), 16)]...)
	}
	return out
}

// hostile attribute values, format independent: rendered by jAttr / cAttr
var attrValues = []string{"empty", "blank", "int", "null", "map", "array", "long", "traversal", "nul", "absent-plugin", "bool", "float", "semver", "bad-semver", "v-semver", "huge-semver", "time-string", "neg"}

func jAttr(kind string) *jv {
	switch kind {
	case "empty":
		return jstr("")
	case "blank":
		return jstr("  ")
	case "int":
		return jnum("5")
	case "null":
		return jlit("null")
	case "map":
		return jobj(jm{"a", jnum("1")})
	case "array":
		return jarr(jstr(pluginName))
	case "long":
		return jstr(strings.Repeat("p", 70000))
	case "traversal":
		return jstr("../../" + pluginName)
	case "nul":
		return jstr(pluginName + "\u0000")
	case "absent-plugin":
		return jstr("not-installed")
	case "bool":
		return jlit("true")
	case "float":
		return jnum("1.5e300")
	case "semver":
		return jstr("1.0.0")
	case "bad-semver":
		return jstr("1.0")
	case "v-semver":
		return jstr("v1.0.0")
	case "huge-semver":
		return jstr("99999999999999999999.0.0")
	case "time-string":
		return jstr("9999-12-31T23:59:59Z")
	}
	return jnum("-1")
}

func cAttr(kind string) *cv {
	switch kind {
	case "empty":
		return cText("")
	case "blank":
		return cText("  ")
	case "int":
		return cUint(5)
	case "null":
		return cNull()
	case "map":
		return cMap(cText("a"), cUint(1))
	case "array":
		return cArr(cText(pluginName))
	case "long":
		return cText(strings.Repeat("p", 70000))
	case "traversal":
		return cText("../../" + pluginName)
	case "nul":
		return cText(pluginName + "\x00")
	case "absent-plugin":
		return cText("not-installed")
	case "bool":
		return cTrue()
	case "float":
		return cRaw(0xfb, 0x7e, 0x37, 0xe4, 0x3c, 0x88, 0x00, 0x75, 0x9c)
	case "semver":
		return cText("1.0.0")
	case "bad-semver":
		return cText("1.0")
	case "v-semver":
		return cText("v1.0.0")
	case "huge-semver":
		return cText("99999999999999999999.0.0")
	case "time-string":
		return cText("9999-12-31T23:59:59Z")
	}
	return cNint(0)
}

var attrKeys = []string{envb.AttrPlugin, envb.AttrPlugin, envb.AttrPluginMinVer, "io.cncf.notary.signingScheme", "io.cncf.notary.signingTime", "io.cncf.notary.authenticSigningTime",
	"io.cncf.notary.expiry", "c12.unknown", "crit", "alg", "cty"}

// ---------- JWS ----------

func mutateJWS(rt *rapid.T, b *base) ([]byte, string) {
	tree, err := jparse(b.Env)
	if err != nil {
		panic(harnessPanic{"harness: base envelope does not parse: " + b.Name})
	}
	region := rp.Pick(rt, "region", "outer", "outer", "protected", "protected", "protected", "payload", "payload", "attr", "attr", "der")
	recipe := "jws:" + region
	inner := func(field string, edit func(t *jv)) bool {
		raw, err := b64u.DecodeString(tree.get(field).s)
		if err != nil {
			return false
		}
		t, err := jparse(raw)
		if err != nil {
			return false
		}
		edit(t)
		tree.set(field, jstr(b64u.EncodeToString(t.bytes())))
		return true
	}
	resignIt := func() {
		if rapid.IntRange(0, 3).Draw(rt, "resign") != 0 {
			p, s := tree.get("protected"), tree.get("payload")
			if p != nil && s != nil && p.k == 's' && s.k == 's' {
				tree.set("signature", jstr(b64u.EncodeToString(resign(b.key, []byte(p.s+"."+s.s)))))
				recipe += "+resigned"
			}
		}
	}
	switch region {
	case "outer":
		for i, n := 0, rapid.IntRange(1, 2).Draw(rt, "edits"); i < n; i++ {
			recipe += ";" + jsonEdit(rt, tree, false)
		}
	case "protected", "payload":
		inner(region, func(t *jv) {
			for i, n := 0, rapid.IntRange(1, 2).Draw(rt, "edits"); i < n; i++ {
				recipe += ";" + jsonEdit(rt, t, false)
			}
		})
		resignIt()
	case "attr":
		key := rp.Pick(rt, "attrKey", attrKeys...)
		val := rp.Pick(rt, "attrValue", attrValues...)
		critical := rapid.Bool().Draw(rt, "critical")
		inner("protected", func(t *jv) {
			t.set(key, jAttr(val))
			if critical && key != "crit" {
				if crit := t.get("crit"); crit != nil && crit.k == 'a' {
					crit.arr = append(crit.arr, jstr(key))
				} else {
					t.set("crit", jarr(jstr(key)))
				}
			}
			if rapid.IntRange(0, 5).Draw(rt, "critEdit") == 0 {
				t.set("crit", rp.Pick(rt, "crit", jlit("null"), jarr(), jarr(jnum("5")), jstr("x"), jarr(jstr("absent.key")), jarr(jstr("alg")), jarr(jstr(key), jstr(key))))
			}
		})
		recipe += fmt.Sprintf(";%s=%s,critical=%v", key, val, critical)
		resignIt()
	case "der":
		hdr := tree.get("header")
		target := rp.Pick(rt, "derTarget", "x5c", "x5c", "timestamp", "timestamp-on-plain")
		switch {
		case hdr == nil || hdr.k != 'o':
		case target == "x5c":
			if x := hdr.get("x5c"); x != nil && x.k == 'a' && len(x.arr) > 0 {
				i := rapid.IntRange(0, len(x.arr)-1).Draw(rt, "cert")
				raw, _ := base64.StdEncoding.DecodeString(x.arr[i].s)
				x.arr[i] = jstr(base64.StdEncoding.EncodeToString(flipSome(rt, raw)))
			}
		default:
			ts := hdr.get("io.cncf.notary.timestampSignature")
			var raw []byte
			if ts != nil {
				raw, _ = base64.StdEncoding.DecodeString(ts.s)
			} else { // graft the token of the timestamped base (it countersigns another signature value)
				other, _ := jparse(fixtures().byName["jws/"+b.Kind+"/timestamp"].Env)
				raw, _ = base64.StdEncoding.DecodeString(other.get("header").get("io.cncf.notary.timestampSignature").s)
			}
			if rapid.IntRange(0, 5).Draw(rt, "keepToken") != 0 {
				raw = flipSome(rt, raw)
			}
			hdr.set("io.cncf.notary.timestampSignature", jstr(base64.StdEncoding.EncodeToString(raw)))
		}
		recipe += ";" + target
	}
	return tree.bytes(), recipe
}

// ---------- COSE ----------

func mutateCOSE(rt *rapid.T, b *base) ([]byte, string) {
	root, err := cparse(b.Env)
	if err != nil || root.k != 'g' || len(root.kids) != 1 || root.kids[0].k != 'a' || len(root.kids[0].kids) != 4 {
		panic(harnessPanic{"harness: base envelope is not a tagged COSE_Sign1: " + b.Name})
	}
	arr := root.kids[0]
	region := rp.Pick(rt, "region", "outer", "outer", "outer", "protected", "protected", "protected", "payload", "attr", "attr", "der")
	recipe := "cose:" + region
	resignIt := func() {
		if rapid.IntRange(0, 3).Draw(rt, "resign") != 0 && arr.kids[0].k == 'b' && arr.kids[2].k == 'b' {
			arr.kids[3] = cBytes(resign(b.key, envb.COSESigInput(arr.kids[0].b, arr.kids[2].b)))
			recipe += "+resigned"
		}
	}
	protected := func(edit func(m *cv)) {
		m, err := cparse(arr.kids[0].b)
		if err != nil {
			return
		}
		holder := cArr(m)
		edit(holder)
		var enc []byte
		for _, k := range holder.kids {
			enc = k.encode(enc)
		}
		arr.kids[0] = cBytes(enc)
	}
	switch region {
	case "outer":
		holder := cArr(root)
		for i, n := 0, rapid.IntRange(1, 2).Draw(rt, "edits"); i < n; i++ {
			recipe += ";" + cborEdit(rt, holder)
		}
		var enc []byte
		for _, k := range holder.kids {
			enc = k.encode(enc)
		}
		return enc, recipe
	case "protected":
		protected(func(h *cv) {
			for i, n := 0, rapid.IntRange(1, 2).Draw(rt, "edits"); i < n; i++ {
				recipe += ";" + cborEdit(rt, h)
			}
		})
		resignIt()
	case "payload":
		if t, err := jparse(arr.kids[2].b); err == nil {
			for i, n := 0, rapid.IntRange(1, 2).Draw(rt, "edits"); i < n; i++ {
				recipe += ";" + jsonEdit(rt, t, false)
			}
			arr.kids[2] = cBytes(t.bytes())
		}
		resignIt()
	case "attr":
		key := rp.Pick(rt, "attrKey", attrKeys...)
		val := rp.Pick(rt, "attrValue", attrValues...)
		critical := rapid.Bool().Draw(rt, "critical")
		var label *cv
		switch key {
		case "alg":
			label = cUint(1)
		case "crit":
			label = cUint(2)
		case "cty":
			label = cUint(3)
		default:
			label = cText(key)
		}
		if rapid.IntRange(0, 7).Draw(rt, "intLabel") == 0 {
			label = rp.Pick(rt, "label", cUint(99), cNint(5), cUint(4), cUint(33), cUint(0))
		}
		protected(func(h *cv) {
			m := h.kids[0]
			if m.k != 'm' {
				return
			}
			replaced := false
			for i := 0; i+1 < len(m.kids); i += 2 {
				if string(m.kids[i].bytes()) == string(label.bytes()) {
					m.kids[i+1], replaced = cAttr(val), true
				}
			}
			if !replaced {
				m.kids = append(m.kids, label, cAttr(val))
			}
			for i := 0; i+1 < len(m.kids); i += 2 {
				if m.kids[i].k == 'u' && m.kids[i].n == 2 && m.kids[i+1].k == 'a' && critical && key != "crit" {
					m.kids[i+1].kids = append(m.kids[i+1].kids, label.clone())
				}
				if m.kids[i].k == 'u' && m.kids[i].n == 2 && rapid.IntRange(0, 5).Draw(rt, "critEdit") == 0 {
					m.kids[i+1] = rp.Pick(rt, "crit", cNull(), cArr(), cArr(cNull()), cText("x"), cArr(cText("absent.key")), cArr(cUint(1)), cArr(label.clone(), label.clone()), cArr(cArr()), cArr(cMap()))
				}
			}
		})
		recipe += fmt.Sprintf(";%s=%s,critical=%v", key, val, critical)
		resignIt()
	case "der":
		un := arr.kids[1]
		target := rp.Pick(rt, "derTarget", "x5chain", "x5chain", "timestamp", "timestamp-on-plain", "x5chain-shape")
		find := func(m *cv, match func(k *cv) bool) int {
			for i := 0; i+1 < len(m.kids); i += 2 {
				if match(m.kids[i]) {
					return i + 1
				}
			}
			return -1
		}
		isX5 := func(k *cv) bool { return k.k == 'u' && k.n == 33 }
		isTS := func(k *cv) bool { return k.k == 't' && string(k.b) == "io.cncf.notary.timestampSignature" }
		switch {
		case un.k != 'm':
		case target == "x5chain":
			if i := find(un, isX5); i >= 0 && un.kids[i].k == 'a' && len(un.kids[i].kids) > 0 {
				j := rapid.IntRange(0, len(un.kids[i].kids)-1).Draw(rt, "cert")
				un.kids[i].kids[j] = cBytes(flipSome(rt, un.kids[i].kids[j].b))
			}
		case target == "x5chain-shape":
			if i := find(un, isX5); i >= 0 && un.kids[i].k == 'a' && len(un.kids[i].kids) > 0 {
				ch := un.kids[i]
				leaf := ch.kids[0]
				un.kids[i] = rp.Pick(rt, "shape", leaf, cArr(), cArr(leaf), cArr(leaf, leaf.clone()), cArr(ch.kids[len(ch.kids)-1], leaf), cArr(cUint(1)), cArr(cText("x")), cBytes(nil), cArr(cArr(leaf)), cArr(append(append([]*cv{}, ch.kids...), ch.kids...)...))
			}
		default:
			var raw []byte
			i := find(un, isTS)
			if i >= 0 {
				raw = un.kids[i].b
			} else {
				other, _ := cparse(fixtures().byName["cose/"+b.Kind+"/timestamp"].Env)
				om := other.kids[0].kids[1]
				raw = om.kids[find(om, isTS)].b
			}
			if rapid.IntRange(0, 5).Draw(rt, "keepToken") != 0 {
				raw = flipSome(rt, raw)
			}
			if i >= 0 {
				un.kids[i] = cBytes(raw)
			} else {
				un.kids = append(un.kids, cText("io.cncf.notary.timestampSignature"), cBytes(raw))
			}
		}
		recipe += ";" + target
	}
	return root.bytes(), recipe
}

// ---------- byte level ----------

func mutateBytes(rt *rapid.T, b *base) ([]byte, string) {
	out := append([]byte{}, b.Env...)
	op := rp.Pick(rt, "byteOp", "flip", "flip", "truncate", "append", "duplicate-byte", "segment", "segment", "splice", "empty", "prefix", "whitespace")
	switch op {
	case "flip":
		out[rapid.IntRange(0, len(out)-1).Draw(rt, "at")] ^= byte(1 << rapid.IntRange(0, 7).Draw(rt, "bit"))
	case "truncate":
		out = out[:rapid.IntRange(0, len(out)-1).Draw(rt, "len")]
	case "append":
		out = append(out, rapid.SliceOfN(rapid.Byte(), 1, 8).Draw(rt, "tail")...)
	case "duplicate-byte":
		i := rapid.IntRange(0, len(out)-1).Draw(rt, "at")
		out = append(out[:i+1], out[i:]...)
	case "splice": // a piece of another valid envelope
		o := fixtures().bases[rapid.IntRange(0, len(fixtures().bases)-1).Draw(rt, "other")].Env
		i := rapid.IntRange(0, len(out)-1).Draw(rt, "at")
		j := rapid.IntRange(0, len(o)-1).Draw(rt, "from")
		out = append(append([]byte{}, out[:i]...), o[j:]...)
	case "empty":
		out = nil
	case "prefix":
		out = append([]byte(rp.Pick(rt, "prefix", "\xef\xbb\xbf", " ", "\x00", "\xd9\xd9\xf7", "[", "\xd2")), out...)
	case "whitespace":
		out = append(out, []byte(rp.Pick(rt, "ws", "\n", " \t\r\n", "\x00", "{}", "null"))...)
	case "segment":
		if b.Format == envb.MTJWS {
			p, err := envb.SplitJWS(b.Env)
			if err != nil {
				return out, op
			}
			field := rp.Pick(rt, "field", "protected", "payload", "signature")
			get := map[string]*string{"protected": &p.Protected, "payload": &p.Payload, "signature": &p.Signature}[field]
			raw, err := b64u.DecodeString(*get)
			if err != nil || len(raw) == 0 {
				return out, op
			}
			*get = b64u.EncodeToString(flipSome(rt, raw))
			return envb.JoinJWS(p), op + ":" + field
		}
		m, err := envb.SplitCOSE(b.Env)
		if err != nil {
			return out, op
		}
		field := rp.Pick(rt, "field", "protected", "payload", "signature")
		get := map[string]*[]byte{"protected": &m.Protected, "payload": &m.Payload, "signature": &m.Signature}[field]
		*get = flipSome(rt, *get)
		return envb.JoinCOSE(m), op + ":" + field
	}
	return out, op
}

func randomEnvelope(rt *rapid.T) ([]byte, string) {
	body := rapid.SliceOfN(rapid.Byte(), 0, 200).Draw(rt, "bytes")
	prefix := rp.Pick(rt, "shape", "", "", `{"payload":"`, `{"payload":"e30","protected":"e30","header":{"x5c":[]},"signature":"`, `{"payload":null,"protected":`, "\xd2\x84", "\xd2\x84\x40\xa0\x40\x40", "\x84\x43\xa1\x01\x26\xa0", "\xd2\x84\x43\xa1\x01\x26\xa1\x18\x21\x80\xf6\x40", "[", "null", `""`)
	return append([]byte(prefix), body...), "random:" + fmt.Sprintf("%q", prefix)
}

// mutate draws the envelope bytes of a family 1 case.
func mutate(rt *rapid.T, b *base) ([]byte, string) {
	switch rp.Pick(rt, "mutation", "structural", "structural", "structural", "structural", "structural", "bytes", "bytes", "random") {
	case "structural":
		if b.Format == envb.MTJWS {
			return mutateJWS(rt, b)
		}
		return mutateCOSE(rt, b)
	case "bytes":
		in, d := mutateBytes(rt, b)
		return in, "bytes:" + d
	}
	return randomEnvelope(rt)
}

// mutationClass reduces a recipe to its kind.
func mutationClass(recipe string) string {
	head := recipe
	if i := strings.Index(head, ";"); i >= 0 {
		head = head[:i]
	}
	if strings.HasPrefix(head, "random:") {
		return "random"
	}
	return strings.TrimSuffix(head, "+resigned")
}

func editClasses(recipe string) []string {
	var out []string
	for _, part := range strings.Split(recipe, ";")[1:] {
		if i := strings.Index(part, "@"); i > 0 {
			out = append(out, "edit="+part[:i])
		}
	}
	if strings.Contains(recipe, "+resigned") {
		out = append(out, "resigned")
	}
	return out
}

func TestC12_Envelopes(t *testing.T) {
	rec := stats.New(t, "C12", rule)
	var rc Case
	if rp.ReplayCase(&rc) {
		if rc.Family == 1 {
			runCase(t, rec, &rc, "replay")
		}
		return
	}
	f := fixtures()
	rp.Check(t, 16000, 400000, property(func(rt *rapid.T) {
		b := f.bases[rapid.IntRange(0, len(f.bases)-1).Draw(rt, "base")]
		c := &Case{Family: 1, Source: b.Name}
		c.Input, c.Mutation = mutate(rt, b)
		c.Cfg = drawCfg(rt, b.Kind, rapid.IntRange(0, 3).Draw(rt, "wideConfig") == 0)
		if b.Kind == "oci" {
			c.Entry = rp.Pick(rt, "entry", "verifier.Verify", "verifier.Verify", "notation.Verify")
		} else {
			c.Entry = rp.Pick(rt, "entry", "verifier.VerifyBlob", "verifier.VerifyBlob", "notation.VerifyBlob")
		}
		c.Opts = drawOpts(rt, c.Entry, b.Format, 1)
		if rapid.IntRange(0, 7).Draw(rt, "oddMedia") == 0 {
			c.Opts.Media = rp.Pick(rt, "media", otherFormat(b.Format), "", "application/unknown", "application/JOSE+json", strings.Repeat("m", 5000))
		} else {
			c.Opts.Media = b.Format
		}
		if c.Opts.Ref != "digest" && rapid.IntRange(0, 2).Draw(rt, "keepOddRef") != 0 {
			c.Opts.Ref = "digest" // odd references end before the envelope is looked at: keep them rare here
		}
		cl := append([]string{"mutation=" + mutationClass(c.Mutation), "variant=" + b.Variant}, editClasses(c.Mutation)...)
		runCase(rt, rec, c, cl...)
	}))
}
