package c12

// An order- and duplicate-preserving JSON model with hostile edits. It renders by hand so
// that duplicate members, re-spelled keys, invalid UTF-8 and verbatim fragments survive.

import (
	"bytes"
	"encoding/json"
	"fmt"
	"io"
	"strings"
	"unicode"

	"pgregory.net/rapid"

	"verifharness/internal/rp"
)

type jv struct {
	k   byte // 'o' object, 'a' array, 's' string, 'n' number text, 'l' literal, 'r' verbatim text
	mem []jm
	arr []*jv
	s   string
}

type jm struct {
	key string
	val *jv
}

func jstr(s string) *jv           { return &jv{k: 's', s: s} }
func jnum(s string) *jv           { return &jv{k: 'n', s: s} }
func jlit(s string) *jv           { return &jv{k: 'l', s: s} }
func jraw(s string) *jv           { return &jv{k: 'r', s: s} }
func jarr(e ...*jv) *jv           { return &jv{k: 'a', arr: e} }
func jobj(m ...jm) *jv            { return &jv{k: 'o', mem: m} }
func (v *jv) get(key string) *jv  { return v.getN(key, 0) }
func (v *jv) has(key string) bool { return v.get(key) != nil }

func (v *jv) getN(key string, n int) *jv {
	if v == nil || v.k != 'o' {
		return nil
	}
	for _, m := range v.mem {
		if m.key == key {
			if n == 0 {
				return m.val
			}
			n--
		}
	}
	return nil
}

func (v *jv) set(key string, val *jv) {
	for i, m := range v.mem {
		if m.key == key {
			v.mem[i].val = val
			return
		}
	}
	v.mem = append(v.mem, jm{key, val})
}

func (v *jv) clone() *jv {
	if v == nil {
		return nil
	}
	c := &jv{k: v.k, s: v.s}
	for _, m := range v.mem {
		c.mem = append(c.mem, jm{m.key, m.val.clone()})
	}
	for _, e := range v.arr {
		c.arr = append(c.arr, e.clone())
	}
	return c
}

// jparse decodes one JSON value keeping member order and duplicates.
func jparse(b []byte) (*jv, error) {
	dec := json.NewDecoder(bytes.NewReader(b))
	dec.UseNumber()
	v, err := jparseValue(dec, 0)
	if err != nil {
		return nil, err
	}
	if _, err := dec.Token(); err != io.EOF {
		return nil, fmt.Errorf("trailing data")
	}
	return v, nil
}

func jparseValue(dec *json.Decoder, depth int) (*jv, error) {
	if depth > 200 {
		return nil, fmt.Errorf("too deep")
	}
	tok, err := dec.Token()
	if err != nil {
		return nil, err
	}
	switch t := tok.(type) {
	case json.Delim:
		switch t {
		case '{':
			o := &jv{k: 'o'}
			for dec.More() {
				kt, err := dec.Token()
				if err != nil {
					return nil, err
				}
				key, _ := kt.(string)
				val, err := jparseValue(dec, depth+1)
				if err != nil {
					return nil, err
				}
				o.mem = append(o.mem, jm{key, val})
			}
			_, err := dec.Token()
			return o, err
		case '[':
			a := &jv{k: 'a'}
			for dec.More() {
				val, err := jparseValue(dec, depth+1)
				if err != nil {
					return nil, err
				}
				a.arr = append(a.arr, val)
			}
			_, err := dec.Token()
			return a, err
		}
		return nil, fmt.Errorf("unexpected delimiter %v", t)
	case string:
		return jstr(t), nil
	case json.Number:
		return jnum(t.String()), nil
	case bool:
		if t {
			return jlit("true"), nil
		}
		return jlit("false"), nil
	case nil:
		return jlit("null"), nil
	}
	return nil, fmt.Errorf("unexpected token %v", tok)
}

// jquote renders a string literal; bytes that are not valid UTF-8 are emitted verbatim.
func jquote(b *bytes.Buffer, s string) {
	b.WriteByte('"')
	for i := 0; i < len(s); i++ {
		c := s[i]
		switch {
		case c == '"' || c == '\\':
			b.WriteByte('\\')
			b.WriteByte(c)
		case c < 0x20:
			fmt.Fprintf(b, "\\u%04x", c)
		default:
			b.WriteByte(c)
		}
	}
	b.WriteByte('"')
}

func (v *jv) render(b *bytes.Buffer) {
	if v == nil {
		b.WriteString("null")
		return
	}
	switch v.k {
	case 'o':
		b.WriteByte('{')
		for i, m := range v.mem {
			if i > 0 {
				b.WriteByte(',')
			}
			jquote(b, m.key)
			b.WriteByte(':')
			m.val.render(b)
		}
		b.WriteByte('}')
	case 'a':
		b.WriteByte('[')
		for i, e := range v.arr {
			if i > 0 {
				b.WriteByte(',')
			}
			e.render(b)
		}
		b.WriteByte(']')
	case 's':
		jquote(b, v.s)
	default:
		b.WriteString(v.s)
	}
}

func (v *jv) bytes() []byte {
	var b bytes.Buffer
	v.render(&b)
	return b.Bytes()
}

// jslot addresses one value inside its parent.
type jslot struct {
	parent *jv
	idx    int
	path   string
}

func (s jslot) value() *jv {
	if s.parent.k == 'o' {
		return s.parent.mem[s.idx].val
	}
	return s.parent.arr[s.idx]
}

func (s jslot) put(v *jv) {
	if s.parent.k == 'o' {
		s.parent.mem[s.idx].val = v
	} else {
		s.parent.arr[s.idx] = v
	}
}

func jslots(v *jv, path string, out *[]jslot, limit int) {
	if len(*out) >= limit {
		return
	}
	switch v.k {
	case 'o':
		for i, m := range v.mem {
			p := path + "." + m.key
			*out = append(*out, jslot{v, i, p})
			jslots(m.val, p, out, limit)
		}
	case 'a':
		for i, e := range v.arr {
			if i >= 8 { // long arrays: the first elements stand for the rest
				break
			}
			p := fmt.Sprintf("%s[%d]", path, i)
			*out = append(*out, jslot{v, i, p})
			jslots(e, p, out, limit)
		}
	}
}

var jsonEditOps = []string{"null", "null", "bool", "number", "number", "array", "object", "string", "long-string", "bad-utf8",
	"deep", "drop", "dup", "dup-null-first", "case", "rename", "add-unknown", "huge-array", "swap-type", "garbage-encoding", "empty-string", "verbatim"}

func deepNest(depth int, open, close string, core string) *jv {
	return jraw(strings.Repeat(open, depth) + core + strings.Repeat(close, depth))
}

func swapCaseKey(k string, n int) string {
	switch n % 3 {
	case 0:
		return strings.ToUpper(k)
	case 1:
		return strings.ToLower(k)
	}
	if k == "" {
		return "X"
	}
	r := []rune(k)
	if unicode.IsUpper(r[0]) {
		r[0] = unicode.ToLower(r[0])
	} else {
		r[0] = unicode.ToUpper(r[0])
	}
	return string(r)
}

// jsonEdit applies one hostile edit to root (which must be an object or array) and returns
// its description. big allows the multi-megabyte variants.
func jsonEdit(rt *rapid.T, root *jv, big bool) string {
	var slots []jslot
	jslots(root, "", &slots, 400)
	if len(slots) == 0 {
		root.k, root.mem, root.arr = 'o', []jm{{"unexpected", jlit("null")}}, nil
		return "fill-empty"
	}
	sl := slots[rapid.IntRange(0, len(slots)-1).Draw(rt, "slot")]
	op := rp.Pick(rt, "jsonOp", jsonEditOps...)
	old := sl.value()
	switch op {
	case "null":
		sl.put(jlit("null"))
	case "bool":
		sl.put(jlit(rp.Pick(rt, "bool", "true", "false")))
	case "number":
		sl.put(jnum(rp.Pick(rt, "num", "0", "-1", "1", "1.5", "-0", "1e999", "18446744073709551616", "-9223372036854775809", "9007199254740993", "1e-400", "123456789012345678901234567890", "2147483648", "0.0000001")))
	case "array":
		sl.put(rp.Pick(rt, "arr", jarr(), jarr(jlit("null")), jarr(jnum("1"), jstr("a")), jarr(jarr()), jarr(jobj()), jarr(old.clone(), old.clone())))
	case "object":
		sl.put(rp.Pick(rt, "obj", jobj(), jobj(jm{"a", jlit("null")}), jobj(jm{"", jstr("")}), jobj(jm{"value", old.clone()})))
	case "string":
		sl.put(jstr(rp.Pick(rt, "str", "x", " ", "*", "null", "0", "\u0000", "../../../etc/passwd", "sha256:", "a:b:c", "ca:", ":x", "\\", "\"", "\u2028", "x509.subject:", "x509.subject:CN=a,CN=b", "=#", "1.0", "2", "strict", "skip")))
	case "empty-string":
		sl.put(jstr(""))
	case "long-string":
		n := rp.Pick(rt, "strLen", 300, 5000, 70000)
		if big && rapid.IntRange(0, 9).Draw(rt, "veryLong") == 0 {
			n = 1 << 20
		}
		sl.put(jstr(strings.Repeat(rp.Pick(rt, "strUnit", "A", "a/", "é", "=", "\\"), n)))
	case "bad-utf8":
		sl.put(jstr(rp.Pick(rt, "badUTF8", "\xff\xfe", "ok\xc3", "\xed\xa0\x80", "\xf8\x88\x80\x80\x80", "a\x80b")))
	case "deep":
		d := rp.Pick(rt, "depth", 5, 100, 9000, 11000)
		if big && rapid.IntRange(0, 9).Draw(rt, "veryDeep") == 0 {
			d = 200000
		}
		if rapid.Bool().Draw(rt, "deepObject") {
			sl.put(deepNest(d, `{"a":`, "}", "null"))
		} else {
			sl.put(deepNest(d, "[", "]", ""))
		}
	case "drop":
		if sl.parent.k == 'o' {
			sl.parent.mem = append(append([]jm{}, sl.parent.mem[:sl.idx]...), sl.parent.mem[sl.idx+1:]...)
		} else {
			sl.parent.arr = append(append([]*jv{}, sl.parent.arr[:sl.idx]...), sl.parent.arr[sl.idx+1:]...)
		}
	case "dup":
		if sl.parent.k == 'o' {
			alt := rp.Pick(rt, "dupValue", old.clone(), jlit("null"), jstr("other"), jnum("7"), jarr(), jobj())
			sl.parent.mem = append(sl.parent.mem, jm{sl.parent.mem[sl.idx].key, alt})
		} else {
			sl.parent.arr = append(sl.parent.arr, old.clone())
		}
	case "dup-null-first":
		if sl.parent.k == 'o' {
			sl.parent.mem = append([]jm{{sl.parent.mem[sl.idx].key, jlit("null")}}, sl.parent.mem...)
		} else {
			sl.parent.arr = append([]*jv{jlit("null")}, sl.parent.arr...)
		}
	case "case":
		if sl.parent.k == 'o' {
			sl.parent.mem[sl.idx].key = swapCaseKey(sl.parent.mem[sl.idx].key, rapid.IntRange(0, 2).Draw(rt, "caseKind"))
		} else {
			sl.put(jlit("null"))
		}
	case "rename":
		if sl.parent.k == 'o' {
			sl.parent.mem[sl.idx].key = rp.Pick(rt, "newKey", "", "unknown", sl.parent.mem[sl.idx].key+" ", "\u0000", "__proto__")
		} else {
			sl.put(jstr("renamed"))
		}
	case "add-unknown":
		if sl.parent.k == 'o' {
			sl.parent.mem = append(sl.parent.mem, jm{rp.Pick(rt, "unknownKey", "unknown", "", "io.cncf.notary.unknown", "extra"), rp.Pick(rt, "unknownVal", jlit("null"), jstr("x"), jobj(), jarr(jnum("1")))})
		} else {
			sl.parent.arr = append(sl.parent.arr, rp.Pick(rt, "extraElem", jlit("null"), jnum("5"), jobj(), jarr(), jstr("")))
		}
	case "huge-array":
		n := rp.Pick(rt, "arrLen", 50, 2000, 30000)
		if big && rapid.IntRange(0, 5).Draw(rt, "veryLongArray") == 0 {
			n = 300000
		}
		elem := string(old.bytes())
		if len(elem) > 40 {
			elem = `"x"`
		}
		sl.put(jraw("[" + strings.TrimSuffix(strings.Repeat(elem+",", n), ",") + "]"))
	case "swap-type":
		switch old.k {
		case 's':
			sl.put(jnum("5"))
		case 'n':
			sl.put(jstr(old.s))
		case 'l':
			sl.put(jstr(old.s))
		case 'a':
			sl.put(jobj(jm{"0", jlit("null")}))
		default:
			sl.put(jarr(old.clone()))
		}
	case "garbage-encoding":
		// strings are often base64 / PEM / times / digests: break the inner encoding
		sl.put(jstr(rp.Pick(rt, "garbage", "!!!", "AAA", "AA==AA", "2006-01-02T15:04:05", "9999-99-99T99:99:99Z", "0001-01-01T00:00:00Z", "sha256:zz", "MIIB", "====", "-----BEGIN CERTIFICATE-----")))
	case "verbatim":
		sl.put(jraw(rp.Pick(rt, "verbatim", "", "nul", "tru", "'x'", "{", "]", "NaN", "Infinity", "0x10", "01", "1.", "\"\\u12\"", "\"\\x\"", "/*c*/1", "\xef\xbb\xbf1")))
	}
	return op + "@" + sl.path
}

// ---------- arbitrary JSON documents ----------

func genJSON(rt *rapid.T, depth int) *jv {
	max := 7
	if depth > 3 {
		max = 4
	}
	switch rapid.IntRange(0, max).Draw(rt, "jsonKind") {
	case 0:
		return jlit(rp.Pick(rt, "lit", "null", "true", "false"))
	case 1:
		return jnum(rp.Pick(rt, "n", "0", "1", "-1", "1e999", "2.5", "18446744073709551616"))
	case 2, 3:
		return jstr(rp.Pick(rt, "s", "", "x", "1.0", "*", "strict", "skip", "ca:x", "name", "\xff", "registry.example/repo", "AAAA"))
	case 4:
		return jlit("null")
	case 5, 6:
		o := jobj()
		n := rapid.IntRange(0, 4).Draw(rt, "members")
		for i := 0; i < n; i++ {
			o.mem = append(o.mem, jm{rp.Pick(rt, "key", "version", "trustPolicies", "name", "keys", "default", "level", "signatureVerification", "baseCRL", "id", "", "x", "override", "trustStores"), genJSON(rt, depth+1)})
		}
		return o
	default:
		a := jarr()
		n := rapid.IntRange(0, 3).Draw(rt, "elems")
		for i := 0; i < n; i++ {
			a.arr = append(a.arr, genJSON(rt, depth+1))
		}
		return a
	}
}
