package c12

import (
	"context"
	"fmt"
	"os"
	"path/filepath"
	"strings"
	"testing"

	"github.com/notaryproject/notation-go"
	"github.com/notaryproject/notation-go/dir"
	"github.com/notaryproject/notation-go/verifier"
	"github.com/notaryproject/notation-go/verifier/truststore"
	"github.com/opencontainers/go-digest"
	ocispec "github.com/opencontainers/image-spec/specs-go/v1"
	"pgregory.net/rapid"

	"verifharness/internal/kit"
	"verifharness/internal/pki"
	"verifharness/internal/rp"
	"verifharness/internal/stats"
)

// TreeCase (family 5b): the trust store is configuration too. A policy may name any store whose
// name consists of file-name characters (there is no length bound), and what lies at
// truststore/x509/<type>/<name> below the configuration directory is whatever the machine's
// administrator, an installer or an accident left there. Verification (all four entry points)
// and a direct GetCertificates run under guard against generated shapes of that tree: they may
// fail, they may not crash.
type TreeCase struct {
	Family int    `json:"family"`
	Name   string `json:"name"`  // the store name the policy lists
	Shape  string `json:"shape"` // what the tree looks like
	Format string `json:"format"`
}

var treeShapes = []string{"ok", "absent", "root-absent", "type-dir-is-file", "x509-dir-is-file", "store-is-file", "store-is-symlink-to-dir", "store-is-dangling-symlink",
	"store-is-symlink-loop", "entry-is-dir", "entry-is-dangling-symlink", "entry-is-symlink-loop", "entry-empty-file", "entry-garbage", "entry-unreadable-dir-inside",
	"type-dir-is-symlink-loop", "store-empty", "entry-name-255", "entry-huge-pem-header", "entry-leaf", "many-entries"}

func treeNames() []string {
	return []string{"x", "x", "x", strings.Repeat("n", 255), strings.Repeat("n", 256), strings.Repeat("n", 1024), strings.Repeat("n", 4096), strings.Repeat("n", 70000),
		".", "..", "...", "-", "_", strings.Repeat(".", 300), strings.Repeat("a.", 200)}
}

func runTree(r *runner, c *TreeCase) (loaded bool) {
	f := fixtures()
	root, err := os.MkdirTemp("", "c12-tree-")
	if err != nil {
		panic(harnessPanic{"harness: " + err.Error()})
	}
	defer func() {
		filepath.Walk(root, func(p string, fi os.FileInfo, err error) error {
			if err == nil && fi.IsDir() {
				os.Chmod(p, 0o755)
			}
			return nil
		})
		os.RemoveAll(root)
	}()
	x509dir := filepath.Join(root, "truststore", "x509")
	typeDir := filepath.Join(x509dir, "ca")
	store := filepath.Join(typeDir, c.Name)
	pem := pki.PEM(f.chain.Root().Cert)
	mk := func(d string) { os.MkdirAll(d, 0o755) }
	okStore := func() {
		mk(store)
		os.WriteFile(filepath.Join(store, "root.pem"), pem, 0o644)
	}
	switch c.Shape {
	case "ok":
		okStore()
	case "absent":
		mk(typeDir)
	case "root-absent":
	case "type-dir-is-file":
		mk(x509dir)
		os.WriteFile(typeDir, pem, 0o644)
	case "x509-dir-is-file":
		mk(filepath.Dir(x509dir))
		os.WriteFile(x509dir, pem, 0o644)
	case "store-is-file":
		mk(typeDir)
		os.WriteFile(store, pem, 0o644)
	case "store-is-symlink-to-dir":
		mk(typeDir)
		mk(filepath.Join(root, "elsewhere"))
		os.WriteFile(filepath.Join(root, "elsewhere", "root.pem"), pem, 0o644)
		os.Symlink(filepath.Join(root, "elsewhere"), store)
	case "store-is-dangling-symlink":
		mk(typeDir)
		os.Symlink(filepath.Join(root, "missing"), store)
	case "store-is-symlink-loop":
		mk(typeDir)
		os.Symlink(store, store)
	case "type-dir-is-symlink-loop":
		mk(x509dir)
		os.Symlink(typeDir, typeDir)
	case "entry-is-dir":
		okStore()
		mk(filepath.Join(store, "sub"))
	case "entry-is-dangling-symlink":
		okStore()
		os.Symlink(filepath.Join(root, "missing"), filepath.Join(store, "a.pem"))
	case "entry-is-symlink-loop":
		okStore()
		os.Symlink(filepath.Join(store, "a.pem"), filepath.Join(store, "a.pem"))
	case "entry-empty-file":
		okStore()
		os.WriteFile(filepath.Join(store, "a.pem"), nil, 0o644)
	case "entry-garbage":
		okStore()
		os.WriteFile(filepath.Join(store, "a.pem"), []byte("-----BEGIN CERTIFICATE-----\nAAAA\n-----END CERTIFICATE-----\n\x00\xff"), 0o644)
	case "entry-unreadable-dir-inside":
		okStore()
		mk(filepath.Join(store, "locked"))
		os.Chmod(filepath.Join(store, "locked"), 0)
	case "store-empty":
		mk(store)
	case "entry-name-255":
		mk(store)
		os.WriteFile(filepath.Join(store, strings.Repeat("e", 251)+".pem"), pem, 0o644)
	case "entry-huge-pem-header":
		mk(store)
		os.WriteFile(filepath.Join(store, "a.pem"), append([]byte("-----BEGIN CERTIFICATE-----\nProc-Type: "+strings.Repeat("x", 1<<20)+"\n\n"), pem[28:]...), 0o644)
	case "entry-leaf":
		mk(store)
		os.WriteFile(filepath.Join(store, "leaf.pem"), pki.PEM(f.chain.Leaf().Cert), 0o644)
	case "many-entries":
		mk(store)
		for i := 0; i < 300; i++ {
			os.WriteFile(filepath.Join(store, fmt.Sprintf("c%03d.pem", i)), pem, 0o644)
		}
	}
	ts := truststore.NewX509TrustStore(dir.NewSysFS(root))
	ctx := context.Background()
	r.call("X509TrustStore.GetCertificates", len(c.Name), func() {
		certs, err := ts.GetCertificates(ctx, truststore.TypeCA, c.Name)
		touchErr(err)
		loaded = err == nil && len(certs) > 0
	})
	opts := kit.Options()
	sv := kit.Level{Base: "strict"}.SV("")
	opts.OCITrustPolicy = kit.OCIDoc(ociStmt, sv, []string{"ca:" + c.Name}, []string{"*"})
	opts.BlobTrustPolicy = kit.BlobDoc("", sv, []string{"ca:" + c.Name}, []string{"*"})
	var v interface {
		notation.Verifier
		notation.BlobVerifier
	}
	if r.call("verifier.NewVerifierWithOptions", len(c.Name), func() {
		nv, err := verifier.NewVerifierWithOptions(ts, opts)
		touchErr(err)
		if err == nil {
			v = nv
		}
	}) || v == nil {
		return loaded
	}
	short := map[string]string{"application/jose+json": "jws", "application/cose": "cose"}[c.Format]
	oci := f.byName[short+"/oci/plain"]
	blob := f.byName[short+"/blob/plain"]
	if oci == nil || blob == nil {
		panic(harnessPanic{"harness: base envelope missing for " + c.Format})
	}
	cc := &Case{Entry: "verifier.Verify", Cfg: Cfg{Docs: "both"}}
	var res callResult
	if !r.call("verifier.Verify", len(oci.Env), func() {
		res.outcome, res.err = v.Verify(ctx, f.art, oci.Env, notation.VerifierVerifyOptions{ArtifactReference: kit.Reference(f.art), SignatureMediaType: c.Format})
		touchErr(res.err)
	}) {
		oracle(r, cc, &res)
	}
	cb := &Case{Entry: "verifier.VerifyBlob", Cfg: Cfg{Docs: "both"}}
	var resB callResult
	if !r.call("verifier.VerifyBlob", len(blob.Env), func() {
		resB.outcome, resB.err = v.VerifyBlob(ctx, func(digest.Algorithm) (ocispec.Descriptor, error) {
			return ocispec.Descriptor{MediaType: "application/octet-stream", Digest: digest.Digest(f.blobDg), Size: int64(len(f.blob))}, nil
		}, blob.Env, notation.BlobVerifierVerifyOptions{SignatureMediaType: c.Format})
		touchErr(resB.err)
	}) {
		oracle(r, cb, &resB)
	}
	return loaded
}

func runTreeCase(t stats.Failer, rec *stats.Recorder, c *TreeCase, extra ...string) {
	r := &runner{}
	loaded := runTree(r, c)
	nameClass := "tree-name=plain"
	switch {
	case len(c.Name) > 255:
		nameClass = "tree-name=longer-than-a-file-name"
	case strings.Trim(c.Name, ".") == "":
		nameClass = "tree-name=dots"
	}
	cl := append([]string{"family=5b", "entry=truststore-tree", "tree-shape=" + c.Shape, nameClass}, extra...)
	cl = append(cl, r.classes...)
	if loaded {
		cl = append(cl, "tree-loaded")
	}
	rec.Case(cl, true, stats.Fingerprint("tree", c.Shape, c.Name, c.Format), func() any {
		return map[string]any{"shape": c.Shape, "name_len": len(c.Name), "name_head": c.Name[:minInt(len(c.Name), 40)], "format": c.Format}
	})
	r.report(t, rec, c)
}

func TestC12_TrustStoreTrees(t *testing.T) {
	rec := stats.New(t, "C12", rule)
	var rc TreeCase
	if rp.ReplayCase(&rc) {
		if rc.Family == 55 {
			runTreeCase(t, rec, &rc, "replay")
		}
		return
	}
	rp.Check(t, 600, 30000, property(func(rt *rapid.T) {
		c := &TreeCase{Family: 55, Name: rp.Pick(rt, "name", treeNames()...), Shape: rp.Pick(rt, "shape", treeShapes...), Format: rp.Pick(rt, "format", "application/jose+json", "application/cose")}
		runTreeCase(rt, rec, c)
	}))
}
