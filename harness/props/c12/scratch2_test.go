package c12

import (
	"context"
	"fmt"
	"testing"
	"time"

	"github.com/notaryproject/notation-go"
	nplugin "github.com/notaryproject/notation-go/plugin"
	"github.com/notaryproject/notation-go/verifier"
	pf "github.com/notaryproject/notation-plugin-framework-go/plugin"

	"verifharness/internal/envb"
	"verifharness/internal/kit"
	"verifharness/internal/mocks"
	"verifharness/internal/pki"
)

type nilVPlugin struct {
	mocks.Plugin
	stage int
}

func (p *nilVPlugin) GetMetadata(ctx context.Context, req *pf.GetMetadataRequest) (*pf.GetMetadataResponse, error) {
	if p.stage == 0 {
		return nil, nil
	}
	return p.Plugin.GetMetadata(ctx, req)
}
func (p *nilVPlugin) VerifySignature(ctx context.Context, req *pf.VerifySignatureRequest) (*pf.VerifySignatureResponse, error) {
	return nil, nil
}

func TestScratch2(t *testing.T) {
	ch := pki.NewChain(pki.ChainOpts{Intermediates: 1, Name: "s"})
	art := kit.Artifact("a")
	env := envb.Build(envb.Spec{Format: envb.MTJWS, Payload: envb.PayloadFor(art.MediaType, art.Digest.String(), art.Size, nil), ContentType: envb.PayloadType, Scheme: envb.SchemeX509,
		SigningTime: time.Now().Add(-time.Hour), Chain: ch.X509(), Key: ch.Leaf().Key, Ext: []envb.Attr{{Key: envb.AttrPlugin, Critical: true, Value: "p"}}})
	for st := 0; st < 2; st++ {
		ts := mocks.NewTrustStore().Put("ca", "x", ch.Root().Cert)
		opts := kit.Options()
		opts.OCITrustPolicy = kit.OCIDoc("p", kit.Level{Base: "strict"}.SV(""), []string{"ca:x"}, []string{"*"})
		opts.PluginManager = &mocks.Manager{Plugins: map[string]nplugin.Plugin{"p": &nilVPlugin{Plugin: mocks.Plugin{Name: "p", Version: "1.0.0", Capabilities: []pf.Capability{pf.CapabilityTrustedIdentityVerifier}}, stage: st}}}
		v, err := verifier.NewVerifierWithOptions(ts, opts)
		if err != nil {
			t.Fatal(err)
		}
		try(fmt.Sprint("verify stage ", st), func() {
			o, err := v.Verify(context.Background(), art, env, notation.VerifierVerifyOptions{ArtifactReference: kit.Reference(art), SignatureMediaType: envb.MTJWS})
			fmt.Println(o != nil, err)
		})
	}
}
