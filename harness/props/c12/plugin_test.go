package c12

// Family 6: plugin output. (a) A shell-script plugin prints generated stdout / stderr bytes
// with a generated exit code per command; the five CLIPlugin methods are called directly, and
// the same executable is driven through PluginSigner (signing) and through a verifier with a
// CLIManager (verification). (b) A scripted in-process plugin.SignPlugin holding the real key
// answers PluginSigner.Sign / SignBlob with generated responses.
//
// Exclusion: an in-process plugin returning (nil response, nil error) is outside the
// quantifier (see guard_test.go); a nil response always comes with an error here.

import (
	"context"
	"crypto/x509"
	"encoding/base64"
	"errors"
	"fmt"
	"os"
	"path/filepath"
	"strings"
	"testing"
	"time"

	"github.com/notaryproject/notation-go"
	"github.com/notaryproject/notation-go/dir"
	nplugin "github.com/notaryproject/notation-go/plugin"
	"github.com/notaryproject/notation-go/signer"
	"github.com/notaryproject/notation-go/verifier"
	pf "github.com/notaryproject/notation-plugin-framework-go/plugin"
	"github.com/opencontainers/go-digest"
	ocispec "github.com/opencontainers/image-spec/specs-go/v1"
	"pgregory.net/rapid"

	"verifharness/internal/envb"
	"verifharness/internal/kit"
	"verifharness/internal/mocks"
	"verifharness/internal/rp"
	"verifharness/internal/stats"
)

var pluginCommands = []string{"get-plugin-metadata", "describe-key", "generate-signature", "generate-envelope", "verify-signature"}

const maxPluginOut = 1<<20 - 1024 // outputs stay below 1 MiB here; the 64 MiB cap is another property

// Out is what the script prints for one command.
type Out struct {
	Stdout []byte `json:"stdout"`
	Stderr []byte `json:"stderr,omitempty"`
	Exit   int    `json:"exit"`
	Recipe string `json:"recipe"`
}

// Answer scripts the in-process plugin (mode "inproc").
type Answer struct {
	Meta     string `json:"meta"`     // raw | envelope | both | none | unknown-cap | empty | error
	Describe string `json:"describe"` // honest | other-id | empty-id | error | <key spec string>
	GenSig   string `json:"gensig"`   // honest | garbage | empty | nil | huge | wrong-id | error | chain:<kind> | alg-unknown
	GenEnv   string `json:"genenv"`   // honest | garbage | nil | wrong-type | other-format | error | huge-annotations | payload:<kind>
}

// PluginCase is the replay format of family 6.
type PluginCase struct {
	Family  int            `json:"family"`
	Mode    string         `json:"mode"` // cli | cli-signer | cli-verifier | inproc
	Outputs map[string]Out `json:"outputs,omitempty"`
	Answer  Answer         `json:"answer"`
	Media   string         `json:"media"`
	Target  string         `json:"target"` // oci | blob | blob-descgen-error
	Expiry  int            `json:"expirySeconds"`
	Logging bool           `json:"logging"`
}

func honestOutput(cmd string, envelopeCap bool) []byte {
	f := fixtures()
	switch cmd {
	case "get-plugin-metadata":
		caps := `"SIGNATURE_GENERATOR.RAW"`
		if envelopeCap {
			caps = `"SIGNATURE_GENERATOR.ENVELOPE"`
		}
		return []byte(`{"name":"` + pluginName + `","description":"scripted","version":"1.0.0","url":"https://example.invalid","supportedContractVersions":["1.0"],"capabilities":[` + caps + `,"SIGNATURE_VERIFIER.TRUSTED_IDENTITY","SIGNATURE_VERIFIER.REVOCATION_CHECK"]}`)
	case "describe-key":
		return []byte(`{"keyId":"key1","keySpec":"EC-256"}`)
	case "generate-signature":
		var chain []string
		for _, c := range f.chain.X509() {
			chain = append(chain, `"`+base64.StdEncoding.EncodeToString(c.Raw)+`"`)
		}
		// a static script cannot sign the request's payload: the value is a well-formed signature of something else
		return []byte(`{"keyId":"key1","signature":"` + base64.StdEncoding.EncodeToString(resign(f.chain.Leaf().Key, []byte("static"))) + `","signingAlgorithm":"ECDSA-SHA-256","certificateChain":[` + strings.Join(chain, ",") + `]}`)
	case "generate-envelope":
		return []byte(`{"signatureEnvelope":"` + base64.StdEncoding.EncodeToString(f.byName["jws/oci/plain"].Env) + `","signatureEnvelopeType":"application/jose+json","annotations":{"a":"b"}}`)
	case "verify-signature":
		return []byte(`{"verificationResults":{"SIGNATURE_VERIFIER.TRUSTED_IDENTITY":{"success":true},"SIGNATURE_VERIFIER.REVOCATION_CHECK":{"success":true,"reason":"fine"}},"processedAttributes":["c12.custom"]}`)
	}
	panic(harnessPanic{"harness: unknown plugin command " + cmd})
}

const honestError = `{"errorCode":"VALIDATION_ERROR","errorMessage":"scripted failure","errorMetadata":{"k":"v"}}`

func hostileJSONBytes(rt *rapid.T, valid []byte) ([]byte, string) {
	tree, err := jparse(valid)
	if err != nil {
		panic(harnessPanic{"harness: honest plugin output does not parse"})
	}
	var rs []string
	for i, n := 0, rapid.IntRange(1, 2).Draw(rt, "edits"); i < n; i++ {
		rs = append(rs, jsonEdit(rt, tree, false))
	}
	b := tree.bytes()
	if len(b) > maxPluginOut {
		return valid, "valid(too-large)"
	}
	return b, "json:" + strings.Join(rs, ";")
}

func drawOut(rt *rapid.T, cmd string, envelopeCap bool) Out {
	valid := honestOutput(cmd, envelopeCap)
	o := Out{}
	switch rp.Pick(rt, "outKind", "mutated", "mutated", "mutated", "mutated", "valid", "arbitrary", "special", "failure", "failure") {
	case "valid":
		o.Stdout, o.Recipe = valid, "valid"
	case "mutated":
		o.Stdout, o.Recipe = hostileJSONBytes(rt, valid)
	case "arbitrary":
		o.Stdout, o.Recipe = rapid.SliceOfN(rapid.Byte(), 0, 400).Draw(rt, "stdout"), "arbitrary"
	case "special":
		s := rp.Pick(rt, "special", "", "null", "[]", "{}", `""`, "1e999999", "true", strings.Repeat("[", 100000), strings.Repeat(`{"a":`, 20000)+"1"+strings.Repeat("}", 20000),
			`{"name":null}`, "\xef\xbb\xbf{}", "{}{}", "{}\n{}", `{"keyId":"key1","keySpec":"EC-256"}garbage`, strings.Repeat(" ", 500000)+"{}", `{"`+strings.Repeat("k", 300000)+`":1}`)
		o.Stdout, o.Recipe = []byte(s), "special"
	case "failure":
		o.Exit = rp.Pick(rt, "exit", 1, 1, 2, 127, 255)
		switch rp.Pick(rt, "stderrKind", "valid", "mutated", "mutated", "arbitrary", "empty", "special") {
		case "valid":
			o.Stderr = []byte(honestError)
		case "mutated":
			o.Stderr, _ = hostileJSONBytes(rt, []byte(honestError))
		case "arbitrary":
			o.Stderr = rapid.SliceOfN(rapid.Byte(), 0, 300).Draw(rt, "stderr")
		case "special":
			o.Stderr = []byte(rp.Pick(rt, "specialErr", "null", "[]", "{}", `{"errorCode":null}`, `{"errorCode":5}`, `{"errorMessage":"only message"}`, `{"errorMetadata":{"k":null}}`, `{"errorCode":"`+strings.Repeat("E", 100000)+`"}`, "panic: runtime error\n\ngoroutine 1 [running]:\n"))
		}
		o.Stdout = rp.Pick(rt, "stdoutOnFailure", nil, valid)
		o.Recipe = "failure"
	}
	if o.Exit == 0 && rapid.IntRange(0, 9).Draw(rt, "stderrNoise") == 0 {
		o.Stderr = []byte("warning: noise on stderr\n")
	}
	return o
}

func drawPluginCase(rt *rapid.T, mode string) *PluginCase {
	c := &PluginCase{Family: 6, Mode: mode, Media: rp.Pick(rt, "media", envb.MTJWS, envb.MTJWS, envb.MTCOSE, "", "application/unknown"),
		Target: rp.Pick(rt, "target", "oci", "oci", "blob", "blob-descgen-error"), Expiry: rp.Pick(rt, "expiry", 0, 0, 3600, -3600), Logging: rapid.Bool().Draw(rt, "logging")}
	if mode == "inproc" {
		c.Answer = Answer{
			Meta:     rp.Pick(rt, "meta", "raw", "raw", "raw", "envelope", "envelope", "envelope", "both", "none", "unknown-cap", "empty", "error"),
			Describe: rp.Pick(rt, "describe", "honest", "honest", "honest", "honest", "honest", "other-id", "empty-id", "error", "EC-384", "RSA-2048", "EC-255", "", "rsa-2048", "RSA-1024", "ED25519", strings.Repeat("K", 5000)),
			GenSig: rp.Pick(rt, "gensig", "honest", "honest", "garbage", "empty", "nil", "huge", "wrong-id", "error", "alg-unknown", "chain:empty", "chain:nil", "chain:garbage", "chain:nil-element", "chain:leaf-only",
				"chain:reversed", "chain:many", "chain:other", "chain:truncated-der"),
			GenEnv: rp.Pick(rt, "genenv", "honest", "honest", "garbage", "nil", "wrong-type", "other-format", "error", "huge-annotations", "payload:spelled", "payload:dup-null", "payload:null", "payload:array",
				"payload:target-null", "payload:target-array", "payload:target-string", "payload:extra-top", "payload:extra-desc", "payload:other-digest", "payload:not-json", "payload:empty"),
		}
		return c
	}
	c.Outputs = map[string]Out{}
	envelopeCap := rapid.Bool().Draw(rt, "envelopeCapability")
	for _, cmd := range pluginCommands {
		switch {
		case mode == "cli":
			c.Outputs[cmd] = drawOut(rt, cmd, envelopeCap)
		case cmd == "get-plugin-metadata" || (cmd == "describe-key" && rapid.IntRange(0, 2).Draw(rt, "honestDescribe") != 0):
			// the flows need a usable plugin to get to the interesting answers
			c.Outputs[cmd] = Out{Stdout: honestOutput(cmd, envelopeCap), Recipe: "valid"}
		case rapid.IntRange(0, 2).Draw(rt, "degenerateReply") == 0:
			// exit 0 with a degenerate but well-formed JSON value: the flow gets past the process and
			// decoding layers and has to cope with an empty / null answer
			s := rp.Pick(rt, "degenerate", "null", "null", "{}", "[]", `""`, "0", "true", " null\n", `{"verificationResults":null}`,
				`{"verificationResults":{"SIGNATURE_VERIFIER.TRUSTED_IDENTITY":null,"SIGNATURE_VERIFIER.REVOCATION_CHECK":null}}`,
				`{"verificationResults":{},"processedAttributes":null}`, `{"keyId":null,"keySpec":null}`, `{"signature":null,"certificateChain":null}`,
				`{"signatureEnvelope":null,"signatureEnvelopeType":null}`, `{"certificateChain":[null]}`)
			c.Outputs[cmd] = Out{Stdout: []byte(s), Recipe: "degenerate"}
		default:
			c.Outputs[cmd] = drawOut(rt, cmd, envelopeCap)
		}
	}
	return c
}

// ---------- the shell-script plugin ----------

var cmdFile = map[string]string{"get-plugin-metadata": "meta", "describe-key": "describe", "generate-signature": "gensig", "generate-envelope": "genenv", "verify-signature": "verify"}

// installScript writes <root>/<name>/notation-<name>, a script printing the case's outputs.
func installScript(root string, c *PluginCase) string {
	pdir := filepath.Join(root, pluginName)
	if err := os.MkdirAll(pdir, 0o755); err != nil {
		panic(harnessPanic{"harness: " + err.Error()})
	}
	var sh strings.Builder
	sh.WriteString("#!/bin/sh\nd='" + pdir + "'\ncase \"$1\" in\n")
	for _, cmd := range pluginCommands {
		n := cmdFile[cmd]
		o := c.Outputs[cmd]
		mustWrite(filepath.Join(pdir, n+".out"), o.Stdout)
		mustWrite(filepath.Join(pdir, n+".err"), o.Stderr)
		fmt.Fprintf(&sh, "  %s) n=%s; code=%d;;\n", cmd, n, o.Exit)
	}
	sh.WriteString("  *) exit 64;;\nesac\ncat \"$d/$n.out\"\ncat \"$d/$n.err\" >&2\nexit $code\n")
	exe := filepath.Join(pdir, "notation-"+pluginName)
	if err := os.WriteFile(exe, []byte(sh.String()), 0o755); err != nil {
		panic(harnessPanic{"harness: " + err.Error()})
	}
	return exe
}

// ---------- the scripted in-process plugin ----------

type scriptedSigner struct {
	c *PluginCase
}

func (s *scriptedSigner) GetMetadata(ctx context.Context, req *pf.GetMetadataRequest) (*pf.GetMetadataResponse, error) {
	m := &pf.GetMetadataResponse{Name: "c12-inproc", Description: "scripted", Version: "1.0.0", URL: "https://example.invalid", SupportedContractVersions: []string{"1.0"}}
	switch s.c.Answer.Meta {
	case "raw":
		m.Capabilities = []pf.Capability{pf.CapabilitySignatureGenerator}
	case "envelope":
		m.Capabilities = []pf.Capability{pf.CapabilityEnvelopeGenerator}
	case "both":
		m.Capabilities = []pf.Capability{pf.CapabilityEnvelopeGenerator, pf.CapabilitySignatureGenerator}
	case "none":
	case "unknown-cap":
		m.Capabilities = []pf.Capability{"", "SIGNATURE_GENERATOR.UNKNOWN"}
	case "empty":
		return &pf.GetMetadataResponse{}, nil
	case "error":
		return nil, errors.New("scripted metadata failure")
	}
	return m, nil
}

func (s *scriptedSigner) DescribeKey(ctx context.Context, req *pf.DescribeKeyRequest) (*pf.DescribeKeyResponse, error) {
	r := &pf.DescribeKeyResponse{KeyID: req.KeyID, KeySpec: "EC-256"}
	switch s.c.Answer.Describe {
	case "honest":
	case "other-id":
		r.KeyID = req.KeyID + "x"
	case "empty-id":
		r.KeyID = ""
	case "error":
		return nil, errors.New("scripted describe-key failure")
	default:
		r.KeySpec = pf.KeySpec(s.c.Answer.Describe)
	}
	return r, nil
}

func rawChain(cs []*x509.Certificate) [][]byte {
	var out [][]byte
	for _, c := range cs {
		out = append(out, c.Raw)
	}
	return out
}

func (s *scriptedSigner) GenerateSignature(ctx context.Context, req *pf.GenerateSignatureRequest) (*pf.GenerateSignatureResponse, error) {
	f := fixtures()
	r := &pf.GenerateSignatureResponse{KeyID: req.KeyID, Signature: envb.RawSign(f.chain.Leaf().Key, req.Payload), SigningAlgorithm: "ECDSA-SHA-256", CertificateChain: rawChain(f.chain.X509())}
	a := s.c.Answer.GenSig
	switch {
	case a == "honest":
	case a == "garbage":
		r.Signature = []byte("this is not a signature")
	case a == "empty":
		r.Signature = []byte{}
	case a == "nil":
		r.Signature = nil
	case a == "huge":
		r.Signature = make([]byte, 5<<20)
	case a == "wrong-id":
		r.KeyID = "another key"
	case a == "error":
		return nil, errors.New("scripted generate-signature failure")
	case a == "alg-unknown":
		r.SigningAlgorithm = "ROT13"
	case a == "chain:empty":
		r.CertificateChain = [][]byte{}
	case a == "chain:nil":
		r.CertificateChain = nil
	case a == "chain:garbage":
		r.CertificateChain = [][]byte{[]byte("garbage"), {0x30, 0x82, 0xff, 0xff}}
	case a == "chain:nil-element":
		r.CertificateChain = [][]byte{r.CertificateChain[0], nil}
	case a == "chain:leaf-only":
		r.CertificateChain = r.CertificateChain[:1]
	case a == "chain:reversed":
		c := r.CertificateChain
		r.CertificateChain = [][]byte{c[2], c[1], c[0]}
	case a == "chain:many":
		for i := 0; i < 200; i++ {
			r.CertificateChain = append(r.CertificateChain, r.CertificateChain[1])
		}
	case a == "chain:other":
		r.CertificateChain = rawChain(f.other.X509())
	case a == "chain:truncated-der":
		r.CertificateChain = [][]byte{r.CertificateChain[0][:len(r.CertificateChain[0])/2]}
	default:
		panic(harnessPanic{"harness: unknown generate-signature answer " + a})
	}
	return r, nil
}

func (s *scriptedSigner) GenerateEnvelope(ctx context.Context, req *pf.GenerateEnvelopeRequest) (*pf.GenerateEnvelopeResponse, error) {
	f := fixtures()
	a := s.c.Answer.GenEnv
	payload := req.Payload
	if strings.HasPrefix(a, "payload:") {
		desc := strings.TrimSuffix(strings.TrimPrefix(string(req.Payload), `{"targetArtifact":`), "}")
		switch strings.TrimPrefix(a, "payload:") {
		case "spelled":
			payload = []byte(`{"TargetArtifact":` + desc + `}`)
		case "dup-null":
			payload = []byte(`{"targetArtifact":` + desc + `,"targetArtifact":null}`)
		case "null":
			payload = []byte("null")
		case "array":
			payload = []byte("[]")
		case "target-null":
			payload = []byte(`{"targetArtifact":null}`)
		case "target-array":
			payload = []byte(`{"targetArtifact":[]}`)
		case "target-string":
			payload = []byte(`{"targetArtifact":"x"}`)
		case "extra-top":
			payload = []byte(`{"targetArtifact":` + desc + `,"extra":{"a":[1,null]}}`)
		case "extra-desc":
			payload = []byte(`{"targetArtifact":` + strings.TrimSuffix(desc, "}") + `,"extra":null,"urls":null,"platform":5}}`)
		case "other-digest":
			payload = []byte(strings.Replace(string(req.Payload), "sha256:", "sha256:0", 1))
		case "not-json":
			payload = []byte("\x00\xff not json")
		case "empty":
			payload = []byte{}
		default:
			panic(harnessPanic{"harness: unknown generate-envelope answer " + a})
		}
	}
	format := req.SignatureEnvelopeType
	if a == "other-format" {
		format = otherFormat(format)
	}
	r := &pf.GenerateEnvelopeResponse{SignatureEnvelopeType: req.SignatureEnvelopeType, Annotations: map[string]string{"plugin": "annotation"}}
	if format == envb.MTJWS || format == envb.MTCOSE {
		spec := envb.Spec{Format: format, ContentType: req.PayloadType, Scheme: envb.SchemeX509, SigningTime: time.Now().Add(-time.Second), Chain: f.chain.X509(), Key: f.chain.Leaf().Key, Payload: payload}
		if req.ExpiryDurationInSeconds > 0 && req.ExpiryDurationInSeconds < 1<<40 {
			spec.Expiry = time.Now().Add(time.Duration(req.ExpiryDurationInSeconds) * time.Second)
		}
		r.SignatureEnvelope = envb.Build(spec)
	}
	switch a {
	case "garbage":
		r.SignatureEnvelope = []byte("garbage envelope")
	case "nil":
		r.SignatureEnvelope, r.Annotations = nil, nil
	case "wrong-type":
		r.SignatureEnvelopeType = "application/unknown"
	case "error":
		return nil, errors.New("scripted generate-envelope failure")
	case "huge-annotations":
		r.Annotations = map[string]string{}
		for i := 0; i < 20000; i++ {
			r.Annotations[fmt.Sprint("k", i)] = strings.Repeat("v", 50)
		}
	}
	return r, nil
}

// ---------- running ----------

func signCalls(r *runner, c *PluginCase, ps *signer.PluginSigner, ctx context.Context) (ok bool) {
	f := fixtures()
	opts := notation.SignerSignOptions{SignatureMediaType: c.Media, ExpiryDuration: time.Duration(c.Expiry) * time.Second, PluginConfig: map[string]string{"k": "v"}}
	switch c.Target {
	case "oci":
		desc := f.art
		desc.Annotations = map[string]string{"env": "prod"}
		r.call("PluginSigner.Sign", 0, func() {
			sig, info, err := ps.Sign(ctx, desc, opts)
			touchErr(err)
			ok = err == nil && len(sig) > 0 && info != nil
			_ = ps.PluginAnnotations()
		})
		if c.Mode == "inproc" { // the same answers through the top-level API (the scripted repository refuses the push)
			r.call("notation.SignOCI", 0, func() {
				_, _, err := notation.SignOCI(ctx, ps, &oneSigRepo{desc: desc}, notation.SignOptions{SignerSignOptions: opts, ArtifactReference: reference("digest")})
				touchErr(err)
			})
		}
	default:
		gen := func(alg digest.Algorithm) (ocispec.Descriptor, error) {
			if c.Target == "blob-descgen-error" || !alg.Available() {
				return ocispec.Descriptor{}, errors.New("scripted descriptor failure")
			}
			return ocispec.Descriptor{MediaType: "application/octet-stream", Digest: alg.FromBytes(f.blob), Size: int64(len(f.blob))}, nil
		}
		r.call("PluginSigner.SignBlob", 0, func() {
			sig, info, err := ps.SignBlob(ctx, gen, opts)
			touchErr(err)
			ok = err == nil && len(sig) > 0 && info != nil
		})
		if c.Mode == "inproc" {
			r.call("notation.SignBlob", 0, func() {
				_, _, err := notation.SignBlob(ctx, ps, strings.NewReader(string(f.blob)), notation.SignBlobOptions{SignerSignOptions: opts, ContentMediaType: "application/octet-stream", UserMetadata: map[string]string{"k": "v"}})
				touchErr(err)
			})
		}
	}
	return ok
}

func runPlugin(r *runner, c *PluginCase) (parsed bool) {
	f := fixtures()
	ctx := ctxFor(c.Logging)
	if c.Mode == "inproc" {
		ps, err := signer.NewPluginSigner(&scriptedSigner{c}, "key1", map[string]string{"cfg": "1"})
		if err != nil {
			panic(harnessPanic{"harness: NewPluginSigner: " + err.Error()})
		}
		return signCalls(r, c, ps, ctx)
	}
	root, err := os.MkdirTemp("", "c12-plugin-")
	if err != nil {
		panic(harnessPanic{"harness: " + err.Error()})
	}
	defer os.RemoveAll(root)
	exe := installScript(root, c)
	var p *nplugin.CLIPlugin
	r.call("plugin.NewCLIPlugin", 0, func() {
		pp, err := nplugin.NewCLIPlugin(ctx, pluginName, exe)
		touchErr(err)
		p = pp
	})
	if p == nil {
		panic(harnessPanic{"harness: NewCLIPlugin refused the script"})
	}
	size := func(cmd string) int { return len(c.Outputs[cmd].Stdout) + len(c.Outputs[cmd].Stderr) }
	switch c.Mode {
	case "cli":
		r.call("CLIPlugin.GetMetadata", size("get-plugin-metadata"), func() {
			m, err := p.GetMetadata(ctx, &pf.GetMetadataRequest{PluginConfig: map[string]string{"k": "v"}})
			touchErr(err)
			if err == nil && m != nil {
				parsed = true
				_ = m.HasCapability(pf.CapabilitySignatureGenerator)
			}
		})
		r.call("CLIPlugin.DescribeKey", size("describe-key"), func() {
			resp, err := p.DescribeKey(ctx, &pf.DescribeKeyRequest{KeyID: "key1"})
			touchErr(err)
			parsed = parsed || (err == nil && resp != nil)
		})
		r.call("CLIPlugin.GenerateSignature", size("generate-signature"), func() {
			resp, err := p.GenerateSignature(ctx, &pf.GenerateSignatureRequest{KeyID: "key1", KeySpec: "EC-256", Hash: "SHA-256", Payload: []byte("payload")})
			touchErr(err)
			parsed = parsed || (err == nil && resp != nil)
		})
		r.call("CLIPlugin.GenerateEnvelope", size("generate-envelope"), func() {
			resp, err := p.GenerateEnvelope(ctx, &pf.GenerateEnvelopeRequest{KeyID: "key1", PayloadType: envb.PayloadType, SignatureEnvelopeType: envb.MTJWS, Payload: []byte("{}")})
			touchErr(err)
			parsed = parsed || (err == nil && resp != nil)
		})
		r.call("CLIPlugin.VerifySignature", size("verify-signature"), func() {
			resp, err := p.VerifySignature(ctx, &pf.VerifySignatureRequest{Signature: pf.Signature{CertificateChain: rawChain(f.chain.X509())},
				TrustPolicy: pf.TrustPolicy{TrustedIdentities: []string{"*"}, SignatureVerification: []pf.Capability{pf.CapabilityTrustedIdentityVerifier}}})
			touchErr(err)
			parsed = parsed || (err == nil && resp != nil)
		})
	case "cli-signer":
		ps, err := signer.NewPluginSigner(p, "key1", nil)
		if err != nil {
			panic(harnessPanic{"harness: NewPluginSigner: " + err.Error()})
		}
		parsed = signCalls(r, c, ps, ctx)
	case "cli-verifier":
		ts := mocks.NewTrustStore().Put("ca", "x", f.roots()...)
		opts := kit.Options()
		opts.OCITrustPolicy = kit.OCIDoc(ociStmt, kit.Level{Base: rpLevel(c)}.SV(""), []string{"ca:x"}, []string{"*"})
		opts.PluginManager = nplugin.NewCLIManager(dir.NewSysFS(root))
		v, err := verifier.NewVerifierWithOptions(ts, opts)
		if err != nil {
			panic(harnessPanic{"harness: verifier construction: " + err.Error()})
		}
		for _, name := range []string{"jws/oci/plugin", "cose/oci/crit-unknown", "jws/oci/plugin-minver", "cose/oci/crit-int-label"} {
			b := f.byName[name]
			cc := &Case{Entry: "verifier.Verify", Cfg: Cfg{Docs: "oci"}}
			var res callResult
			if !r.call("verifier.Verify", size("verify-signature")+size("get-plugin-metadata"), func() {
				res.outcome, res.err = v.Verify(ctx, f.art, b.Env, notation.VerifierVerifyOptions{ArtifactReference: reference("digest"), SignatureMediaType: b.Format, PluginConfig: map[string]string{"k": "v"}})
				touchErr(res.err)
			}) {
				oracle(r, cc, &res)
				parsed = parsed || res.err == nil
			}
		}
	default:
		panic(harnessPanic{"harness: unknown plugin mode " + c.Mode})
	}
	return parsed
}

// rpLevel derives the level of the cli-verifier policy from the case (no extra draw).
func rpLevel(c *PluginCase) string {
	return []string{"strict", "audit"}[len(c.Outputs["verify-signature"].Stdout)%2]
}

func runPluginCase(t stats.Failer, rec *stats.Recorder, c *PluginCase, extra ...string) {
	r := &runner{}
	parsed := runPlugin(r, c)
	cl := append([]string{"family=6", "plugin=" + c.Mode, "entry=plugin:" + c.Mode}, extra...)
	if c.Mode == "inproc" {
		cl = append(cl, "inproc:meta="+c.Answer.Meta, "inproc:gensig="+c.Answer.GenSig, "inproc:genenv="+c.Answer.GenEnv, "target="+c.Target)
		if len(c.Answer.Describe) < 20 {
			cl = append(cl, "inproc:describe="+c.Answer.Describe)
		}
	}
	for _, cmd := range pluginCommands {
		if o, ok := c.Outputs[cmd]; ok {
			head := o.Recipe
			if i := strings.Index(head, ":"); i > 0 {
				head = head[:i]
			}
			cl = append(cl, "plugin-output="+head)
		}
	}
	if parsed {
		cl = append(cl, "parsed", "outcome=ok")
	} else {
		cl = append(cl, "outcome=err")
	}
	var parts []any
	parts = append(parts, c.Mode, fmt.Sprintf("%+v", c.Answer), c.Media, c.Target, c.Expiry)
	for _, cmd := range pluginCommands {
		o := c.Outputs[cmd]
		parts = append(parts, o.Stdout, o.Stderr, o.Exit)
	}
	rec.Case(cl, parsed || c.Mode == "inproc", stats.Fingerprint(parts...), func() any {
		s := map[string]any{"mode": c.Mode, "answer": c.Answer, "media": c.Media, "target": c.Target, "parsed": parsed}
		for _, cmd := range pluginCommands {
			if o, ok := c.Outputs[cmd]; ok {
				s[cmd] = fmt.Sprintf("%s exit=%d stdout=%dB stderr=%dB", o.Recipe, o.Exit, len(o.Stdout), len(o.Stderr))
			}
		}
		return s
	})
	r.report(t, rec, c)
}

func replayPlugin(t *testing.T, rec *stats.Recorder) bool {
	var rc PluginCase
	if !rp.ReplayCase(&rc) {
		return false
	}
	if rc.Family == 6 && rc.Mode != "" {
		runPluginCase(t, rec, &rc, "replay")
	}
	return true
}

func TestC12_PluginOutputCLI(t *testing.T) {
	rec := stats.New(t, "C12", rule)
	if replayPlugin(t, rec) {
		return
	}
	rp.Check(t, 480, 8000, property(func(rt *rapid.T) {
		runPluginCase(rt, rec, drawPluginCase(rt, rp.Pick(rt, "mode", "cli", "cli-signer", "cli-signer", "cli-verifier", "cli-verifier")))
	}))
}

func TestC12_PluginAnswers(t *testing.T) {
	rec := stats.New(t, "C12", rule)
	var rc PluginCase
	if rp.ReplayCase(&rc) {
		return // replayed by TestC12_PluginOutputCLI
	}
	rp.Check(t, 3000, 80000, property(func(rt *rapid.T) {
		runPluginCase(rt, rec, drawPluginCase(rt, "inproc"))
	}))
}
