package c12

import (
	"context"
	"os"
	"path/filepath"
	"strconv"
	"strings"
	"syscall"
	"testing"
	"time"

	nplugin "github.com/notaryproject/notation-go/plugin"
	pf "github.com/notaryproject/notation-plugin-framework-go/plugin"

	"verifharness/internal/stats"
)

// TestC12_PluginLeavesDescendant: "every public entry point returns normally ... for arbitrary plugin
// output" - also when the plugin, having printed a complete well-formed answer and exited, leaves a
// descendant behind that keeps the output streams open (a helper it started, a shell's background
// job). The caller uses a context without deadline, as most callers do. The descendant lives 40 s;
// a call that has not returned 12 s after the plugin exited is reported (the library bounds the wait
// for the streams at 2 s), then the descendant is ended so that the call can return.
func TestC12_PluginLeavesDescendant(t *testing.T) {
	rec := stats.New(t, "C12", rule)
	if s, n := stats.Shard(); s != 6%n {
		t.Skip("runs in one shard")
	}
	root, err := os.MkdirTemp("", "c12-desc-")
	if err != nil {
		t.Fatalf("harness: %v", err)
	}
	defer os.RemoveAll(root)
	pdir := filepath.Join(root, "lingering")
	os.MkdirAll(pdir, 0o755)
	exe := filepath.Join(pdir, "notation-lingering")
	pidFile := filepath.Join(root, "pid")
	script := `#!/bin/sh
sleep 40 &
echo $! >> '` + pidFile + `'
case "$1" in
  get-plugin-metadata)
    printf '{"name":"lingering","description":"d","version":"1.0.0","url":"https://example.invalid","supportedContractVersions":["1.0"],"capabilities":["SIGNATURE_GENERATOR.RAW"]}'
    ;;
  describe-key)
    printf '{"errorCode":"ERROR","errorMessage":"no such key"}' >&2
    exit 1
    ;;
esac
`
	if err := os.WriteFile(exe, []byte(script), 0o755); err != nil {
		t.Fatalf("harness: %v", err)
	}
	endDescendants := func() {
		b, _ := os.ReadFile(pidFile)
		for _, f := range strings.Fields(string(b)) {
			if pid, err := strconv.Atoi(f); err == nil && pid > 1 {
				syscall.Kill(pid, syscall.SIGKILL)
			}
		}
	}
	defer endDescendants()
	bg := context.Background()
	p, err := nplugin.NewCLIPlugin(bg, "lingering", exe)
	if err != nil {
		t.Fatalf("harness: %v", err)
	}
	cancelable, cancel := context.WithCancel(bg)
	defer cancel()
	for _, call := range []struct {
		entry string
		fn    func()
	}{
		{"CLIPlugin.GetMetadata", func() { p.GetMetadata(bg, &pf.GetMetadataRequest{}) }},
		{"CLIPlugin.DescribeKey", func() { p.DescribeKey(cancelable, &pf.DescribeKeyRequest{KeyID: "k"}) }},
	} {
		rec.Case([]string{"family=6", "plugin-leaves-descendant-holding-output", "entry=" + call.entry}, true, stats.Fingerprint("lingering", call.entry), func() any { return call.entry + ": script leaving `sleep 40 &` behind" })
		done := make(chan *finding, 1)
		start := time.Now()
		go func() { done <- guard(call.entry, len(script), call.fn) }()
		select {
		case f := <-done:
			if f != nil {
				rec.Failf(t, f.Key+":lingering-descendant", call.entry, "%s", f.Msg)
			}
		case <-time.After(12 * time.Second):
			endDescendants()
			<-done
			rec.Failf(t, "C12:no-return:"+call.entry+":descendant-holds-output", call.entry,
				"the plugin printed its answer and exited at once; %s (context without deadline) was still blocked 12 s later because a descendant of the plugin holds stdout/stderr, and returned after %v, only once the harness had ended the descendant",
				call.entry, time.Since(start).Round(time.Millisecond))
		}
	}
}
