package c12

// A small CBOR model (definite lengths on input, anything on output) with hostile edits.

import (
	"encoding/binary"
	"errors"
	"fmt"
	"strings"

	"pgregory.net/rapid"

	"verifharness/internal/rp"
)

type cv struct {
	k    byte // 'u' uint, 'i' negative int (-1-n), 'b' bstr, 't' text, 'a' array, 'm' map (kids alternate key, value), 'g' tag, '7' simple/float (raw), 'r' verbatim
	n    uint64
	b    []byte
	kids []*cv
}

func cUint(n uint64) *cv       { return &cv{k: 'u', n: n} }
func cNint(n uint64) *cv       { return &cv{k: 'i', n: n} }
func cBytes(b []byte) *cv      { return &cv{k: 'b', b: b} }
func cText(s string) *cv       { return &cv{k: 't', b: []byte(s)} }
func cArr(k ...*cv) *cv        { return &cv{k: 'a', kids: k} }
func cMap(k ...*cv) *cv        { return &cv{k: 'm', kids: k} }
func cTag(n uint64, v *cv) *cv { return &cv{k: 'g', n: n, kids: []*cv{v}} }
func cRaw(b ...byte) *cv       { return &cv{k: 'r', b: b} }

var (
	cNull  = func() *cv { return cRaw(0xf6) }
	cTrue  = func() *cv { return cRaw(0xf5) }
	cUndef = func() *cv { return cRaw(0xf7) }
)

func (v *cv) clone() *cv {
	c := &cv{k: v.k, n: v.n, b: append([]byte(nil), v.b...)}
	for _, k := range v.kids {
		c.kids = append(c.kids, k.clone())
	}
	return c
}

func cHead(major byte, n uint64) []byte {
	m := major << 5
	switch {
	case n < 24:
		return []byte{m | byte(n)}
	case n <= 0xff:
		return []byte{m | 24, byte(n)}
	case n <= 0xffff:
		return binary.BigEndian.AppendUint16([]byte{m | 25}, uint16(n))
	case n <= 0xffffffff:
		return binary.BigEndian.AppendUint32([]byte{m | 26}, uint32(n))
	}
	return binary.BigEndian.AppendUint64([]byte{m | 27}, n)
}

func (v *cv) encode(out []byte) []byte {
	switch v.k {
	case 'u':
		return append(out, cHead(0, v.n)...)
	case 'i':
		return append(out, cHead(1, v.n)...)
	case 'b':
		return append(append(out, cHead(2, uint64(len(v.b)))...), v.b...)
	case 't':
		return append(append(out, cHead(3, uint64(len(v.b)))...), v.b...)
	case 'a':
		out = append(out, cHead(4, uint64(len(v.kids)))...)
	case 'm':
		out = append(out, cHead(5, uint64(len(v.kids)/2))...)
	case 'g':
		out = append(out, cHead(6, v.n)...)
	default:
		return append(out, v.b...)
	}
	for _, k := range v.kids {
		out = k.encode(out)
	}
	return out
}

func (v *cv) bytes() []byte { return v.encode(nil) }

var errCBOR = errors.New("cbor: malformed or unsupported")

func cparse(b []byte) (*cv, error) {
	v, rest, err := cparseOne(b, 0)
	if err != nil {
		return nil, err
	}
	if len(rest) != 0 {
		return nil, errCBOR
	}
	return v, nil
}

func cparseOne(b []byte, depth int) (*cv, []byte, error) {
	if len(b) == 0 || depth > 64 {
		return nil, nil, errCBOR
	}
	major, info := b[0]>>5, b[0]&0x1f
	b = b[1:]
	var n uint64
	switch {
	case info < 24:
		n = uint64(info)
	case info >= 24 && info <= 27:
		w := 1 << (info - 24)
		if len(b) < w {
			return nil, nil, errCBOR
		}
		for i := 0; i < w; i++ {
			n = n<<8 | uint64(b[i])
		}
		if major == 7 {
			raw := append([]byte{7<<5 | info}, b[:w]...)
			return &cv{k: '7', b: raw}, b[w:], nil
		}
		b = b[w:]
	default:
		return nil, nil, errCBOR // indefinite lengths are not produced by the builders
	}
	switch major {
	case 0:
		return cUint(n), b, nil
	case 1:
		return cNint(n), b, nil
	case 2, 3:
		if uint64(len(b)) < n {
			return nil, nil, errCBOR
		}
		k := byte('b')
		if major == 3 {
			k = 't'
		}
		return &cv{k: k, b: append([]byte(nil), b[:n]...)}, b[n:], nil
	case 4, 5:
		cnt := n
		v := &cv{k: 'a'}
		if major == 5 {
			v.k, cnt = 'm', 2*n
		}
		if cnt > uint64(len(b)) {
			return nil, nil, errCBOR
		}
		for i := uint64(0); i < cnt; i++ {
			kid, rest, err := cparseOne(b, depth+1)
			if err != nil {
				return nil, nil, err
			}
			v.kids, b = append(v.kids, kid), rest
		}
		return v, b, nil
	case 6:
		kid, rest, err := cparseOne(b, depth+1)
		if err != nil {
			return nil, nil, err
		}
		return cTag(n, kid), rest, nil
	}
	return &cv{k: '7', b: []byte{7<<5 | info}}, b, nil
}

type cslot struct {
	parent *cv
	idx    int
	path   string
}

func (s cslot) value() *cv { return s.parent.kids[s.idx] }
func (s cslot) put(v *cv)  { s.parent.kids[s.idx] = v }

func cslots(v *cv, path string, out *[]cslot) {
	for i, k := range v.kids {
		p := fmt.Sprintf("%s/%d", path, i)
		*out = append(*out, cslot{v, i, p})
		cslots(k, p, out)
	}
}

var cborEditOps = []string{"null", "undefined", "bool", "uint", "nint", "text", "bstr", "empty-bstr", "array", "map", "map-for-array", "array-for-map",
	"retag", "untag", "wrap-tag", "drop", "dup", "dup-key", "truncate-container", "overdeclare", "huge-length", "deep", "indefinite", "float",
	"bstr-for-text", "text-for-bstr", "long", "break", "reserved-info", "big-int", "time-tag"}

// cborEdit applies one hostile edit below root and returns its description.
func cborEdit(rt *rapid.T, root *cv) string {
	var slots []cslot
	cslots(root, "", &slots)
	if len(slots) == 0 {
		root.k, root.kids, root.b = 'a', nil, nil
		return "empty-root"
	}
	sl := slots[rapid.IntRange(0, len(slots)-1).Draw(rt, "slot")]
	op := rp.Pick(rt, "cborOp", cborEditOps...)
	old := sl.value()
	huge := func(major byte) *cv {
		n := rp.Pick(rt, "declared", uint64(1<<31), uint64(1<<32), uint64(1<<40), uint64(1<<62), ^uint64(0), uint64(100000), uint64(1<<24))
		return cRaw(append([]byte{major<<5 | 27}, binary.BigEndian.AppendUint64(nil, n)...)...)
	}
	switch op {
	case "null":
		sl.put(cNull())
	case "undefined":
		sl.put(cUndef())
	case "bool":
		sl.put(cTrue())
	case "uint":
		sl.put(cUint(rp.Pick(rt, "uint", uint64(0), uint64(1), uint64(33), uint64(1<<63), ^uint64(0), uint64(18))))
	case "nint":
		sl.put(cNint(rp.Pick(rt, "nint", uint64(0), uint64(6), uint64(36), uint64(1<<63), ^uint64(0), uint64(65535))))
	case "text":
		sl.put(cText(rp.Pick(rt, "text", "", "x", "notary.x509", "application/vnd.cncf.notary.payload.v1+json", "io.cncf.notary.verificationPlugin", "\xff\xfe", "1.0.0", " ")))
	case "bstr":
		sl.put(cBytes([]byte(rp.Pick(rt, "bstr", "x", "\xa0", "\x80", "\x30\x00", "\xa1\x01\x26", "0\x82\x01\x0a"))))
	case "empty-bstr":
		sl.put(cBytes(nil))
	case "array":
		sl.put(rp.Pick(rt, "arr", cArr(), cArr(cNull()), cArr(cUint(1), cText("a")), cArr(cArr()), cArr(old.clone(), old.clone())))
	case "map":
		sl.put(rp.Pick(rt, "map", cMap(), cMap(cUint(1), cNull()), cMap(cText("a"), cMap()), cMap(cArr(), cUint(1)), cMap(cNull(), cNull())))
	case "map-for-array":
		if old.k == 'a' {
			m := cMap()
			for i, k := range old.kids {
				m.kids = append(m.kids, cUint(uint64(i)), k)
			}
			sl.put(m)
		} else {
			sl.put(cMap(cUint(0), old))
		}
	case "array-for-map":
		if old.k == 'm' {
			sl.put(cArr(old.kids...))
		} else {
			sl.put(cArr(old))
		}
	case "retag":
		n := rp.Pick(rt, "tag", uint64(0), uint64(1), uint64(2), uint64(3), uint64(17), uint64(16), uint64(98), uint64(24), uint64(55799), uint64(1<<40), uint64(4), uint64(5))
		if old.k == 'g' {
			old.n = n
		} else {
			sl.put(cTag(n, old))
		}
	case "untag":
		if old.k == 'g' && len(old.kids) > 0 { // an earlier edit may have dropped the tagged item
			sl.put(old.kids[0])
		} else {
			sl.put(cTag(18, old))
		}
	case "wrap-tag":
		v := old
		for i, d := 0, rp.Pick(rt, "tags", 1, 3, 40, 2000); i < d; i++ {
			v = cTag(18, v)
		}
		sl.put(v)
	case "drop":
		sl.parent.kids = append(append([]*cv{}, sl.parent.kids[:sl.idx]...), sl.parent.kids[sl.idx+1:]...)
		if sl.parent.k == 'm' && len(sl.parent.kids)%2 == 1 { // keep the map well-formed: drop the partner too
			j := sl.idx - sl.idx%2
			if j < len(sl.parent.kids) {
				sl.parent.kids = append(append([]*cv{}, sl.parent.kids[:j]...), sl.parent.kids[j+1:]...)
			}
		}
	case "dup":
		if sl.parent.k == 'm' {
			j := sl.idx - sl.idx%2
			sl.parent.kids = append(sl.parent.kids, sl.parent.kids[j].clone(), sl.parent.kids[j+1].clone())
		} else if sl.parent.k == 'a' {
			sl.parent.kids = append(sl.parent.kids, old.clone())
		} else {
			sl.put(cArr(old, old.clone()))
		}
	case "dup-key":
		if sl.parent.k == 'm' {
			j := sl.idx - sl.idx%2
			sl.parent.kids = append(sl.parent.kids, sl.parent.kids[j].clone(), rp.Pick(rt, "dupVal", cNull(), cUint(7), cText("x"), cArr(), cMap()))
		} else {
			sl.put(cMap(cUint(1), old, cUint(1), cNull()))
		}
	case "truncate-container":
		// declare the container's length but deliver fewer items (the data simply ends or runs into the next item)
		enc := old.bytes()
		cut := rapid.IntRange(0, len(enc)).Draw(rt, "cut")
		sl.put(cRaw(enc[:cut]...))
	case "overdeclare":
		switch old.k {
		case 'a', 'm':
			major := byte(4)
			cnt := uint64(len(old.kids))
			if old.k == 'm' {
				major, cnt = 5, cnt/2
			}
			body := old.bytes()[len(cHead(major, cnt)):]
			sl.put(cRaw(append(cHead(major, cnt+uint64(rp.Pick(rt, "extra", 1, 2, 1000, 70000))), body...)...))
		case 'b', 't':
			major := byte(2)
			if old.k == 't' {
				major = 3
			}
			sl.put(cRaw(append(cHead(major, uint64(len(old.b)+rp.Pick(rt, "extra", 1, 100, 1<<20))), old.b...)...))
		default:
			sl.put(cRaw(0x82))
		}
	case "huge-length":
		sl.put(huge(rp.Pick(rt, "hugeMajor", byte(2), byte(3), byte(4), byte(5))))
	case "deep":
		d := rp.Pick(rt, "depth", 4, 20, 40, 1000, 100000)
		unit := rp.Pick(rt, "deepUnit", "\x81", "\xa1\x01", "\xd2", "\x9f")
		sl.put(cRaw([]byte(strings.Repeat(unit, d) + "\x00")...))
	case "indefinite":
		switch rapid.IntRange(0, 3).Draw(rt, "indefKind") {
		case 0:
			sl.put(cRaw(append(append([]byte{0x9f}, old.bytes()...), 0xff)...)) // indefinite array
		case 1:
			sl.put(cRaw(append(append([]byte{0x5f}, cBytes([]byte("ab")).bytes()...), 0xff)...)) // chunked bstr
		case 2:
			sl.put(cRaw(0xbf, 0x01, 0x02, 0xff)) // indefinite map
		default:
			sl.put(cRaw(0x9f, 0x01)) // unterminated
		}
	case "float":
		sl.put(rp.Pick(rt, "float", cRaw(0xf9, 0x7e, 0x00), cRaw(0xfb, 0x7f, 0xf0, 0, 0, 0, 0, 0, 0), cRaw(0xfa, 0x47, 0xc3, 0x50, 0x00), cRaw(0xf9, 0x00, 0x00), cRaw(0xfb, 0x43, 0xe0, 0, 0, 0, 0, 0, 0)))
	case "bstr-for-text":
		sl.put(&cv{k: 'b', b: old.b})
	case "text-for-bstr":
		sl.put(&cv{k: 't', b: old.b})
	case "long":
		n := rp.Pick(rt, "longLen", 300, 70000, 1<<20)
		if rapid.Bool().Draw(rt, "longText") {
			sl.put(cText(strings.Repeat("A", n)))
		} else {
			sl.put(cBytes([]byte(strings.Repeat("\x00", n))))
		}
	case "break":
		sl.put(cRaw(0xff))
	case "reserved-info":
		sl.put(rp.Pick(rt, "reserved", cRaw(0x1c), cRaw(0x5e), cRaw(0x9d), cRaw(0xfc), cRaw(0xf8, 0x10), cRaw(0xf8, 0xff)))
	case "big-int":
		sl.put(rp.Pick(rt, "bigInt", cTag(2, cBytes([]byte{1, 0, 0, 0, 0, 0, 0, 0, 0})), cTag(3, cBytes(nil)), cTag(2, cText("x")), cTag(2, cBytes(make([]byte, 4096)))))
	case "time-tag":
		sl.put(rp.Pick(rt, "time", cTag(1, cText("now")), cTag(0, cText("2006-01-02T15:04:05Z")), cTag(0, cUint(5)), cTag(1, cRaw(0xfb, 0x7f, 0xf8, 0, 0, 0, 0, 0, 0)), cTag(1, cNint(^uint64(0))), cTag(1, cUint(^uint64(0))), cTag(1, cTag(1, cUint(1))), cText("2006-01-02T15:04:05Z"), cUint(1)))
	}
	return op + "@" + sl.path
}
