// C10 — registry verification stops at the first good signature, within the limit.
// Oracle: a model written from the statement, over a scripted repository and verifier that
// log every call (DESIGN.md section 5, C10).
package c10

import (
	"context"
	"errors"
	"fmt"
	"reflect"
	"strings"
	"testing"

	"github.com/notaryproject/notation-go"
	"github.com/notaryproject/notation-go/verifier/trustpolicy"
	"github.com/opencontainers/go-digest"
	ocispec "github.com/opencontainers/image-spec/specs-go/v1"
	"pgregory.net/rapid"

	"verifharness/internal/rp"
	"verifharness/internal/stats"
)

const rule = "case = (statuses in {v,i,u}^k, page split, limit N, reference kind, skip flag); non-trivial = >=2 signatures or >=2 pages; distinct by the tuple"

// Case is one C10 scenario (also the replay format).
type Case struct {
	Status string `json:"status"` // one of v (valid) i (invalid) u (unfetchable) per listed signature
	Pages  []int  `json:"pages"`  // page sizes, sum = len(Status); zeros are empty pages
	N      int    `json:"n"`
	Ref    string `json:"ref"`  // tag, digest, tagdigest, mismatch, noref, malformed
	Skip   bool   `json:"skip"` // verifier reports the applicable level as skip
	// Dup marks, per listed entry, 'd' = the repository lists the very same signature descriptor
	// again that it listed for the nearest earlier entry of the same status ('.' or missing = a
	// descriptor of its own): a listed entry is a listed entry, however often the registry repeats it
	Dup string `json:"dup,omitempty"`
	// WrapErr: the repository adds context (%w) to an error its listing callback returned, as a
	// repository is free to do; what the callback meant travels inside
	WrapErr bool `json:"wrapErr,omitempty"`
	// Created: the listed signature descriptors carry org.opencontainers.image.created
	// annotations - "asc" oldest first, "desc" newest first, "mixed" in no order. The listing
	// order is the order the repository lists in, whatever the descriptors say about themselves
	Created string `json:"created,omitempty"`
}

// descIdx is the index of the descriptor the repository lists at position j.
func descIdx(c Case, j int) int {
	if j < len(c.Dup) && c.Dup[j] == 'd' {
		for k := j - 1; k >= 0; k-- {
			if c.Status[k] == c.Status[j] {
				return descIdx(c, k)
			}
		}
	}
	return j
}

type repo struct {
	c      Case
	art    ocispec.Descriptor
	log    []string
	blobs  [][]byte
	descs  []ocispec.Descriptor
	pushed int
}

func sigDesc(i int) ocispec.Descriptor {
	return ocispec.Descriptor{MediaType: ocispec.MediaTypeImageManifest, Digest: digest.FromString(fmt.Sprint("sig", i)), Size: int64(1000 + i)}
}

func (r *repo) Resolve(ctx context.Context, ref string) (ocispec.Descriptor, error) {
	r.log = append(r.log, "resolve:"+ref)
	return r.art, nil
}

func (r *repo) ListSignatures(ctx context.Context, desc ocispec.Descriptor, fn func([]ocispec.Descriptor) error) error {
	r.log = append(r.log, "list:"+desc.Digest.String())
	i := 0
	for _, p := range r.c.Pages {
		page := []ocispec.Descriptor{}
		for k := 0; k < p; k++ {
			d := sigDesc(descIdx(r.c, i))
			if r.c.Created != "" {
				k := descIdx(r.c, i)
				h := map[string]int{"asc": k, "desc": 1000 - k, "mixed": (k*7 + 3) % 11}[r.c.Created]
				d.Annotations = map[string]string{ocispec.AnnotationCreated: fmt.Sprintf("2026-01-%02dT%02d:00:00Z", 1+h/24%28, h%24)}
			}
			page = append(page, d)
			i++
		}
		if err := fn(page); err != nil {
			if r.c.WrapErr {
				return fmt.Errorf("listing referrers of %s: %w", desc.Digest, err)
			}
			return err
		}
	}
	return nil
}

func (r *repo) FetchSignatureBlob(ctx context.Context, d ocispec.Descriptor) ([]byte, ocispec.Descriptor, error) {
	i := int(d.Size) - 1000
	r.log = append(r.log, fmt.Sprint("fetch:", i))
	if i < 0 || i >= len(r.c.Status) || d.Digest != sigDesc(i).Digest {
		return nil, ocispec.Descriptor{}, errors.New("harness: fetch of a descriptor that was never listed")
	}
	if r.c.Status[i] == 'u' {
		return nil, ocispec.Descriptor{}, errors.New("unfetchable")
	}
	mt := "application/jose+json"
	if i%2 == 1 {
		mt = "application/cose"
	}
	return []byte{r.c.Status[i], byte(i)}, ocispec.Descriptor{MediaType: mt, Digest: digest.FromString(fmt.Sprint("blob", i)), Size: 2}, nil
}

func (r *repo) PushSignature(ctx context.Context, mediaType string, blob []byte, subject ocispec.Descriptor, annotations map[string]string) (ocispec.Descriptor, ocispec.Descriptor, error) {
	r.pushed++
	return ocispec.Descriptor{}, ocispec.Descriptor{}, errors.New("harness: push during verification")
}

type ver struct {
	skip     bool
	log      []string
	outcomes map[int]*notation.VerificationOutcome
	bad      []string
	art      ocispec.Descriptor
}

func (v *ver) Verify(ctx context.Context, desc ocispec.Descriptor, sig []byte, opts notation.VerifierVerifyOptions) (*notation.VerificationOutcome, error) {
	i := int(sig[1])
	v.log = append(v.log, fmt.Sprint("verify:", i))
	if !reflect.DeepEqual(desc, v.art) {
		v.bad = append(v.bad, fmt.Sprintf("verifier got descriptor %v, not the resolved one", desc))
	}
	wantMT := "application/jose+json"
	if i%2 == 1 {
		wantMT = "application/cose"
	}
	if opts.SignatureMediaType != wantMT {
		v.bad = append(v.bad, fmt.Sprintf("signature %d verified with media type %q, fetched as %q", i, opts.SignatureMediaType, wantMT))
	}
	o := &notation.VerificationOutcome{RawSignature: sig, VerificationLevel: trustpolicy.LevelStrict}
	v.outcomes[i] = o
	if sig[0] == 'v' {
		return o, nil
	}
	o.Error = errors.New("bad signature")
	return o, o.Error
}

// skipVer additionally implements the skip query notation.Verify makes.
type skipVer struct{ *ver }

func (v skipVer) SkipVerify(ctx context.Context, opts notation.VerifierVerifyOptions) (bool, *trustpolicy.VerificationLevel, error) {
	v.log = append(v.log, "skipverify")
	if v.skip {
		return true, trustpolicy.LevelSkip, nil
	}
	return false, trustpolicy.LevelStrict, nil
}

var artDigest = digest.FromString("artifact")
var otherDigest = digest.FromString("other artifact")

func reference(kind string) string {
	switch kind {
	case "tag":
		return "reg.example/repo:v1"
	case "digest":
		return "reg.example/repo@" + artDigest.String()
	case "tagdigest":
		return "reg.example/repo:v1@" + artDigest.String()
	case "mismatch":
		return "reg.example/repo@" + otherDigest.String()
	case "mismatch-tagdigest":
		return "reg.example/repo:v1@" + otherDigest.String()
	case "mismatch-sha512": // a digest of the artifact's own bytes under another algorithm is still not the resolved digest
		return "reg.example/repo@" + digest.SHA512.FromString("artifact").String()
	case "mismatch-sha384":
		return "reg.example/repo:v1@" + digest.SHA384.FromString("something else").String()
	case "noref":
		return "reg.example/repo"
	case "malformed":
		return "reg.example/Repo:bad tag@@"
	}
	panic(kind)
}

func isMismatch(ref string) bool { return strings.HasPrefix(ref, "mismatch") }

// model: index of the signature that must be reported, or -1 for failure.
func model(c Case) int {
	if c.N <= 0 || isMismatch(c.Ref) || c.Ref == "noref" || c.Ref == "malformed" {
		return -1
	}
	lim := c.N
	if lim > len(c.Status) {
		lim = len(c.Status)
	}
	for i := 0; i < lim; i++ {
		switch c.Status[i] {
		case 'u':
			return -1
		case 'v':
			return i
		}
	}
	return -1
}

func count(log []string, prefix string) int {
	n := 0
	for _, l := range log {
		if strings.HasPrefix(l, prefix) {
			n++
		}
	}
	return n
}

// check runs one case against notation.Verify and returns (finding key, message) or "".
func check(c Case, withSkipper bool) (string, string) {
	art := ocispec.Descriptor{MediaType: "application/vnd.oci.image.manifest.v1+json", Digest: artDigest, Size: 528,
		Annotations: map[string]string{"k": "v"}, ArtifactType: "application/vnd.example.thing", Platform: &ocispec.Platform{Architecture: "arm64", OS: "linux"}}
	r := &repo{c: c, art: art}
	v := &ver{skip: c.Skip, outcomes: map[int]*notation.VerificationOutcome{}, art: art}
	var nv notation.Verifier = v
	if withSkipper || c.Skip {
		nv = skipVer{v}
	}
	d, outs, err := notation.Verify(context.Background(), nv, r, notation.VerifyOptions{ArtifactReference: reference(c.Ref), MaxSignatureAttempts: c.N})
	fetches, verifies := count(r.log, "fetch:"), count(v.log, "verify:")
	if r.pushed > 0 {
		return "C10:push-during-verify", "verification pushed a signature"
	}
	if len(v.bad) > 0 {
		return "C10:verifier-arguments", v.bad[0]
	}
	if c.N <= 0 {
		if err == nil {
			return "C10:nonpositive-limit-accepted", fmt.Sprintf("limit %d did not produce an error", c.N)
		}
		if len(r.log) > 0 || verifies > 0 {
			return "C10:nonpositive-limit-touched-repository", fmt.Sprintf("limit %d but calls %v %v", c.N, r.log, v.log)
		}
		return "", ""
	}
	if c.Skip {
		if len(r.log) > 0 || verifies > 0 {
			return "C10:skip-touched-repository", fmt.Sprintf("level skip but repository calls %v, verifier calls %v", r.log, v.log)
		}
		if err != nil {
			return "C10:skip-error", fmt.Sprintf("level skip returned error %v", err)
		}
		if len(outs) != 1 || outs[0] == nil || outs[0].VerificationLevel == nil || outs[0].VerificationLevel.Name != "skip" || outs[0].Error != nil {
			return "C10:skip-outcome", fmt.Sprintf("level skip returned outcomes %v", outs)
		}
		return "", ""
	}
	// every fetch in listing order, each once, never more than N
	for i, l := range filter(r.log, "fetch:") {
		if l != fmt.Sprint("fetch:", descIdx(c, i)) {
			return "C10:fetch-order", fmt.Sprintf("fetches out of listing order or repeated: %v", r.log)
		}
	}
	for i, l := range filter(v.log, "verify:") {
		if l != fmt.Sprint("verify:", descIdx(c, i)) {
			return "C10:verify-order", fmt.Sprintf("verifications out of listing order or repeated: %v", v.log)
		}
	}
	if fetches > c.N || verifies > c.N {
		return "C10:limit-exceeded", fmt.Sprintf("limit %d but %d fetches, %d verifications", c.N, fetches, verifies)
	}
	if c.Ref == "noref" || c.Ref == "malformed" {
		if err == nil {
			return "C10:bad-reference-accepted", "a reference without tag or digest / malformed reference succeeded"
		}
		if len(r.log) > 0 {
			return "C10:bad-reference-touched-repository", fmt.Sprintf("calls %v", r.log)
		}
		return "", ""
	}
	if isMismatch(c.Ref) {
		if err == nil {
			return "C10:digest-mismatch-accepted", "a digest reference differing from the resolved digest succeeded"
		}
		if count(r.log, "list:") > 0 || fetches > 0 || verifies > 0 {
			return "C10:digest-mismatch-listed", fmt.Sprintf("signatures listed/fetched despite digest mismatch: %v", r.log)
		}
		return "", ""
	}
	want := model(c)
	if (err == nil) != (want >= 0) {
		return "C10:outcome", fmt.Sprintf("model says success index %d, notation.Verify returned err=%v (fetches=%d verifies=%d)", want, err, fetches, verifies)
	}
	if err == nil {
		if !reflect.DeepEqual(d, art) {
			return "C10:returned-descriptor", fmt.Sprintf("returned descriptor %v is not the resolved descriptor", d)
		}
		if len(outs) != 1 || outs[0] != v.outcomes[want] {
			return "C10:returned-outcome", fmt.Sprintf("outcomes %v are not exactly the outcome of signature %d", outs, want)
		}
		if outs[0].Error != nil {
			return "C10:returned-outcome-error", "successful outcome carries an error"
		}
		if fetches != want+1 || verifies != want+1 {
			return "C10:work-after-success", fmt.Sprintf("success at index %d but %d fetches and %d verifications", want, fetches, verifies)
		}
	}
	if want < 0 {
		// the unfetchable signature ends processing: nothing after it is fetched or verified
		for i := 0; i < len(c.Status) && i < c.N; i++ {
			if c.Status[i] == 'u' {
				if fetches > i+1 || verifies > i {
					return "C10:work-after-unfetchable", fmt.Sprintf("signature %d unfetchable but %d fetches, %d verifications", i, fetches, verifies)
				}
				break
			}
		}
	}
	return "", ""
}

func filter(log []string, prefix string) []string {
	var out []string
	for _, l := range log {
		if strings.HasPrefix(l, prefix) {
			out = append(out, l)
		}
	}
	return out
}

func classes(c Case, want int) []string {
	cl := []string{"ref=" + c.Ref}
	if c.Skip {
		cl = append(cl, "skip")
	}
	switch {
	case c.N <= 0:
		cl = append(cl, "limit<=0")
	case want >= 0:
		cl = append(cl, "success")
		if want > 0 {
			cl = append(cl, "success-after-invalid")
		}
	default:
		cl = append(cl, "failure")
		if strings.Contains(c.Status, "v") && !isMismatch(c.Ref) && c.Ref != "noref" && c.Ref != "malformed" && !c.Skip {
			cl = append(cl, "valid-beyond-limit-or-unfetchable")
		}
	}
	if len(c.Pages) >= 2 {
		cl = append(cl, "multi-page")
	}
	if c.Created != "" {
		cl = append(cl, "listed-descriptors-carry-creation-times", "created="+c.Created)
	}
	if c.WrapErr {
		cl = append(cl, "repository-wraps-callback-errors")
	}
	for j := range c.Status {
		if descIdx(c, j) != j {
			cl = append(cl, "listing-repeats-a-descriptor")
			break
		}
	}
	for _, p := range c.Pages {
		if p == 0 {
			cl = append(cl, "empty-page")
			break
		}
	}
	return cl
}

func record(rec *stats.Recorder, c Case) {
	nt := len(c.Status) >= 2 || len(c.Pages) >= 2
	rec.Case(classes(c, model(c)), nt, stats.Fingerprint(c.Status, fmt.Sprint(c.Pages), c.N, c.Ref, c.Skip, c.Dup, c.WrapErr, c.Created), func() any { return c })
}

// compositions returns every split of n signatures into non-empty pages, plus variants with
// empty pages at the start, in the middle and at the end.
func compositions(n int) [][]int {
	if n == 0 {
		return [][]int{{}, {0}, {0, 0}}
	}
	var out [][]int
	var rec func(rem int, cur []int)
	rec = func(rem int, cur []int) {
		if rem == 0 {
			out = append(out, append([]int{}, cur...))
			return
		}
		for k := 1; k <= rem; k++ {
			rec(rem-k, append(cur, k))
		}
	}
	rec(n, nil)
	out = append(out, []int{0, n}, []int{n, 0})
	if n >= 2 {
		out = append(out, []int{1, 0, n - 1}, []int{n - 1, 0, 0, 1})
	}
	return out
}

func TestC10_Enum(t *testing.T) {
	rec := stats.New(t, "C10", rule)
	var rc Case
	if rp.ReplayCase(&rc) {
		if key, msg := check(rc, true); key != "" {
			rec.Failf(t, key, rc, "%s", msg)
		}
		return
	}
	maxK := 5
	if stats.Tier() == "thorough" {
		maxK = 8
	}
	shard, shards := stats.Shard()
	idx := 0
	for k := 0; k <= maxK; k++ {
		total := 1
		for i := 0; i < k; i++ {
			total *= 3
		}
		comps := compositions(k)
		for code := 0; code < total; code++ {
			idx++
			if idx%shards != shard {
				continue
			}
			st := make([]byte, k)
			x := code
			for i := range st {
				st[i] = "viu"[x%3]
				x /= 3
			}
			for _, pages := range comps {
				for n := -1; n <= maxK+1; n++ {
					for _, ref := range []string{"tag", "digest", "tagdigest"} {
						c := Case{Status: string(st), Pages: pages, N: n, Ref: ref}
						record(rec, c)
						if key, msg := check(c, code%2 == 0); key != "" {
							rec.Failf(t, key, c, "%s", msg)
						}
					}
				}
			}
			// references that must fail before listing, and the skip level
			for _, ref := range []string{"mismatch", "mismatch-tagdigest", "mismatch-sha512", "mismatch-sha384", "noref", "malformed"} {
				for _, n := range []int{0, 1, maxK + 1} {
					c := Case{Status: string(st), Pages: comps[0], N: n, Ref: ref}
					record(rec, c)
					if key, msg := check(c, true); key != "" {
						rec.Failf(t, key, c, "%s", msg)
					}
				}
			}
			for _, ref := range []string{"tag", "digest", "mismatch", "noref"} {
				for _, n := range []int{-1, 0, 1, 3} {
					c := Case{Status: string(st), Pages: comps[len(comps)-1], N: n, Ref: ref, Skip: true}
					record(rec, c)
					if key, msg := check(c, true); key != "" {
						rec.Failf(t, key, c, "%s", msg)
					}
				}
			}
		}
	}
	rec.Exhaustive()
	rec.Set("enumerated_max_signatures", maxK)
}

func TestC10_Random(t *testing.T) {
	rec := stats.New(t, "C10", rule)
	rp.Check(t, 40000, 12000000, func(rt *rapid.T) {
		k := rapid.IntRange(0, 12).Draw(rt, "k")
		st := make([]byte, k)
		for i := range st {
			st[i] = rp.Pick(rt, "status", byte('i'), byte('i'), byte('v'), byte('u'))
		}
		var pages []int
		rem := k
		for rem > 0 {
			p := rapid.IntRange(0, rem).Draw(rt, "page")
			pages = append(pages, p)
			rem -= p
		}
		for rapid.IntRange(0, 3).Draw(rt, "trailingEmpty") == 0 {
			pages = append(pages, 0)
		}
		c := Case{Status: string(st), Pages: pages,
			N:    rapid.IntRange(-2, 14).Draw(rt, "n"),
			Ref:  rp.Pick(rt, "ref", "tag", "digest", "tagdigest", "tag", "digest", "mismatch", "mismatch-tagdigest", "mismatch-sha512", "mismatch-sha384", "noref", "malformed"),
			Skip: rapid.IntRange(0, 9).Draw(rt, "skip") == 0}
		c.WrapErr = rapid.IntRange(0, 3).Draw(rt, "wrapErr") == 0
		c.Created = rp.Pick(rt, "created", "", "", "asc", "asc", "mixed", "desc")
		if k >= 2 && rapid.IntRange(0, 3).Draw(rt, "duplicates") == 0 {
			dup := make([]byte, k)
			for i := range dup {
				dup[i] = rp.Pick(rt, "dup", byte('.'), byte('.'), byte('d'))
			}
			c.Dup = string(dup)
		}
		record(rec, c)
		if key, msg := check(c, rapid.Bool().Draw(rt, "skipper")); key != "" {
			rec.Failf(rt, key, c, "%s", msg)
		}
	})
}
