package c10

import (
	"bytes"
	"context"
	"encoding/json"
	"fmt"
	"sync"
	"testing"
	"time"

	"github.com/notaryproject/notation-go"
	"github.com/notaryproject/notation-go/registry"
	"github.com/notaryproject/notation-go/verifier"
	"github.com/opencontainers/go-digest"
	"github.com/opencontainers/image-spec/specs-go"
	ocispec "github.com/opencontainers/image-spec/specs-go/v1"
	"oras.land/oras-go/v2"
	"oras.land/oras-go/v2/content/memory"
	"pgregory.net/rapid"

	"verifharness/internal/envb"
	"verifharness/internal/kit"
	"verifharness/internal/mocks"
	"verifharness/internal/pki"
	"verifharness/internal/rp"
	"verifharness/internal/stats"
)

// The second family: the real verifier and real signatures in an in-memory OCI store. The
// store decides the listing order; a logging wrapper observes it and the model is evaluated
// on the order actually listed.

type logRepo struct {
	registry.Repository
	listed  []digest.Digest
	fetched []digest.Digest
}

func (r *logRepo) ListSignatures(ctx context.Context, d ocispec.Descriptor, fn func([]ocispec.Descriptor) error) error {
	return r.Repository.ListSignatures(ctx, d, func(page []ocispec.Descriptor) error {
		for _, m := range page {
			r.listed = append(r.listed, m.Digest)
		}
		return fn(page)
	})
}

func (r *logRepo) FetchSignatureBlob(ctx context.Context, d ocispec.Descriptor) ([]byte, ocispec.Descriptor, error) {
	r.fetched = append(r.fetched, d.Digest)
	return r.Repository.FetchSignatureBlob(ctx, d)
}

var (
	realOnce         sync.Once
	trusted, foreign *pki.Chain
)

func TestC10_RealVerifier(t *testing.T) {
	rec := stats.New(t, "C10", rule+"; real family: statuses are realised as signatures of a trusted signer (v), of an untrusted signer (i) and a two-layer signature manifest (u)")
	realOnce.Do(func() {
		trusted = pki.NewChain(pki.ChainOpts{Name: "c10 trusted"})
		foreign = pki.NewChain(pki.ChainOpts{Name: "c10 foreign"})
	})
	rp.Check(t, 1600, 300000, func(rt *rapid.T) {
		ctx := context.Background()
		store := memory.New()
		art, err := oras.PackManifest(ctx, store, oras.PackManifestVersion1_1, "application/vnd.verif.c10", oras.PackManifestOptions{
			ManifestAnnotations: map[string]string{ocispec.AnnotationCreated: "2026-01-01T00:00:00Z"}})
		if err != nil {
			rt.Fatalf("harness: %v", err)
		}
		if err := store.Tag(ctx, art, art.Digest.String()); err != nil {
			rt.Fatalf("harness: %v", err)
		}
		art.ArtifactType = ""
		repo := &logRepo{Repository: registry.NewRepository(store)}
		k := rapid.IntRange(0, 6).Draw(rt, "k")
		status := map[digest.Digest]byte{}
		var drawn []byte
		for i := 0; i < k; i++ {
			st := rp.Pick(rt, "status", byte('v'), byte('i'), byte('i'), byte('u'))
			drawn = append(drawn, st)
			ch := trusted
			if st == 'i' {
				ch = foreign
			}
			format := rp.Pick(rt, "format", envb.MTJWS, envb.MTCOSE)
			env := envb.Build(envb.Spec{Format: format, Payload: envb.PayloadFor(art.MediaType, art.Digest.String(), art.Size, nil), ContentType: envb.PayloadType,
				Scheme: envb.SchemeX509, SigningTime: time.Now().Add(-time.Hour - time.Duration(i)*time.Second), Chain: ch.X509(), Key: ch.Leaf().Key, Agent: fmt.Sprint("sig", i)})
			if st != 'u' {
				_, m, err := repo.PushSignature(ctx, format, env, art, map[string]string{"n": fmt.Sprint(i)})
				if err != nil {
					rt.Fatalf("harness: push: %v", err)
				}
				status[m.Digest] = st
				continue
			}
			// unfetchable: a notation-typed referrer with two layers
			blob, err := oras.PushBytes(ctx, store, format, env)
			if err != nil {
				rt.Fatalf("harness: %v", err)
			}
			cfg := ocispec.Descriptor{MediaType: "application/vnd.cncf.notary.signature", Digest: ocispec.DescriptorEmptyJSON.Digest, Size: ocispec.DescriptorEmptyJSON.Size}
			if ok, _ := store.Exists(ctx, cfg); !ok {
				if err := store.Push(ctx, cfg, bytes.NewReader(ocispec.DescriptorEmptyJSON.Data)); err != nil {
					rt.Fatalf("harness: %v", err)
				}
			}
			raw, _ := json.Marshal(ocispec.Manifest{Versioned: specs.Versioned{SchemaVersion: 2}, MediaType: ocispec.MediaTypeImageManifest, Config: cfg,
				Layers: []ocispec.Descriptor{blob, blob}, Subject: &art, Annotations: map[string]string{"n": fmt.Sprint(i)}})
			md := ocispec.Descriptor{MediaType: ocispec.MediaTypeImageManifest, Digest: digest.FromBytes(raw), Size: int64(len(raw))}
			if err := store.Push(ctx, md, bytes.NewReader(raw)); err != nil {
				rt.Fatalf("harness: %v", err)
			}
			status[md.Digest] = 'u'
		}
		n := rapid.IntRange(-1, 8).Draw(rt, "n")
		skip := rapid.IntRange(0, 9).Draw(rt, "skip") == 0
		level := kit.Level{Base: "strict"}
		stores, ids := []string{"ca:x"}, []string{"*"}
		if skip {
			level, stores, ids = kit.Level{Base: "skip"}, nil, nil
		}
		opts := kit.Options()
		opts.OCITrustPolicy = kit.OCIDoc("p", level.SV(""), stores, ids)
		v, err := verifier.NewVerifierWithOptions(mocks.NewTrustStore().Put("ca", "x", trusted.Root().Cert), opts)
		if err != nil {
			rt.Fatalf("harness: %v", err)
		}
		ref := "registry.example/c10/real@" + art.Digest.String()
		d, outs, verr := notation.Verify(ctx, v, repo, notation.VerifyOptions{ArtifactReference: ref, MaxSignatureAttempts: n})
		// the model on the order the store actually listed
		c := Case{Status: "", N: n, Ref: "digest", Skip: skip}
		fail := func(key, format string, args ...any) {
			rec.Failf(rt, key, map[string]any{"drawn": string(drawn), "listed": c.Status, "n": n, "skip": skip}, format, args...)
		}
		cl := []string{"real-verifier", fmt.Sprintf("real-k=%d", k)}
		rec.Case(cl, k >= 2, stats.Fingerprint("real", string(drawn), n, skip), func() any { return map[string]any{"statuses": string(drawn), "n": n, "skip": skip} })
		if n <= 0 {
			if verr == nil || len(repo.listed) > 0 || len(repo.fetched) > 0 {
				fail("C10:real:nonpositive-limit", "limit %d: err=%v listed=%d fetched=%d", n, verr, len(repo.listed), len(repo.fetched))
			}
			return
		}
		if skip {
			if verr != nil || len(repo.listed) > 0 || len(repo.fetched) > 0 {
				fail("C10:real:skip-touched-repository", "skip level: err=%v listed=%d fetched=%d", verr, len(repo.listed), len(repo.fetched))
			}
			return
		}
		for _, dg := range repo.listed {
			c.Status += string(status[dg])
		}
		// all pushed signatures are listed only if processing did not stop early; the model needs the
		// prefix that was listed: evaluate on the listed prefix, which contains every fetched signature
		want := model(c)
		if want < 0 && len(c.Status) < k {
			// listing stopped early although no success: only legitimate after an unfetchable one or the limit
			stopped := false
			for i := 0; i < len(c.Status) && i < n; i++ {
				if c.Status[i] == 'u' {
					stopped = true
				}
			}
			if !stopped && len(c.Status) < n {
				fail("C10:real:listing-abandoned", "listed only %d of %d signatures without success, limit %d", len(c.Status), k, n)
			}
		}
		if (verr == nil) != (want >= 0) {
			fail("C10:real:outcome", "listed order %q, limit %d: model index %d, err=%v", c.Status, n, want, verr)
			return
		}
		for i, dg := range repo.fetched {
			if i >= len(repo.listed) || repo.listed[i] != dg {
				fail("C10:real:fetch-order", "fetched %v, listed %v", repo.fetched, repo.listed)
				return
			}
		}
		if len(repo.fetched) > n {
			fail("C10:real:limit-exceeded", "limit %d but %d fetches", n, len(repo.fetched))
		}
		if verr == nil {
			if d.Digest != art.Digest || len(outs) != 1 || outs[0] == nil || outs[0].Error != nil || len(repo.fetched) != want+1 {
				fail("C10:real:success-detail", "descriptor %v, %d outcomes, %d fetches, model index %d", d.Digest, len(outs), len(repo.fetched), want)
				return
			}
			// exactly that signature's outcome: its raw signature is the envelope of the want-th listed manifest
			if outs[0].EnvelopeContent == nil || outs[0].EnvelopeContent.SignerInfo.UnsignedAttributes.SigningAgent == "" {
				fail("C10:real:outcome-content", "outcome without envelope content")
			}
		}
	})
}
