package c03

import (
	"context"
	"fmt"
	"os"
	"path/filepath"
	"sync"
	"testing"
	"time"

	"github.com/notaryproject/notation-go"
	"github.com/notaryproject/notation-go/dir"
	"github.com/notaryproject/notation-go/verifier"
	"github.com/notaryproject/notation-go/verifier/trustpolicy"
	"github.com/notaryproject/notation-go/verifier/truststore"

	"verifharness/internal/envb"
	"verifharness/internal/kit"
	"verifharness/internal/pki"
	"verifharness/internal/stats"
)

// TestC03_ConcurrentRealStore: which store confers trust does not depend on what other
// verifications the process is running. One verifier over the real directory-backed trust
// store serves eight goroutines that verify signatures of both schemes against four
// statements (right type with the root, right type without it, wrong type with the root);
// every verdict is compared with the sequential model. Runs in one shard.
func TestC03_ConcurrentRealStore(t *testing.T) {
	rec := stats.New(t, "C03", rule)
	shard, shards := stats.Shard()
	if shard != 1%shards {
		t.Skip("runs in one shard")
	}
	setup()
	root, err := os.MkdirTemp("", "c03-conc-")
	if err != nil {
		t.Fatalf("harness: %v", err)
	}
	defer os.RemoveAll(root)
	put := func(typ, name string, certs ...*pki.Cert) {
		d := filepath.Join(root, "truststore", "x509", typ, name)
		os.MkdirAll(d, 0o755)
		for i, c := range certs {
			os.WriteFile(filepath.Join(d, fmt.Sprintf("c%d.pem", i)), pki.PEM(c.Cert), 0o644)
		}
	}
	put("ca", "corp", chain.Root())
	put("signingAuthority", "vendor", chain.Root())
	put("ca", "other", unrelated)
	put("signingAuthority", "other", unrelated)
	stmts := []struct {
		stores []string
		passes map[string]bool
	}{
		{[]string{"ca:corp"}, map[string]bool{"x509": true}},
		{[]string{"signingAuthority:vendor"}, map[string]bool{"sa": true}},
		{[]string{"ca:other", "signingAuthority:vendor"}, map[string]bool{"sa": true}},
		{[]string{"signingAuthority:other", "ca:corp"}, map[string]bool{"x509": true}},
		{[]string{"ca:other", "signingAuthority:other"}, map[string]bool{}},
	}
	doc := &trustpolicy.OCIDocument{Version: "1.0"}
	for k, st := range stmts {
		doc.TrustPolicies = append(doc.TrustPolicies, trustpolicy.OCITrustPolicy{Name: fmt.Sprintf("st%d", k), SignatureVerification: kit.Level{Base: "strict"}.SV(""),
			TrustStores: st.stores, TrustedIdentities: []string{"*"}, RegistryScopes: []string{scopeOf(k)}})
	}
	opts := kit.Options()
	opts.OCITrustPolicy = doc
	v, err := verifier.NewVerifierWithOptions(truststore.NewX509TrustStore(dir.NewSysFS(root)), opts)
	if err != nil {
		t.Fatalf("harness: %v", err)
	}
	desc := kit.Artifact("c03-conc")
	envs := map[string][]byte{}
	for _, scheme := range []string{"x509", "sa"} {
		sc := envb.SchemeX509
		if scheme == "sa" {
			sc = envb.SchemeSA
		}
		envs[scheme] = envb.Build(envb.Spec{Format: envb.MTJWS, Payload: envb.PayloadFor(desc.MediaType, desc.Digest.String(), desc.Size, nil), ContentType: envb.PayloadType,
			Scheme: sc, SigningTime: time.Now().Add(-time.Hour), Chain: chain.X509(), Key: chain.Leaf().Key})
	}
	const workers = 8
	rounds := 1500
	if stats.Tier() == "thorough" {
		rounds = 12000
	}
	type bad struct{ key, msg string }
	var mu sync.Mutex
	var first *bad
	total := 0
	var wg sync.WaitGroup
	for w := 0; w < workers; w++ {
		w := w
		wg.Add(1)
		go func() {
			defer wg.Done()
			for i := 0; i < rounds; i++ {
				k := (w + i) % len(stmts)
				scheme := []string{"x509", "sa"}[(w+i/len(stmts))%2]
				_, verr := v.Verify(context.Background(), desc, envs[scheme], notation.VerifierVerifyOptions{ArtifactReference: scopeOf(k) + "@" + desc.Digest.String(), SignatureMediaType: envb.MTJWS})
				want := stmts[k].passes[scheme]
				mu.Lock()
				total++
				if (verr == nil) != want && first == nil {
					if want {
						first = &bad{"C03:concurrent:spurious-failure", fmt.Sprintf("%s signature under statement st%d %v failed while other verifications were running: %v", scheme, k, stmts[k].stores, verr)}
					} else {
						first = &bad{"C03:concurrent:trust-from-wrong-store", fmt.Sprintf("%s signature under statement st%d %v was accepted while other verifications were running", scheme, k, stmts[k].stores)}
					}
				}
				stop := first != nil
				mu.Unlock()
				if stop {
					return
				}
			}
		}()
	}
	wg.Wait()
	rec.Case([]string{"concurrent-verifications", "real-directory-store"}, true, stats.Fingerprint("c03-concurrent", workers, rounds), func() any {
		return map[string]any{"goroutines": workers, "verifications": total}
	})
	rec.Add("count_concurrent_verifications", int64(total))
	if first != nil {
		rec.Failf(t, first.key, map[string]any{"goroutines": workers, "verifications_before_failure": total}, "%s", first.msg)
	}
}
