// C03 — trust comes only from the stores the applicable policy names, typed by scheme.
// Oracle: set semantics over generated placements + call-log invariant of an instrumented
// trust store. DESIGN.md section 5, C03.
package c03

import (
	"context"
	"crypto/x509"
	"crypto/x509/pkix"
	"encoding/asn1"
	"errors"
	"fmt"
	"os"
	"path/filepath"
	"sort"
	"strings"
	"sync"
	"testing"
	"time"

	"github.com/notaryproject/notation-go"
	"github.com/notaryproject/notation-go/dir"
	"github.com/notaryproject/notation-go/verifier"
	"github.com/notaryproject/notation-go/verifier/trustpolicy"
	"github.com/notaryproject/notation-go/verifier/truststore"
	"pgregory.net/rapid"

	"verifharness/internal/envb"
	"verifharness/internal/kit"
	"verifharness/internal/mocks"

	pf "github.com/notaryproject/notation-plugin-framework-go/plugin"
	"verifharness/internal/pki"
	"verifharness/internal/rp"
	"verifharness/internal/stats"
)

const rule = "case = (placement of root/intermediate/leaf/unrelated certificates or load errors into typed named stores, 1-3 statements with generated store lists, selected statement, scheme, format, level); non-trivial = the chain shares a certificate with a store that must not confer trust, or a listed store of the required type errs; distinct by the tuple"

// Store content: which certificates it holds (r root, i intermediate, l leaf, u unrelated), E = load error, "" = absent.
type Case struct {
	Stores     map[string]string `json:"stores"`     // "type:name" -> content letters
	Statements [][]string        `json:"statements"` // store lists; statement k has scope repoK (last may be wildcard)
	Wildcard   bool              `json:"wildcard"`   // one statement uses the wildcard scope ...
	WildcardAt int               `json:"wildcardAt"` // ... namely this one (any position: before or after the exact-scope statements)
	Select     int               `json:"select"`     // which statement the reference selects
	Scheme     string            `json:"scheme"`
	Format     string            `json:"format"`
	Level      kit.Level         `json:"level"`
	Token      bool              `json:"token"`     // envelope carries a valid RFC 3161 countersignature (x509 only)
	RealStore  bool              `json:"realStore"` // the directory-backed trust store instead of the scripted one
	Warmup     []Step            `json:"warmup"`    // verifications performed on the SAME verifier before the judged one
	// Plugin: the signature names a verification plugin that is installed and answers success:
	// "ti" trusted-identity capability, "rev" revocation capability, "both"; a plugin verdict
	// never replaces the trust-store step
	Plugin string `json:"plugin,omitempty"`
	// CaseTwin: the last statement's scope is the first statement's scope with another
	// letter case in the host part (scopes are compared exactly)
	CaseTwin bool `json:"caseTwin,omitempty"`
	// RotatedFrom (scripted store): while the verifier is created and serves its earlier
	// verifications every store holds this content ("r" the signer's root, "u" an unrelated
	// root); then the stores get the contents of the case. Trust comes from what the listed
	// stores hold when the verification happens
	RotatedFrom string `json:"rotatedFrom,omitempty"`
	// Ctor "legacy-decoy": the verifier is built with the deprecated NewWithOptions(document, ...),
	// and the options value handed along carries ANOTHER document (one wildcard statement listing
	// every store): the applicable statement is a statement of the document the caller passed
	Ctor string `json:"ctor,omitempty"`
}

// Step is an earlier verification on the same verifier instance (its result is not judged;
// it must not influence the judged verification).
type Step struct {
	Scheme string `json:"scheme"`
	Format string `json:"format"`
	Select int    `json:"select"`
}

type loggingStore struct {
	inner truststore.X509TrustStore
	calls []string
}

func (l *loggingStore) GetCertificates(ctx context.Context, t truststore.Type, name string) ([]*x509.Certificate, error) {
	l.calls = append(l.calls, string(t)+":"+name)
	return l.inner.GetCertificates(ctx, t, name)
}

var (
	once      sync.Once
	chain     *pki.Chain
	unrelated *pki.Cert
	tsaRoot   *pki.Cert
	tsa       *pki.TSA
	// re-issued CA certificates: the subject and the key of the chain's root / intermediate, another
	// serial number and validity - other certificates, not "identical to" the ones of the chain
	reRoot, reInter *pki.Cert
)

func rdnsOf(c *x509.Certificate) pkix.RDNSequence {
	var seq pkix.RDNSequence
	if _, err := asn1.Unmarshal(c.RawSubject, &seq); err != nil {
		panic(err)
	}
	return seq
}

func setup() {
	once.Do(func() {
		chain = pki.NewChain(pki.ChainOpts{Intermediates: 1, Name: "c03"})
		unrelated = pki.NewChain(pki.ChainOpts{Name: "c03 unrelated"}).Root()
		now := time.Now()
		tsaRoot = pki.Mint(pki.Spec{Subject: pki.DefaultLeafSubject("c03 tsa root"), NotBefore: now.Add(-48 * time.Hour), NotAfter: now.Add(48 * time.Hour), IsCA: true, PathLen: 0}, nil)
		leaf := pki.Mint(pki.Spec{Subject: pki.DefaultLeafSubject("c03 tsa"), NotBefore: now.Add(-48 * time.Hour), NotAfter: now.Add(48 * time.Hour), CritTSEKU: true}, tsaRoot)
		tsa = &pki.TSA{Leaf: leaf}
		reRoot = pki.Mint(pki.Spec{RawSubject: rdnsOf(chain.Certs[2].Cert), NotBefore: now.Add(-12 * time.Hour), NotAfter: now.Add(36 * time.Hour), IsCA: true, PathLen: 1, CRLSign: true, Key: chain.Certs[2].Key}, nil)
		reInter = pki.Mint(pki.Spec{RawSubject: rdnsOf(chain.Certs[1].Cert), NotBefore: now.Add(-12 * time.Hour), NotAfter: now.Add(36 * time.Hour), IsCA: true, PathLen: 0, CRLSign: true, Key: chain.Certs[1].Key}, chain.Certs[2])
	})
}

func certsFor(content string) []*x509.Certificate {
	var out []*x509.Certificate
	for _, ch := range content {
		switch ch {
		case 'r':
			out = append(out, chain.Certs[2].Cert)
		case 'i':
			out = append(out, chain.Certs[1].Cert)
		case 'l':
			out = append(out, chain.Certs[0].Cert)
		case 'u':
			out = append(out, unrelated.Cert)
		case 't':
			out = append(out, tsaRoot.Cert)
		case 'R':
			out = append(out, reRoot.Cert)
		case 'I':
			out = append(out, reInter.Cert)
		}
	}
	return out
}

func required(scheme string) string {
	if scheme == "sa" {
		return "signingAuthority"
	}
	return "ca"
}

func scopeOf(k int) string { return fmt.Sprintf("registry.example/c03/repo%d", k) }

// scopeIn is statement k's scope in case c.
func scopeIn(c Case, k int) string {
	if c.CaseTwin && k > 0 && k == len(c.Statements)-1 {
		return "Registry.Example/c03/repo0"
	}
	return scopeOf(k)
}

// model: does authenticity pass?
func model(c Case) (pass bool, listedErr bool) {
	req := required(c.Scheme)
	found := false
	for _, ref := range c.Statements[c.Select] {
		typ, _, _ := strings.Cut(ref, ":")
		if typ != req {
			continue
		}
		content, ok := c.Stores[ref]
		if !ok || content == "" || strings.ContainsAny(content, "ESD0") {
			return false, true // a listed store of the required type cannot be loaded
		}
		if c.RealStore && strings.Contains(content, "l") {
			return false, true // the directory store refuses a store holding a CA-issued leaf certificate
		}
		if strings.ContainsAny(content, "ril") {
			found = true
		}
	}
	return found, false
}

func check(c Case) (string, string, bool) {
	setup()
	now := time.Now()
	scheme := envb.SchemeX509
	if c.Scheme == "sa" {
		scheme = envb.SchemeSA
	}
	desc := kit.Artifact("c03")
	spec := envb.Spec{Format: c.Format, Payload: envb.PayloadFor(desc.MediaType, desc.Digest.String(), desc.Size, nil), ContentType: envb.PayloadType,
		Scheme: scheme, SigningTime: now.Add(-time.Hour), Chain: chain.X509(), Key: chain.Leaf().Key}
	if c.Plugin != "" {
		spec.Ext = []envb.Attr{{Key: envb.AttrPlugin, Critical: true, Value: "c03-plugin"}}
	}
	if c.Token && c.Scheme == "x509" {
		spec.Timestamp = func(sig []byte) []byte {
			return tsa.Token(pki.TokenSpec{Message: sig, Hash: 5 /* crypto.SHA256 */, GenTime: now.Add(-time.Hour), Accuracy: 1})
		}
	}
	env := envb.Build(spec)
	var ts truststore.X509TrustStore
	var calls func() []string
	resetCalls := func() {}
	rotate := func() {}
	if c.RealStore {
		root, err := os.MkdirTemp("", "c03-")
		if err != nil {
			return "harness", err.Error(), false
		}
		defer os.RemoveAll(root)
		for ref, content := range c.Stores {
			typ, name, _ := strings.Cut(ref, ":")
			d := filepath.Join(root, "truststore", "x509", typ, name)
			switch {
			case content == "":
				continue // absent store
			case strings.Contains(content, "S"):
				// the named store is a symbolic link to a directory that holds the signer's root (a
				// store of the directory-backed kind must be a real directory: a link is unloadable)
				target := filepath.Join(root, "elsewhere", typ+"-"+name)
				os.MkdirAll(target, 0o755)
				os.WriteFile(filepath.Join(target, "root.pem"), pki.PEM(chain.Root().Cert), 0o644)
				os.MkdirAll(filepath.Dir(d), 0o755)
				os.Symlink(target, d)
			case content == "0":
				os.MkdirAll(d, 0o755) // the store exists and holds nothing: unloadable, like a missing one
			case strings.Contains(content, "D"):
				// an unrelated root in a regular file, the signer's root one level down: a named store
				// is a flat directory of certificate files, one holding a sub-directory is unloadable
				os.MkdirAll(filepath.Join(d, "more"), 0o755)
				os.WriteFile(filepath.Join(d, "a-unrelated.pem"), pki.PEM(unrelated.Cert), 0o644)
				os.WriteFile(filepath.Join(d, "more", "root.pem"), pki.PEM(chain.Root().Cert), 0o644)
			case strings.Contains(content, "E"):
				// a file that is not a certificate, next to good certificate files where the content has
				// other letters; for a store that also holds the signer's root the broken entry has a
				// dot name (an editor's or a version-control tool's leftover is an entry like any other)
				os.MkdirAll(d, 0o755)
				broken := "broken.pem"
				if strings.Contains(content, "r") {
					broken = ".broken.pem"
				}
				os.WriteFile(filepath.Join(d, broken), []byte("this is not a certificate"), 0o644)
				for i, cert := range certsFor(strings.ReplaceAll(content, "E", "")) {
					os.WriteFile(filepath.Join(d, fmt.Sprintf("good%d.pem", i)), pki.PEM(cert), 0o644)
				}
			case strings.Contains(content, "l"):
				// one bundle file: the other certificates first, the CA-issued leaf last
				os.MkdirAll(d, 0o755)
				var bundle []byte
				for _, cert := range certsFor(strings.ReplaceAll(content, "l", "") + "l") {
					bundle = append(bundle, pki.PEM(cert)...)
				}
				os.WriteFile(filepath.Join(d, "bundle.pem"), bundle, 0o644)
			default:
				os.MkdirAll(d, 0o755)
				for i, cert := range certsFor(content) {
					os.WriteFile(filepath.Join(d, fmt.Sprintf("cert%d.pem", i)), pki.PEM(cert), 0o644)
				}
			}
		}
		lts := &loggingStore{inner: truststore.NewX509TrustStore(dir.NewSysFS(root))}
		ts, calls = lts, func() []string { return lts.calls }
		resetCalls = func() { lts.calls = nil }
	} else {
		mts := mocks.NewTrustStore()
		fill := func() {
			for ref, content := range c.Stores {
				typ, name, _ := strings.Cut(ref, ":")
				delete(mts.Certs, ref)
				delete(mts.Errs, ref)
				switch {
				case strings.ContainsAny(content, "ESD"):
					mts.Fail(typ, name, errors.New("scripted load error"))
				case content != "":
					mts.Put(typ, name, certsFor(content)...)
				}
			}
		}
		if c.RotatedFrom != "" {
			for ref := range c.Stores {
				typ, name, _ := strings.Cut(ref, ":")
				mts.Put(typ, name, certsFor(c.RotatedFrom)...)
			}
			rotate = fill
		} else {
			fill()
		}
		ts, calls = mts, func() []string { return mts.Calls }
		resetCalls = func() { mts.Calls = nil }
	}
	doc := &trustpolicy.OCIDocument{Version: "1.0"}
	for k, list := range c.Statements {
		st := trustpolicy.OCITrustPolicy{Name: fmt.Sprintf("st%d", k), SignatureVerification: c.Level.SV(""), TrustStores: list,
			TrustedIdentities: []string{"*"}, RegistryScopes: []string{scopeIn(c, k)}}
		if c.Wildcard && k == c.WildcardAt {
			st.RegistryScopes = []string{"*"}
		}
		doc.TrustPolicies = append(doc.TrustPolicies, st)
	}
	opts := kit.Options()
	opts.OCITrustPolicy = doc
	if c.Plugin != "" {
		caps := map[string][]pf.Capability{"ti": {pf.CapabilityTrustedIdentityVerifier}, "rev": {pf.CapabilityRevocationCheckVerifier},
			"both": {pf.CapabilityRevocationCheckVerifier, pf.CapabilityTrustedIdentityVerifier}}[c.Plugin]
		opts.PluginManager = &mocks.Manager{Plugins: map[string]pf.Plugin{"c03-plugin": &mocks.Plugin{Name: "c03-plugin", Version: "1.0.0", Capabilities: caps}}}
	}
	var v notation.Verifier
	var err error
	if c.Ctor == "legacy-decoy" {
		all := append(append([]string{}, universe...), unlistedStores...)
		opts.OCITrustPolicy = kit.OCIDoc("decoy-document", c.Level.SV(""), all, []string{"*"})
		v, err = verifier.NewWithOptions(doc, ts, opts.PluginManager, opts)
	} else {
		v, err = verifier.NewVerifierWithOptions(ts, opts)
	}
	if err != nil {
		return "harness", "verifier construction: " + err.Error(), false
	}
	refFor := func(sel int) string {
		if c.Wildcard && sel == c.WildcardAt {
			return "registry.example/c03/unlisted@" + desc.Digest.String()
		}
		return scopeIn(c, sel) + "@" + desc.Digest.String()
	}
	for _, w := range c.Warmup {
		ws := spec
		ws.Format, ws.Scheme, ws.Timestamp, ws.Ext = w.Format, envb.SchemeX509, nil, nil
		if w.Scheme == "sa" {
			ws.Scheme = envb.SchemeSA
		}
		v.Verify(context.Background(), desc, envb.Build(ws), notation.VerifierVerifyOptions{ArtifactReference: refFor(w.Select), SignatureMediaType: w.Format})
	}
	if c.RotatedFrom != "" && len(c.Warmup) == 0 {
		v.Verify(context.Background(), desc, env, notation.VerifierVerifyOptions{ArtifactReference: refFor(c.Select), SignatureMediaType: c.Format})
	}
	rotate()
	resetCalls()
	ref := refFor(c.Select)
	out, verr := v.Verify(context.Background(), desc, env, notation.VerifierVerifyOptions{ArtifactReference: ref, SignatureMediaType: c.Format})
	if out == nil {
		return "C03:nil-outcome", fmt.Sprintf("nil outcome, err=%v", verr), false
	}
	var auth *notation.ValidationResult
	for _, r := range out.VerificationResults {
		if r.Type == "integrity" && r.Error != nil {
			return "harness", "integrity failed: " + r.Error.Error(), false
		}
		if r.Type == "authenticity" {
			auth = r
		}
	}
	if auth == nil {
		return "C03:no-authenticity-result", fmt.Sprintf("no authenticity result in the outcome (err=%v)", verr), false
	}
	pass, listedErr := model(c)
	if pass != (auth.Error == nil) {
		if pass {
			return "C03:authenticity:spurious-failure", fmt.Sprintf("model passes authenticity, library reports %v", auth.Error), pass
		}
		if listedErr {
			return "C03:authenticity:listed-store-error-ignored", "a listed store of the required type cannot be loaded, yet authenticity passed", pass
		}
		return "C03:authenticity:trust-from-wrong-store", "authenticity passed although no listed store of the required type holds a certificate of the chain", pass
	}
	// call-log invariant
	listed := map[string]bool{}
	for _, r := range c.Statements[c.Select] {
		listed[r] = true
	}
	for _, call := range calls() {
		typ, _, _ := strings.Cut(call, ":")
		if !listed[call] {
			return "C03:calls:unlisted-store-loaded", fmt.Sprintf("store %q was loaded but the applicable statement lists %v", call, c.Statements[c.Select]), pass
		}
		if typ == "tsa" {
			if c.Scheme != "x509" {
				return "C03:calls:tsa-loaded-for-signing-authority", "a tsa store was loaded for a signing-authority signature", pass
			}
			continue
		}
		if typ != required(c.Scheme) {
			return "C03:calls:wrong-type-loaded", fmt.Sprintf("store %q loaded for scheme %s", call, c.Scheme), pass
		}
	}
	// decision consistency for the enforce action
	if auth.Error != nil && c.Level.Effective()["authenticity"] == "enforce" && verr == nil {
		return "C03:enforced-failure-accepted", "authenticity failed under enforce but verification succeeded", pass
	}
	return "", "", pass
}

func record(rec *stats.Recorder, c Case, pass bool) {
	req := required(c.Scheme)
	listed := map[string]bool{}
	for _, r := range c.Statements[c.Select] {
		listed[r] = true
	}
	cl := []string{map[bool]string{true: "auth=pass", false: "auth=fail"}[pass], "scheme=" + c.Scheme, "format=" + c.Format, fmt.Sprintf("statements=%d", len(c.Statements))}
	nt := false
	for ref, content := range c.Stores {
		typ, _, _ := strings.Cut(ref, ":")
		shares := strings.ContainsAny(content, "ril") && !strings.Contains(content, "E")
		if listed[ref] && typ == req && strings.ContainsAny(content, "RI") && !strings.ContainsAny(content, "ril") {
			cl = append(cl, "listed-store-holds-a-reissued-ca-certificate-only")
			nt = true
		}
		switch {
		case shares && listed[ref] && typ != req:
			cl = append(cl, "decoy-wrong-type")
			nt = true
			if typ == "tsa" {
				cl = append(cl, "decoy-tsa")
			}
		case shares && !listed[ref]:
			inOther := false
			for k, st := range c.Statements {
				if k != c.Select {
					for _, r := range st {
						if r == ref {
							inOther = true
						}
					}
				}
			}
			if inOther {
				cl = append(cl, "decoy-other-statement")
			} else {
				cl = append(cl, "decoy-unlisted")
			}
			nt = true
		}
		if listed[ref] && typ == req && (content == "" || strings.ContainsAny(content, "ES") || (c.RealStore && strings.Contains(content, "l"))) {
			cl = append(cl, "listed-store-error")
			nt = true
		}
	}
	seen := map[string]bool{}
	for _, r := range c.Statements[c.Select] {
		if seen[r] {
			cl = append(cl, "duplicate-store-ref")
		}
		seen[r] = true
	}
	if c.Token {
		cl = append(cl, "with-timestamp-token")
	}
	if c.Wildcard && c.WildcardAt < len(c.Statements)-1 {
		cl = append(cl, "wildcard-statement-before-exact")
	}
	if c.Ctor != "" {
		cl = append(cl, "constructor="+c.Ctor)
	}
	if c.RotatedFrom != "" {
		cl = append(cl, "store-contents-rotated-on-long-lived-verifier")
		if c.RotatedFrom == "r" && !pass {
			cl = append(cl, "trust-withdrawn-by-rotation")
		}
	}
	if c.RealStore {
		cl = append(cl, "real-directory-store")
		for ref, content := range c.Stores {
			if listed[ref] && strings.Contains(content, "S") {
				cl = append(cl, "listed-store-is-symlink")
			}
			if listed[ref] && strings.Contains(content, "l") {
				cl = append(cl, "listed-store-bundle-ends-in-leaf")
			}
			if listed[ref] && strings.Contains(content, "D") {
				cl = append(cl, "listed-store-holds-sub-directory")
			}
			if listed[ref] && content == "0" {
				cl = append(cl, "listed-store-is-an-empty-directory")
			}
		}
	}
	if c.Plugin != "" {
		cl = append(cl, "verification-plugin="+c.Plugin)
		if !pass && c.Level.Effective()["authenticity"] == "log" {
			cl = append(cl, "plugin-runs-after-logged-authenticity-failure")
		}
	}
	if c.CaseTwin && len(c.Statements) > 1 {
		cl = append(cl, "scope-case-twin")
		if c.Select == 0 || c.Select == len(c.Statements)-1 {
			cl = append(cl, "scope-case-twin-selected")
		}
	}
	if len(c.Warmup) > 0 {
		cl = append(cl, "reused-verifier")
		for _, w := range c.Warmup {
			if w.Scheme != c.Scheme && w.Select == c.Select {
				cl = append(cl, "reused-verifier-other-scheme-same-statement")
				break
			}
		}
	}
	var keys []string
	for k, v := range c.Stores {
		keys = append(keys, k+"="+v)
	}
	sort.Strings(keys)
	rec.Case(dedup(cl), nt, stats.Fingerprint(strings.Join(keys, ";"), fmt.Sprint(c.Statements), c.Wildcard, c.WildcardAt, c.Select, c.Scheme, c.Format, c.Level.Key(), c.RealStore, fmt.Sprint(c.Warmup), c.Plugin, c.CaseTwin, c.RotatedFrom, c.Ctor), func() any { return c })
}

func dedup(in []string) []string {
	seen := map[string]bool{}
	var out []string
	for _, s := range in {
		if !seen[s] {
			seen[s] = true
			out = append(out, s)
		}
	}
	return out
}

// "a." is a store name of its own (file-name characters only), not another spelling of "a"
var universe = []string{"ca:a", "ca:b", "signingAuthority:a", "signingAuthority:b", "tsa:a", "tsa:b", "ca:a.", "signingAuthority:a.", "ca:A", "signingAuthority:A"} // "A": a name that differs from another store's name by letter case only
var unlistedStores = []string{"ca:unlisted", "signingAuthority:unlisted", "tsa:unlisted"}

func TestC03_Placements(t *testing.T) {
	rec := stats.New(t, "C03", rule)
	rp.Check(t, 24000, 1200000, func(rt *rapid.T) {
		c := Case{Stores: map[string]string{}, Scheme: rp.Pick(rt, "scheme", "x509", "sa"), Format: rp.Pick(rt, "format", envb.MTJWS, envb.MTCOSE),
			Level: kit.DrawLevel(rt), Token: rapid.IntRange(0, 3).Draw(rt, "token") == 0}
		c.RealStore = rapid.IntRange(0, 5).Draw(rt, "realStore") == 0
		contents := []string{"", "E", "u", "r", "i", "l", "ur", "ru", "il", "uE", "rE", "R", "I", "RI", "uR"}
		if c.RealStore { // the directory store only loads CA / self-signed certificates: a leaf makes a store unloadable
			contents = []string{"", "E", "u", "r", "i", "ur", "ru", "iu", "uE", "rE", "S", "S", "ul", "rl", "il", "uD", "uD", "0", "0", "R", "I", "RI", "uR"}
		}
		for _, ref := range append(append([]string{}, universe...), unlistedStores...) {
			content := rp.Pick(rt, "content:"+ref, contents...)
			if strings.HasPrefix(ref, "tsa:") && content != "" && content != "E" && !strings.Contains(content, "E") {
				content += "t" // tsa stores also hold the TSA root so that a countersignature can verify
			}
			c.Stores[ref] = content
		}
		n := rapid.IntRange(1, 3).Draw(rt, "statements")
		for k := 0; k < n; k++ {
			m := rapid.IntRange(1, 4).Draw(rt, "listLen")
			var list []string
			for j := 0; j < m; j++ {
				list = append(list, rp.Pick(rt, "storeRef", universe...))
			}
			c.Statements = append(c.Statements, list)
		}
		c.Wildcard = rapid.Bool().Draw(rt, "wildcard")
		c.WildcardAt = rapid.IntRange(0, n-1).Draw(rt, "wildcardAt")
		c.Select = rapid.IntRange(0, n-1).Draw(rt, "select")
		c.Plugin = rp.Pick(rt, "plugin", "", "", "", "ti", "ti", "rev", "both")
		if !c.RealStore {
			c.RotatedFrom = rp.Pick(rt, "rotatedFrom", "", "", "", "r", "r", "u")
		}
		c.Ctor = rp.Pick(rt, "ctor", "", "", "", "legacy-decoy")
		if n > 1 && !(c.Wildcard && (c.WildcardAt == 0 || c.WildcardAt == n-1)) {
			c.CaseTwin = rapid.IntRange(0, 2).Draw(rt, "caseTwin") == 0
		}
		for i := 0; i < rp.Pick(rt, "warmups", 0, 0, 1, 2, 3); i++ {
			c.Warmup = append(c.Warmup, Step{Scheme: rp.Pick(rt, "wScheme", "x509", "sa"), Format: rp.Pick(rt, "wFormat", envb.MTJWS, envb.MTCOSE), Select: rapid.IntRange(0, n-1).Draw(rt, "wSelect")})
		}
		key, msg, pass := check(c)
		record(rec, c, pass)
		if key == "harness" {
			rt.Fatalf("harness: %s", msg)
		}
		if key != "" {
			rec.Failf(rt, key, c, "%s", msg)
		}
	})
}
