package c03

import (
	"context"
	"fmt"
	"os"
	"path/filepath"
	"strings"
	"testing"
	"time"

	"github.com/notaryproject/notation-go"
	"github.com/notaryproject/notation-go/dir"
	"github.com/notaryproject/notation-go/verifier"
	"github.com/notaryproject/notation-go/verifier/trustpolicy"
	"github.com/notaryproject/notation-go/verifier/truststore"
	"github.com/opencontainers/go-digest"
	ocispec "github.com/opencontainers/image-spec/specs-go/v1"
	"pgregory.net/rapid"

	"verifharness/internal/envb"
	"verifharness/internal/kit"
	"verifharness/internal/mocks"
	"verifharness/internal/pki"
	"verifharness/internal/rp"
	"verifharness/internal/stats"
)

// NameCase: the signer's root is held ONLY where it must not confer trust - in a tsa store, in
// a store of the type the scheme does not use, and in a directory outside the trust store
// tree - and the applicable statement lists, beside an honest store holding an unrelated root,
// a store of the REQUIRED type whose NAME tries to reach one of those places. A named store is
// a directory directly under its type's directory; whatever the name looks like, the
// certificates of another type's store (or of no store at all) never confer trust.
type NameCase struct {
	Scheme string `json:"scheme"`
	Format string `json:"format"`
	Name   string `json:"name"`
	// Route: "ctor" the document is handed to the constructor; "late" the document is valid at
	// construction and the entry is appended to the statement afterwards (the verifier keeps the
	// caller's document), so only the loader stands in the way; "direct" the directory-backed
	// store is asked directly for (required type, name)
	Route string    `json:"route"`
	Level kit.Level `json:"level"`
}

func hostileNames(other string) []string {
	return []string{
		"../tsa/troots", "../" + other + "/sroots", "acme/../../tsa/troots", "./../tsa/troots", "../tsa/troots/", "../tsa/troots/.",
		"../../../elsewhere/roots", "..\\tsa\\troots", "..//tsa//troots", "../TSA/troots", "acme/../../" + other + "/sroots", "/../tsa/troots",
		"../ca/../tsa/troots", "%2e%2e/tsa/troots", "..%2ftsa%2ftroots", "acme/", "acme/.", "nested/roots",
		// names made of file-name characters only: the type's directory itself and its parent
		".", "..", "...",
	}
}

func checkName(c NameCase) (string, string) {
	setup()
	req := required(c.Scheme)
	other := "signingAuthority"
	if req == other {
		other = "ca"
	}
	root, err := os.MkdirTemp("", "c03-names-")
	if err != nil {
		return "harness", err.Error()
	}
	defer os.RemoveAll(root)
	put := func(d string, cert *pki.Cert) {
		d = filepath.Join(root, d)
		os.MkdirAll(d, 0o755)
		os.WriteFile(filepath.Join(d, "cert.pem"), pki.PEM(cert.Cert), 0o644)
	}
	put("truststore/x509/ca/acme", unrelated)
	put("truststore/x509/signingAuthority/acme", unrelated)
	put("truststore/x509/tsa/troots", chain.Root())
	put("truststore/x509/"+other+"/sroots", chain.Root())
	put("truststore/x509/"+req+"/nested/roots", chain.Root()) // not a named store: one level too deep
	put("elsewhere/roots", chain.Root())
	real := truststore.NewX509TrustStore(dir.NewSysFS(root))
	if c.Route == "direct" {
		certs, err := real.GetCertificates(context.Background(), truststore.Type(req), c.Name)
		if err == nil {
			for _, got := range certs {
				if got.Equal(chain.Root().Cert) {
					return "C03:names:store-name-reaches-another-store", fmt.Sprintf("GetCertificates(%s, %q) returned the certificate that is held only in tsa/troots, %s/sroots, a nested directory and outside the tree", req, c.Name, other)
				}
			}
		}
		return "", ""
	}
	lts := &loggingStore{inner: real}
	scheme := envb.SchemeX509
	if c.Scheme == "sa" {
		scheme = envb.SchemeSA
	}
	desc := kit.Artifact("c03-names")
	env := envb.Build(envb.Spec{Format: c.Format, Payload: envb.PayloadFor(desc.MediaType, desc.Digest.String(), desc.Size, nil), ContentType: envb.PayloadType,
		Scheme: scheme, SigningTime: time.Now().Add(-time.Hour), Chain: chain.X509(), Key: chain.Leaf().Key})
	hostile := req + ":" + c.Name
	doc := kit.OCIDoc("names", c.Level.SV(""), []string{req + ":acme"}, []string{"*"})
	if c.Route == "ctor" {
		doc.TrustPolicies[0].TrustStores = append(doc.TrustPolicies[0].TrustStores, hostile)
	}
	opts := kit.Options()
	opts.OCITrustPolicy = doc
	v, err := verifier.NewVerifierWithOptions(lts, opts)
	if err != nil {
		if c.Route == "late" {
			return "harness", "verifier construction with an ordinary document: " + err.Error()
		}
		return "", "" // the document is refused: nothing confers trust
	}
	if c.Route == "late" {
		doc.TrustPolicies[0].TrustStores = append(doc.TrustPolicies[0].TrustStores, hostile)
	}
	out, verr := v.Verify(context.Background(), desc, env, notation.VerifierVerifyOptions{ArtifactReference: kit.Reference(desc), SignatureMediaType: c.Format})
	if out != nil {
		for _, r := range out.VerificationResults {
			if r.Type == "integrity" && r.Error != nil {
				return "harness", "integrity failed: " + r.Error.Error()
			}
			if r.Type == "authenticity" && r.Error == nil {
				return "C03:names:trust-from-store-reached-by-name", fmt.Sprintf("authenticity passed: the signer's root is held only in tsa/troots, %s/sroots, %s/nested/roots and outside the tree, the statement lists %s:acme and %q (route %s)", other, req, req, hostile, c.Route)
			}
		}
	}
	if verr == nil && c.Level.Effective()["authenticity"] == "enforce" {
		return "C03:names:accepted", fmt.Sprintf("verification succeeded although no listed %s store holds a certificate of the chain (listed: %s:acme, %q; route %s)", req, req, hostile, c.Route)
	}
	return "", ""
}

func TestC03_StoreNames(t *testing.T) {
	rec := stats.New(t, "C03", rule)
	var rc NameCase
	if rp.ReplayCase(&rc) {
		if key, msg := checkName(rc); key != "" {
			rec.Failf(t, key, rc, "%s", msg)
		}
		return
	}
	rp.Check(t, 300, 20000, func(rt *rapid.T) {
		c := NameCase{Scheme: rp.Pick(rt, "scheme", "x509", "sa"), Format: rp.Pick(rt, "format", envb.MTJWS, envb.MTCOSE),
			Route: rp.Pick(rt, "route", "ctor", "late", "late", "direct"), Level: kit.DrawLevel(rt)}
		other := "signingAuthority"
		if c.Scheme == "sa" {
			other = "ca"
		}
		c.Name = rp.Pick(rt, "name", hostileNames(other)...)
		key, msg := checkName(c)
		if key == "harness" {
			rt.Fatalf("harness: %s", msg)
		}
		cl := []string{"store-name-reaching-elsewhere", "name-route=" + c.Route, "scheme=" + c.Scheme}
		if strings.Contains(c.Name, "tsa") {
			cl = append(cl, "name-reaches-tsa-store")
		}
		rec.Case(cl, true, stats.Fingerprint("c03-name", c.Scheme, c.Format, c.Name, c.Route, c.Level.Key()), func() any { return c })
		if key != "" {
			rec.Failf(rt, key, c, "%s", msg)
		}
	})
}

// BlobCase: the blob policy has a statement "vendor" (lists a store holding an unrelated
// root), a statement "partner" (lists nothing useful) and a global statement "release" (lists
// the store holding the signer's root). The statement that applies to a blob is the one the
// caller names, the global one when no name is given - and NONE when the name matches no
// statement: then no store may confer trust, in particular not the stores that only the
// global statement lists.
type BlobCase struct {
	Scheme    string    `json:"scheme"`
	Format    string    `json:"format"`
	Name      string    `json:"name"`
	GlobalAt  int       `json:"globalAt"` // position of the global statement in the document
	NoGlobal  bool      `json:"noGlobal"` // the document has no global statement at all
	Level     kit.Level `json:"level"`
	RootStore string    `json:"rootStore"` // which statement's store holds the signer's root: "release" or "vendor"
}

func checkBlob(c BlobCase) (string, string, []string) {
	setup()
	req := required(c.Scheme)
	mts := mocks.NewTrustStore()
	for _, n := range []string{"vendor", "release", "partner"} {
		if n == c.RootStore {
			mts.Put(req, n+"-roots", unrelated.Cert, chain.Root().Cert)
		} else {
			mts.Put(req, n+"-roots", unrelated.Cert)
		}
	}
	sts := []trustpolicy.BlobTrustPolicy{
		{Name: "vendor", SignatureVerification: c.Level.SV(""), TrustStores: []string{req + ":vendor-roots"}, TrustedIdentities: []string{"*"}},
		{Name: "partner", SignatureVerification: c.Level.SV(""), TrustStores: []string{req + ":partner-roots"}, TrustedIdentities: []string{"*"}},
	}
	if !c.NoGlobal {
		g := trustpolicy.BlobTrustPolicy{Name: "release", SignatureVerification: c.Level.SV(""), TrustStores: []string{req + ":release-roots"}, TrustedIdentities: []string{"*"}, GlobalPolicy: true}
		at := c.GlobalAt % (len(sts) + 1)
		sts = append(sts[:at], append([]trustpolicy.BlobTrustPolicy{g}, sts[at:]...)...)
	}
	opts := kit.Options()
	opts.BlobTrustPolicy = &trustpolicy.BlobDocument{Version: "1.0", TrustPolicies: sts}
	v, err := verifier.NewVerifierWithOptions(mts, opts)
	if err != nil {
		return "harness", "verifier construction: " + err.Error(), nil
	}
	scheme := envb.SchemeX509
	if c.Scheme == "sa" {
		scheme = envb.SchemeSA
	}
	desc := kit.Artifact("c03-blob")
	env := envb.Build(envb.Spec{Format: c.Format, Payload: envb.PayloadFor(desc.MediaType, desc.Digest.String(), desc.Size, nil), ContentType: envb.PayloadType,
		Scheme: scheme, SigningTime: time.Now().Add(-time.Hour), Chain: chain.X509(), Key: chain.Leaf().Key})
	out, verr := v.VerifyBlob(context.Background(), func(digest.Algorithm) (ocispec.Descriptor, error) { return desc, nil }, env,
		notation.BlobVerifierVerifyOptions{SignatureMediaType: c.Format, TrustPolicyName: c.Name})
	// which statement applies
	applicable := ""
	switch {
	case c.Name == "" && !c.NoGlobal:
		applicable = "release"
	case c.Name == "vendor" || c.Name == "partner" || (c.Name == "release" && !c.NoGlobal):
		applicable = c.Name
	}
	cl := []string{"blob-statement-selection"}
	if applicable == "" {
		cl = append(cl, "blob-no-applicable-statement")
		if !c.NoGlobal && c.Name != "" {
			cl = append(cl, "blob-unknown-name-with-global-statement-present")
		}
	} else {
		cl = append(cl, "blob-applicable="+applicable)
	}
	authPassed := false
	if out != nil {
		for _, r := range out.VerificationResults {
			if r.Type == "integrity" && r.Error != nil {
				return "harness", "integrity failed: " + r.Error.Error(), cl
			}
			if r.Type == "authenticity" && r.Error == nil {
				authPassed = true
			}
		}
	}
	want := applicable == c.RootStore
	switch {
	case applicable == "" && (authPassed || verr == nil):
		return "C03:blob:trust-without-applicable-statement", fmt.Sprintf("blob verified with statement name %q, which no statement carries: authenticity passed=%v err=%v (the signer's root is in the store listed by %q only)", c.Name, authPassed, verr, c.RootStore), cl
	case applicable != "" && authPassed && !want:
		return "C03:blob:trust-from-other-statement", fmt.Sprintf("statement %q applies and lists no store holding a certificate of the chain (the root is in the store of %q), yet authenticity passed", applicable, c.RootStore), cl
	case applicable != "" && !authPassed && want:
		return "C03:blob:spurious-failure", fmt.Sprintf("statement %q applies and lists the store holding the root, yet authenticity did not pass: %v", applicable, verr), cl
	}
	for _, call := range mts.Calls {
		if applicable != "" && call != req+":"+applicable+"-roots" {
			return "C03:blob:calls:unlisted-store-loaded", fmt.Sprintf("store %q was loaded but the applicable statement %q lists only its own store", call, applicable), cl
		}
	}
	return "", "", cl
}

func TestC03_BlobStatementSelection(t *testing.T) {
	rec := stats.New(t, "C03", rule)
	var rc BlobCase
	if rp.ReplayCase(&rc) {
		if key, msg, _ := checkBlob(rc); key != "" {
			rec.Failf(t, key, rc, "%s", msg)
		}
		return
	}
	rp.Check(t, 300, 20000, func(rt *rapid.T) {
		c := BlobCase{Scheme: rp.Pick(rt, "scheme", "x509", "sa"), Format: rp.Pick(rt, "format", envb.MTJWS, envb.MTCOSE),
			Name:     rp.Pick(rt, "name", "", "vendor", "partner", "release", "vendors", "Vendor", "vendor ", " vendor", "vendo", "RELEASE", "release\n", "*", "global", "  ", "vendor,release", "partner/../release"),
			GlobalAt: rapid.IntRange(0, 2).Draw(rt, "globalAt"), NoGlobal: rapid.IntRange(0, 5).Draw(rt, "noGlobal") == 0, Level: kit.DrawLevel(rt),
			RootStore: rp.Pick(rt, "rootStore", "release", "release", "vendor")}
		key, msg, cl := checkBlob(c)
		if key == "harness" {
			rt.Fatalf("harness: %s", msg)
		}
		rec.Case(cl, true, stats.Fingerprint("c03-blob", c.Scheme, c.Format, c.Name, c.GlobalAt, c.NoGlobal, c.Level.Key(), c.RootStore), func() any { return c })
		if key != "" {
			rec.Failf(rt, key, c, "%s", msg)
		}
	})
}
