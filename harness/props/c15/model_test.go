// C15 — the CRL cache returns only fresh, byte-faithful bundles for the exact URL.
//
// This file holds everything that is independent of the code under test: the URL universe,
// the CRL/bundle generator, the harness's own entry encoder and decoders, the corruption
// operators, the sandbox snapshot and the oracle that judges one Get result against one
// model state (DESIGN.md section 5, C15).
package c15

import (
	"bytes"
	"crypto/sha256"
	"crypto/x509"
	"crypto/x509/pkix"
	"encoding/asn1"
	"encoding/base64"
	"encoding/hex"
	"encoding/json"
	"encoding/pem"
	"errors"
	"fmt"
	"io/fs"
	"math/big"
	"os"
	"path/filepath"
	"regexp"
	"sort"
	"strings"
	"sync"
	"time"

	corecrl "github.com/notaryproject/notation-core-go/revocation/crl"
	"pgregory.net/rapid"

	"verifharness/internal/pki"
	"verifharness/internal/rp"
)

// ---------------------------------------------------------------------------------------
// file names

var hexRe = regexp.MustCompile(`^[0-9a-f]{64}$`)

// hexName is the harness's own computation of the entry file name of a URL.
func hexName(u string) string {
	h := sha256.Sum256([]byte(u))
	return hex.EncodeToString(h[:])
}

func short(u string) string {
	if len(u) <= 90 {
		return u
	}
	return fmt.Sprintf("%s...(len=%d sha256=%s)", u[:60], len(u), hexName(u)[:12])
}

// ---------------------------------------------------------------------------------------
// URL universe

// dirs of one case. The cache root is nested three levels below the snapshotted sandbox so that
// every traversal string of the universe (at most three ".." beyond the root), if it were
// joined unvalidated, still lands inside the sandbox, where the snapshot sees it.
type env struct {
	sandbox string // snapshotted, removed at the end of the case
	root    string // <sandbox>/r1/r2/cache
}

type baseURL struct {
	kind string // class label url=<kind>
	fam  string // confusable family
	s    string
	dyn  func(e env) string // strings that depend on the per-case directories
}

const plainURL = "http://example.com/ca.crl"

var long10k = strings.Repeat("a", 10240)

var universe = func() []baseURL {
	var u []baseURL
	add := func(kind, fam string, ss ...string) {
		for _, s := range ss {
			u = append(u, baseURL{kind: kind, fam: fam, s: s})
		}
	}
	add("plain", "near", plainURL)
	add("case", "near", "http://EXAMPLE.com/ca.crl", "HTTP://example.com/ca.crl", "http://example.com/CA.crl", "http://example.com/ca.CRL", "Http://Example.Com/Ca.Crl")
	add("slash", "near", "http://example.com/ca.crl/", "http://example.com//ca.crl", "http://example.com/./ca.crl",
		"http://example.com/ca.crl?", "http://example.com/ca.crl#", "http://example.com:80/ca.crl", "https://example.com/ca.crl",
		"http://example.com/ca.crl ", " http://example.com/ca.crl", "http://example.com/ca.crl\x00", "http://example.com/ca.crl\n",
		"http://example.com/x/../ca.crl")
	add("pct", "near", "http://example.com/a/b.crl", "http://example.com/a%2Fb.crl", "http://example.com/a%2fb.crl",
		"http://example.com/a%252Fb.crl", "http://example.com/ca%2Ecrl", "http://example.com/ca%2ecrl", "http%3A%2F%2Fexample.com%2Fca.crl",
		"http:%2F%2Fexample.com%2Fca.crl", "http://example.com/ca.crl%00", "http://example.com/ca.crl%20")
	add("unicode", "near",
		"http://ex\u0430mple.com/ca.crl",    // Cyrillic a
		"http://example.com/c\u0430.crl",    // Cyrillic a in the path
		"http://example\uff0ecom/ca.crl",    // fullwidth full stop
		"http://example.com/ca\uff0fcrl",    // fullwidth solidus
		"http://example.com/a\u2215b.crl",   // division slash (cf. a/b.crl)
		"http://example.com/a\u2044b.crl",   // fraction slash
		"http://example.com/caf\u00e9.crl",  // NFC
		"http://example.com/cafe\u0301.crl", // NFD
		"http://example.com/ca.crl\u200b",   // zero width space
		"http://example.com/ca.crl\ufffd",   // replacement character
		"http://example.com/ca.crl\xff",     // invalid UTF-8 (becomes U+FFFD if sanitised)
		"http://example.com/ca.crl\xfe",     // another invalid byte
		"http://\u212aexample.com/ca.crl",   // Kelvin sign (folds to k)
		"http://Kexample.com/ca.crl", "http://kexample.com/ca.crl",
		"http://example.com/\u0441a.crl", // Cyrillic es
		"http://ex\u0430mple.com/c\u0430.crl")
	// path traversal: never more than three ".." beyond the root, never an absolute path that a
	// plain join would take outside the sandbox
	add("traversal", "trav", "../../x", "../x", "../../../x", "..", ".", "/", "../sentinel.txt", "../../sentinel.txt", "../../../sentinel.txt",
		"../sentinel-dir", "/etc/passwd", "..\\..\\x", "a/../../b", "cache/../../x", "./../x", "%2e%2e/%2e%2e/x", "..%2F..%2Fx", "..%2fx",
		"file:///etc/passwd", "http://example.com/../../../../x",
		// URLs whose HOST (or user / port part) is a dot name: net/url parses them happily
		"http://../ca.crl", "http://..:80/x", "http://../../x", "http://./ca.crl", "http://../sentinel.txt", "http://user@../x", "//../x", "http://..%2f..%2fx/ca.crl", "sub/dir/file", "sub", "notation-1234567890", "x", "../cache/x", "../../r2/cache/x")
	u = append(u,
		baseURL{kind: "abs-path", fam: "trav", dyn: func(e env) string { return filepath.Join(e.sandbox, "sentinel.txt") }},
		baseURL{kind: "abs-path", fam: "trav", dyn: func(e env) string { return filepath.Join(e.sandbox, "r1", "x") }},
		baseURL{kind: "abs-path", fam: "trav", dyn: func(e env) string { return e.root }},
		baseURL{kind: "abs-path", fam: "trav", dyn: func(e env) string { return e.root + "/../sentinel.txt" }},
		baseURL{kind: "abs-path", fam: "trav", dyn: func(e env) string { return "file://" + filepath.Join(e.sandbox, "sentinel.txt") }},
		// the entry file of the plain URL addressed by path
		baseURL{kind: "abs-path", fam: "trav", dyn: func(e env) string { return filepath.Join(e.root, hexName(plainURL)) }},
	)
	add("empty", "empty", "")
	add("long", "long", long10k, long10k[:10239]+"b", long10k+"a", "http://example.com/"+long10k, "http://example.com/"+long10k[:10239]+"b",
		strings.Repeat("a/../", 2040)+"../sentinel.txt", plainURL+strings.Repeat("/", 10240), plainURL+"?"+strings.Repeat("%2F", 3414))
	// URLs that agree in a long prefix whose length is a power of two (fixed-size buffers)
	for _, n := range []int{256, 1024, 4096, 65536} {
		pre := "http://example.com/" + strings.Repeat("a", n-19)
		add("long", "long", pre, pre+"x", pre+"y", pre[:n-1]+"b")
	}
	return u
}()

// urlSpec names one URL of a case: a universe element, hashed Hex times (the 64-hex strings that
// equal other URLs' entry file names).
type urlSpec struct {
	Base int `json:"base"`
	Hex  int `json:"hex"`
}

func (s urlSpec) resolve(e env) string {
	b := universe[s.Base]
	str := b.s
	if b.dyn != nil {
		str = b.dyn(e)
	}
	for i := 0; i < s.Hex; i++ {
		str = hexName(str)
	}
	return str
}

func (s urlSpec) kind() string {
	if s.Hex > 0 {
		return "hex-of-other"
	}
	return universe[s.Base].kind
}

var famIndex = func() map[string][]int {
	m := map[string][]int{}
	for i, b := range universe {
		m[b.fam] = append(m[b.fam], i)
	}
	return m
}()

var kindIndex, kindNames = func() (map[string][]int, []string) {
	m := map[string][]int{}
	var names []string
	for i, b := range universe {
		if _, ok := m[b.kind]; !ok {
			names = append(names, b.kind)
		}
		m[b.kind] = append(m[b.kind], i)
	}
	return m, names
}()

// drawWorkingSet draws 1..6 URL specs; later members are, half of the time, relatives of an
// earlier one (same confusable family, or the hex file name of it).
func drawWorkingSet(rt *rapid.T) []urlSpec {
	k := rp.Pick(rt, "nURLs", 1, 2, 2, 3, 3, 4, 5, 6)
	var out []urlSpec
	seen := map[urlSpec]bool{}
	for i := 0; i < k; i++ {
		var s urlSpec
		if len(out) > 0 && rapid.Bool().Draw(rt, "relative") {
			p := out[rapid.IntRange(0, len(out)-1).Draw(rt, "relOf")]
			if p.Hex < 2 && rapid.IntRange(0, 2).Draw(rt, "relHex") == 0 {
				s = urlSpec{Base: p.Base, Hex: p.Hex + 1}
			} else {
				fam := famIndex[universe[p.Base].fam]
				s = urlSpec{Base: fam[rapid.IntRange(0, len(fam)-1).Draw(rt, "relMember")]}
			}
		} else {
			// kind first, so that the one-member kinds (empty, plain) are as frequent as the large ones
			members := kindIndex[kindNames[rapid.IntRange(0, len(kindNames)-1).Draw(rt, "urlKind")]]
			s = urlSpec{Base: members[rapid.IntRange(0, len(members)-1).Draw(rt, "urlMember")]}
			if rapid.IntRange(0, 7).Draw(rt, "urlHex") == 0 {
				s.Hex = 1
			}
		}
		if !seen[s] {
			seen[s] = true
			out = append(out, s)
		}
	}
	return out
}

// ---------------------------------------------------------------------------------------
// CRLs and bundles

var (
	caOnce sync.Once
	caCert *pki.Cert
)

func theCA() *pki.Cert {
	caOnce.Do(func() { caCert = pki.NewChain(pki.ChainOpts{Name: "c15"}).Root() })
	return caCert
}

// next-update classes relative to the case's reference time; the margins (>= 1 h) are far
// larger than the duration of a case, so the wall clock cannot flip a verdict.
func nuOffset(c string) time.Duration {
	switch c {
	case "-1y":
		return -365 * 24 * time.Hour
	case "-1h":
		return -time.Hour
	case "+1h":
		return time.Hour
	case "+1y":
		return 365 * 24 * time.Hour
	}
	panic("nu class " + c)
}

type crlSpec struct {
	NU      string `json:"nu"` // -1y -1h +1h +1y
	Entries int    `json:"entries"`
	Number  int64  `json:"number"`
	// TU: this-update time, days before the next-update time (0 = 30). Base and delta draw it
	// independently, so a delta may be issued before or after its base; the cache stores what it is given
	TU int `json:"thisUpdateDaysBeforeNU,omitempty"`
}

func (c crlSpec) fresh() bool { return c.NU[0] == '+' }

type bundleSpec struct {
	Base  crlSpec  `json:"base"`
	Delta *crlSpec `json:"delta,omitempty"`
}

func (b bundleSpec) fresh() bool { return b.Base.fresh() && (b.Delta == nil || b.Delta.fresh()) }

func (b bundleSpec) String() string {
	s := fmt.Sprintf("base(%s,n=%d,e=%d,tu=%d)", b.Base.NU, b.Base.Number, b.Base.Entries, b.Base.TU)
	if b.Delta != nil {
		s += fmt.Sprintf("+delta(%s,n=%d,e=%d,tu=%d)", b.Delta.NU, b.Delta.Number, b.Delta.Entries, b.Delta.TU)
	}
	return s
}

func drawCRLSpec(rt *rapid.T, label string, number int64) crlSpec {
	return crlSpec{
		NU:      rp.Pick(rt, label+"NU", "-1y", "-1h", "+1h", "+1h", "+1y", "+1y", "-300y", "+300y"),
		Entries: rp.Pick(rt, label+"Entries", 0, 0, 0, 1, 1, 1, 3, 3, 50, 50, 50, 400),
		Number:  number,
		TU:      rp.Pick(rt, label+"TU", 0, 0, 0, 10, 45, 400),
	}
}

// drawBundle draws a bundle spec; *counter makes every CRL number of a case unique, so all
// stored bundles are distinguishable.
func drawBundle(rt *rapid.T, counter *int64) bundleSpec {
	*counter += 2
	// CRL numbers are the issuer's business: what is stored later may carry a lower number than
	// what was stored before (a CA that restarted its numbering, a mirror serving an older CRL).
	// "down" numbers descend from a million, "up" numbers ascend from ten: all distinct
	n := *counter
	if rapid.IntRange(0, 2).Draw(rt, "numbering") == 0 {
		n = 1000000 - *counter
	}
	b := bundleSpec{Base: drawCRLSpec(rt, "base", n)}
	if rapid.IntRange(0, 9).Draw(rt, "hasDelta") < 6 {
		d := drawCRLSpec(rt, "delta", n+1)
		b.Delta = &d
	}
	return b
}

var oidDeltaCRLIndicator = asn1.ObjectIdentifier{2, 5, 29, 27}

func mintCRL(now time.Time, s crlSpec, deltaOf int64) *x509.RevocationList {
	var nu time.Time
	switch s.NU {
	case "-300y": // further from now than a time.Duration can express (about 292 years)
		nu = now.AddDate(-300, 0, 0)
	case "+300y":
		nu = now.AddDate(300, 0, 0)
	default:
		nu = now.Add(nuOffset(s.NU))
	}
	var extra []pkix.Extension
	if deltaOf > 0 {
		v, err := asn1.Marshal(big.NewInt(deltaOf))
		if err != nil {
			panic(err)
		}
		extra = append(extra, pkix.Extension{Id: oidDeltaCRLIndicator, Critical: true, Value: v})
	}
	days := s.TU
	if days == 0 {
		days = 30
	}
	return pki.CRL(theCA(), s.Number, nu.Add(-time.Duration(days)*24*time.Hour), nu, s.Entries, extra)
}

func mintBundle(now time.Time, b bundleSpec) (base, delta *x509.RevocationList) {
	base = mintCRL(now, b.Base, 0)
	if b.Delta != nil {
		delta = mintCRL(now, *b.Delta, b.Base.Number)
	}
	return
}

// ---------------------------------------------------------------------------------------
// the harness's own entry encoder and decoders

var std = base64.StdEncoding

func ownEncode(base, delta []byte) []byte {
	s := `{"baseCRL":"` + std.EncodeToString(base) + `"`
	if delta != nil {
		s += `,"deltaCRL":"` + std.EncodeToString(delta) + `"`
	}
	return []byte(s + "}")
}

type decoded struct {
	base, delta   []byte
	baseL, deltaL *x509.RevocationList
}

func (d *decoded) equal(o *decoded) bool {
	return d != nil && o != nil && bytes.Equal(d.base, o.base) && (d.deltaL == nil) == (o.deltaL == nil) && bytes.Equal(d.delta, o.delta)
}

// lenientDecode is the "JSON -> base64 std -> x509.ParseRevocationList" reading of an entry file
// with encoding/json's usual tolerance (case-insensitive member names, last duplicate wins,
// unknown members ignored, arrays of numbers for byte strings, CR/LF inside base64).
func lenientDecode(file []byte) (*decoded, error) {
	var m struct {
		BaseCRL  []byte `json:"baseCRL"`
		DeltaCRL []byte `json:"deltaCRL"`
	}
	if err := json.Unmarshal(file, &m); err != nil {
		return nil, err
	}
	// The bytes of a decoded CRL are the bytes of the parsed DER element (RevocationList.Raw):
	// ParseRevocationList tolerates data after the element, which is not part of the CRL.
	d := &decoded{}
	var err error
	if d.baseL, err = x509.ParseRevocationList(m.BaseCRL); err != nil {
		return nil, fmt.Errorf("base: %w", err)
	}
	d.base = d.baseL.Raw
	if m.DeltaCRL != nil {
		if d.deltaL, err = x509.ParseRevocationList(m.DeltaCRL); err != nil {
			return nil, fmt.Errorf("delta: %w", err)
		}
		d.delta = d.deltaL.Raw
	}
	return d, nil
}

// strictDecode reads the file without struct binding. It returns
//
//	malformed=true  when under no reasonable reading the file is an entry (not JSON, not an
//	                object, no base member, a base/delta member that is no string / no base64 /
//	                no CRL),
//	d != nil        when the file is an entry in the exact stored shape,
//	neither         when the reading depends on decoder tolerance (folded or duplicate member
//	                names, unknown members, arrays, line breaks or non-canonical padding in
//	                base64); the oracle then accepts an error or the lenient reading.
func strictDecode(file []byte) (malformed bool, reason string, d *decoded) {
	if !json.Valid(file) {
		return true, "not valid JSON", nil
	}
	dec := json.NewDecoder(bytes.NewReader(file))
	tok, err := dec.Token()
	if err != nil {
		return true, "no JSON value", nil
	}
	if dl, ok := tok.(json.Delim); !ok || dl != '{' {
		return true, "top-level value is not an object", nil
	}
	type kv struct {
		k string
		v json.RawMessage
	}
	var kvs []kv
	for dec.More() {
		kt, err := dec.Token()
		if err != nil {
			return false, "", nil
		}
		k, ok := kt.(string)
		if !ok {
			return false, "", nil
		}
		var raw json.RawMessage
		if err := dec.Decode(&raw); err != nil {
			return false, "", nil
		}
		kvs = append(kvs, kv{k, raw})
	}
	var baseV, deltaV json.RawMessage
	nBase, nDelta, ambiguous := 0, 0, false
	for _, e := range kvs {
		switch {
		case strings.EqualFold(e.k, "baseCRL"):
			nBase++
			baseV = e.v
			ambiguous = ambiguous || e.k != "baseCRL"
		case strings.EqualFold(e.k, "deltaCRL"):
			nDelta++
			deltaV = e.v
			ambiguous = ambiguous || e.k != "deltaCRL"
		default:
			ambiguous = true // unknown member: is that still a well-formed entry? not decided here
		}
	}
	if nBase == 0 {
		return true, "object has no baseCRL member", nil
	}
	if ambiguous || nBase > 1 || nDelta > 1 {
		return false, "", nil
	}
	value := func(raw json.RawMessage) (status string, der []byte, l *x509.RevocationList) {
		raw = bytes.TrimSpace(raw)
		switch {
		case bytes.Equal(raw, []byte("null")):
			return "absent", nil, nil
		case len(raw) > 0 && raw[0] == '[':
			return "ambiguous", nil, nil
		case len(raw) == 0 || raw[0] != '"':
			return "malformed: not a string", nil, nil
		}
		var s string
		if err := json.Unmarshal(raw, &s); err != nil {
			return "ambiguous", nil, nil
		}
		if strings.ContainsAny(s, "\r\n") {
			return "ambiguous", nil, nil
		}
		der, err := std.Strict().DecodeString(s)
		if err != nil {
			if _, err2 := std.DecodeString(s); err2 == nil {
				return "ambiguous", nil, nil
			}
			return "malformed: not base64", nil, nil
		}
		l, err = x509.ParseRevocationList(der)
		if err != nil {
			return "malformed: not a CRL: " + err.Error(), nil, nil
		}
		if len(l.Raw) != len(der) {
			return "ambiguous", nil, nil // data after the CRL element
		}
		return "ok", der, l
	}
	out := &decoded{}
	st, der, l := value(baseV)
	switch {
	case st == "ambiguous":
		return false, "", nil
	case st == "absent":
		return true, "baseCRL is null", nil
	case st != "ok":
		return true, "baseCRL " + st, nil
	}
	out.base, out.baseL = der, l
	if nDelta == 1 {
		st, der, l = value(deltaV)
		switch {
		case st == "ambiguous":
			return false, "", nil
		case st == "absent":
		case st != "ok":
			return true, "deltaCRL " + st, nil
		default:
			out.delta, out.deltaL = der, l
		}
	}
	return false, "", out
}

// ---------------------------------------------------------------------------------------
// model states and the oracle for one Get

type stored struct {
	spec        bundleSpec
	base, delta []byte
}

// state of one URL: absent (never stored), stored (last successful Set, file untouched since),
// corrupted (the harness rewrote the entry file; file bytes or "is a directory").
type state struct {
	kind  string // absent | stored | corrupted
	st    *stored
	file  []byte
	isDir bool
	ckind string
}

type getResult struct {
	b   *corecrl.Bundle
	err error
}

func (r getResult) String() string {
	if r.err != nil {
		kind := "error"
		if errors.Is(r.err, corecrl.ErrCacheMiss) {
			kind = "miss"
		}
		if r.b != nil {
			kind += "+bundle"
		}
		return kind + "(" + short(r.err.Error()) + ")"
	}
	if r.b == nil {
		return "nil,nil"
	}
	s := "bundle("
	if r.b.BaseCRL != nil {
		s += fmt.Sprintf("base n=%v", r.b.BaseCRL.Number)
	} else {
		s += "base=nil"
	}
	if r.b.DeltaCRL != nil {
		s += fmt.Sprintf(" delta n=%v", r.b.DeltaCRL.Number)
	}
	return s + ")"
}

// judgeShape checks what holds in every state: an error comes without a bundle, a success
// comes with a bundle that has a base CRL.
func judgeShape(r getResult) (string, string) {
	switch {
	case r.err != nil && r.b != nil:
		return "C15:error-with-bundle", fmt.Sprintf("Get returned a bundle together with the error %v", r.err)
	case r.err == nil && r.b == nil:
		return "C15:no-bundle-no-error", "Get returned (nil, nil): neither a bundle nor a cache miss"
	case r.err == nil && r.b.BaseCRL == nil:
		return "C15:bundle-without-base", "Get returned a bundle without a base CRL"
	}
	return "", ""
}

func judgeAbsent(r getResult) (string, string) {
	if r.err == nil {
		return "C15:never-stored:bundle-returned", fmt.Sprintf("nothing was ever stored under this URL but Get returned %v", r)
	}
	if !errors.Is(r.err, corecrl.ErrCacheMiss) {
		return "C15:never-stored:not-a-miss", fmt.Sprintf("nothing was ever stored under this URL; want a cache miss, got error %v", r.err)
	}
	return "", ""
}

// judgeStored: who describes the owner of foreign bytes (another URL / an older bundle).
func judgeStored(st *stored, r getResult, who func([]byte) string) (string, string) {
	if !st.spec.fresh() {
		which := "base-expired"
		if st.spec.Base.fresh() {
			which = "delta-expired"
		} else if st.spec.Delta != nil && !st.spec.Delta.fresh() {
			which = "both-expired"
		}
		if r.err == nil {
			return "C15:expired:bundle-returned:" + which, fmt.Sprintf("stored bundle %v has passed a next-update time but Get returned %v", st.spec, r)
		}
		if !errors.Is(r.err, corecrl.ErrCacheMiss) {
			return "C15:expired:not-a-miss:" + which, fmt.Sprintf("stored bundle %v has passed a next-update time; want a cache miss, got error %v", st.spec, r.err)
		}
		return "", ""
	}
	if r.err != nil {
		if errors.Is(r.err, corecrl.ErrCacheMiss) {
			return "C15:fresh:miss", fmt.Sprintf("stored bundle %v is fresh but Get reported a cache miss: %v", st.spec, r.err)
		}
		return "C15:fresh:error", fmt.Sprintf("stored bundle %v is fresh but Get failed: %v", st.spec, r.err)
	}
	if !bytes.Equal(r.b.BaseCRL.Raw, st.base) {
		owner := who(r.b.BaseCRL.Raw)
		if st.delta != nil && bytes.Equal(r.b.BaseCRL.Raw, st.delta) {
			owner = "delta-of-same-bundle"
		}
		return "C15:bytes:base:" + owner, fmt.Sprintf("base CRL bytes differ from the last stored bundle %v; returned %v (%s)", st.spec, r, owner)
	}
	if (r.b.DeltaCRL == nil) != (st.delta == nil) {
		return "C15:bytes:delta-presence", fmt.Sprintf("stored bundle %v, returned %v", st.spec, r)
	}
	if st.delta != nil && !bytes.Equal(r.b.DeltaCRL.Raw, st.delta) {
		owner := who(r.b.DeltaCRL.Raw)
		if bytes.Equal(r.b.DeltaCRL.Raw, st.base) {
			owner = "base-of-same-bundle"
		}
		return "C15:bytes:delta:" + owner, fmt.Sprintf("delta CRL bytes differ from the last stored bundle %v; returned %v (%s)", st.spec, r, owner)
	}
	// the parsed form must be the parse of those bytes
	if r.b.BaseCRL.Number == nil || r.b.BaseCRL.Number.Int64() != st.spec.Base.Number ||
		(st.delta != nil && (r.b.DeltaCRL.Number == nil || r.b.DeltaCRL.Number.Int64() != st.spec.Delta.Number)) {
		return "C15:bytes:parsed-fields", fmt.Sprintf("Raw bytes match the stored bundle %v but the parsed CRL numbers do not: %v", st.spec, r)
	}
	return "", ""
}

// judgeCorrupted: the harness rewrote the entry file. Any error is acceptable; a bundle is
// acceptable only if the file still decodes (own decoders), carries exactly the file's bytes and
// is not clearly (> 30 min) past a next-update time. harnessErr reports disagreement between the
// harness's two decoders (never a property failure).
func judgeCorrupted(s state, r getResult, now time.Time) (key, msg, harnessErr string, decodes bool) {
	var (
		ld        *decoded
		lerr      error
		malformed bool
		reason    string
		sd        *decoded
	)
	if s.isDir {
		lerr, malformed, reason = errors.New("is a directory"), true, "a directory is in place of the entry file"
	} else {
		ld, lerr = lenientDecode(s.file)
		malformed, reason, sd = strictDecode(s.file)
	}
	if malformed && lerr == nil {
		return "", "", fmt.Sprintf("strict decoder says %q but the lenient decoder reads an entry from %q", reason, short(string(s.file))), false
	}
	if sd != nil && (lerr != nil || !sd.equal(ld)) {
		return "", "", fmt.Sprintf("strict decoder reads an entry but the lenient one differs (err=%v) on %q", lerr, short(string(s.file))), false
	}
	decodes = lerr == nil
	if r.err != nil {
		return "", "", "", decodes
	}
	if lerr != nil {
		if !malformed {
			reason = "own decoder: " + lerr.Error()
		}
		return "C15:malformed-entry:bundle-returned", fmt.Sprintf("entry file corrupted by %q is not a well-formed entry (%s) but Get returned %v", s.ckind, reason, r), "", decodes
	}
	if !bytes.Equal(r.b.BaseCRL.Raw, ld.base) || (r.b.DeltaCRL == nil) != (ld.deltaL == nil) || (ld.deltaL != nil && !bytes.Equal(r.b.DeltaCRL.Raw, ld.delta)) {
		return "C15:corrupt-decodes:bytes-differ", fmt.Sprintf("entry file corrupted by %q still decodes, but Get returned %v, not the file's bytes (base n=%v, delta=%v)", s.ckind, r, ld.baseL.Number, ld.deltaL != nil), "", decodes
	}
	limit := now.Add(-30 * time.Minute) // the generated "expired" classes are >= 1 h in the past
	for _, l := range []*x509.RevocationList{ld.baseL, ld.deltaL} {
		// a CRL without next-update (zero time) is outside the statement: both outcomes accepted
		if l != nil && !l.NextUpdate.IsZero() && l.NextUpdate.Before(limit) {
			return "C15:corrupt-decodes:expired-bundle-returned", fmt.Sprintf("entry file corrupted by %q decodes to a CRL with next-update %v (more than 30 min ago) but Get returned %v", s.ckind, l.NextUpdate, r), "", decodes
		}
	}
	return "", "", "", decodes
}

// ---------------------------------------------------------------------------------------
// corruption operators

type spans struct {
	ok                 bool
	bk0, bk1, bv0, bv1 int // base member name (with quotes) and value (without quotes)
	hasDelta           bool
	dk0, dk1, dv0, dv1 int
}

func findSpans(src []byte) spans {
	var s spans
	find := func(name string) (k0, k1, v0, v1 int, ok bool) {
		pat := []byte(`"` + name + `":"`)
		i := bytes.Index(src, pat)
		if i < 0 {
			return
		}
		v0 = i + len(pat)
		j := bytes.IndexByte(src[v0:], '"')
		if j < 0 {
			return
		}
		return i, i + len(name) + 2, v0, v0 + j, true
	}
	s.bk0, s.bk1, s.bv0, s.bv1, s.ok = find("baseCRL")
	s.dk0, s.dk1, s.dv0, s.dv1, s.hasDelta = find("deltaCRL")
	return s
}

func splice(src []byte, from, to int, repl []byte) []byte {
	out := make([]byte, 0, len(src)-(to-from)+len(repl))
	out = append(out, src[:from]...)
	out = append(out, repl...)
	return append(out, src[to:]...)
}

func flipBit(src []byte, idx, bit int) []byte {
	out := append([]byte{}, src...)
	out[idx] ^= 1 << uint(bit)
	return out
}

var corruptKinds = []string{"trunc-boundary", "trunc-random", "flip-json", "flip-base64", "flip-der", "swap-fields", "rename-field",
	"foreign-json", "empty", "dir", "reformat", "append", "b64-variant", "der-variant", "other-valid"}

// corruptBytes applies one operator to a well-formed source entry. fresh mints another valid
// entry when an operator needs foreign but valid material. It returns the new file content (or
// isDir), and a description (kind + parameters) for the log and the fingerprint.
func corruptBytes(rt *rapid.T, kind string, src []byte, other func() []byte) (out []byte, isDir bool, desc string) {
	sp := findSpans(src)
	if !sp.ok || len(src) == 0 {
		// the source is not in the stored shape (only possible if Set wrote something else):
		// fall back to shape-independent operators
		switch kind {
		case "empty", "dir", "foreign-json", "other-valid", "append":
		default:
			if len(src) == 0 {
				return []byte{}, false, kind + ":empty-source"
			}
			i, b := rapid.IntRange(0, len(src)-1).Draw(rt, "flipAt"), rapid.IntRange(0, 7).Draw(rt, "bit")
			return flipBit(src, i, b), false, fmt.Sprintf("%s:shapeless-flip@%d.%d", kind, i, b)
		}
	}
	baseVal := func() string { return string(src[sp.bv0:sp.bv1]) }
	pickField := func() (v0, v1 int, name string) {
		if sp.hasDelta && rapid.Bool().Draw(rt, "onDelta") {
			return sp.dv0, sp.dv1, "delta"
		}
		return sp.bv0, sp.bv1, "base"
	}
	switch kind {
	case "trunc-boundary":
		set := map[int]bool{}
		for i, c := range src {
			if strings.IndexByte(`{}":,`, c) >= 0 {
				set[i], set[i+1] = true, true
			}
		}
		// also the quantum boundaries of the base64 payloads and the payload middles
		for _, v := range [][2]int{{sp.bv0, sp.bv1}, {sp.dv0, sp.dv1}} {
			if v[1] > v[0] {
				set[v[0]+4], set[v[0]+(v[1]-v[0])/2], set[v[1]-4], set[v[1]-1] = true, true, true, true
			}
		}
		var offs []int
		for o := range set {
			if o >= 0 && o < len(src) {
				offs = append(offs, o)
			}
		}
		sort.Ints(offs)
		o := offs[rapid.IntRange(0, len(offs)-1).Draw(rt, "boundary")]
		return append([]byte{}, src[:o]...), false, fmt.Sprintf("trunc-boundary@%d/%d", o, len(src))
	case "trunc-random":
		o := rapid.IntRange(0, len(src)-1).Draw(rt, "truncAt")
		return append([]byte{}, src[:o]...), false, fmt.Sprintf("trunc-random@%d/%d", o, len(src))
	case "flip-json":
		var idx []int
		for i := range src {
			if (i >= sp.bv0 && i < sp.bv1) || (sp.hasDelta && i >= sp.dv0 && i < sp.dv1) {
				continue
			}
			idx = append(idx, i)
		}
		i, b := idx[rapid.IntRange(0, len(idx)-1).Draw(rt, "flipAt")], rapid.IntRange(0, 7).Draw(rt, "bit")
		return flipBit(src, i, b), false, fmt.Sprintf("flip-json@%d.%d(%q)", i, b, src[i])
	case "flip-base64":
		v0, v1, name := pickField()
		i, b := rapid.IntRange(v0, v1-1).Draw(rt, "flipAt"), rapid.IntRange(0, 7).Draw(rt, "bit")
		return flipBit(src, i, b), false, fmt.Sprintf("flip-base64:%s@%d.%d", name, i-v0, b)
	case "flip-der":
		v0, v1, name := pickField()
		der, err := std.DecodeString(string(src[v0:v1]))
		if err != nil || len(der) < 8 {
			return flipBit(src, v0, 0), false, "flip-der:undecodable-source"
		}
		region := rp.Pick(rt, "derRegion", "head", "tail", "tail", "any", "time", "time")
		lo, hi := 0, len(der)-1
		switch region {
		case "head":
			hi = min(47, hi)
		case "tail":
			lo = max(0, hi-63)
		case "time":
			// thisUpdate / nextUpdate are the UTCTime values (tag 0x17, length 13) of the TBS
			var at []int
			for i := 0; i+15 <= len(der) && len(at) < 2; i++ {
				if der[i] == 0x17 && der[i+1] == 0x0d && der[i+14] == 'Z' {
					at = append(at, i)
				}
			}
			if len(at) > 0 {
				a := at[rapid.IntRange(0, len(at)-1).Draw(rt, "whichTime")]
				lo, hi = a, a+14
			}
		}
		i, b := rapid.IntRange(lo, hi).Draw(rt, "derAt"), rapid.IntRange(0, 7).Draw(rt, "bit")
		der = flipBit(der, i, b)
		return splice(src, v0, v1, []byte(std.EncodeToString(der))), false, fmt.Sprintf("flip-der:%s:%s@%d.%d", name, region, i, b)
	case "swap-fields":
		if sp.hasDelta && sp.dv0 > sp.bv1 {
			// values exchanged
			o := splice(src, sp.dv0, sp.dv1, src[sp.bv0:sp.bv1]) // delta is after base, so base offsets stay valid
			o = splice(o, sp.bv0, sp.bv1, src[sp.dv0:sp.dv1])
			return o, false, "swap-fields:values"
		}
		return splice(src, sp.bk0, sp.bk1, []byte(`"deltaCRL"`)), false, "swap-fields:base-becomes-delta"
	case "rename-field":
		if sp.hasDelta && rapid.Bool().Draw(rt, "onDelta") {
			n := rp.Pick(rt, "newName", "deltaCrl", "DELTACRL", "deltacrl", "delta_crl", "delta", "DeltaCRL", "deltaCRL ", "baseCRL")
			return splice(src, sp.dk0, sp.dk1, []byte(`"`+n+`"`)), false, "rename-field:delta->" + n
		}
		n := rp.Pick(rt, "newName", "baseCrl", "BASECRL", "basecrl", "base_crl", "base", "BaseCRL", "baseCRL ", "crl", "", "baseCRK", "baſeCRL")
		return splice(src, sp.bk0, sp.bk1, []byte(`"`+n+`"`)), false, "rename-field:base->" + n
	case "foreign-json":
		b := ""
		if sp.ok {
			b = baseVal()
		} else {
			b = string(src)
		}
		nums := func() string {
			der, _ := std.DecodeString(b)
			var sb strings.Builder
			for i, c := range der {
				if i > 0 {
					sb.WriteByte(',')
				}
				fmt.Fprint(&sb, c)
			}
			return sb.String()
		}
		docs := []func() string{
			func() string { return `{}` }, func() string { return `[]` }, func() string { return `null` }, func() string { return `true` },
			func() string { return `0` }, func() string { return `""` }, func() string { return `"baseCRL"` },
			func() string { return `{"baseCRL":null}` }, func() string { return `{"baseCRL":0}` }, func() string { return `{"baseCRL":{}}` },
			func() string { return `{"baseCRL":""}` }, func() string { return `{"baseCRL":true}` }, func() string { return `{"baseCRL":[]}` },
			func() string { return `{"bundle":{"baseCRL":"` + b + `"}}` },
			func() string { return `[{"baseCRL":"` + b + `"}]` },
			func() string { return `"` + b + `"` },
			func() string { return `{"url":"http://example.com/ca.crl","crl":"` + b + `"}` },
			func() string {
				return `{"version":"1.0","trustPolicies":[{"name":"p","registryScopes":["*"],"signatureVerification":{"level":"strict"},"trustStores":["ca:x"],"trustedIdentities":["*"]}]}`
			},
			func() string { return `{"baseCRL":[` + nums() + `]}` },
			func() string { return `{"BaseCRL":{"Raw":"` + b + `"}}` },
			func() string { return `{"baseCRL":{"Raw":"` + b + `"}}` },
			func() string { return `{"baseCRL":"` + b + `","deltaCRL":0}` },
			func() string { return `{"baseCRL":"` + b + `","deltaCRL":{}}` },
			func() string { return `{"baseCRL":"` + b + `","deltaCRL":[]}` },
			func() string { return `{"baseCRL":["` + b + `"]}` },
		}
		i := rapid.IntRange(0, len(docs)-1).Draw(rt, "foreignDoc")
		return []byte(docs[i]()), false, fmt.Sprintf("foreign-json#%d", i)
	case "empty":
		return []byte{}, false, "empty"
	case "dir":
		return nil, true, "dir:" + rp.Pick(rt, "dirKind", "empty", "with-file")
	case "reformat":
		b := baseVal()
		d, hasD := "", sp.hasDelta
		if hasD {
			d = string(src[sp.dv0:sp.dv1])
		}
		deltaMember := func(sep string) string {
			if hasD {
				return sep + `"deltaCRL":"` + d + `"`
			}
			return ""
		}
		esc := strings.NewReplacer("/", `\/`, "+", `\u002b`, "A", `\u0041`)
		how := rp.Pick(rt, "reformat", "indent", "reversed", "spaces", "escapes", "bom", "dup-key", "extra-key", "delta-null", "delta-empty", "trailing-newline", "crlf")
		var o string
		switch how {
		case "indent":
			o = "{\n  \"baseCRL\": \"" + b + "\"" + deltaMember(",\n  ") + "\n}\n"
		case "reversed":
			if hasD {
				o = `{"deltaCRL":"` + d + `","baseCRL":"` + b + `"}`
			} else {
				o = `{"baseCRL":"` + b + `"}`
			}
		case "spaces":
			o = " {\t\"baseCRL\" :\r\n\"" + b + "\" " + deltaMember(" , ") + " } "
		case "escapes":
			o = `{"baseCRL":"` + esc.Replace(b) + `"` + deltaMember(",") + `}`
		case "bom":
			o = "\xef\xbb\xbf" + string(src)
		case "dup-key":
			o = `{"baseCRL":"` + string(other()) + `","baseCRL":"` + b + `"` + deltaMember(",") + `}`
		case "extra-key":
			o = `{"baseCRL":"` + b + `"` + deltaMember(",") + `,"extra":{"baseCRL":1}}`
		case "delta-null":
			o = `{"baseCRL":"` + b + `","deltaCRL":null}`
		case "delta-empty":
			o = `{"baseCRL":"` + b + `","deltaCRL":""}`
		case "trailing-newline":
			o = string(src) + "\n"
		case "crlf":
			o = strings.ReplaceAll(strings.ReplaceAll(string(src), ",", ",\r\n"), ":", ": ")
		}
		return []byte(o), false, "reformat:" + how
	case "append":
		suf := rp.Pick(rt, "suffix", "\n", " ", "x", "{}", "\x00", ",", "}", "null", string(src))
		return append(append([]byte{}, src...), suf...), false, fmt.Sprintf("append:%q", short(suf))
	case "b64-variant":
		v0, v1, name := pickField()
		der, err := std.DecodeString(string(src[v0:v1]))
		if err != nil {
			return flipBit(src, v0, 0), false, "b64-variant:undecodable-source"
		}
		how := rp.Pick(rt, "b64", "url", "raw", "rawurl", "newlines", "hex", "spaces", "double", "pem")
		var v string
		switch how {
		case "url":
			v = base64.URLEncoding.EncodeToString(der)
		case "raw":
			v = base64.RawStdEncoding.EncodeToString(der)
		case "rawurl":
			v = base64.RawURLEncoding.EncodeToString(der)
		case "newlines":
			s := std.EncodeToString(der)
			var sb strings.Builder
			for i := 0; i < len(s); i += 64 {
				sb.WriteString(s[i:min(i+64, len(s))])
				sb.WriteString(`\n`) // JSON escape: the decoded string has line breaks
			}
			v = sb.String()
		case "hex":
			v = hex.EncodeToString(der)
		case "spaces":
			s := std.EncodeToString(der)
			v = s[:len(s)/2] + " " + s[len(s)/2:]
		case "double":
			v = std.EncodeToString([]byte(std.EncodeToString(der)))
		case "pem":
			p := pem.EncodeToMemory(&pem.Block{Type: "X509 CRL", Bytes: der})
			v = std.EncodeToString(p)
		}
		return splice(src, v0, v1, []byte(v)), false, "b64-variant:" + name + ":" + how
	case "der-variant":
		v0, v1, name := pickField()
		der, err := std.DecodeString(string(src[v0:v1]))
		if err != nil || len(der) < 8 {
			return flipBit(src, v0, 0), false, "der-variant:undecodable-source"
		}
		how := rp.Pick(rt, "der", "trailing-byte", "trailing-crl", "cert", "minus-one", "tbs-only", "zero-bytes", "half")
		var nd []byte
		switch how {
		case "trailing-byte":
			nd = append(append([]byte{}, der...), 0)
		case "trailing-crl":
			nd = append(append([]byte{}, der...), der...)
		case "cert":
			nd = theCA().Cert.Raw
		case "minus-one":
			nd = der[:len(der)-1]
		case "tbs-only":
			if l, err := x509.ParseRevocationList(der); err == nil {
				nd = l.RawTBSRevocationList
			} else {
				nd = der[4:]
			}
		case "zero-bytes":
			nd = make([]byte, len(der))
		case "half":
			nd = der[:len(der)/2]
		}
		return splice(src, v0, v1, []byte(std.EncodeToString(nd))), false, "der-variant:" + name + ":" + how
	case "other-valid":
		return other2(other), false, "other-valid"
	}
	panic("corruption kind " + kind)
}

// other2 wraps the base64 of a freshly minted CRL into a complete entry.
func other2(other func() []byte) []byte { return []byte(`{"baseCRL":"` + string(other()) + `"}`) }

func kindOf(desc string) string {
	for _, sep := range []string{":", "@", "#"} {
		if i := strings.Index(desc, sep); i >= 0 {
			desc = desc[:i]
		}
	}
	return desc
}

// ---------------------------------------------------------------------------------------
// sandbox

// buildSandbox creates the per-case directory tree: sentinels at every place a traversal URL
// of the universe would resolve to if it were joined to the root unvalidated. Two of them hold a
// valid, fresh entry (validEntry) so that a traversal *read* would surface as a bundle.
func buildSandbox(validEntry []byte) (env, error) {
	sb, err := os.MkdirTemp("", "c15-")
	if err != nil {
		return env{}, err
	}
	e := env{sandbox: sb, root: filepath.Join(sb, "r1", "r2", "cache")}
	if err := os.MkdirAll(filepath.Join(sb, "r1", "r2"), 0o755); err != nil {
		return e, err
	}
	files := map[string][]byte{
		"sentinel.txt":               validEntry,
		"x":                          []byte("sentinel x 0\n"),
		"sentinel-dir/inner.txt":     []byte("inner\n"),
		"r1/sentinel.txt":            []byte("sentinel r1\n"),
		"r1/x":                       validEntry,
		"r1/r2/sentinel.txt":         validEntry,
		"r1/r2/x":                    []byte("sentinel x 2\n"),
		"r1/r2/b":                    []byte("sentinel b 2\n"),
		"r1/r2/" + hexName(plainURL): validEntry, // the plain URL's file name, one level too high
		"r1/r2/cache.txt":            []byte("next to the root\n"),
	}
	names := make([]string, 0, len(files))
	for n := range files {
		names = append(names, n)
	}
	sort.Strings(names)
	for _, n := range names {
		p := filepath.Join(sb, filepath.FromSlash(n))
		if err := os.MkdirAll(filepath.Dir(p), 0o755); err != nil {
			return e, err
		}
		if err := os.WriteFile(p, files[n], 0o644); err != nil {
			return e, err
		}
	}
	if err := os.Symlink("sentinel.txt", filepath.Join(sb, "r1", "r2", "link")); err != nil {
		return e, err
	}
	return e, nil
}

// snapshot renders everything in the sandbox outside the cache root (type, mode, size, mtime,
// content hash, link target); of the root itself only type and mode.
func snapshot(e env) string {
	var sb strings.Builder
	_ = filepath.Walk(e.sandbox, func(p string, info fs.FileInfo, err error) error {
		rel, _ := filepath.Rel(e.sandbox, p)
		if err != nil {
			fmt.Fprintf(&sb, "%s ERR %v\n", rel, err)
			return nil
		}
		if p == e.root {
			fmt.Fprintf(&sb, "%s ROOT %v\n", rel, info.Mode())
			if info.IsDir() {
				return filepath.SkipDir
			}
			return nil
		}
		switch {
		case info.Mode()&fs.ModeSymlink != 0:
			tgt, _ := os.Readlink(p)
			fmt.Fprintf(&sb, "%s LINK %v -> %s\n", rel, info.Mode(), tgt)
		case info.IsDir():
			fmt.Fprintf(&sb, "%s DIR %v %d\n", rel, info.Mode(), info.ModTime().UnixNano())
		default:
			b, rerr := os.ReadFile(p)
			fmt.Fprintf(&sb, "%s FILE %v %d %d %x %v\n", rel, info.Mode(), info.Size(), info.ModTime().UnixNano(), sha256.Sum256(b), rerr)
		}
		return nil
	})
	return sb.String()
}

func diffSnapshots(a, b string) string {
	as, bs := strings.Split(a, "\n"), strings.Split(b, "\n")
	in := map[string]bool{}
	for _, l := range as {
		in[l] = true
	}
	var d []string
	for _, l := range bs {
		if !in[l] {
			d = append(d, "+ "+l)
		}
		delete(in, l)
	}
	for _, l := range as {
		if in[l] {
			d = append(d, "- "+l)
		}
	}
	sort.Strings(d)
	if len(d) > 8 {
		d = d[:8]
	}
	return strings.Join(d, "; ")
}
