// C15 — the CRL cache returns only fresh, byte-faithful bundles for the exact URL.
//
// TestC15_StateMachine: rapid state machine Set / Get / Corrupt / Reopen over one crl.FileCache in
// a per-case sandbox, against a map model (url -> last stored bundle | corrupted file bytes).
// TestC15_FuzzSeeds / FuzzC15_CacheEntry: arbitrary bytes as the entry file of a fixed URL.
// Generators, decoders, corruption operators and the per-Get oracle are in model_test.go.
package c15

import (
	"context"
	"crypto/sha256"
	"crypto/x509"
	"flag"
	"fmt"
	"os"
	"path/filepath"
	"sort"
	"strconv"
	"strings"
	"sync"
	"testing"
	"time"

	corecrl "github.com/notaryproject/notation-core-go/revocation/crl"
	"github.com/notaryproject/notation-go/verifier/crl"
	"pgregory.net/rapid"

	"verifharness/internal/rp"
	"verifharness/internal/stats"
)

const rule = "case = one operation sequence (Set/Get/Corrupt/Reopen, ~15 steps) over a drawn working set of 1-6 confusable/hostile URLs; " +
	"non-trivial = the operations touch >=2 URLs or the sequence contains an expired CRL or a corruption; distinct by the operation list " +
	"(op, URL, next-update classes, sizes, corruption kind and parameters)"

const ruleSeeds = "case = (seed entry, mutation) written as the entry file of a fixed URL; non-trivial = mutated; distinct by seed name + mutation"

var ctx = context.Background()

type opLog struct {
	Op     string `json:"op"`
	URL    int    `json:"url"`
	Arg    string `json:"arg,omitempty"` // bundle spec / corruption description / root form
	Result string `json:"result,omitempty"`
}

type caseLog struct {
	Root string   `json:"root"`
	URLs []string `json:"urls"` // quoted, long ones abbreviated
	Ops  []opLog  `json:"ops"`
}

type owner struct {
	url int // -1: a sentinel outside the root
	seq int64
}

type machine struct {
	t     *testing.T
	rec   *stats.Recorder
	now   time.Time
	e     env
	snap  string
	pwd   string // stat of /etc/passwd
	cache *crl.FileCache

	urls  []string
	kinds []string
	names map[string]int // entry file name -> URL index

	model   map[int][]state // alternatives; absent key = never stored
	dirs    map[string]bool // entry names the harness turned into directories
	owners  map[[32]byte]owner
	counter int64

	log       caseLog
	fp        []string
	cls       map[string]int64
	touched   map[int]bool
	expiry    bool
	corrupted bool
	reopened  bool
	lastURL   int // URL index of the last drawn operation (-1: none / reopen)
}

func (m *machine) harness(format string, args ...any) {
	m.t.Fatalf("harness: "+format, args...)
}

func (m *machine) fail(rt *rapid.T, key, msg string) {
	m.rec.Failf(rt, key, m.log, "%s", msg)
}

func (m *machine) pickURL(rt *rapid.T) int {
	return rapid.IntRange(0, len(m.urls)-1).Draw(rt, "url")
}

func (m *machine) who(self int) func([]byte) string {
	return func(raw []byte) string {
		o, ok := m.owners[sha256.Sum256(raw)]
		switch {
		case !ok:
			return "unknown-bytes"
		case o.url < 0:
			return "outside-root"
		case o.url != self:
			return "other-url"
		}
		return "older-bundle-of-same-url"
	}
}

func (m *machine) own(url int, ders ...[]byte) {
	for _, d := range ders {
		if d != nil {
			m.owners[sha256.Sum256(d)] = owner{url: url, seq: m.counter}
		}
	}
}

func statLine(p string) string {
	fi, err := os.Lstat(p)
	if err != nil {
		return "absent"
	}
	return fmt.Sprint(fi.Mode(), fi.Size(), fi.ModTime().UnixNano())
}

// judge compares one Get result with the model of URL i. After a failed Set the model holds
// alternatives (statement silent on whether a failed Set may have stored): one must match.
func (m *machine) judge(i int, r getResult) (key, msg, stateKind string, decodes bool) {
	alts, ok := m.model[i]
	if !ok {
		alts = []state{{kind: "absent"}}
	}
	stateKind = alts[len(alts)-1].kind
	if len(alts) > 1 {
		stateKind = "uncertain"
	}
	if k, s := judgeShape(r); k != "" {
		return k, s, stateKind, false
	}
	for n, s := range alts {
		var k, ms string
		switch s.kind {
		case "absent":
			k, ms = judgeAbsent(r)
		case "stored":
			k, ms = judgeStored(s.st, r, m.who(i))
		case "corrupted":
			var herr string
			k, ms, herr, decodes = judgeCorrupted(s, r, m.now)
			if herr != "" {
				m.harness("%s", herr)
			}
		}
		if k == "" {
			return "", "", stateKind, decodes
		}
		if n == 0 {
			key, msg = k, ms
		}
	}
	if len(alts) > 1 {
		msg += fmt.Sprintf(" (none of the %d states possible after a failed Set matches)", len(alts))
	}
	return key, msg, stateKind, decodes
}

func (m *machine) doGet(rt *rapid.T, i int, sweep bool) {
	b, err := m.cache.Get(ctx, m.urls[i])
	r := getResult{b, err}
	key, msg, sk, decodes := m.judge(i, r)
	if !sweep {
		m.touched[i], m.lastURL = true, i
		m.log.Ops = append(m.log.Ops, opLog{Op: "get", URL: i, Result: r.String()})
		m.fp = append(m.fp, fmt.Sprint("get:", i))
		m.cls["url="+m.kinds[i]]++
		m.cls["get-state="+sk]++
		switch {
		case err == nil:
			m.cls["op=get-hit"]++
			if b != nil && b.DeltaCRL != nil {
				m.cls["delta"]++
			}
		case strings.HasPrefix(r.String(), "miss"):
			m.cls["op=get-miss"]++
		default:
			m.cls["op=get-error"]++
		}
		if alts := m.model[i]; len(alts) == 1 && alts[0].kind == "stored" && !alts[0].st.spec.fresh() {
			m.cls["expired"]++
			sp := alts[0].st.spec
			switch {
			case sp.Base.fresh():
				m.cls["expired=delta-only"]++
			case sp.Delta != nil && sp.Delta.fresh():
				m.cls["expired=base-only"]++
			default:
				m.cls["expired=all"]++
			}
		}
		if sk == "corrupted" && decodes {
			m.cls["corrupt-still-decodes"]++
			if err == nil {
				m.cls["corrupt-bundle-returned"]++
			}
		}
	} else {
		m.cls["sweep-get"]++
		if err == nil {
			m.cls["sweep-get-hit"]++
		}
	}
	if key != "" {
		if sweep {
			m.log.Ops = append(m.log.Ops, opLog{Op: "sweep-get", URL: i, Result: r.String()})
			if m.lastURL != i {
				key += ":after-op-on-other-url" // the last operation did not name this URL
			}
		}
		m.fail(rt, key, fmt.Sprintf("Get(url[%d]=%q): %s", i, short(m.urls[i]), msg))
	}
}

func (m *machine) get(rt *rapid.T) { m.doGet(rt, m.pickURL(rt), false) }

func (m *machine) set(rt *rapid.T) {
	i := m.pickURL(rt)
	spec := drawBundle(rt, &m.counter)
	base, delta := mintBundle(m.now, spec)
	// a variant of what is stored under this URL right now: byte-identical base CRL with the
	// delta dropped, replaced or kept (a store that believes "nothing changed" must still end
	// up with exactly the bundle that was stored last)
	if prevStates := m.model[i]; len(prevStates) == 1 && prevStates[0].kind == "stored" && prevStates[0].st != nil {
		if variant := rp.Pick(rt, "variantOfStored", "", "", "", "same-base-no-delta", "same-base-new-delta", "identical"); variant != "" {
			pst := prevStates[0].st
			if pb, err := x509.ParseRevocationList(pst.base); err == nil {
				base, spec.Base = pb, pst.spec.Base
				switch variant {
				case "same-base-no-delta":
					delta, spec.Delta = nil, nil
				case "same-base-new-delta":
					m.counter += 2
					d := drawCRLSpec(rt, "variantDelta", m.counter+1)
					spec.Delta = &d
					delta = mintCRL(m.now, d, spec.Base.Number)
				case "identical":
					delta, spec.Delta = nil, nil
					if pst.delta != nil {
						if pd, err := x509.ParseRevocationList(pst.delta); err == nil {
							delta, spec.Delta = pd, pst.spec.Delta
						}
					}
				}
				m.cls["set-variant="+variant]++
			}
		}
	}
	st := &stored{spec: spec, base: base.Raw}
	bundle := &corecrl.Bundle{BaseCRL: base}
	if delta != nil {
		st.delta, bundle.DeltaCRL = delta.Raw, delta
	}
	m.own(i, st.base, st.delta)
	prev, had := m.model[i]
	err := m.cache.Set(ctx, m.urls[i], bundle)
	m.touched[i], m.lastURL = true, i
	m.cls["op=set"]++
	m.cls["url="+m.kinds[i]]++
	if spec.Delta != nil {
		m.cls["set-delta"]++
	}
	if !spec.fresh() {
		m.expiry = true
		m.cls["set-expired"]++
	}
	if had {
		m.cls["set-overwrite"]++
	}
	res := "ok"
	if err == nil {
		m.model[i] = []state{{kind: "stored", st: st}}
	} else {
		// The statement does not say what a failed Set leaves behind: the previous state and
		// the new bundle are both acceptable from now on.
		res = "error: " + short(err.Error())
		m.cls["set-error"]++
		onDir := false
		for _, a := range prev {
			onDir = onDir || a.isDir
		}
		if onDir {
			m.cls["set-error-on-dir"]++ // the harness put a directory in place of the entry file
		} else {
			m.cls["set-error-healthy"]++
		}
		if !had {
			prev = []state{{kind: "absent"}}
		}
		m.model[i] = append(append([]state{}, prev...), state{kind: "stored", st: st})
	}
	m.log.Ops = append(m.log.Ops, opLog{Op: "set", URL: i, Arg: spec.String(), Result: res})
	m.fp = append(m.fp, fmt.Sprintf("set:%d:%s/%d", i, spec.Base.NU, spec.Base.Entries))
	if spec.Delta != nil {
		m.fp = append(m.fp, fmt.Sprintf("+%s/%d", spec.Delta.NU, spec.Delta.Entries))
	}
}

// otherB64 mints one more fresh, distinguishable base CRL and returns its base64 text.
func (m *machine) otherB64(url int) func() []byte {
	return func() []byte {
		m.counter += 2
		l := mintCRL(m.now, crlSpec{NU: "+1y", Number: m.counter}, 0)
		m.own(url, l.Raw)
		return []byte(std.EncodeToString(l.Raw))
	}
}

func (m *machine) corrupt(rt *rapid.T) {
	i := m.pickURL(rt)
	path := filepath.Join(m.e.root, hexName(m.urls[i])) // located with the harness's own computation
	kind := rp.Pick(rt, "corruptKind", corruptKinds...)
	var src []byte
	from := "stored-file"
	if alts := m.model[i]; len(alts) == 1 && alts[0].kind == "stored" {
		if b, err := os.ReadFile(path); err == nil {
			src = b
		}
	}
	if src == nil {
		// nothing (usable) stored under this URL: start from a valid entry written by the harness
		from = "planted"
		spec := drawBundle(rt, &m.counter)
		base, delta := mintBundle(m.now, spec)
		var dr []byte
		if delta != nil {
			dr = delta.Raw
		}
		m.own(i, base.Raw, dr)
		src = ownEncode(base.Raw, dr)
		if !spec.fresh() {
			m.cls["planted-expired"]++
		}
	}
	out, isDir, desc := corruptBytes(rt, kind, src, m.otherB64(i))
	if err := os.RemoveAll(path); err != nil {
		m.harness("remove %s: %v", path, err)
	}
	if isDir {
		if err := os.Mkdir(path, 0o755); err != nil {
			m.harness("mkdir: %v", err)
		}
		if desc == "dir:with-file" {
			if err := os.WriteFile(filepath.Join(path, "baseCRL"), src, 0o600); err != nil {
				m.harness("write: %v", err)
			}
		}
		m.dirs[hexName(m.urls[i])] = true
	} else {
		if err := os.WriteFile(path, out, 0o600); err != nil {
			m.harness("write: %v", err)
		}
		delete(m.dirs, hexName(m.urls[i]))
	}
	m.model[i] = []state{{kind: "corrupted", file: out, isDir: isDir, ckind: desc}}
	m.touched[i], m.lastURL = true, i
	m.corrupted = true
	m.cls["op=corrupt"]++
	m.cls["corrupt="+kind]++
	m.cls["corrupt-source="+from]++
	m.cls["url="+m.kinds[i]]++
	m.log.Ops = append(m.log.Ops, opLog{Op: "corrupt", URL: i, Arg: desc + " of " + from})
	m.fp = append(m.fp, fmt.Sprintf("corrupt:%d:%s:%s", i, from, desc))
}

func (m *machine) reopen(rt *rapid.T) {
	form := rp.Pick(rt, "rootForm", "same", "same", "trailing-slash", "dot", "dotdot")
	root := m.e.root
	switch form {
	case "trailing-slash":
		root += "/"
	case "dot":
		root = filepath.Dir(m.e.root) + "/./cache"
	case "dotdot":
		root += "/../cache"
	}
	c, err := crl.NewFileCache(root)
	if err != nil {
		m.harness("NewFileCache(%q) on the existing root failed: %v", root, err)
	}
	m.cache = c
	m.reopened, m.lastURL = true, -1
	m.cls["op=reopen"]++
	m.cls["reopen="+form]++
	m.log.Ops = append(m.log.Ops, opLog{Op: "reopen", URL: -1, Arg: form})
	m.fp = append(m.fp, "reopen:"+form)
}

// invariant runs before the first and after every operation.
func (m *machine) invariant(rt *rapid.T) {
	// (1) nothing outside the cache root was created, removed or rewritten
	if s := snapshot(m.e); s != m.snap {
		m.fail(rt, "C15:escape:outside-root-changed", "the sandbox outside the cache root changed: "+diffSnapshots(m.snap, s))
	}
	if s := statLine("/etc/passwd"); s != m.pwd {
		m.fail(rt, "C15:escape:etc-passwd-changed", "/etc/passwd changed: "+m.pwd+" -> "+s)
	}
	// (2) the root holds only entry files of URLs that were used, named by 64 hex characters
	ents, err := os.ReadDir(m.e.root)
	if err != nil {
		m.fail(rt, "C15:root-contents:unreadable", "cache root cannot be listed: "+err.Error())
	}
	for _, en := range ents {
		n := en.Name()
		if hexRe.MatchString(n) {
			if _, ok := m.names[n]; !ok {
				m.fail(rt, "C15:root-contents:entry-of-no-url", fmt.Sprintf("root holds %q, which is not the file name of any URL that was used", n))
			}
			if en.Type().IsRegular() || (en.IsDir() && m.dirs[n]) {
				continue
			}
			m.fail(rt, "C15:root-contents:not-a-regular-file", fmt.Sprintf("root entry %q has type %v", n, en.Type()))
		}
		if strings.HasPrefix(n, "notation-") && en.Type().IsRegular() {
			// a left-over temporary inside the root is not excluded by the statement: counted only
			m.cls["leftover-temporary"]++
			continue
		}
		m.fail(rt, "C15:root-contents:unexpected-name", fmt.Sprintf("root holds %q (type %v): not a 64-hex entry name", n, en.Type()))
	}
	// (3) every URL of the working set still reads as the model says (an operation on one URL
	// must not change what another URL reads)
	for i := range m.urls {
		m.doGet(rt, i, true)
	}
}

var (
	sentinelOnce  sync.Once
	sentinelDER   []byte
	sentinelEntry []byte
)

// a valid, fresh entry planted outside the root (content of some sentinels)
func sentinel() ([]byte, []byte) {
	sentinelOnce.Do(func() {
		l := mintCRL(time.Now(), crlSpec{NU: "+1y", Number: 1, Entries: 1}, 0)
		sentinelDER, sentinelEntry = l.Raw, ownEncode(l.Raw, nil)
	})
	return sentinelDER, sentinelEntry
}

func runSequence(t *testing.T, rt *rapid.T, rec *stats.Recorder) {
	m := &machine{t: t, rec: rec, now: time.Now(), names: map[string]int{}, model: map[int][]state{}, dirs: map[string]bool{},
		owners: map[[32]byte]owner{}, cls: map[string]int64{}, touched: map[int]bool{}, counter: 10, lastURL: -1}
	sder, sentry := sentinel()
	e, err := buildSandbox(sentry)
	if e.sandbox != "" {
		defer os.RemoveAll(e.sandbox)
	}
	if err != nil {
		m.harness("sandbox: %v", err)
	}
	m.e = e
	m.owners[sha256.Sum256(sder)] = owner{url: -1}
	if m.cache, err = crl.NewFileCache(e.root); err != nil {
		m.harness("NewFileCache: %v", err)
	}
	m.snap, m.pwd = snapshot(e), statLine("/etc/passwd")

	hexOfMember := false
	for _, s := range drawWorkingSet(rt) {
		u := s.resolve(e)
		if _, dup := m.names[hexName(u)]; dup {
			continue
		}
		if s.Hex > 0 {
			if _, ok := m.names[u]; ok {
				hexOfMember = true // u is the entry file name of another member of the working set
			}
		}
		m.names[hexName(u)] = len(m.urls)
		m.urls = append(m.urls, u)
		m.kinds = append(m.kinds, s.kind())
		m.log.URLs = append(m.log.URLs, strconv.Quote(short(u)))
		m.fp = append(m.fp, fmt.Sprintf("u%d.%d", s.Base, s.Hex))
	}
	m.log.Root = e.root

	rt.Repeat(map[string]func(*rapid.T){
		"set": m.set, "set_": m.set, "get": m.get, "get_": m.get, "get__": m.get,
		"corrupt": m.corrupt, "reopen": m.reopen, "": m.invariant,
	})

	// one stats case per sequence, per-operation counters on top
	nt := len(m.touched) >= 2 || m.expiry || m.corrupted
	first := "seq=single-url-fresh"
	switch {
	case m.corrupted:
		first = "seq=with-corruption"
	case m.expiry:
		first = "seq=with-expiry"
	case len(m.touched) >= 2:
		first = "seq=multi-url"
	}
	classes := []string{first, fmt.Sprintf("seq:urls=%d", len(m.urls))}
	if m.reopened {
		classes = append(classes, "seq:reopen")
	}
	if hexOfMember {
		classes = append(classes, "seq:url-is-file-name-of-member")
	}
	if len(m.touched) >= 2 {
		classes = append(classes, "seq:touches>=2-urls")
	}
	if m.expiry {
		classes = append(classes, "seq:expiry")
	}
	if m.corrupted {
		classes = append(classes, "seq:corruption")
	}
	switch n := len(m.log.Ops); {
	case n == 0:
		classes = append(classes, "seq:ops=0")
	case n < 8:
		classes = append(classes, "seq:ops=1-7")
	case n < 20:
		classes = append(classes, "seq:ops=8-19")
	default:
		classes = append(classes, "seq:ops>=20")
	}
	rec.Case(classes, nt, stats.Fingerprint(strings.Join(m.fp, "|")), func() any { return m.log })
	keys := make([]string, 0, len(m.cls))
	for k := range m.cls {
		keys = append(keys, k)
	}
	sort.Strings(keys)
	for _, k := range keys {
		rec.Class(k, m.cls[k])
	}
}

func TestC15_StateMachine(t *testing.T) {
	rec := stats.New(t, "C15", rule)
	_ = flag.Set("rapid.steps", "15")
	rp.Check(t, 3000, 60000, func(rt *rapid.T) { runSequence(t, rt, rec) })
}

// ---------------------------------------------------------------------------------------
// arbitrary bytes as the entry file of a fixed URL

const fuzzURL = "http://example.com/fuzz.crl"

// entryChecker owns one sandbox with one cache root for a whole enumeration / fuzz process
// (creating directories is by far the most expensive step on this file system, and the check is
// stateless: the single entry file is rewritten for every input and a new FileCache is opened).
type entryChecker struct {
	sandbox, root, path string
}

func newEntryChecker() (*entryChecker, error) {
	sb, err := os.MkdirTemp("", "c15f-")
	if err != nil {
		return nil, err
	}
	root := filepath.Join(sb, "cache")
	return &entryChecker{sandbox: sb, root: root, path: filepath.Join(root, hexName(fuzzURL))}, nil
}

func (ec *entryChecker) close() { os.RemoveAll(ec.sandbox) }

// check writes data as the entry file of fuzzURL and judges Get on a new FileCache: it must not
// panic and returns an error, or a bundle equal to what the harness's own decoder reads from
// data (and not clearly expired).
func (ec *entryChecker) check(data []byte, now time.Time) (key, msg, harnessErr string, classes []string) {
	c, err := crl.NewFileCache(ec.root)
	if err != nil {
		return "", "", "NewFileCache: " + err.Error(), nil
	}
	if err := os.WriteFile(ec.path, data, 0o600); err != nil {
		return "", "", "write: " + err.Error(), nil
	}
	b, gerr := c.Get(ctx, fuzzURL)
	r := getResult{b, gerr}
	var decodes bool
	if key, msg = judgeShape(r); key == "" {
		key, msg, harnessErr, decodes = judgeCorrupted(state{kind: "corrupted", file: data, ckind: "arbitrary bytes"}, r, now)
	}
	switch {
	case gerr == nil:
		classes = append(classes, "entry-get=bundle")
	case strings.HasPrefix(r.String(), "miss"):
		classes = append(classes, "entry-get=miss")
	default:
		classes = append(classes, "entry-get=error")
	}
	if decodes {
		classes = append(classes, "entry=decodes")
	} else {
		classes = append(classes, "entry=malformed")
	}
	// (whether Get may rewrite or remove an entry file it cannot use is outside the statement:
	// the file is simply rewritten for the next input)
	return key, msg, harnessErr, classes
}

type seed struct {
	name string
	data []byte
}

func fuzzSeeds(now time.Time) []seed {
	mk := func(b bundleSpec) []byte {
		base, delta := mintBundle(now, b)
		if delta != nil {
			return ownEncode(base.Raw, delta.Raw)
		}
		return ownEncode(base.Raw, nil)
	}
	d := func(nu string, n int64) *crlSpec { return &crlSpec{NU: nu, Number: n, Entries: 1} }
	return []seed{
		{"fresh-base", mk(bundleSpec{Base: crlSpec{NU: "+1y", Number: 2}})},
		{"fresh-base+delta", mk(bundleSpec{Base: crlSpec{NU: "+1h", Number: 4, Entries: 2}, Delta: d("+1y", 5)})},
		{"fresh-base+expired-delta", mk(bundleSpec{Base: crlSpec{NU: "+1y", Number: 6}, Delta: d("-1h", 7)})},
		{"expired-base", mk(bundleSpec{Base: crlSpec{NU: "-1h", Number: 8}})},
		{"expired-base+fresh-delta", mk(bundleSpec{Base: crlSpec{NU: "-1y", Number: 10}, Delta: d("+1y", 11)})},
		{"empty-object", []byte(`{}`)},
		{"empty", []byte{}},
	}
}

type seedCase struct {
	Seed     string `json:"seed"`
	Mutation string `json:"mutation"`
	File     []byte `json:"file"`
}

func TestC15_FuzzSeeds(t *testing.T) {
	rec := stats.New(t, "C15", ruleSeeds)
	now := time.Now()
	ec, err := newEntryChecker()
	if err != nil {
		t.Fatalf("harness: %v", err)
	}
	defer ec.close()
	run := func(c seedCase) {
		key, msg, herr, classes := ec.check(c.File, now)
		if herr != "" {
			t.Fatalf("harness: %s (seed %s, mutation %s)", herr, c.Seed, c.Mutation)
		}
		classes = append([]string{"entry-seed=" + c.Seed, "entry-mutation=" + kindOf(c.Mutation)}, classes...)
		rec.Case(classes, c.Mutation != "none", stats.Fingerprint(c.Seed, c.Mutation), func() any {
			return map[string]string{"seed": c.Seed, "mutation": c.Mutation, "file": short(string(c.File))}
		})
		if key != "" {
			rec.Failf(t, key+":entry-bytes", c, "seed %s, mutation %s: %s", c.Seed, c.Mutation, msg)
		}
	}
	var rc seedCase
	if rp.ReplayCase(&rc) && rc.Seed != "" {
		run(rc)
		return
	}
	// sharded by the case description, not by position: the seeds are minted per process and
	// their lengths differ by a few bytes between processes
	shard, shards := stats.Shard()
	each := func(c seedCase) {
		if int(stats.Fingerprint(c.Seed, c.Mutation)%uint64(shards)) == shard {
			run(c)
		}
	}
	// quick tier: all single-bit flips for the two fresh seeds, one bit per byte (rotating) for the
	// others; thorough tier: all bits everywhere
	allBits := func(name string) bool {
		return stats.Tier() == "thorough" || name == "fresh-base" || name == "fresh-base+delta"
	}
	for _, s := range fuzzSeeds(now) {
		each(seedCase{s.name, "none", s.data})
		// truncation at every offset (hence at every structural boundary)
		for o := 0; o < len(s.data); o++ {
			each(seedCase{s.name, fmt.Sprintf("trunc@%d", o), s.data[:o]})
		}
		// every single-bit flip
		for i := range s.data {
			for b := 0; b < 8; b++ {
				if allBits(s.name) || b == i%8 {
					each(seedCase{s.name, fmt.Sprintf("flip@%d.%d", i, b), flipBit(s.data, i, b)})
				}
			}
		}
		// every single-bit flip of the DER of each CRL (JSON and base64 stay well-formed)
		sp := findSpans(s.data)
		for _, v := range []struct {
			name   string
			ok     bool
			v0, v1 int
		}{{"base", sp.ok, sp.bv0, sp.bv1}, {"delta", sp.ok && sp.hasDelta, sp.dv0, sp.dv1}} {
			if !v.ok {
				continue
			}
			der, err := std.DecodeString(string(s.data[v.v0:v.v1]))
			if err != nil {
				t.Fatalf("harness: seed %s is not base64: %v", s.name, err)
			}
			for i := range der {
				for b := 0; b < 8; b++ {
					if allBits(s.name) || b == i%8 {
						each(seedCase{s.name, fmt.Sprintf("derflip:%s@%d.%d", v.name, i, b),
							splice(s.data, v.v0, v.v1, []byte(std.EncodeToString(flipBit(der, i, b))))})
					}
				}
			}
		}
	}
	rec.Set("single_bit_flips_all_seeds", stats.Tier() == "thorough")
}

// readCorpusFile reads a Go fuzz corpus file holding one []byte value.
func readCorpusFile(p string) ([]byte, bool) {
	b, err := os.ReadFile(p)
	if err != nil {
		return nil, false
	}
	lines := strings.Split(strings.TrimSpace(string(b)), "\n")
	if len(lines) < 2 || !strings.HasPrefix(lines[0], "go test fuzz v1") {
		return b, true // not a corpus file: take the raw bytes
	}
	l := strings.TrimSpace(lines[1])
	if !strings.HasPrefix(l, "[]byte(") || !strings.HasSuffix(l, ")") {
		return nil, false
	}
	s, err := strconv.Unquote(l[len("[]byte(") : len(l)-1])
	if err != nil {
		return nil, false
	}
	return []byte(s), true
}

func FuzzC15_CacheEntry(f *testing.F) {
	rec := stats.New(f, "C15", ruleSeeds)
	now := time.Now()
	for _, s := range fuzzSeeds(now) {
		f.Add(s.data)
	}
	if p := os.Getenv("VERIF_FUZZ_INPUT"); p != "" {
		b, ok := readCorpusFile(p)
		if !ok {
			f.Fatalf("harness: cannot read fuzz input %s", p)
		}
		f.Add(b)
	}
	ec, err := newEntryChecker()
	if err != nil {
		f.Fatalf("harness: %v", err)
	}
	f.Cleanup(ec.close)
	f.Fuzz(func(t *testing.T, data []byte) {
		key, msg, herr, _ := ec.check(data, now)
		if herr != "" {
			t.Fatalf("harness: %s", herr)
		}
		if key != "" {
			rec.Failf(t, key+":entry-bytes", seedCase{"fuzz", "fuzz", data}, "%s", msg)
		}
	})
}
