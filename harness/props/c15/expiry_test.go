package c15

import (
	"context"
	"crypto/x509"
	"crypto/x509/pkix"
	"encoding/asn1"
	"math/big"
	"errors"
	"fmt"
	"os"
	"sync"
	"testing"
	"time"

	corecrl "github.com/notaryproject/notation-core-go/revocation/crl"
	"github.com/notaryproject/notation-go/verifier/crl"

	"verifharness/internal/pki"
	"verifharness/internal/stats"
)

// TestC15_ExpiryCrossing: "returned only while neither CRL has passed its next-update time;
// afterwards a cache miss" also holds for a bundle that was fresh at an earlier Get of the SAME
// cache value: the clock is the only thing that changes between the two reads. The random state
// machine keeps next-update times hours away from the wall clock (so that the clock cannot flip a
// verdict); this companion lets real time cross a next-update time that is three seconds away -
// once for the base CRL, once for the delta CRL. Runs in one shard, both cases in parallel.
func TestC15_ExpiryCrossing(t *testing.T) {
	rec := stats.New(t, "C15", rule)
	if s, n := stats.Shard(); s != 1%n {
		t.Skip("runs in one shard")
	}
	var wg sync.WaitGroup
	var mu sync.Mutex
	type res struct{ key, msg, which string }
	var results []res
	for _, which := range []string{"base", "delta"} {
		which := which
		wg.Add(1)
		go func() {
			defer wg.Done()
			key, msg := expiryCrossing(which)
			mu.Lock()
			results = append(results, res{key, msg, which})
			mu.Unlock()
		}()
	}
	wg.Wait()
	for _, r := range results {
		cl := []string{"expiry-crossing", "expiry-crossing=" + r.which}
		if r.key == "skipped" {
			cl = append(cl, "expiry-crossing-not-observed-fresh")
		}
		rec.Case(cl, r.key != "skipped", stats.Fingerprint("expiry-crossing", r.which), func() any { return r.which })
		switch r.key {
		case "", "skipped":
		case "harness":
			t.Fatalf("harness: %s", r.msg)
		default:
			rec.Failf(t, r.key, r.which, "%s", r.msg)
		}
	}
}

func expiryCrossing(which string) (key, msg string) {
	root, err := os.MkdirTemp("", "c15-expiry-")
	if err != nil {
		return "harness", err.Error()
	}
	defer os.RemoveAll(root)
	cache, err := crl.NewFileCache(root)
	if err != nil {
		return "harness", err.Error()
	}
	now := time.Now()
	soon := now.Truncate(time.Second).Add(3 * time.Second)
	far := now.Add(time.Hour)
	nuBase, nuDelta := far, far
	if which == "base" {
		nuBase = soon
	} else {
		nuDelta = soon
	}
	mk := func(number int64, nu time.Time, deltaOf int64) (*x509.RevocationList, error) {
		spec := crlSpec{NU: "+1h", Entries: 1, Number: number}
		rl := mintCRLAt(spec, nu, deltaOf)
		return x509.ParseRevocationList(rl)
	}
	base, err := mk(7001, nuBase, 0)
	if err != nil {
		return "harness", err.Error()
	}
	delta, err := mk(7002, nuDelta, 7001)
	if err != nil {
		return "harness", err.Error()
	}
	const url = "http://crl.example/expiry-crossing.crl"
	ctx := context.Background()
	if err := cache.Set(ctx, url, &corecrl.Bundle{BaseCRL: base, DeltaCRL: delta}); err != nil {
		return "harness", "Set: " + err.Error()
	}
	b1, err1 := cache.Get(ctx, url)
	if !time.Now().Before(soon.Add(-300 * time.Millisecond)) {
		return "skipped", "" // the machine was too slow to read the entry while it was clearly fresh
	}
	if err1 != nil || b1 == nil {
		// "returned only while ... has not passed": the statement does not oblige the cache to return an
		// entry that is about to expire, so a miss here is not judged - the case just shows nothing
		_ = fmt.Sprint
		return "skipped", ""
	}
	time.Sleep(time.Until(soon.Add(1200 * time.Millisecond)))
	b2, err2 := cache.Get(ctx, url)
	if err2 == nil && b2 != nil {
		return "C15:expiry-crossing:expired-bundle-returned:" + which, fmt.Sprintf("the %s CRL's next-update time %s has passed (now %s), yet the same cache value still returns the bundle it returned while it was fresh", which, soon.Format(time.RFC3339), time.Now().Format(time.RFC3339Nano))
	}
	if !errors.Is(err2, corecrl.ErrCacheMiss) {
		return "C15:expiry-crossing:not-a-miss:" + which, fmt.Sprintf("after expiry Get gave %v instead of a cache miss", err2)
	}
	return "", ""
}

// mintCRLAt mints a CRL of theCA() with an explicit next-update time.
func mintCRLAt(s crlSpec, nu time.Time, deltaOf int64) []byte {
	var extra []pkix.Extension
	if deltaOf > 0 {
		v, err := asn1.Marshal(big.NewInt(deltaOf))
		if err != nil {
			panic(err)
		}
		extra = append(extra, pkix.Extension{Id: oidDeltaCRLIndicator, Critical: true, Value: v})
	}
	return pki.CRL(theCA(), s.Number, nu.Add(-24*time.Hour), nu, s.Entries, extra).Raw
}
