package c08

import (
	"context"
	"errors"
	"fmt"
	"testing"

	"github.com/notaryproject/notation-go"
	ocispec "github.com/opencontainers/image-spec/specs-go/v1"
	"verifharness/internal/mocks"

	"pgregory.net/rapid"

	"github.com/notaryproject/notation-go/verifier"
	"github.com/notaryproject/notation-go/verifier/truststore"
	"verifharness/internal/kit"
	"verifharness/internal/rp"
	"verifharness/internal/stats"
)

// TestC08_UniqueFallback: the fallback of the selection is THE wildcard statement (OCI) / THE
// global statement (blob): "unique" and "single" are part of the statement. A document that
// carries two of them has no well-defined fallback; it must not be usable - Validate and the
// verifier constructors refuse it - because otherwise the statement applied to an unlisted
// reference depends on the order of the statements. (C09 judges document validity in general;
// here only the one rule that C08's selection rests on.)
func TestC08_UniqueFallback(t *testing.T) {
	rec := stats.New(t, "C08", rule)
	rp.Check(t, 300, 20000, func(rt *rapid.T) {
		kind := rp.Pick(rt, "kind", "oci", "oci", "blob")
		var stmts []Stmt
		var err, cerr error
		if kind == "oci" {
			d := genOCIDoc(rt, true)
			stmts = d.Stmts
			have := 0
			for _, s := range stmts {
				if len(s.Scopes) == 1 && s.Scopes[0] == "*" {
					have++
				}
			}
			for i := 0; have < 2 || (i == 0 && rapid.IntRange(0, 4).Draw(rt, "third") == 0); i++ {
				s := genBody(rt, fmt.Sprintf("extra-wildcard-%d", i), fmt.Sprintf("w%d", i), true)
				s.Scopes = []string{"*"}
				at := rapid.IntRange(0, len(stmts)).Draw(rt, "at")
				stmts = append(stmts[:at:at], append([]Stmt{s}, stmts[at:]...)...)
				have++
			}
			doc := buildOCI(stmts, nil)
			err = doc.Validate()
			opts := kit.Options()
			opts.OCITrustPolicy = doc
			_, cerr = verifier.NewVerifierWithOptions(truststore.NewX509TrustStore(nil), opts)
		} else {
			stmts = genBlobStmts(rt, true, true)
			s := genBody(rt, "extra-global", "g", false)
			s.Global = true
			at := rapid.IntRange(0, len(stmts)).Draw(rt, "at")
			stmts = append(stmts[:at:at], append([]Stmt{s}, stmts[at:]...)...)
			doc := buildBlob(stmts, nil)
			err = doc.Validate()
			opts := kit.Options()
			opts.BlobTrustPolicy = doc
			_, cerr = verifier.NewVerifierWithOptions(truststore.NewX509TrustStore(nil), opts)
		}
		c := Case{Family: "unique-fallback", Kind: kind, Stmts: stmts}
		rec.Case([]string{"two-fallback-statements", "two-fallback-statements:" + kind}, true, stats.Fingerprint("unique", kind, docSig(stmts)), func() any { return c })
		if err == nil {
			rec.Failf(rt, "C08:"+kind+":two-fallback-statements-accepted:validate", c, "Validate accepts a %s document with more than one %s statement: the fallback for unlisted references is not unique", kind, map[string]string{"oci": "wildcard", "blob": "global"}[kind])
		}
		if cerr == nil {
			rec.Failf(rt, "C08:"+kind+":two-fallback-statements-accepted:constructor", c, "a verifier can be constructed from a %s document with more than one fallback statement", kind)
		}
	})
}

// failingRepo is a registry that cannot be reached (or does not hold the artifact).
type failingRepo struct{ contacted []string }

func (r *failingRepo) Resolve(ctx context.Context, ref string) (ocispec.Descriptor, error) {
	r.contacted = append(r.contacted, "resolve:"+ref)
	return ocispec.Descriptor{}, errors.New("scripted: registry unreachable")
}
func (r *failingRepo) ListSignatures(ctx context.Context, d ocispec.Descriptor, fn func([]ocispec.Descriptor) error) error {
	r.contacted = append(r.contacted, "list")
	return errors.New("scripted: registry unreachable")
}
func (r *failingRepo) FetchSignatureBlob(ctx context.Context, d ocispec.Descriptor) ([]byte, ocispec.Descriptor, error) {
	r.contacted = append(r.contacted, "fetch")
	return nil, ocispec.Descriptor{}, errors.New("scripted: registry unreachable")
}
func (r *failingRepo) PushSignature(ctx context.Context, mediaType string, blob []byte, subject ocispec.Descriptor, annotations map[string]string) (ocispec.Descriptor, ocispec.Descriptor, error) {
	return ocispec.Descriptor{}, ocispec.Descriptor{}, errors.New("scripted: registry unreachable")
}

// TestC08_RefusalThroughTheRegistryEntryPoint: "failing that, verification is refused with a
// no-applicable-policy error" - also through notation.Verify, and whatever state the registry is
// in: which statement applies is a matter of the reference and the document alone. References
// that no statement covers are verified against a registry that cannot be reached; the error
// must be the no-applicable-policy error.
func TestC08_RefusalThroughTheRegistryEntryPoint(t *testing.T) {
	rec := stats.New(t, "C08", rule)
	rp.Check(t, 400, 20000, func(rt *rapid.T) {
		d := genOCIDoc(rt, true)
		ref := genRef(rt, d)
		want, how := modelOCI(d.Stmts, ref.Text)
		c := Case{Family: "registry-entry", Kind: "oci", Stmts: d.Stmts, Ref: ref.Text, RefKind: ref.Kind, Lenient: ref.Lenient, Via: "notation.Verify"}
		cl := []string{"via=notation.Verify-unreachable-registry", "registry-entry:hit=" + how}
		rec.Case(cl, how == "none", stats.Fingerprint("registry-entry", docSig(d.Stmts), ref.Text), func() any { return c })
		if how != "none" || ref.Lenient || want >= 0 {
			return // a statement applies (or the statement is silent about this reference): C10's business
		}
		opts := kit.Options()
		opts.OCITrustPolicy = buildOCI(d.Stmts, nil)
		v, err := verifier.NewVerifierWithOptions(mocks.NewTrustStore(), opts)
		if err != nil {
			rt.Fatalf("harness: verifier construction rejected a generated document: %v", err)
		}
		repo := &failingRepo{}
		_, _, verr := notation.Verify(context.Background(), v, repo, notation.VerifyOptions{ArtifactReference: ref.Text, MaxSignatureAttempts: 3})
		var noPolicy notation.ErrorNoApplicableTrustPolicy
		if verr == nil || !errors.As(verr, &noPolicy) {
			rec.Failf(rt, "C08:registry-entry:not-refused-with-no-applicable-policy", c, "no statement applies to %q, notation.Verify over an unreachable registry returned %T (%v), not ErrorNoApplicableTrustPolicy (registry contacted: %v)", ref.Text, verr, verr, repo.contacted)
		}
	})
}
