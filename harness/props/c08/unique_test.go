package c08

import (
	"fmt"
	"testing"

	"pgregory.net/rapid"

	"github.com/notaryproject/notation-go/verifier"
	"github.com/notaryproject/notation-go/verifier/truststore"
	"verifharness/internal/kit"
	"verifharness/internal/rp"
	"verifharness/internal/stats"
)

// TestC08_UniqueFallback: the fallback of the selection is THE wildcard statement (OCI) / THE
// global statement (blob): "unique" and "single" are part of the statement. A document that
// carries two of them has no well-defined fallback; it must not be usable - Validate and the
// verifier constructors refuse it - because otherwise the statement applied to an unlisted
// reference depends on the order of the statements. (C09 judges document validity in general;
// here only the one rule that C08's selection rests on.)
func TestC08_UniqueFallback(t *testing.T) {
	rec := stats.New(t, "C08", rule)
	rp.Check(t, 300, 20000, func(rt *rapid.T) {
		kind := rp.Pick(rt, "kind", "oci", "oci", "blob")
		var stmts []Stmt
		var err, cerr error
		if kind == "oci" {
			d := genOCIDoc(rt, true)
			stmts = d.Stmts
			have := 0
			for _, s := range stmts {
				if len(s.Scopes) == 1 && s.Scopes[0] == "*" {
					have++
				}
			}
			for i := 0; have < 2 || (i == 0 && rapid.IntRange(0, 4).Draw(rt, "third") == 0); i++ {
				s := genBody(rt, fmt.Sprintf("extra-wildcard-%d", i), fmt.Sprintf("w%d", i), true)
				s.Scopes = []string{"*"}
				at := rapid.IntRange(0, len(stmts)).Draw(rt, "at")
				stmts = append(stmts[:at:at], append([]Stmt{s}, stmts[at:]...)...)
				have++
			}
			doc := buildOCI(stmts, nil)
			err = doc.Validate()
			opts := kit.Options()
			opts.OCITrustPolicy = doc
			_, cerr = verifier.NewVerifierWithOptions(truststore.NewX509TrustStore(nil), opts)
		} else {
			stmts = genBlobStmts(rt, true, true)
			s := genBody(rt, "extra-global", "g", false)
			s.Global = true
			at := rapid.IntRange(0, len(stmts)).Draw(rt, "at")
			stmts = append(stmts[:at:at], append([]Stmt{s}, stmts[at:]...)...)
			doc := buildBlob(stmts, nil)
			err = doc.Validate()
			opts := kit.Options()
			opts.BlobTrustPolicy = doc
			_, cerr = verifier.NewVerifierWithOptions(truststore.NewX509TrustStore(nil), opts)
		}
		c := Case{Family: "unique-fallback", Kind: kind, Stmts: stmts}
		rec.Case([]string{"two-fallback-statements", "two-fallback-statements:" + kind}, true, stats.Fingerprint("unique", kind, docSig(stmts)), func() any { return c })
		if err == nil {
			rec.Failf(rt, "C08:"+kind+":two-fallback-statements-accepted:validate", c, "Validate accepts a %s document with more than one %s statement: the fallback for unlisted references is not unique", kind, map[string]string{"oci": "wildcard", "blob": "global"}[kind])
		}
		if cerr == nil {
			rec.Failf(rt, "C08:"+kind+":two-fallback-statements-accepted:constructor", c, "a verifier can be constructed from a %s document with more than one fallback statement", kind)
		}
	})
}
