// C08, part 3: the statement handed out is a private copy. Every reachable place of the
// returned statement is changed; afterwards the document must be deep-equal to an independent
// build of the same structured form and a new selection must return what it returned before.
package c08

import (
	"errors"
	"fmt"
	"reflect"
	"testing"

	"github.com/notaryproject/notation-go/verifier/trustpolicy"
	"pgregory.net/rapid"

	"verifharness/internal/rp"
	"verifharness/internal/stats"
)

// handle gives the mutators uniform access to the fields of a handed-out statement.
type handle struct {
	name   *string
	sv     *trustpolicy.SignatureVerification
	stores *[]string
	ids    *[]string
	scopes *[]string // nil for blob statements
	global *bool     // nil for OCI statements
}

type place struct {
	name   string              // the mutated place (recorded as class place=<name>)
	key    string              // finding key is C08:privacy:<key>
	mutate func(h handle) bool // false: not applicable to this statement
}

func setElems(p *[]string, v string) bool {
	if p == nil || len(*p) == 0 {
		return false
	}
	for i := range *p {
		(*p)[i] = fmt.Sprintf("%s-%d", v, i)
	}
	return true
}

func appendElems(p *[]string, v string) bool {
	if p == nil {
		return false
	}
	// three elements: enough to run over the end of a shared window into the neighbouring lists
	*p = append(*p, v+"-1", v+"-2", v+"-3")
	return true
}

var places = []place{
	{"name", "name-shared", func(h handle) bool { *h.name += "~changed"; return true }},
	{"level", "level-shared", func(h handle) bool {
		if h.sv.VerificationLevel == "skip" {
			h.sv.VerificationLevel = "strict"
		} else {
			h.sv.VerificationLevel = "skip"
		}
		return true
	}},
	{"verifyTimestamp", "verifytimestamp-shared", func(h handle) bool {
		if h.sv.VerifyTimestamp == trustpolicy.OptionAlways {
			h.sv.VerifyTimestamp = trustpolicy.OptionAfterCertExpiry
		} else {
			h.sv.VerifyTimestamp = trustpolicy.OptionAlways
		}
		return true
	}},
	{"globalPolicy", "globalflag-shared", func(h handle) bool {
		if h.global == nil {
			return false
		}
		*h.global = !*h.global
		return true
	}},
	{"override-map/change-values", "override-map-shared", func(h handle) bool {
		if len(h.sv.Override) == 0 {
			return false
		}
		for k, v := range h.sv.Override { // every entry is changed, so iteration order is immaterial
			if v == trustpolicy.ActionLog {
				h.sv.Override[k] = trustpolicy.ActionEnforce
			} else {
				h.sv.Override[k] = trustpolicy.ActionLog
			}
		}
		return true
	}},
	{"override-map/add-key", "override-map-shared", func(h handle) bool {
		if h.sv.Override == nil {
			h.sv.Override = map[trustpolicy.ValidationType]trustpolicy.ValidationAction{}
		}
		for _, typ := range append(append([]string{}, overridable...), "integrity", "added") {
			if _, ok := h.sv.Override[trustpolicy.ValidationType(typ)]; !ok {
				h.sv.Override[trustpolicy.ValidationType(typ)] = trustpolicy.ActionLog
				return true
			}
		}
		return false
	}},
	{"override-map/delete-keys", "override-map-shared", func(h handle) bool {
		if len(h.sv.Override) == 0 {
			return false
		}
		for k := range h.sv.Override {
			delete(h.sv.Override, k)
		}
		return true
	}},
	{"registryScopes/elements", "registryscopes-elements-shared", func(h handle) bool { return setElems(h.scopes, "changed.example/scope") }},
	{"registryScopes/append", "registryscopes-append-shared", func(h handle) bool { return appendElems(h.scopes, "appended.example/scope") }},
	{"trustStores/elements", "truststores-elements-shared", func(h handle) bool { return setElems(h.stores, "ca:changed") }},
	{"trustStores/append", "truststores-append-shared", func(h handle) bool { return appendElems(h.stores, "ca:appended") }},
	{"trustedIdentities/elements", "trustedidentities-elements-shared", func(h handle) bool { return setElems(h.ids, "x509.subject: C=US, ST=WA, O=changed, CN=x") }},
	{"trustedIdentities/append", "trustedidentities-append-shared", func(h handle) bool { return appendElems(h.ids, "x509.subject: C=US, ST=WA, O=appended, CN=x") }},
}

// subject is a document under the privacy test.
type subject interface {
	reset()                     // (re)build document and snapshot from the structured form
	pick() (any, handle, error) // select on the current document
	deep(stmt any) any          // the harness's own deep copy of a handed-out statement
	diff() string               // "" when the document is deep-equal to the snapshot
}

func cpStrs(s []string) []string {
	if s == nil {
		return nil
	}
	out := make([]string, len(s))
	copy(out, s)
	return out
}

func cpSV(sv trustpolicy.SignatureVerification) trustpolicy.SignatureVerification {
	out := sv
	if sv.Override != nil {
		out.Override = make(map[trustpolicy.ValidationType]trustpolicy.ValidationAction, len(sv.Override))
		for k, v := range sv.Override {
			out.Override[k] = v
		}
	}
	return out
}

var errNilStatement = errors.New("selection returned neither a statement nor an error")

type ociSubject struct {
	stmts     []Stmt
	perm      []int
	ref       string
	doc, snap *trustpolicy.OCIDocument
}

func (s *ociSubject) reset() { s.doc, s.snap = buildOCI(s.stmts, s.perm), buildOCI(s.stmts, s.perm) }

func (s *ociSubject) pick() (any, handle, error) {
	p, err := s.doc.GetApplicableTrustPolicy(s.ref)
	if err != nil {
		return nil, handle{}, err
	}
	if p == nil {
		return nil, handle{}, errNilStatement
	}
	return p, handle{name: &p.Name, sv: &p.SignatureVerification, stores: &p.TrustStores, ids: &p.TrustedIdentities, scopes: &p.RegistryScopes}, nil
}

func (s *ociSubject) deep(x any) any {
	p := x.(*trustpolicy.OCITrustPolicy)
	return &trustpolicy.OCITrustPolicy{Name: p.Name, SignatureVerification: cpSV(p.SignatureVerification),
		TrustStores: cpStrs(p.TrustStores), TrustedIdentities: cpStrs(p.TrustedIdentities), RegistryScopes: cpStrs(p.RegistryScopes)}
}

func (s *ociSubject) diff() string {
	if reflect.DeepEqual(s.doc, s.snap) {
		return ""
	}
	if len(s.doc.TrustPolicies) != len(s.snap.TrustPolicies) || s.doc.Version != s.snap.Version {
		return "version or number of statements"
	}
	for i := range s.doc.TrustPolicies {
		a, b := s.doc.TrustPolicies[i], s.snap.TrustPolicies[i]
		if !reflect.DeepEqual(a, b) {
			return fmt.Sprintf("statement #%d (%q) is now %+v, was %+v", i, b.Name, a, b)
		}
	}
	return "unlocated difference"
}

type blobSubject struct {
	stmts     []Stmt
	perm      []int
	name      string // "" = the global statement
	doc, snap *trustpolicy.BlobDocument
}

func (s *blobSubject) reset() { s.doc, s.snap = buildBlob(s.stmts, s.perm), buildBlob(s.stmts, s.perm) }

func (s *blobSubject) pick() (any, handle, error) {
	var p *trustpolicy.BlobTrustPolicy
	var err error
	if s.name == "" {
		p, err = s.doc.GetGlobalTrustPolicy()
	} else {
		p, err = s.doc.GetApplicableTrustPolicy(s.name)
	}
	if err != nil {
		return nil, handle{}, err
	}
	if p == nil {
		return nil, handle{}, errNilStatement
	}
	return p, handle{name: &p.Name, sv: &p.SignatureVerification, stores: &p.TrustStores, ids: &p.TrustedIdentities, global: &p.GlobalPolicy}, nil
}

func (s *blobSubject) deep(x any) any {
	p := x.(*trustpolicy.BlobTrustPolicy)
	return &trustpolicy.BlobTrustPolicy{Name: p.Name, SignatureVerification: cpSV(p.SignatureVerification),
		TrustStores: cpStrs(p.TrustStores), TrustedIdentities: cpStrs(p.TrustedIdentities), GlobalPolicy: p.GlobalPolicy}
}

func (s *blobSubject) diff() string {
	if reflect.DeepEqual(s.doc, s.snap) {
		return ""
	}
	if len(s.doc.TrustPolicies) != len(s.snap.TrustPolicies) || s.doc.Version != s.snap.Version {
		return "version or number of statements"
	}
	for i := range s.doc.TrustPolicies {
		a, b := s.doc.TrustPolicies[i], s.snap.TrustPolicies[i]
		if !reflect.DeepEqual(a, b) {
			return fmt.Sprintf("statement #%d (%q) is now %+v, was %+v", i, b.Name, a, b)
		}
	}
	return "unlocated difference"
}

// runPrivacy mutates, one place at a time, the statement handed out for the case.
func runPrivacy(t *testing.T, f stats.Failer, rec *stats.Recorder, c Case, s subject) {
	s.reset()
	if d := s.diff(); d != "" {
		t.Fatalf("harness: two builds of the same structured document differ: %s", d)
	}
	first, _, err := s.pick()
	if err != nil {
		// the generator only asks for references / names that select a statement; a refusal here is a
		// selection failure, reported under the selection clause
		rec.Failf(f, "C08:privacy:applicable-statement-refused", c, "selection of an applicable statement for %q failed: %v", c.Ref, err)
		return
	}
	before := s.deep(first)
	if !reflect.DeepEqual(first, before) {
		t.Fatalf("harness: deep copy of a handed-out statement is not deep-equal to it: %+v vs %+v", first, before)
	}
	for _, pl := range places {
		cc := c
		cc.Place = pl.name
		p, h, err := s.pick()
		if err != nil || !reflect.DeepEqual(p, before) {
			rec.Failf(f, "C08:privacy:reselect-differs", cc, "selecting again for %q on an unchanged document returned %+v (err %v), the first selection returned %+v", c.Ref, p, err, before)
			s.reset()
			continue
		}
		if !pl.mutate(h) {
			continue
		}
		rec.Class("place="+pl.name, 1)
		if d := s.diff(); d != "" {
			rec.Failf(f, "C08:privacy:"+pl.key, cc, "changing %s of the statement handed out for %q changed the document: %s", pl.name, c.Ref, d)
			// listed known finding: restore the document and go on with the remaining places
			s.reset()
			continue
		}
		again, _, err := s.pick()
		if err != nil || !reflect.DeepEqual(again, before) {
			rec.Failf(f, "C08:privacy:reselect-differs", cc, "after changing %s of the statement handed out for %q a new selection returned %+v (err %v), before the change it returned %+v", pl.name, c.Ref, again, err, before)
			s.reset()
		}
	}
}

func overrideClass(s Stmt) string {
	switch {
	case len(s.Override) > 0:
		return "override=set"
	case s.EmptyOverride:
		return "override=empty-map"
	}
	return "override=nil"
}

// TestC08_Privacy: generated documents, a reference / name that selects a statement (exact,
// wildcard, named blob, global blob), a generated permutation; all places mutated.
func TestC08_Privacy(t *testing.T) {
	rec := stats.New(t, "C08", rule)
	rp.Check(t, 16000, 400000, func(rt *rapid.T) {
		kind := rp.Pick(rt, "kind", "oci", "oci", "blob", "global")
		var c Case
		var s subject
		var target Stmt
		how := ""
		if kind == "oci" {
			d := genOCIDoc(rt, true)
			perm := perms(len(d.Stmts))[rapid.IntRange(0, len(perms(len(d.Stmts)))-1).Draw(rt, "perm")]
			ti := rapid.IntRange(0, len(d.Stmts)-1).Draw(rt, "target")
			target = d.Stmts[ti]
			var ref string
			if isWildcardStmt(target) {
				// a well-formed repository no pool can produce, hence unlisted: falls to the wildcard statement
				ref, how = sc("unlisted.example", "", "zz").String()+"@"+dig256, "wildcard"
			} else {
				ref, how = target.Scopes[rapid.IntRange(0, len(target.Scopes)-1).Draw(rt, "scopeIdx")]+"@"+dig256, "exact"
			}
			c = Case{Family: "privacy", Kind: "oci", Stmts: d.Stmts, Perm: perm, Ref: ref, RefKind: "listed", Via: "direct"}
			if how == "wildcard" {
				c.RefKind = "unlisted"
			}
			doc := buildOCI(d.Stmts, perm)
			mustValidOCI(t, doc, d.Stmts)
			got, err := doc.GetApplicableTrustPolicy(ref)
			if key, msg := judgeOCI(&c, got, err); key != "" {
				rec.Failf(rt, key, c, "%s", msg)
				return
			}
			s = &ociSubject{stmts: d.Stmts, perm: perm, ref: ref}
		} else {
			stmts := genBlobStmts(rt, true, kind == "global")
			perm := perms(len(stmts))[rapid.IntRange(0, len(perms(len(stmts)))-1).Draw(rt, "perm")]
			name := ""
			how = "global"
			if kind == "blob" {
				target = stmts[rapid.IntRange(0, len(stmts)-1).Draw(rt, "target")]
				name, how = target.Name, "exact"
			} else {
				for _, st := range stmts {
					if st.Global {
						target = st
					}
				}
			}
			c = Case{Family: "privacy", Kind: "blob", Stmts: stmts, Perm: perm, Ref: name, RefKind: "listed", Via: "direct"}
			if name == "" {
				c.RefKind = "none-given"
			}
			doc := buildBlob(stmts, perm)
			mustValidBlob(t, doc, stmts)
			bs := &blobSubject{stmts: stmts, perm: perm, name: name}
			bs.reset()
			p, _, err := bs.pick()
			bp, _ := p.(*trustpolicy.BlobTrustPolicy)
			if key, msg := judgeBlob(&c, kind, bp, err); key != "" {
				rec.Failf(rt, key, c, "%s", msg)
				return
			}
			s = bs
		}
		cl := []string{"privacy:" + kind + ":" + how, "privacy-mutation", "privacy=" + kind, overrideClass(target), "privacy:level=" + target.Level}
		rec.Case(cl, len(c.Stmts) >= 2, stats.Fingerprint("privacy", kind, docSig(c.Stmts), c.Ref, fmt.Sprint(c.Perm)), func() any { return c })
		runPrivacy(t, rt, rec, c, s)
	})
}
