// C08 — the policy statement applied is the one scoped to the artifact's repository.
//
// This file holds what all C08 tests share: the replayable case format, the confusable
// alphabets (registry scopes, blob statement names), the builders that turn the structured
// form into trustpolicy documents, and the reference model written from the property
// statement (exact membership, wildcard fallback, refusal; exact name / global statement).
// The model never calls the code under test and never parses scopes: whether a repository
// path is well formed is known from how the generator assembled it.
package c08

import (
	"fmt"
	"sort"
	"strings"
	"testing"

	"github.com/notaryproject/notation-go/verifier/trustpolicy"
	"pgregory.net/rapid"

	"verifharness/internal/rp"
)

const rule = "case = (document of <=4 statements in base order, artifact reference or blob policy name[, mutated place | verifier entry point]); selection cases are evaluated under every permutation of the statements; non-trivial = the document has >=2 statements and the reference/name is an exact hit or a near miss (prefix, extension, case variant, substring, tag form, look-alike) of a listed scope/name; distinct by (family, canonical document, reference/name)"

// Stmt is the structured form of one policy statement (OCI or blob).
type Stmt struct {
	Name          string            `json:"name"`
	Level         string            `json:"level"`
	Override      map[string]string `json:"override,omitempty"`
	EmptyOverride bool              `json:"emptyOverride,omitempty"` // Override is a non-nil empty map
	VerifyTS      string            `json:"verifyTimestamp,omitempty"`
	Stores        []string          `json:"stores,omitempty"`
	Identities    []string          `json:"identities,omitempty"`
	EmptySlices   bool              `json:"emptySlices,omitempty"` // empty lists are non-nil empty slices
	Scopes        []string          `json:"scopes,omitempty"`      // OCI only
	Global        bool              `json:"global,omitempty"`      // blob only
}

// Case is one C08 scenario and the replay format of the enumeration tests.
type Case struct {
	Family  string `json:"family"` // oci | blob | privacy | verifier
	Kind    string `json:"kind"`   // oci | blob
	Stmts   []Stmt `json:"stmts"`  // base order
	Perm    []int  `json:"perm,omitempty"`
	Ref     string `json:"ref"` // artifact reference (oci) or requested policy name (blob; "" = none given)
	RefKind string `json:"refKind"`
	Lenient bool   `json:"lenient,omitempty"` // the statement is silent about this reference: a refusal is acceptable too
	Via     string `json:"via,omitempty"`
	Format  string `json:"format,omitempty"`
	Place   string `json:"place,omitempty"`
	// Earlier (verifier family): references / names served by the SAME verifier object before the
	// judged call (the artifact and its digest are the same throughout - one image pushed to
	// several repositories); which statement applies depends on the judged call's reference only
	Earlier []string `json:"earlier,omitempty"`
}

// ---------- alphabets ----------

// scope is a registry scope in structured form. Every value the harness builds from the pools
// below is well formed by construction: the domain pool only holds dot-separated alphanumeric
// labels (upper case is allowed in a domain), ports are digits, and every path component is
// lower-case alphanumeric with single separators between alphanumerics.
type scope struct {
	Dom, Port string
	Comps     []string
}

func (s scope) String() string { return s.Dom + s.Port + "/" + strings.Join(s.Comps, "/") }

func sc(dom, port string, comps ...string) scope { return scope{dom, port, comps} }

// core is the deliberately confusable alphabet: nested, sibling, port-qualified and
// near-identical repository paths.
var core = []scope{
	sc("reg.io", "", "a"), sc("reg.io", "", "a", "b"), sc("reg.io", "", "a", "bc"), sc("reg.io", "", "ab"),
	sc("reg.io", "", "a", "b", "c"), sc("reg.io", "", "b"), sc("reg.io", "", "a", "b0"),
	sc("reg.io", ":5000", "a"), sc("reg.io", ":500", "a"), sc("reg.io", ":5000", "a", "b"),
	sc("localhost", ":5000", "a"), sc("localhost", "", "a"),
	sc("REG.io", "", "a"), sc("Reg.io", ":5000", "a", "b"),
	sc("reg.io", "", "a-b"), sc("reg.io", "", "a_b"), sc("reg.io", "", "a.b"),
	sc("reg.io.x", "", "a"), sc("reg.i", "", "a"), sc("eg.io", "", "a"),
	// hosts spelt with the letters of URL schemes (oci://, https://, docker://), next to the
	// hosts that are left when such letters are stripped from the front
	sc("icr.io", "", "a"), sc("r.io", "", "a"), sc("cgr.dev", "", "a"), sc("gr.dev", "", "a"), sc("oci.reg.io", "", "a"), sc("docker.io", "", "a"),
	// long repository paths (a reference is this plus '@' plus a digest of 71 to 135 characters;
	// no rule bounds the total): 130, 200 and 300 characters of path
	sc("reg.io", "", long(30), long(30), long(30), long(37)), sc("reg.io", ":5000", long(50), long(50), long(50), long(47)), sc("reg.io", "", long(100), long(100), long(98)),
}

func long(n int) string { return strings.Repeat("a", n-1) + "b" }

var _ = long

var (
	domPool  = []string{"reg.io", "REG.io", "Reg.io", "reg.i", "reg.io.x", "eg.io", "xreg.io", "reg-io", "localhost", "reg",
		"icr.io", "r.io", "cgr.dev", "gr.dev", "oci.reg.io", "docker.io", "https.reg.io", "io.reg.io", "127.0.0.1"}
	portPool = []string{"", "", ":5000", ":500", ":50000", ":443", ":05000", ":70000", ":5000", ":05000"}
	compPool = []string{"a", "b", "c", "ab", "bc", "a-b", "a_b", "a.b", "a__b", "b0"}
	// truncations of pool components that are themselves well formed
	truncated = map[string]string{"ab": "a", "bc": "b", "b0": "b"}
)

const (
	dig256  = "sha256:9f86d081884c7d659a2feaa0c55ad015a3bf4f1b2b0b822cd15d6c15b0f00a08"
	dig256b = "sha256:60303ae22b998861bce3b28f33eec1be758a213c86c93c076dbe9f558c11c752"
	dig512  = "sha512:ee26b0dd4af7e749aa1a8ee3c10ae9923f618980772e473f8819a5d4940e0db27ac185f8a0e1d5f84f88bc887fd67b143732c304cc5fa9ad8e6f57f50028a8ff"
)

type variant struct {
	Op string
	S  scope
}

func cp(xs []string) []string { return append([]string(nil), xs...) }

// variants returns well-formed near misses of s (prefix, extension, case variant, port and
// domain neighbours), each assembled from pool material.
func variants(s scope) []variant {
	var out []variant
	n := len(s.Comps)
	last := s.Comps[n-1]
	with := func(comps []string) scope { return scope{s.Dom, s.Port, comps} }
	if n >= 2 {
		out = append(out, variant{"drop-component", with(cp(s.Comps[:n-1]))})
	}
	out = append(out, variant{"add-component", with(append(cp(s.Comps), "b"))})
	out = append(out, variant{"add-component", with(append(cp(s.Comps), "c"))})
	ext := cp(s.Comps)
	ext[n-1] = last + "c"
	out = append(out, variant{"extend-char", with(ext)})
	if tr, ok := truncated[last]; ok {
		x := cp(s.Comps)
		x[n-1] = tr
		out = append(out, variant{"truncate-char", with(x)})
	}
	if up := strings.ToUpper(s.Dom); up != s.Dom {
		out = append(out, variant{"upper-domain", scope{up, s.Port, s.Comps}})
	}
	if lo := strings.ToLower(s.Dom); lo != s.Dom {
		out = append(out, variant{"lower-domain", scope{lo, s.Port, s.Comps}})
	}
	switch s.Port {
	case "":
		out = append(out, variant{"add-port", scope{s.Dom, ":5000", s.Comps}}, variant{"add-port", scope{s.Dom, ":443", s.Comps}})
	case ":5000":
		out = append(out, variant{"drop-port", scope{s.Dom, "", s.Comps}}, variant{"port-prefix", scope{s.Dom, ":500", s.Comps}}, variant{"port-extension", scope{s.Dom, ":50000", s.Comps}},
			// the same number written otherwise is another string: ports are compared as text
			variant{"port-leading-zero", scope{s.Dom, ":05000", s.Comps}}, variant{"port-leading-zero", scope{s.Dom, ":005000", s.Comps}})
	case ":05000":
		out = append(out, variant{"port-without-leading-zero", scope{s.Dom, ":5000", s.Comps}}, variant{"drop-port", scope{s.Dom, "", s.Comps}})
	default:
		out = append(out, variant{"drop-port", scope{s.Dom, "", s.Comps}}, variant{"other-port", scope{s.Dom, ":5000", s.Comps}})
	}
	out = append(out, variant{"extend-domain", scope{s.Dom + ".x", s.Port, s.Comps}}, variant{"prepend-domain", scope{"x" + s.Dom, s.Port, s.Comps}})
	for _, sep := range []string{"a-b", "a_b", "a.b", "ab"} {
		if last != sep && (last == "a-b" || last == "a_b" || last == "a.b" || last == "ab") {
			x := cp(s.Comps)
			x[n-1] = sep
			out = append(out, variant{"other-separator", with(x)})
		}
	}
	return out
}

// Ref is one artifact reference together with what the generator knows about it.
type Ref struct {
	Text    string
	Kind    string // listed, unlisted, variant:<op>, random, shape:<name>
	Lenient bool   // not a well-formed registry/repository@digest reference: the statement is silent, refusal is acceptable
}

// shapes returns the references derived from s that are NOT of the form
// registry/repository@digest with a well-formed repository path (or whose digest part is not a
// digest). For all of them the property statement only forbids matching a scoped statement
// inexactly; whether they are refused or fall through to the model's answer is left open.
func shapes(s scope) []Ref {
	p := s.String()
	auth := s.Dom + s.Port
	upper := auth + "/" + strings.ToUpper(strings.Join(s.Comps, "/"))
	look := auth + "/" + strings.ReplaceAll(strings.Join(s.Comps, "/"), "a", "\u0430") // Cyrillic a
	mk := func(name, text string) Ref { return Ref{Text: text, Kind: "shape:" + name, Lenient: true} }
	return []Ref{
		mk("tag-only", p+":v1"),
		mk("no-tag-no-digest", p),
		mk("tag-and-digest", p+":v1@"+dig256),
		mk("multiple-at", p+"@"+dig256+"@"+dig256b),
		mk("double-at", p+"@@"+dig256),
		mk("leading-at", "@"+p+"@"+dig256),
		mk("empty", ""),
		mk("only-at", "@"),
		mk("only-digest", "@"+dig256),
		mk("upper-repository", upper+"@"+dig256),
		mk("lookalike-repository", look+"@"+dig256),
		mk("trailing-slash", p+"/@"+dig256),
		mk("double-slash", auth+"//"+strings.Join(s.Comps, "/")+"@"+dig256),
		mk("leading-space", " "+p+"@"+dig256),
		mk("trailing-space", p+" @"+dig256),
		mk("scheme", "https://"+p+"@"+dig256),
		mk("wildcard-component", auth+"/*@"+dig256),
		mk("wildcard-suffix", p+"*@"+dig256),
		mk("star", "*@"+dig256),
		mk("no-repository", auth+"@"+dig256),
		mk("empty-digest", p+"@"),
		mk("not-a-digest", p+"@latest"),
	}
}

// ---------- blob names ----------

// blobNames are non-blank and pairwise different as strings, but confusable: case, white
// space, look-alikes, normalisation forms, prefixes.
var blobNames = []string{
	"blob", "Blob", "BLOB", "blob ", " blob", "blob\t", "blo", "blob2", "bl ob", "b",
	"bl\u03bfb",     // Greek omicron
	"blo\uff42",     // full-width b
	"blob\u200b",    // zero-width space
	"blob\u00a0",    // no-break space
	"caf\u00e9",     // NFC
	"cafe\u0301",    // NFD
	"blob\x00", "*", // NUL suffix; the OCI wildcard token (no meaning for blobs)
}

// blankNames consist of white space only (strings.TrimSpace's notion, which covers U+00A0 and U+2003).
var blankNames = []string{" ", "\t", "  \n", "\u00a0", "\u2003"}

var skeletonRepl = strings.NewReplacer("\u03bf", "o", "\uff42", "b", "\u200b", "", "\u00a0", "", "\u00e9", "e", "\u0301", "", "\x00", "", "\u0430", "a")

// skeleton folds the look-alikes of the alphabets onto plain ASCII (classification only).
func skeleton(s string) string { return strings.ToLower(strings.TrimSpace(skeletonRepl.Replace(s))) }

// ---------- document builders ----------

func (s Stmt) sigVerification() trustpolicy.SignatureVerification {
	sv := trustpolicy.SignatureVerification{VerificationLevel: s.Level, VerifyTimestamp: trustpolicy.TimestampOption(s.VerifyTS)}
	if len(s.Override) > 0 || s.EmptyOverride {
		sv.Override = make(map[trustpolicy.ValidationType]trustpolicy.ValidationAction, len(s.Override))
		for k, v := range s.Override {
			sv.Override[trustpolicy.ValidationType(k)] = trustpolicy.ValidationAction(v)
		}
	}
	return sv
}

// layout hands out the string lists of one document as adjacent windows of ONE backing array
// (capacity running to the end of the array). A hand-out that is not a copy is then visible
// both through element writes and through appends (which overflow into the next statement).
type layout struct{ pool []string }

func newLayout(stmts []Stmt) *layout {
	n := 0
	for _, s := range stmts {
		n += len(s.Scopes) + len(s.Stores) + len(s.Identities)
	}
	return &layout{pool: make([]string, 0, n)}
}

func (l *layout) take(xs []string, emptyNonNil bool) []string {
	if len(xs) == 0 && !emptyNonNil {
		return nil
	}
	start := len(l.pool)
	l.pool = append(l.pool, xs...)
	return l.pool[start:len(l.pool)]
}

func identity(n int) []int {
	p := make([]int, n)
	for i := range p {
		p[i] = i
	}
	return p
}

func buildOCI(stmts []Stmt, perm []int) *trustpolicy.OCIDocument {
	if perm == nil {
		perm = identity(len(stmts))
	}
	l := newLayout(stmts)
	doc := &trustpolicy.OCIDocument{Version: "1.0"}
	for _, i := range perm {
		s := stmts[i]
		doc.TrustPolicies = append(doc.TrustPolicies, trustpolicy.OCITrustPolicy{
			Name: s.Name, SignatureVerification: s.sigVerification(),
			RegistryScopes:    l.take(s.Scopes, s.EmptySlices),
			TrustStores:       l.take(s.Stores, s.EmptySlices),
			TrustedIdentities: l.take(s.Identities, s.EmptySlices),
		})
	}
	return doc
}

func buildBlob(stmts []Stmt, perm []int) *trustpolicy.BlobDocument {
	if perm == nil {
		perm = identity(len(stmts))
	}
	l := newLayout(stmts)
	doc := &trustpolicy.BlobDocument{Version: "1.0"}
	for _, i := range perm {
		s := stmts[i]
		doc.TrustPolicies = append(doc.TrustPolicies, trustpolicy.BlobTrustPolicy{
			Name: s.Name, SignatureVerification: s.sigVerification(),
			TrustStores:       l.take(s.Stores, s.EmptySlices),
			TrustedIdentities: l.take(s.Identities, s.EmptySlices),
			GlobalPolicy:      s.Global,
		})
	}
	return doc
}

var permTable = func() [][][]int {
	out := make([][][]int, 5)
	for n := 0; n <= 4; n++ {
		var rec func(cur []int, used int)
		rec = func(cur []int, used int) {
			if len(cur) == n {
				out[n] = append(out[n], append([]int(nil), cur...))
				return
			}
			for i := 0; i < n; i++ {
				if used&(1<<i) == 0 {
					rec(append(cur, i), used|1<<i)
				}
			}
		}
		rec(nil, 0)
	}
	return out
}()

// perms returns all permutations of n statements, the identity first.
func perms(n int) [][]int { return permTable[n] }

// ---------- the model ----------

// modelOCI: the repository path is the text before the last '@'; the statement listing exactly
// that string applies, else the wildcard statement, else none (-1).
func modelOCI(stmts []Stmt, ref string) (int, string) {
	wild := -1
	exact := -1
	at := strings.LastIndex(ref, "@")
	for i, s := range stmts {
		for _, scp := range s.Scopes {
			if scp == "*" {
				wild = i
			} else if at >= 0 && scp == ref[:at] {
				exact = i
			}
		}
	}
	switch {
	case exact >= 0:
		return exact, "exact"
	case wild >= 0:
		return wild, "wildcard"
	}
	return -1, "none"
}

// modelBlob: exact name; the global statement when no name is given; else none.
func modelBlob(stmts []Stmt, name string) (int, string) {
	for i, s := range stmts {
		if name != "" && s.Name == name {
			return i, "exact"
		}
	}
	if name == "" {
		for i, s := range stmts {
			if s.Global {
				return i, "global"
			}
		}
	}
	return -1, "none"
}

// probe is the part of a reference that could be confused with a scope.
func probe(ref string) string {
	if at := strings.LastIndex(ref, "@"); at >= 0 {
		return ref[:at]
	}
	return ref
}

// relation classifies how the probed text relates to the listed (non-wildcard) strings: the
// strongest of exact, casefold, tag, extension (a listed string is a proper prefix), prefix
// (it is a proper prefix of a listed string), lookalike, substring, none. Classification only.
var relRank = map[string]int{"none": 0, "substring": 1, "lookalike": 2, "prefix": 3, "extension": 4, "tag": 5, "casefold": 6, "exact": 7}

func relation(p string, listed []string) string {
	rank := relRank
	best := "none"
	for _, s := range listed {
		if s == "*" {
			continue
		}
		r := "none"
		switch {
		case s == p:
			r = "exact"
		case strings.EqualFold(s, p):
			r = "casefold"
		case strings.HasPrefix(p, s+":"):
			r = "tag"
		case strings.HasPrefix(p, s):
			r = "extension"
		case p != "" && strings.HasPrefix(s, p):
			r = "prefix"
		case p != "" && (strings.Contains(s, p) || strings.Contains(p, s)):
			r = "substring"
		case skeleton(s) == skeleton(p):
			r = "lookalike"
		}
		if rank[r] > rank[best] {
			best = r
		}
	}
	return best
}

func allScopes(stmts []Stmt) []string {
	var out []string
	for _, s := range stmts {
		out = append(out, s.Scopes...)
	}
	return out
}

func allNames(stmts []Stmt) []string {
	var out []string
	for _, s := range stmts {
		out = append(out, s.Name)
	}
	return out
}

func indexByName(stmts []Stmt, name string) int {
	for i, s := range stmts {
		if s.Name == name {
			return i
		}
	}
	return -1
}

// ---------- comparing a handed-out statement with the structured form ----------

func eqStrs(a, b []string) bool {
	if len(a) != len(b) {
		return false
	}
	for i := range a {
		if a[i] != b[i] {
			return false
		}
	}
	return true
}

func sameSV(sv trustpolicy.SignatureVerification, s Stmt) bool {
	if sv.VerificationLevel != s.Level || string(sv.VerifyTimestamp) != s.VerifyTS || len(sv.Override) != len(s.Override) {
		return false
	}
	for k, v := range s.Override {
		if got, ok := sv.Override[trustpolicy.ValidationType(k)]; !ok || string(got) != v {
			return false
		}
	}
	return true
}

// sameOCI: content equality, nil and empty lists / maps are not distinguished.
func sameOCI(p *trustpolicy.OCITrustPolicy, s Stmt) bool {
	return p.Name == s.Name && sameSV(p.SignatureVerification, s) && eqStrs(p.RegistryScopes, s.Scopes) &&
		eqStrs(p.TrustStores, s.Stores) && eqStrs(p.TrustedIdentities, s.Identities)
}

func sameBlob(p *trustpolicy.BlobTrustPolicy, s Stmt) bool {
	return p.Name == s.Name && sameSV(p.SignatureVerification, s) && p.GlobalPolicy == s.Global &&
		eqStrs(p.TrustStores, s.Stores) && eqStrs(p.TrustedIdentities, s.Identities)
}

// ---------- statement generators ----------

var overridable = []string{"authenticity", "authenticTimestamp", "expiry", "revocation"}

// genBody draws the selection-irrelevant content of a statement; tag makes the trust-store
// names unique to the statement. Every combination satisfies the documented validation rules.
func genBody(rt *rapid.T, name, tag string, allowSkip bool) Stmt {
	s := Stmt{Name: name}
	if allowSkip {
		s.Level = rp.Pick(rt, "level", "strict", "permissive", "audit", "skip", "strict")
	} else {
		s.Level = rp.Pick(rt, "level", "strict", "permissive", "audit")
	}
	s.VerifyTS = rp.Pick(rt, "verifyTimestamp", "", "", "always", "afterCertExpiry")
	if s.Level == "skip" {
		s.EmptySlices = rapid.Bool().Draw(rt, "emptySlices")
		s.EmptyOverride = rapid.Bool().Draw(rt, "emptyOverride")
		return s
	}
	switch rp.Pick(rt, "override", "nil", "empty", "set", "set") {
	case "empty":
		s.EmptyOverride = true
	case "set":
		s.Override = map[string]string{}
		mask := rapid.IntRange(1, 15).Draw(rt, "overrideMask")
		for i, typ := range overridable {
			if mask&(1<<i) == 0 {
				continue
			}
			if typ == "revocation" {
				s.Override[typ] = rp.Pick(rt, "action", "enforce", "log", "skip")
			} else {
				s.Override[typ] = rp.Pick(rt, "action", "enforce", "log")
			}
		}
	}
	s.Stores = []string{"ca:st-" + tag}
	extra := rapid.IntRange(0, 7).Draw(rt, "extraStores")
	if extra&1 != 0 {
		s.Stores = append(s.Stores, "signingAuthority:sa-"+tag)
	}
	if extra&2 != 0 {
		s.Stores = append(s.Stores, "tsa:tsa-"+tag)
	}
	if extra&4 != 0 {
		s.Stores = append(s.Stores, "ca:st-"+tag+".b")
	}
	switch rp.Pick(rt, "identities", "wildcard", "one", "two") {
	case "wildcard":
		s.Identities = []string{"*"}
	case "one":
		s.Identities = []string{"x509.subject: C=US, ST=WA, O=verif, CN=" + tag}
	default:
		s.Identities = []string{"x509.subject: C=US, ST=WA, O=verif, CN=" + tag, "x509.subject: C=US, ST=WA, O=verif, OU=other, CN=" + tag + "-2"}
	}
	return s
}

// ociDoc is a generated OCI document: the statements plus the structured scopes they list.
type ociDoc struct {
	Stmts  []Stmt
	Listed []scope // structured form of every non-wildcard scope in the document
}

func genScope(rt *rapid.T) scope {
	if rapid.IntRange(0, 3).Draw(rt, "fromCore") != 0 {
		return core[rapid.IntRange(0, len(core)-1).Draw(rt, "core")]
	}
	n := rapid.IntRange(1, 3).Draw(rt, "depth")
	s := scope{Dom: rp.Pick(rt, "dom", domPool...), Port: rp.Pick(rt, "port", portPool...)}
	for i := 0; i < n; i++ {
		s.Comps = append(s.Comps, rp.Pick(rt, "comp", compPool...))
	}
	return s
}

func genOCIDoc(rt *rapid.T, allowSkip bool) ociDoc {
	k := rp.Pick(rt, "statements", 1, 2, 2, 2, 3, 3, 3, 4, 4)
	wild := -1
	if rapid.Bool().Draw(rt, "hasWildcard") {
		wild = rapid.IntRange(0, k-1).Draw(rt, "wildcardAt")
	}
	var d ociDoc
	used := map[string]bool{}
	for i := 0; i < k; i++ {
		tag := fmt.Sprintf("s%d", i)
		s := genBody(rt, tag, tag, allowSkip)
		if i == wild {
			s.Scopes = []string{"*"}
		} else {
			n := rp.Pick(rt, "scopes", 1, 1, 2, 3)
			for len(s.Scopes) < n {
				x := genScope(rt)
				if used[x.String()] {
					// a scope may be listed once in the whole document; take the next free core scope instead
					for _, c := range core {
						if !used[c.String()] {
							x = c
							break
						}
					}
					if used[x.String()] {
						break
					}
				}
				used[x.String()] = true
				s.Scopes = append(s.Scopes, x.String())
				d.Listed = append(d.Listed, x)
			}
		}
		d.Stmts = append(d.Stmts, s)
	}
	return d
}

// genRef draws one reference for the document.
func genRef(rt *rapid.T, d ociDoc) Ref {
	dig := rp.Pick(rt, "digest", dig256, dig256, dig512)
	base := core[rapid.IntRange(0, len(core)-1).Draw(rt, "refBase")]
	if len(d.Listed) > 0 && rapid.IntRange(0, 9).Draw(rt, "aroundListed") != 0 {
		base = d.Listed[rapid.IntRange(0, len(d.Listed)-1).Draw(rt, "listedIdx")]
	}
	switch rp.Pick(rt, "refKind", "listed", "listed", "listed", "variant", "variant", "variant", "unlisted", "random", "shape", "shape") {
	case "listed":
		if len(d.Listed) > 0 {
			return Ref{Text: base.String() + "@" + dig, Kind: "listed"}
		}
		return Ref{Text: base.String() + "@" + dig, Kind: "unlisted"}
	case "variant":
		vs := variants(base)
		v := vs[rapid.IntRange(0, len(vs)-1).Draw(rt, "variant")]
		return Ref{Text: v.S.String() + "@" + dig, Kind: "variant:" + v.Op}
	case "unlisted":
		x := core[rapid.IntRange(0, len(core)-1).Draw(rt, "unlisted")]
		return Ref{Text: x.String() + "@" + dig, Kind: "unlisted"}
	case "random":
		return Ref{Text: genScope(rt).String() + "@" + dig, Kind: "random"}
	}
	sh := shapes(base)
	return sh[rapid.IntRange(0, len(sh)-1).Draw(rt, "shape")]
}

func genBlobStmts(rt *rapid.T, allowSkip, forceGlobal bool) []Stmt {
	k := rp.Pick(rt, "statements", 1, 2, 2, 3, 3, 4, 4)
	global := -1
	if rapid.IntRange(0, 2).Draw(rt, "hasGlobal") != 0 || forceGlobal {
		global = rapid.IntRange(0, k-1).Draw(rt, "globalAt")
	}
	var out []Stmt
	used := map[string]bool{}
	for i := 0; i < k; i++ {
		name := blobNames[rapid.IntRange(0, len(blobNames)-1).Draw(rt, "name")]
		for j := 0; used[name]; j++ {
			name = blobNames[j]
		}
		used[name] = true
		// a global statement must not be level skip (documented rule)
		s := genBody(rt, name, fmt.Sprintf("b%d", i), allowSkip && i != global)
		s.Global = i == global
		out = append(out, s)
	}
	return out
}

// ---------- shared helpers ----------

func docSig(stmts []Stmt) string {
	var b strings.Builder
	for _, s := range stmts {
		keys := make([]string, 0, len(s.Override))
		for k, v := range s.Override {
			keys = append(keys, k+"="+v)
		}
		sort.Strings(keys)
		fmt.Fprintf(&b, "%q/%s/%v/%v/%s/%q/%q/%v/%q/%v;", s.Name, s.Level, keys, s.EmptyOverride, s.VerifyTS, s.Stores, s.Identities, s.EmptySlices, s.Scopes, s.Global)
	}
	return b.String()
}

func mustValidOCI(t *testing.T, doc *trustpolicy.OCIDocument, stmts []Stmt) {
	if err := doc.Validate(); err != nil {
		t.Fatalf("harness: generated OCI document is rejected by Validate: %v\n%+v", err, stmts)
	}
}

func mustValidBlob(t *testing.T, doc *trustpolicy.BlobDocument, stmts []Stmt) {
	if err := doc.Validate(); err != nil {
		t.Fatalf("harness: generated blob document is rejected by Validate: %v\n%+v", err, stmts)
	}
}
