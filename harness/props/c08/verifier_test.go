// C08, part 4: selection as seen through the verifier. Selection failures must surface as
// notation.ErrorNoApplicableTrustPolicy from Verify, VerifyBlob and SkipVerify; the statement
// actually applied is identified by which uniquely named trust store the instrumented trust
// store is asked for (Verify / VerifyBlob) and by the verification level reported (all
// statements of a document carry pairwise different levels and no overrides).
package c08

import (
	"context"
	"errors"
	"fmt"
	"strings"
	"sync"
	"testing"
	"time"

	"github.com/notaryproject/notation-go"
	"github.com/notaryproject/notation-go/verifier"
	"github.com/notaryproject/notation-go/verifier/trustpolicy"
	"github.com/opencontainers/go-digest"
	ocispec "github.com/opencontainers/image-spec/specs-go/v1"
	"pgregory.net/rapid"

	"verifharness/internal/envb"
	"verifharness/internal/mocks"
	"verifharness/internal/pki"
	"verifharness/internal/rp"
	"verifharness/internal/stats"
)

var fixture struct {
	once  sync.Once
	chain *pki.Chain
	desc  ocispec.Descriptor
	env   map[string][]byte
}

const leafCN = "c08 leaf"

// envelopes: one valid signature per format over one descriptor, made once (immutable).
func setupFixture() {
	fixture.once.Do(func() {
		fixture.chain = pki.NewChain(pki.ChainOpts{Name: "c08", LeafKey: pki.Key("EC-256", 0), LeafSubject: pki.DefaultLeafSubject(leafCN)})
		fixture.desc = ocispec.Descriptor{MediaType: "application/vnd.oci.image.manifest.v1+json", Digest: digest.FromString("c08 artifact"), Size: 12}
		fixture.env = map[string][]byte{}
		for _, f := range envb.Formats {
			fixture.env[f] = envb.Build(envb.Spec{Format: f,
				Payload:     envb.PayloadFor(fixture.desc.MediaType, fixture.desc.Digest.String(), fixture.desc.Size, nil),
				ContentType: envb.PayloadType, Scheme: envb.SchemeX509, SigningTime: time.Now().Add(-time.Minute),
				Chain: fixture.chain.X509(), Key: fixture.chain.Leaf().Key})
		}
	})
}

// distinctBodies rewrites the statement bodies for the verifier family: pairwise different
// levels, no overrides, only "ca" stores with names unique to the statement.
func distinctBodies(rt *rapid.T, stmts []Stmt) {
	lv := []string{"strict", "permissive", "audit", "skip"}
	for i := len(lv) - 1; i > 0; i-- { // a drawn permutation of the four levels
		j := rapid.IntRange(0, i).Draw(rt, "levelSwap")
		lv[i], lv[j] = lv[j], lv[i]
	}
	for i := range stmts {
		if stmts[i].Global && lv[i] == "skip" {
			// a global statement must not be level skip: trade levels with an unused or another statement's level
			other := (i + 1) % len(lv)
			lv[i], lv[other] = lv[other], lv[i]
		}
	}
	for i := range stmts {
		s := &stmts[i]
		tag := fmt.Sprintf("v%d", i)
		s.Level, s.Override, s.EmptyOverride = lv[i], nil, false
		s.VerifyTS = rp.Pick(rt, "verifyTimestamp", "", "always", "afterCertExpiry")
		if s.Level == "skip" {
			s.Stores, s.Identities = nil, nil
			continue
		}
		s.EmptySlices = false
		s.Stores = []string{"ca:st-" + tag}
		if rapid.Bool().Draw(rt, "secondStore") {
			s.Stores = append(s.Stores, "ca:st-"+tag+".b")
		}
		switch rp.Pick(rt, "identity", "wildcard", "wildcard", "matching", "other") {
		case "wildcard":
			s.Identities = []string{"*"}
		case "matching":
			s.Identities = []string{"x509.subject: C=US, ST=WA, O=verif, CN=" + leafCN}
		default:
			s.Identities = []string{"x509.subject: C=US, ST=WA, O=verif, CN=somebody else"}
		}
	}
}

func storeOwner(stmts []Stmt, call string) string {
	for _, s := range stmts {
		for _, st := range s.Stores {
			if st == call {
				return s.Name
			}
		}
	}
	return "<no statement>"
}

// checkVerifier runs one case through the verifier and judges it.
func checkVerifier(t *testing.T, f stats.Failer, rec *stats.Recorder, c Case) {
	setupFixture()
	ts := mocks.NewTrustStore()
	root := fixture.chain.Root().Cert
	for _, s := range c.Stmts {
		for _, st := range s.Stores {
			typ, name, _ := strings.Cut(st, ":")
			ts.Put(typ, name, root)
		}
	}
	opts := verifier.VerifierOptions{RevocationCodeSigningValidator: &mocks.Revocation{}, RevocationTimestampingValidator: &mocks.Revocation{}}
	// SkipVerify needs an OCI document (a verifier without one is outside this property), VerifyBlob a blob document
	anyOCI := []Stmt{{Name: "unrelated", Level: "strict", Stores: []string{"ca:unrelated"}, Identities: []string{"*"}, Scopes: []string{"unrelated.example/x"}}}
	var want int
	var how string
	if c.Kind == "oci" {
		opts.OCITrustPolicy = buildOCI(c.Stmts, c.Perm)
		want, how = modelOCI(c.Stmts, c.Ref)
	} else {
		opts.BlobTrustPolicy = buildBlob(c.Stmts, c.Perm)
		opts.OCITrustPolicy = buildOCI(anyOCI, nil)
		want, how = modelBlob(c.Stmts, c.Ref)
	}
	v, err := verifier.NewVerifierWithOptions(ts, opts)
	if err != nil {
		t.Fatalf("harness: verifier construction rejected a generated document: %v\n%+v", err, c.Stmts)
	}
	ctx := context.Background()
	var outcome *notation.VerificationOutcome
	var skipped bool
	var level *trustpolicy.VerificationLevel
	for _, e := range c.Earlier { // not judged
		switch c.Via {
		case "verify":
			v.Verify(ctx, fixture.desc, fixture.env[c.Format], notation.VerifierVerifyOptions{ArtifactReference: e, SignatureMediaType: c.Format})
		case "skipverify":
			v.SkipVerify(ctx, notation.VerifierVerifyOptions{ArtifactReference: e, SignatureMediaType: c.Format})
			v.Verify(ctx, fixture.desc, fixture.env[c.Format], notation.VerifierVerifyOptions{ArtifactReference: e, SignatureMediaType: c.Format})
		case "verifyblob":
			v.VerifyBlob(ctx, func(alg digest.Algorithm) (ocispec.Descriptor, error) { return fixture.desc, nil }, fixture.env[c.Format], notation.BlobVerifierVerifyOptions{SignatureMediaType: c.Format, TrustPolicyName: e})
		}
	}
	ts.Calls = nil
	switch c.Via {
	case "verify":
		outcome, err = v.Verify(ctx, fixture.desc, fixture.env[c.Format], notation.VerifierVerifyOptions{ArtifactReference: c.Ref, SignatureMediaType: c.Format})
	case "skipverify":
		skipped, level, err = v.SkipVerify(ctx, notation.VerifierVerifyOptions{ArtifactReference: c.Ref, SignatureMediaType: c.Format})
	case "verifyblob":
		gen := func(alg digest.Algorithm) (ocispec.Descriptor, error) { return fixture.desc, nil }
		outcome, err = v.VerifyBlob(ctx, gen, fixture.env[c.Format], notation.BlobVerifierVerifyOptions{SignatureMediaType: c.Format, TrustPolicyName: c.Ref})
	default:
		t.Fatalf("harness: unknown entry point %q", c.Via)
	}
	if outcome != nil && level == nil {
		level = outcome.VerificationLevel
	}
	site := "C08:verifier:" + c.Via + ":"
	var noPolicy notation.ErrorNoApplicableTrustPolicy
	refused := errors.As(err, &noPolicy)
	calls := append([]string(nil), ts.Calls...)

	if refused {
		rec.Class("verifier:refused", 1)
		if len(calls) > 0 {
			rec.Failf(f, site+"refused-after-loading-stores", c, "no-applicable-policy error for %q, yet trust stores %v were loaded", c.Ref, calls)
		}
		switch {
		case how == "none" || c.Lenient:
			// silent cases: a reference that is not a well-formed registry/repository@digest, a blank name
		case how == "exact":
			rec.Failf(f, site+"applicable-statement-refused", c, "statement %q is scoped to exactly %q, but %s refused: %v", c.Stmts[want].Name, c.Ref, c.Via, err)
		default:
			rec.Failf(f, site+"fallback-statement-refused", c, "statement %q is the %s statement for %q, but %s refused: %v", c.Stmts[want].Name, how, c.Ref, c.Via, err)
		}
		return
	}
	// not refused with the no-applicable-policy error
	if c.Via == "skipverify" && err != nil {
		rec.Failf(f, site+"selection-error-type", c, "SkipVerify(%q) failed with %T (%v), not ErrorNoApplicableTrustPolicy", c.Ref, err, err)
		return
	}
	if c.Via != "skipverify" && outcome == nil {
		if err == nil {
			rec.Failf(f, site+"nil-outcome-without-error", c, "%s(%q) returned neither an outcome nor an error", c.Via, c.Ref)
			return
		}
		// no statement was applied (there is no outcome at all) and the error is not the no-policy error
		rec.Failf(f, site+"selection-error-type", c, "%s(%q) failed before applying any statement with %T (%v), not ErrorNoApplicableTrustPolicy", c.Via, c.Ref, err, err)
		return
	}
	// Statements whose application the property allows: the model's, plus - for silent cases - a
	// generous reading (a blank name as "no name given"; a reference without '@digest' that is as a
	// whole a listed scope).
	acceptable := map[int]bool{}
	if want >= 0 {
		acceptable[want] = true
	}
	if c.Lenient {
		for i, s := range c.Stmts {
			if c.Kind == "blob" && s.Global && strings.TrimSpace(c.Ref) == "" {
				acceptable[i] = true
			}
			if c.Kind == "oci" && !strings.Contains(c.Ref, "@") {
				for _, scp := range s.Scopes {
					if scp == c.Ref {
						acceptable[i] = true
					}
				}
			}
		}
	}
	if len(acceptable) == 0 {
		rec.Failf(f, site+"inapplicable-accepted", c, "no statement applies to %q, but %s went on (level %v, trust stores asked %v, err %v)", c.Ref, c.Via, levelName(level), calls, err)
		return
	}
	// identify the applied statement: levels are pairwise different within the document
	applied := -1
	for i, s := range c.Stmts {
		if s.Level == levelName(level) {
			applied = i
		}
	}
	if applied < 0 || !acceptable[applied] {
		wantDesc := "none"
		if want >= 0 {
			wantDesc = fmt.Sprintf("%q (level %s, %s)", c.Stmts[want].Name, c.Stmts[want].Level, how)
		}
		rec.Failf(f, site+"wrong-statement-applied", c, "the statement to apply to %q is %s, but the level in force is %q", c.Ref, wantDesc, levelName(level))
		return
	}
	exp := c.Stmts[applied]
	if c.Via == "skipverify" {
		if skipped != (exp.Level == "skip") {
			rec.Failf(f, site+"wrong-statement-applied", c, "SkipVerify(%q) = %v, the applicable statement %q has level %s", c.Ref, skipped, exp.Name, exp.Level)
		}
		rec.Class("skipverify:level="+exp.Level, 1)
		return
	}
	if exp.Level == "skip" {
		if len(calls) > 0 || err != nil {
			rec.Failf(f, site+"wrong-statement-applied", c, "the statement to apply to %q is the skip statement %q, but trust stores %v were loaded (err %v)", c.Ref, exp.Name, calls, err)
		}
		rec.Class("verify=skipped", 1)
		return
	}
	if len(calls) == 0 {
		t.Fatalf("harness: %s under statement %q never reached the trust store, the applied statement cannot be identified (err %v)", c.Via, exp.Name, err)
	}
	for _, call := range calls {
		if owner := storeOwner(c.Stmts, call); owner != exp.Name {
			rec.Failf(f, site+"wrong-statement-applied", c, "the statement to apply to %q is %q (%s), but trust store %q of statement %s was loaded (all loads: %v)", c.Ref, exp.Name, how, call, owner, calls)
			return
		}
	}
	if err == nil {
		rec.Class("verify=ok", 1)
	} else {
		rec.Class("verify=err", 1)
	}
}

func levelName(l *trustpolicy.VerificationLevel) string {
	if l == nil {
		return "<nil>"
	}
	return l.Name
}

// TestC08_Verifier: generated documents and references / names through Verify, SkipVerify and
// VerifyBlob with a real signature envelope and scripted collaborators.
func TestC08_Verifier(t *testing.T) {
	rec := stats.New(t, "C08", rule)
	rp.Check(t, 6000, 160000, func(rt *rapid.T) {
		via := rp.Pick(rt, "via", "verify", "verify", "skipverify", "verifyblob", "verifyblob")
		c := Case{Family: "verifier", Via: via, Format: rp.Pick(rt, "format", envb.Formats...)}
		rel := ""
		how := ""
		if via == "verifyblob" {
			stmts := genBlobStmts(rt, true, false)
			distinctBodies(rt, stmts)
			name, kind, lenient := genBlobName(rt, stmts)
			c.Kind, c.Stmts, c.Ref, c.RefKind, c.Lenient = "blob", stmts, name, kind, lenient
			for i, n := 0, rp.Pick(rt, "earlier", 0, 0, 1, 2); i < n; i++ {
				e, _, _ := genBlobName(rt, stmts)
				c.Earlier = append(c.Earlier, e)
			}
			mustValidBlob(t, buildBlob(stmts, nil), stmts)
			rel = relation(name, allNames(stmts))
			if name == "" {
				rel = "no-name"
			}
			_, how = modelBlob(stmts, name)
		} else {
			d := genOCIDoc(rt, true)
			distinctBodies(rt, d.Stmts)
			ref := genRef(rt, d)
			c.Kind, c.Stmts, c.Ref, c.RefKind, c.Lenient = "oci", d.Stmts, ref.Text, ref.Kind, ref.Lenient
			for i, n := 0, rp.Pick(rt, "earlier", 0, 0, 1, 2); i < n; i++ {
				c.Earlier = append(c.Earlier, genRef(rt, d).Text)
			}
			mustValidOCI(t, buildOCI(d.Stmts, nil), d.Stmts)
			rel = relation(probe(ref.Text), allScopes(d.Stmts))
			_, how = modelOCI(d.Stmts, ref.Text)
		}
		c.Perm = perms(len(c.Stmts))[rapid.IntRange(0, len(perms(len(c.Stmts)))-1).Draw(rt, "perm")]
		cl := []string{"verifier:" + via + ":" + how, "via=verifier", "via=" + via, "verifier:hit=" + how, "verifier:ref=" + baseKind(c.RefKind), "format=" + c.Format}
		if rel != "exact" && rel != "none" && rel != "no-name" {
			cl = append(cl, "verifier:nearmiss")
		}
		if c.Lenient {
			cl = append(cl, "verifier:silent-case")
		}
		if len(c.Earlier) > 0 {
			cl = append(cl, "verifier:reused-for-other-references")
		}
		rec.Case(cl, len(c.Stmts) >= 2 && rel != "none", stats.Fingerprint("verifier", via, c.Format, docSig(c.Stmts), c.Ref, fmt.Sprint(c.Perm), fmt.Sprint(c.Earlier)), func() any { return c })
		checkVerifier(t, rt, rec, c)
	})
}
