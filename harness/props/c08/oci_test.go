// C08, part 1: OCI statement selection against the exact-membership model, under every
// permutation of the statements (DESIGN.md section 5, C08).
package c08

import (
	"fmt"
	"strings"
	"testing"

	"github.com/notaryproject/notation-go/verifier/trustpolicy"
	"pgregory.net/rapid"

	"verifharness/internal/rp"
	"verifharness/internal/stats"
)

func isWildcardStmt(s Stmt) bool { return len(s.Scopes) == 1 && s.Scopes[0] == "*" }

// judgeOCI compares one selection result with the model; it returns a finding key and a
// message, or "" when the result is what the statement allows.
func judgeOCI(c *Case, got *trustpolicy.OCITrustPolicy, err error) (string, string) {
	want, how := modelOCI(c.Stmts, c.Ref)
	if err != nil {
		if how == "none" || c.Lenient {
			// Lenient: the reference is not a well-formed registry/repository@digest; the statement does
			// not say whether it is refused or treated like an unlisted repository, so refusal is fine.
			return "", ""
		}
		if how == "exact" {
			return "C08:oci:listed-scope-refused", fmt.Sprintf("statement %q lists exactly the repository of %q, but selection failed: %v", c.Stmts[want].Name, c.Ref, err)
		}
		return "C08:oci:wildcard-not-applied", fmt.Sprintf("no statement lists the repository of %q and statement %q is the wildcard statement, but selection failed: %v", c.Ref, c.Stmts[want].Name, err)
	}
	if got == nil {
		return "C08:oci:nil-statement-without-error", fmt.Sprintf("selection for %q returned neither a statement nor an error", c.Ref)
	}
	gi := indexByName(c.Stmts, got.Name)
	if gi < 0 {
		return "C08:oci:unknown-statement", fmt.Sprintf("selection for %q returned a statement named %q that is not in the document", c.Ref, got.Name)
	}
	if gi == want {
		if !sameOCI(got, c.Stmts[gi]) {
			return "C08:oci:copy-differs-from-statement", fmt.Sprintf("statement handed out for %q is %+v, the document's statement is %+v", c.Ref, *got, c.Stmts[gi])
		}
		return "", ""
	}
	if isWildcardStmt(c.Stmts[gi]) {
		// the wildcard statement is unique, so the model chose a scoped statement
		return "C08:oci:wildcard-preferred-over-exact", fmt.Sprintf("statement %q lists exactly the repository of %q, but the wildcard statement %q was selected", c.Stmts[want].Name, c.Ref, got.Name)
	}
	rel := relation(probe(c.Ref), c.Stmts[gi].Scopes)
	wantName := "none (refusal)"
	if want >= 0 {
		wantName = fmt.Sprintf("%q (%s)", c.Stmts[want].Name, how)
	}
	msg := fmt.Sprintf("reference %q selected statement %q with scopes %q (relation of the repository text to them: %s); the statement to apply is %s", c.Ref, got.Name, c.Stmts[gi].Scopes, rel, wantName)
	switch rel {
	case "exact":
		if !strings.Contains(c.Ref, "@") {
			// A reference without '@digest' that is, as a whole, a listed scope: outside the quantifier
			// (registry/repository@digest) and not one of the forbidden ways of matching - silent.
			return "", ""
		}
		return "C08:oci:wrong-statement", msg
	case "none":
		return "C08:oci:matched-unrelated-scope", msg
	}
	return "C08:oci:matched-by-" + rel, msg
}

func summary(name string, isNil bool, err error) string {
	if err != nil {
		return "refused"
	}
	if isNil {
		return "nil"
	}
	return "statement " + name
}

// prepOCI builds the document once per permutation. Validity does not depend on statement
// order; the identity order and the permutation with index validate are put through Validate
// (all of them when validate < 0).
func prepOCI(t *testing.T, stmts []Stmt, validate int) []*trustpolicy.OCIDocument {
	ps := perms(len(stmts))
	docs := make([]*trustpolicy.OCIDocument, len(ps))
	for i, p := range ps {
		docs[i] = buildOCI(stmts, p)
		if i == 0 || i == validate || validate < 0 {
			mustValidOCI(t, docs[i], stmts)
		}
	}
	return docs
}

// evalOCI runs one (document, reference) case under every permutation.
func evalOCI(f stats.Failer, rec *stats.Recorder, c Case, docs []*trustpolicy.OCIDocument) {
	first := ""
	for pi, perm := range perms(len(c.Stmts)) {
		got, err := docs[pi].GetApplicableTrustPolicy(c.Ref)
		if key, msg := judgeOCI(&c, got, err); key != "" {
			cc := c
			cc.Perm = perm
			rec.Failf(f, key, cc, "%s", msg)
		}
		name := ""
		if got != nil {
			name = got.Name
		}
		sum := summary(name, got == nil, err)
		if pi == 0 {
			first = sum
			if c.Lenient {
				rec.Class("silent-case:"+strings.SplitN(sum, " ", 2)[0], 1)
			}
		} else if sum != first {
			cc := c
			cc.Perm = perm
			rec.Failf(f, "C08:oci:order-dependent", cc, "reference %q: %s with the statements in base order, %s in order %v", c.Ref, first, sum, perm)
		}
	}
}

func baseKind(k string) string { return strings.SplitN(k, ":", 2)[0] }

func recordOCI(rec *stats.Recorder, c Case, sig string) {
	_, how := modelOCI(c.Stmts, c.Ref)
	listed := allScopes(c.Stmts)
	rel := relation(probe(c.Ref), listed)
	kind := c.RefKind
	if how == "exact" && (kind == "unlisted" || kind == "random") {
		kind = "listed"
	}
	if how != "exact" && kind == "listed" {
		kind = "unlisted"
	}
	cl := []string{"oci:" + baseKind(kind) + ":" + how, "hit=" + how, "ref=" + baseKind(kind), "via=direct", fmt.Sprintf("oci:stmts=%d", len(c.Stmts))}
	if strings.Contains(kind, ":") {
		cl = append(cl, kind)
	}
	if rel != "exact" && rel != "none" {
		cl = append(cl, "ref=nearmiss", "near="+rel)
	}
	wild := false
	for _, s := range c.Stmts {
		wild = wild || isWildcardStmt(s)
	}
	if wild {
		cl = append(cl, "doc=with-wildcard")
	} else {
		cl = append(cl, "doc=without-wildcard")
	}
	if c.Lenient {
		cl = append(cl, "silent-case")
	}
	nt := len(c.Stmts) >= 2 && rel != "none"
	rec.Case(cl, nt, stats.Fingerprint("oci", sig, c.Ref), func() any { return c })
}

func enumStmt(i int, scopes ...string) Stmt {
	tag := fmt.Sprintf("s%d", i)
	s := Stmt{Name: tag, Scopes: scopes}
	switch i {
	case 0:
		s.Level, s.Stores, s.Identities = "strict", []string{"ca:st-" + tag}, []string{"*"}
	case 1:
		s.Level, s.Stores, s.Identities = "audit", []string{"ca:st-" + tag, "tsa:tsa-" + tag}, []string{"x509.subject: C=US, ST=WA, O=verif, CN=" + tag}
		s.Override, s.VerifyTS = map[string]string{"revocation": "skip", "expiry": "enforce"}, "always"
	default:
		s.Level, s.EmptySlices = "skip", true
	}
	return s
}

// TestC08_OCIEnum enumerates every two-statement document with one scope each over the core
// alphabet, with and without a wildcard statement, under all permutations, against every core
// reference, every well-formed variant and every not-well-formed shape of the first scope.
func TestC08_OCIEnum(t *testing.T) {
	rec := stats.New(t, "C08", rule)
	var rc Case
	if rp.ReplayCase(&rc) {
		evalOCI(t, rec, rc, prepOCI(t, rc.Stmts, -1))
		return
	}
	shard, shards := stats.Shard()
	idx := 0
	for i := range core {
		for j := i + 1; j < len(core); j++ {
			for wild := 0; wild < 2; wild++ {
				idx++
				if idx%shards != shard {
					continue
				}
				stmts := []Stmt{enumStmt(0, core[i].String()), enumStmt(1, core[j].String())}
				if wild == 1 {
					stmts = append(stmts, enumStmt(2, "*"))
				}
				docs := prepOCI(t, stmts, -1)
				sig := docSig(stmts)
				var refs []Ref
				for _, s := range core {
					refs = append(refs, Ref{Text: s.String() + "@" + dig256, Kind: "unlisted"})
				}
				for _, v := range variants(core[i]) {
					refs = append(refs, Ref{Text: v.S.String() + "@" + dig512, Kind: "variant:" + v.Op})
				}
				refs = append(refs, shapes(core[i])...)
				for _, r := range refs {
					c := Case{Family: "oci", Kind: "oci", Stmts: stmts, Ref: r.Text, RefKind: r.Kind, Lenient: r.Lenient, Via: "direct"}
					recordOCI(rec, c, sig)
					evalOCI(t, rec, c, docs)
				}
			}
		}
	}
	rec.Exhaustive()
	rec.Set("enumerated_core_scopes", len(core))
}

const refsPerDoc = 6

// TestC08_OCISelect: generated documents (1-4 statements, 1-3 scopes each, optional wildcard
// statement, all levels / overrides / store and identity lists) and generated references.
func TestC08_OCISelect(t *testing.T) {
	rec := stats.New(t, "C08", rule)
	rp.Check(t, 102000/refsPerDoc, 4000000/refsPerDoc, func(rt *rapid.T) {
		d := genOCIDoc(rt, true)
		docs := prepOCI(t, d.Stmts, rapid.IntRange(0, len(perms(len(d.Stmts)))-1).Draw(rt, "validatePerm"))
		sig := docSig(d.Stmts)
		for r := 0; r < refsPerDoc; r++ {
			ref := genRef(rt, d)
			c := Case{Family: "oci", Kind: "oci", Stmts: d.Stmts, Ref: ref.Text, RefKind: ref.Kind, Lenient: ref.Lenient, Via: "direct"}
			recordOCI(rec, c, sig)
			evalOCI(rt, rec, c, docs)
		}
	})
}
