// C08, part 2: blob statement selection - exactly the requested name, or the single global
// statement when no name is given, else refusal; under every permutation of the statements.
package c08

import (
	"fmt"
	"strings"
	"testing"

	"github.com/notaryproject/notation-go/verifier/trustpolicy"
	"pgregory.net/rapid"

	"verifharness/internal/rp"
	"verifharness/internal/stats"
)

// judgeBlob compares one blob selection result with the model. api names the entry point
// ("named" = GetApplicableTrustPolicy, "global" = GetGlobalTrustPolicy).
func judgeBlob(c *Case, api string, got *trustpolicy.BlobTrustPolicy, err error) (string, string) {
	want, how := modelBlob(c.Stmts, c.Ref)
	if err != nil {
		if how == "none" || c.Lenient {
			return "", ""
		}
		if how == "exact" {
			return "C08:blob:listed-name-refused", fmt.Sprintf("statement %q has exactly the requested name, but selection failed: %v", c.Ref, err)
		}
		return "C08:blob:global-not-applied", fmt.Sprintf("no name was given and statement %q is the global statement, but selection failed: %v", c.Stmts[want].Name, err)
	}
	if got == nil {
		return "C08:blob:nil-statement-without-error", fmt.Sprintf("selection (%s) for name %q returned neither a statement nor an error", api, c.Ref)
	}
	gi := indexByName(c.Stmts, got.Name)
	if gi < 0 {
		return "C08:blob:unknown-statement", fmt.Sprintf("selection (%s) for name %q returned a statement named %q that is not in the document", api, c.Ref, got.Name)
	}
	if gi == want {
		if !sameBlob(got, c.Stmts[gi]) {
			return "C08:blob:copy-differs-from-statement", fmt.Sprintf("statement handed out for name %q is %+v, the document's statement is %+v", c.Ref, *got, c.Stmts[gi])
		}
		return "", ""
	}
	if c.Stmts[gi].Global && strings.TrimSpace(c.Ref) == "" {
		// a white-space-only name (or the empty name through the by-name entry point) answered with the
		// global statement: "no name given" read generously - the statement is silent, accept.
		return "", ""
	}
	if c.Ref == "" {
		return "C08:blob:no-name-selected-non-global", fmt.Sprintf("no name given, but statement %q (not the global statement) was selected", got.Name)
	}
	rel := relation(c.Ref, []string{got.Name})
	msg := fmt.Sprintf("requested name %q selected statement %q (relation: %s)", c.Ref, got.Name, rel)
	if rel == "none" {
		return "C08:blob:matched-unrelated-name", msg
	}
	return "C08:blob:matched-by-" + rel, msg
}

func prepBlob(t *testing.T, stmts []Stmt, validate int) []*trustpolicy.BlobDocument {
	ps := perms(len(stmts))
	docs := make([]*trustpolicy.BlobDocument, len(ps))
	for i, p := range ps {
		docs[i] = buildBlob(stmts, p)
		if i == 0 || i == validate || validate < 0 {
			mustValidBlob(t, docs[i], stmts)
		}
	}
	return docs
}

// evalBlob runs one (document, requested name) case under every permutation. The empty name
// goes to GetGlobalTrustPolicy (that is how "no name given" reaches the document) and, as a
// silent case, also to the by-name entry point.
func evalBlob(f stats.Failer, rec *stats.Recorder, c Case, docs []*trustpolicy.BlobDocument) {
	first := ""
	for pi, perm := range perms(len(c.Stmts)) {
		var got *trustpolicy.BlobTrustPolicy
		var err error
		api := "named"
		if c.Ref == "" {
			api = "global"
			got, err = docs[pi].GetGlobalTrustPolicy()
		} else {
			got, err = docs[pi].GetApplicableTrustPolicy(c.Ref)
		}
		fail := func(key, msg string) {
			cc := c
			cc.Perm = perm
			cc.Via = "direct:" + api
			rec.Failf(f, key, cc, "%s", msg)
		}
		if key, msg := judgeBlob(&c, api, got, err); key != "" {
			fail(key, msg)
		}
		name := ""
		if got != nil {
			name = got.Name
		}
		sum := summary(name, got == nil, err)
		if pi == 0 {
			first = sum
			if c.Lenient {
				rec.Class("silent-case:"+strings.SplitN(sum, " ", 2)[0], 1)
			}
		} else if sum != first {
			fail("C08:blob:order-dependent", fmt.Sprintf("name %q: %s with the statements in base order, %s in order %v", c.Ref, first, sum, perm))
		}
		if c.Ref == "" {
			lc := c
			lc.Lenient = true
			g2, err2 := docs[pi].GetApplicableTrustPolicy("")
			if key, msg := judgeBlob(&lc, "named", g2, err2); key != "" {
				api = "named"
				fail(key, msg)
			}
		}
	}
}

func recordBlob(rec *stats.Recorder, c Case, sig string) {
	_, how := modelBlob(c.Stmts, c.Ref)
	rel := relation(c.Ref, allNames(c.Stmts))
	kind := c.RefKind
	if how == "exact" {
		kind = "listed"
	} else if kind == "listed" {
		kind = "unlisted"
	}
	cl := []string{"blob:" + kind + ":" + how, "blob", "blobhit=" + how, "name=" + kind, "via=direct", fmt.Sprintf("blob:stmts=%d", len(c.Stmts))}
	if rel != "exact" && rel != "none" {
		cl = append(cl, "name=nearmiss", "near="+rel)
	}
	glob := false
	for _, s := range c.Stmts {
		glob = glob || s.Global
	}
	if glob {
		cl = append(cl, "doc=with-global")
	} else {
		cl = append(cl, "doc=without-global")
	}
	if c.Lenient {
		cl = append(cl, "silent-case")
	}
	// every alphabet name is a deliberate look-alike of the others, so any non-empty request against
	// a document of >=2 statements is an exact hit or a near miss
	nt := len(c.Stmts) >= 2 && (rel != "none" || c.Ref == "")
	rec.Case(cl, nt, stats.Fingerprint("blob", sig, c.Ref), func() any { return c })
}

func enumBlobStmt(i int, name string, global bool) Stmt {
	s := enumStmt(i%2, "")
	s.Scopes = nil
	s.Name, s.Global = name, global
	return s
}

// TestC08_BlobEnum enumerates every two-statement blob document over the name alphabet with
// no / the first / the second statement global, against every alphabet name, no name, and
// white-space-only names.
func TestC08_BlobEnum(t *testing.T) {
	rec := stats.New(t, "C08", rule)
	var rc Case
	if rp.ReplayCase(&rc) {
		evalBlob(t, rec, rc, prepBlob(t, rc.Stmts, -1))
		return
	}
	shard, shards := stats.Shard()
	idx := 0
	for i := range blobNames {
		for j := i + 1; j < len(blobNames); j++ {
			for g := -1; g < 2; g++ {
				idx++
				if idx%shards != shard {
					continue
				}
				stmts := []Stmt{enumBlobStmt(0, blobNames[i], g == 0), enumBlobStmt(1, blobNames[j], g == 1)}
				docs := prepBlob(t, stmts, -1)
				sig := docSig(stmts)
				for _, n := range blobNames {
					c := Case{Family: "blob", Kind: "blob", Stmts: stmts, Ref: n, RefKind: "unlisted"}
					recordBlob(rec, c, sig)
					evalBlob(t, rec, c, docs)
				}
				c := Case{Family: "blob", Kind: "blob", Stmts: stmts, Ref: "", RefKind: "none-given"}
				recordBlob(rec, c, sig)
				evalBlob(t, rec, c, docs)
				for _, n := range blankNames {
					c := Case{Family: "blob", Kind: "blob", Stmts: stmts, Ref: n, RefKind: "blank", Lenient: true}
					recordBlob(rec, c, sig)
					evalBlob(t, rec, c, docs)
				}
			}
		}
	}
	rec.Exhaustive()
	rec.Set("enumerated_blob_names", len(blobNames))
}

// genBlobName draws one requested policy name for the document.
func genBlobName(rt *rapid.T, stmts []Stmt) (string, string, bool) {
	listed := stmts[rapid.IntRange(0, len(stmts)-1).Draw(rt, "listedIdx")].Name
	switch rp.Pick(rt, "nameKind", "listed", "listed", "listed", "alphabet", "alphabet", "alphabet", "none-given", "none-given", "blank", "derived", "derived") {
	case "listed":
		return listed, "listed", false
	case "alphabet":
		return blobNames[rapid.IntRange(0, len(blobNames)-1).Draw(rt, "alphabet")], "unlisted", false
	case "none-given":
		return "", "none-given", false
	case "blank":
		return blankNames[rapid.IntRange(0, len(blankNames)-1).Draw(rt, "blank")], "blank", true
	}
	var n string
	switch rp.Pick(rt, "derive", "upper", "lower", "trim", "append-space", "prepend-space", "append-char", "drop-last-byte", "double") {
	case "upper":
		n = strings.ToUpper(listed)
	case "lower":
		n = strings.ToLower(listed)
	case "trim":
		n = strings.TrimSpace(listed)
	case "append-space":
		n = listed + " "
	case "prepend-space":
		n = " " + listed
	case "append-char":
		n = listed + "x"
	case "drop-last-byte":
		n = listed[:len(listed)-1]
	default:
		n = listed + listed
	}
	if n == "" {
		return "", "none-given", false
	}
	if strings.TrimSpace(n) == "" {
		// a blank request is a silent case
		return n, "blank", true
	}
	return n, "derived", false
}

const namesPerDoc = 8

// TestC08_Blob: generated blob documents (1-4 statements over the confusable name alphabet,
// 0-1 global statement) and generated requested names.
func TestC08_Blob(t *testing.T) {
	rec := stats.New(t, "C08", rule)
	rp.Check(t, 64000/namesPerDoc, 1600000/namesPerDoc, func(rt *rapid.T) {
		stmts := genBlobStmts(rt, true, false)
		docs := prepBlob(t, stmts, rapid.IntRange(0, len(perms(len(stmts)))-1).Draw(rt, "validatePerm"))
		sig := docSig(stmts)
		for r := 0; r < namesPerDoc; r++ {
			name, kind, lenient := genBlobName(rt, stmts)
			c := Case{Family: "blob", Kind: "blob", Stmts: stmts, Ref: name, RefKind: kind, Lenient: lenient}
			recordBlob(rec, c, sig)
			evalBlob(rt, rec, c, docs)
		}
	})
}
