// C06 — expiry and certificate validity are judged against the right clock.
// Oracle: decision model of the statement over generated time placements and RFC 3161
// countersignatures issued by an in-process TSA. DESIGN.md section 5, C06.
package c06

import (
	"context"
	"crypto"
	"crypto/x509"
	"errors"
	"fmt"
	"github.com/notaryproject/notation-go/dir"
	"github.com/notaryproject/notation-go/verifier/truststore"
	"os"
	"path/filepath"
	"strings"
	"sync"
	"testing"
	"time"

	"github.com/notaryproject/notation-core-go/revocation/result"
	"github.com/notaryproject/notation-go"
	"github.com/notaryproject/notation-go/verifier"
	"pgregory.net/rapid"

	"verifharness/internal/envb"
	"verifharness/internal/kit"
	"verifharness/internal/mocks"
	"verifharness/internal/pki"
	"verifharness/internal/rp"
	"verifharness/internal/stats"
)

const rule = "case = (scheme, expiry offset, per-certificate validity windows, signing time, tsa store listed, verifyTimestamp option, countersignature situation, token time/accuracy, TSA revocation); non-trivial = anything but (no expiry, all certificates valid, no tsa store); distinct by the tuple of offsets"

// Case is the replay format; all times are offsets in seconds from the case's "now".
type Case struct {
	Scheme    string     `json:"scheme"` // x509 | sa
	Format    string     `json:"format"`
	Expiry    int64      `json:"expiry"`  // 0 = none
	// ExpiryNow (Expiry == 0 only): the envelope expires at the very second in which the case is built and
	// verified: "a signature whose expiry time is not after the moment of verification fails"
	ExpiryNow bool `json:"expiryNow,omitempty"`
	Windows   [][2]int64 `json:"windows"` // per chain position (leaf first): notBefore, notAfter offsets
	SignTime  int64      `json:"signTime"`
	TSAStore  bool       `json:"tsaStore"`
	Option    string     `json:"option"` // "", always, afterCertExpiry
	Token     string     `json:"token"`  // absent garbage valid wrong-imprint untrusted-tsa no-eku codesigning-eku noncritical-eku ca-as-tsa keyenc-only
	GenTime   int64      `json:"genTime"`
	Accuracy  int64      `json:"accuracy"`
	TSARev    string     `json:"tsaRev"` // ok revoked revoked-later unknown error
	TSAction  string     `json:"tsAction"`
	EdgeLabel string     `json:"edge"`
	Warm      string     `json:"warm,omitempty"` // earlier verification on the same verifier: "", plain, token, expired
	StoreOrd  int        `json:"storeOrder"`     // position / repetition of the tsa store in the statement's store list
	// RevAction: action of the (code-signing) revocation validation in the level; it has no say
	// in whether the TSA must be unrevoked. "" = log
	RevAction string `json:"revAction,omitempty"`
	// Ctor: "" = NewVerifierWithOptions, "legacy" = the deprecated NewWithOptions (same options)
	Ctor string `json:"ctor,omitempty"`
	// RealStore: the directory-backed trust store instead of the scripted one; the ca / signing
	// authority store and the tsa store carry the SAME name there (types keep them apart)
	RealStore bool `json:"realStore,omitempty"`
	// AnchorInter: the signing trust store holds the first intermediate certificate instead of the root
	// (chains of three or more): what sits above the trust anchor is still part of the chain
	AnchorInter bool `json:"anchorIntermediate,omitempty"`
}

var (
	once                                 sync.Once
	tsaRoot, otherTSARoot                *pki.Cert
	tsaGood, tsaNoEKU, tsaCS, tsaNonCrit *pki.TSA
	tsaUntrusted, tsaIsCA, tsaKeyEnc     *pki.TSA
	tsaUnderCS                           *pki.TSA
)

func setup() {
	once.Do(func() {
		now := time.Now()
		nb, na := now.Add(-60*24*time.Hour), now.Add(60*24*time.Hour)
		tsaRoot = pki.Mint(pki.Spec{Subject: pki.DefaultLeafSubject("c06 tsa root"), NotBefore: nb, NotAfter: na, IsCA: true, PathLen: 1}, nil)
		otherTSARoot = pki.Mint(pki.Spec{Subject: pki.DefaultLeafSubject("c06 other tsa root"), NotBefore: nb, NotAfter: na, IsCA: true, PathLen: 0}, nil)
		mk := func(cn string, parent *pki.Cert, s pki.Spec) *pki.TSA {
			s.Subject, s.NotBefore, s.NotAfter = pki.DefaultLeafSubject(cn), nb, na
			return &pki.TSA{Leaf: pki.Mint(s, parent)}
		}
		tsaGood = mk("c06 tsa", tsaRoot, pki.Spec{CritTSEKU: true})
		tsaUntrusted = mk("c06 tsa of another root", otherTSARoot, pki.Spec{CritTSEKU: true})
		tsaNoEKU = mk("c06 tsa without eku", tsaRoot, pki.Spec{})
		tsaCS = mk("c06 tsa codesigning", tsaRoot, pki.Spec{EKU: []x509.ExtKeyUsage{x509.ExtKeyUsageCodeSigning}})
		tsaNonCrit = mk("c06 tsa noncritical eku", tsaRoot, pki.Spec{EKU: []x509.ExtKeyUsage{x509.ExtKeyUsageTimeStamping}})
		// right extended key usage, wrong certificate: a CA certificate (key usage certSign only) and
		// an end-entity certificate whose key usage is keyEncipherment only
		tsaIsCA = mk("c06 tsa that is a ca", tsaRoot, pki.Spec{CritTSEKU: true, IsCA: true, PathLen: -1})
		tsaKeyEnc = mk("c06 tsa keyencipherment", tsaRoot, pki.Spec{CritTSEKU: true, KeyUsage: x509.KeyUsageKeyEncipherment})
		// a TSA certificate that is right in itself, issued by a CA that the TSA root restricted to
		// code signing: the path is not a time-stamping path
		csCA := pki.Mint(pki.Spec{Subject: pki.DefaultLeafSubject("c06 code-signing-only ca"), NotBefore: nb, NotAfter: na, IsCA: true, PathLen: 0, EKU: []x509.ExtKeyUsage{x509.ExtKeyUsageCodeSigning}}, tsaRoot)
		tsaUnderCS = mk("c06 tsa under a code-signing ca", csCA, pki.Spec{CritTSEKU: true})
		tsaUnderCS.Extra = []*x509.Certificate{csCA.Cert}
	})
}

type verdicts struct {
	expiryFail bool
	tsFail     bool
	tsEither   bool
	applies    bool
}

func model(c Case) verdicts {
	var v verdicts
	v.expiryFail = c.Expiry != 0 && c.Expiry <= 0 // expiry not after now (offsets keep >= 30 s from now)
	if c.Expiry > 0 {
		v.expiryFail = false
	} else if c.Expiry < 0 || c.ExpiryNow {
		v.expiryFail = true // ExpiryNow: the expiry is the start of a second that the verification cannot precede
	}
	validNow := true
	expired := false
	for _, w := range c.Windows {
		if w[0] > 0 || w[1] < 0 {
			validNow = false
		}
		if w[1] < 0 {
			expired = true
		}
	}
	if c.Scheme == "sa" {
		for _, w := range c.Windows {
			if c.SignTime < w[0] || c.SignTime > w[1] {
				v.tsFail = true
			}
		}
		return v
	}
	v.applies = c.TSAStore && (c.Option != "afterCertExpiry" || expired)
	if !v.applies {
		v.tsFail = !validNow
		return v
	}
	switch c.Token {
	case "absent", "garbage", "wrong-imprint", "untrusted-tsa", "no-eku", "codesigning-eku", "ca-as-tsa", "keyenc-only", "replayed", "tsa-under-codesigning-ca":
		v.tsFail = true
		return v
	case "noncritical-eku":
		v.tsEither = true // RFC 3161 wants the extension critical; the statement only says "mis-purposed"
	}
	lo, hi := c.GenTime-c.Accuracy, c.GenTime+c.Accuracy
	for _, w := range c.Windows {
		if lo < w[0] || hi > w[1] {
			v.tsFail = true
		}
	}
	switch c.TSARev {
	case "revoked", "revoked-later":
		// revoked-later: the TSA certificate is revoked with an invalidity date after the token's own
		// time; a token's time is the TSA's own claim, so nothing it says can predate its revocation
		v.tsFail = true
	case "unknown", "error":
		if !v.tsFail {
			v.tsEither = true // "unrevoked TSA": an undetermined status may be refused or accepted
		}
	}
	if v.tsFail {
		v.tsEither = false
	}
	return v
}

func check(c Case) (string, string, verdicts) {
	setup()
	want := model(c)
	now := time.Now().Truncate(time.Second)
	at := func(off int64) time.Time { return now.Add(time.Duration(off) * time.Second) }
	n := len(c.Windows)
	wins := map[int][2]time.Time{}
	for i, w := range c.Windows {
		wins[i] = [2]time.Time{at(w[0]), at(w[1])}
	}
	var ch *pki.Chain
	if n == 1 {
		ch = pki.SelfSignedLeaf(nil, pki.DefaultLeafSubject("c06 selfsigned"), wins[0][0], wins[0][1])
	} else {
		ch = pki.NewChain(pki.ChainOpts{Intermediates: n - 2, Name: "c06", Windows: wins})
	}
	scheme, storeType := envb.SchemeX509, "ca"
	if c.Scheme == "sa" {
		scheme, storeType = envb.SchemeSA, "signingAuthority"
	}
	desc := kit.Artifact("c06")
	spec := envb.Spec{Format: c.Format, Payload: envb.PayloadFor(desc.MediaType, desc.Digest.String(), desc.Size, nil), ContentType: envb.PayloadType,
		Scheme: scheme, SigningTime: at(c.SignTime), Chain: ch.X509(), Key: ch.Leaf().Key}
	if c.Expiry != 0 {
		spec.Expiry = at(c.Expiry)
	} else if c.ExpiryNow {
		spec.Expiry = time.Now().Truncate(time.Second)
	}
	var issuer *pki.TSA
	switch c.Token {
	case "valid", "wrong-imprint", "replayed":
		issuer = tsaGood
	case "tsa-under-codesigning-ca":
		issuer = tsaUnderCS
	case "untrusted-tsa":
		issuer = tsaUntrusted
	case "no-eku":
		issuer = tsaNoEKU
	case "codesigning-eku":
		issuer = tsaCS
	case "noncritical-eku":
		issuer = tsaNonCrit
	case "ca-as-tsa":
		issuer = tsaIsCA
	case "keyenc-only":
		issuer = tsaKeyEnc
	}
	if issuer != nil {
		spec.Timestamp = func(sig []byte) []byte {
			if c.Token == "wrong-imprint" {
				sig = append([]byte{0x55}, sig...)
			}
			return issuer.Token(pki.TokenSpec{Message: sig, Hash: crypto.SHA256, GenTime: at(c.GenTime), Accuracy: int(c.Accuracy)})
		}
	} else if c.Token == "garbage" {
		spec.Timestamp = func(sig []byte) []byte { return []byte("\x30\x03\x02\x01\x01 this is not a timestamp token") }
	}
	// "replayed": a genuine countersignature over ANOTHER envelope's signature value - an envelope
	// that this very process verifies (successfully, where the case allows) before the judged one
	var replayedFrom []byte
	if c.Token == "replayed" {
		var captured []byte
		first := spec
		first.Timestamp = func(sig []byte) []byte {
			captured = tsaGood.Token(pki.TokenSpec{Message: sig, Hash: crypto.SHA256, GenTime: at(c.GenTime), Accuracy: int(c.Accuracy)})
			return captured
		}
		replayedFrom = envb.Build(first)
		spec.Timestamp = func(sig []byte) []byte { return captured }
	}
	env := envb.Build(spec)
	stores := []string{storeType + ":x"}
	anchor := ch.Root().Cert
	if c.AnchorInter && n >= 3 {
		anchor = ch.Certs[1].Cert
	}
	ts := mocks.NewTrustStore().Put(storeType, "x", anchor)
	tsaName := "t"
	if c.RealStore {
		tsaName = "x" // same name as the signing store, another type
	}
	if c.TSAStore {
		otherType := map[string]string{"ca": "signingAuthority", "signingAuthority": "ca"}[storeType]
		switch c.StoreOrd % 6 {
		case 0:
			stores = append(stores, "tsa:"+tsaName)
		case 1: // tsa store listed first
			stores = append([]string{"tsa:" + tsaName}, stores...)
		case 2: // between two stores of the signing type
			stores = []string{storeType + ":x", "tsa:" + tsaName, storeType + ":second"}
			ts.Put(storeType, "second", otherTSARoot.Cert)
		case 3: // listed twice
			stores = []string{"tsa:" + tsaName, storeType + ":x", "tsa:" + tsaName}
		case 4: // after a store of the other signing scheme's type
			stores = []string{storeType + ":x", otherType + ":other", "tsa:" + tsaName}
			ts.Put(otherType, "other", otherTSARoot.Cert)
		case 5: // between a store of the other scheme's type and the store of this one
			stores = []string{otherType + ":other", "tsa:" + tsaName, storeType + ":x"}
			ts.Put(otherType, "other", otherTSARoot.Cert)
		}
		ts.Put("tsa", tsaName, tsaRoot.Cert)
	}
	ts.Put("ca", "decoy", tsaRoot.Cert, otherTSARoot.Cert) // TSA roots in a ca store must never help
	tsRev := &mocks.Revocation{}
	switch c.TSARev {
	case "revoked-later":
		tsRev.Results = []result.Result{result.ResultRevoked}
		tsRev.OKIfSigningTimeGiven = true
	case "revoked":
		tsRev.Results = []result.Result{result.ResultRevoked}
	case "unknown":
		tsRev.Results = []result.Result{result.ResultUnknown}
	case "error":
		tsRev.Err = errors.New("scripted timestamping validator error")
		tsRev.ErrWithResults = c.Accuracy%2 == 1
	}
	revAction := c.RevAction
	if revAction == "" {
		revAction = "log"
	}
	level := kit.LevelFor("strict", map[string]string{"authenticity": "enforce", "expiry": "log", "authenticTimestamp": c.TSAction, "revocation": revAction}, false)
	opts := kit.Options()
	opts.RevocationTimestampingValidator = tsRev
	opts.OCITrustPolicy = kit.OCIDoc("p", level.SV(c.Option), stores, []string{"*"})
	var store truststore.X509TrustStore = ts
	if c.RealStore {
		root, err := os.MkdirTemp("", "c06-")
		if err != nil {
			return "harness", err.Error(), want
		}
		defer os.RemoveAll(root)
		for _, k := range ts.Keys() {
			typ, name, _ := strings.Cut(k, ":")
			d := filepath.Join(root, "truststore", "x509", typ, name)
			os.MkdirAll(d, 0o755)
			for i, cert := range ts.Certs[k] {
				os.WriteFile(filepath.Join(d, fmt.Sprintf("c%d.pem", i)), pki.PEM(cert), 0o644)
			}
		}
		store = truststore.NewX509TrustStore(dir.NewSysFS(root))
	}
	var v notation.Verifier
	var err error
	if c.Ctor == "legacy" {
		v, err = verifier.NewWithOptions(opts.OCITrustPolicy, store, opts.PluginManager, opts)
	} else {
		v, err = verifier.NewVerifierWithOptions(store, opts)
	}
	if err != nil {
		return "harness", "verifier construction: " + err.Error(), want
	}
	if replayedFrom != nil {
		v.Verify(context.Background(), desc, replayedFrom, notation.VerifierVerifyOptions{ArtifactReference: kit.Reference(desc), SignatureMediaType: c.Format})
	}
	if c.Warm != "" {
		ws := envb.Spec{Format: c.Format, Payload: spec.Payload, ContentType: envb.PayloadType, Scheme: scheme, SigningTime: at(c.SignTime - 60), Chain: ch.X509(), Key: ch.Leaf().Key}
		switch c.Warm {
		case "token":
			mid := (c.Windows[0][0] + c.Windows[0][1]) / 2
			ws.Timestamp = func(sig []byte) []byte {
				return tsaGood.Token(pki.TokenSpec{Message: sig, Hash: crypto.SHA256, GenTime: at(mid), Accuracy: 1})
			}
		case "expired":
			ws.Expiry = at(c.SignTime - 30)
		}
		v.Verify(context.Background(), desc, envb.Build(ws), notation.VerifierVerifyOptions{ArtifactReference: kit.Reference(desc), SignatureMediaType: c.Format})
	}
	out, verr := v.Verify(context.Background(), desc, env, notation.VerifierVerifyOptions{ArtifactReference: kit.Reference(desc), SignatureMediaType: c.Format})
	if out == nil {
		return "C06:nil-outcome", fmt.Sprintf("nil outcome err=%v", verr), want
	}
	var exp, tsr *notation.ValidationResult
	for _, r := range out.VerificationResults {
		switch r.Type {
		case "integrity", "authenticity":
			if r.Error != nil {
				return "harness", fmt.Sprintf("%s failed: %v", r.Type, r.Error), want
			}
		case "expiry":
			exp = r
		case "authenticTimestamp":
			tsr = r
		}
	}
	if exp == nil || tsr == nil {
		return "C06:missing-result", fmt.Sprintf("expiry or authenticTimestamp result missing (err=%v)", verr), want
	}
	if want.expiryFail != (exp.Error != nil) {
		return "C06:expiry:" + map[bool]string{true: "expired-accepted", false: "spurious-failure"}[want.expiryFail],
			fmt.Sprintf("expiry offset %ds: model fail=%v, library error=%v", c.Expiry, want.expiryFail, exp.Error), want
	}
	if !want.tsEither && want.tsFail != (tsr.Error != nil) {
		site := c.Scheme
		if c.Scheme == "x509" {
			site = "x509:" + map[bool]string{true: "timestamping", false: "no-timestamping"}[want.applies]
			if want.applies {
				site += ":token=" + c.Token
				if c.Token == "valid" && c.TSARev != "ok" {
					site += ":tsa-" + c.TSARev
				}
			}
		}
		return "C06:authenticTimestamp:" + site + ":" + map[bool]string{true: "accepted", false: "spurious-failure"}[want.tsFail],
			fmt.Sprintf("model fail=%v (applies=%v), library error=%v", want.tsFail, want.applies, tsr.Error), want
	}
	if tsr.Error != nil && c.TSAction == "enforce" && verr == nil {
		return "C06:enforced-failure-accepted", "authentic timestamp failed under enforce but verification succeeded", want
	}
	if tsr.Error == nil && verr != nil {
		return "harness", fmt.Sprintf("unexpected verification failure: %v", verr), want
	}
	return "", "", want
}

func classes(c Case, v verdicts) []string {
	cl := []string{"scheme=" + c.Scheme, "format=" + c.Format, fmt.Sprintf("chain=%d", len(c.Windows))}
	switch {
	case c.ExpiryNow:
		cl = append(cl, "expiry=this-very-second")
	case c.Expiry == 0:
		cl = append(cl, "expiry=none")
	case c.Expiry > 0:
		cl = append(cl, "expiry=future")
	default:
		cl = append(cl, "expiry=past")
	}
	if c.Expiry != 0 && c.Expiry > -121 && c.Expiry < 121 {
		cl = append(cl, "expiry=near-now")
	}
	if v.tsEither {
		cl = append(cl, "ts=either")
	} else if v.tsFail {
		cl = append(cl, "ts=fail")
	} else {
		cl = append(cl, "ts=pass")
	}
	if c.Scheme == "x509" {
		if c.TSAStore {
			cl = append(cl, "tsa-store-listed", "option="+c.Option, fmt.Sprintf("store-order=%d", c.StoreOrd%6))
		}
		if v.applies {
			cl = append(cl, "tsa=applies", "token="+c.Token, "tsarev="+c.TSARev)
			if c.Token == "valid" && !v.tsFail && !v.tsEither {
				cl = append(cl, "token-accepted")
			}
		} else {
			cl = append(cl, "tsa=not-applicable")
		}
	}
	if c.EdgeLabel != "" {
		cl = append(cl, "edge="+c.EdgeLabel)
	}
	if c.Warm != "" {
		cl = append(cl, "reused-verifier")
	}
	if c.Ctor != "" {
		cl = append(cl, "constructor="+c.Ctor)
	}
	if c.AnchorInter && len(c.Windows) >= 3 {
		cl = append(cl, "trust-anchor-is-intermediate")
	}
	if c.RealStore {
		cl = append(cl, "real-directory-store")
	}
	if c.RevAction != "" {
		cl = append(cl, "revocation-action="+c.RevAction)
		if v.applies && c.Token == "valid" && c.TSARev == "revoked" {
			cl = append(cl, "revoked-tsa-under-revocation-"+c.RevAction)
		}
	}
	return cl
}

func nontrivial(c Case) bool {
	if c.Expiry != 0 || c.TSAStore || c.Scheme == "sa" {
		return true
	}
	for _, w := range c.Windows {
		if w[0] > 0 || w[1] < 0 {
			return true
		}
	}
	return false
}

const (
	hour = int64(3600)
	day  = 24 * hour
)

func drawCase(rt *rapid.T) Case {
	c := Case{Scheme: rp.Pick(rt, "scheme", "x509", "x509", "sa"), Format: rp.Pick(rt, "format", envb.MTJWS, envb.MTCOSE),
		TSAction: rp.Pick(rt, "tsAction", "enforce", "log"), TSARev: "ok", Token: "absent"}
	c.Expiry = rp.Pick(rt, "expiry", 0, 0, -365*day, -hour, -30, -5, 120, hour, 365*day, -57*365*day, -130*365*day) // also: before 1970 and before 1900 (years the envelope formats can still write down) // the future side keeps 2 min so that a stalled process cannot flip the verdict
	n := rapid.IntRange(1, 4).Draw(rt, "chainLen")
	nbs := []int64{-20 * day, -10 * day, -5 * day, hour}
	nas := []int64{-2 * day, -hour, hour, 10 * day, 20 * day}
	state := rp.Pick(rt, "chainState", "valid", "valid", "one-expired", "one-notyet", "random")
	for i := 0; i < n; i++ {
		w := [2]int64{-10 * day, 10 * day}
		if state == "random" {
			w = [2]int64{rp.Pick(rt, "nb", nbs...), rp.Pick(rt, "na", nas...)}
			if w[0] >= w[1] {
				w = [2]int64{-10 * day, w[1]}
			}
			if w[0] >= w[1] {
				w = [2]int64{-10 * day, 10 * day}
			}
		}
		c.Windows = append(c.Windows, w)
	}
	pos := rapid.IntRange(0, n-1).Draw(rt, "position")
	switch state {
	case "one-expired":
		c.Windows[pos] = [2]int64{-9 * day, rp.Pick(rt, "expiredAt", -2*day, -hour)}
	case "one-notyet":
		c.Windows[pos] = [2]int64{rp.Pick(rt, "validFrom", hour, 2*day), 10 * day}
	}
	// a reference point relative to the window of one certificate: before, at, inside, at, after
	w := c.Windows[pos]
	edge := rp.Pick(rt, "edge", "inside", "inside", "nb-1", "nb", "nb+1", "na-1", "na", "na+1", "far-before", "far-after")
	ref := map[string]int64{"inside": (w[0] + w[1]) / 2, "nb-1": w[0] - 1, "nb": w[0], "nb+1": w[0] + 1, "na-1": w[1] - 1, "na": w[1], "na+1": w[1] + 1,
		"far-before": w[0] - 3*day, "far-after": w[1] + 3*day}[edge]
	c.EdgeLabel = edge
	if c.Scheme == "sa" {
		c.SignTime = ref
	} else {
		c.SignTime = -30 * day // untrusted; only has to precede the expiry
		c.TSAStore = rapid.IntRange(0, 3).Draw(rt, "tsaStore") != 0
		if c.TSAStore {
			c.Option = rp.Pick(rt, "option", "", "always", "afterCertExpiry", "afterCertExpiry")
			c.Token = rp.Pick(rt, "token", "valid", "valid", "valid", "valid", "valid", "absent", "garbage", "wrong-imprint", "untrusted-tsa", "no-eku", "codesigning-eku", "noncritical-eku", "ca-as-tsa", "keyenc-only", "replayed", "replayed", "tsa-under-codesigning-ca")
			c.Accuracy = rp.Pick(rt, "accuracy", 0, 1, 1, 60, 2*hour)
			switch edge { // place the token range, not only its centre, at the edge
			case "nb", "nb+1", "nb-1":
				c.GenTime = ref + c.Accuracy
			case "na", "na+1", "na-1":
				c.GenTime = ref - c.Accuracy
			default:
				c.GenTime = ref
			}
			if c.Token == "valid" {
				c.TSARev = rp.Pick(rt, "tsaRev", "ok", "ok", "ok", "revoked", "revoked-later", "unknown", "error")
			}
		} else {
			c.EdgeLabel = ""
		}
	}
	c.ExpiryNow = c.Expiry == 0 && rapid.IntRange(0, 2).Draw(rt, "expiryNow") == 0 && c.SignTime <= -5
	if c.Expiry != 0 && c.SignTime >= c.Expiry { // the envelope format requires expiry after signing time
		if c.Scheme == "sa" {
			c.Expiry = 0
		} else {
			c.SignTime = c.Expiry - day
		}
	}
	if c.Scheme == "x509" && !c.TSAStore {
		c.GenTime, c.Accuracy = 0, 0
	}
	c.Warm = rp.Pick(rt, "warm", "", "", "", "plain", "token", "expired")
	c.StoreOrd = rapid.IntRange(0, 5).Draw(rt, "storeOrder")
	c.RevAction = rp.Pick(rt, "revAction", "", "", "skip", "skip", "enforce")
	c.Ctor = rp.Pick(rt, "ctor", "", "", "legacy")
	c.AnchorInter = len(c.Windows) >= 3 && rapid.IntRange(0, 2).Draw(rt, "anchorIntermediate") == 0
	c.RealStore = len(c.Windows) > 1 && rapid.IntRange(0, 4).Draw(rt, "realStore") == 0
	return c
}

func TestC06_Time(t *testing.T) {
	rec := stats.New(t, "C06", rule)
	rp.Check(t, 8000, 1500000, func(rt *rapid.T) {
		c := drawCase(rt)
		key, msg, want := check(c)
		rec.Case(classes(c, want), nontrivial(c), stats.Fingerprint(fmt.Sprintf("%+v", c)), func() any { return c })
		if key == "harness" {
			rt.Fatalf("harness: %s (case %+v)", msg, c)
		}
		if key != "" {
			rec.Failf(rt, key, c, "%s", msg)
		}
	})
}
