package c06

import (
	"context"
	"fmt"
	"testing"
	"time"

	"github.com/notaryproject/notation-go"
	"github.com/notaryproject/notation-go/verifier"

	"verifharness/internal/envb"
	"verifharness/internal/kit"
	"verifharness/internal/mocks"
	"verifharness/internal/pki"
	"verifharness/internal/stats"
)

// TestC06_MomentOfVerificationOnReusedVerifier: "the moment of verification" is the moment of the
// call, also on a verifier object that has been used before. One verifier verifies a signature whose
// expiry, and another whose leaf certificate's notAfter, lies three seconds ahead; both pass; after
// four seconds the same verifier verifies the same envelopes again and both validations must fail
// now. (The random test keeps all times at least 30 s away from the wall clock, so that the clock
// cannot flip a verdict; here the crossing is the point.) Runs in one shard.
func TestC06_MomentOfVerificationOnReusedVerifier(t *testing.T) {
	rec := stats.New(t, "C06", rule)
	if s, n := stats.Shard(); s != 1%n {
		t.Skip("runs in one shard")
	}
	now := time.Now()
	soon := now.Truncate(time.Second).Add(3 * time.Second)
	good := pki.NewChain(pki.ChainOpts{Intermediates: 1, Name: "c06 crossing"})
	short := pki.NewChain(pki.ChainOpts{Intermediates: 1, Name: "c06 crossing short leaf", Windows: map[int][2]time.Time{0: {now.Add(-time.Hour), soon}}})
	desc := kit.Artifact("c06-crossing")
	payload := envb.PayloadFor(desc.MediaType, desc.Digest.String(), desc.Size, nil)
	envExpiry := envb.Build(envb.Spec{Format: envb.MTJWS, Payload: payload, ContentType: envb.PayloadType, Scheme: envb.SchemeX509,
		SigningTime: now.Add(-time.Minute), Expiry: soon, Chain: good.X509(), Key: good.Leaf().Key})
	envCert := envb.Build(envb.Spec{Format: envb.MTCOSE, Payload: payload, ContentType: envb.PayloadType, Scheme: envb.SchemeX509,
		SigningTime: now.Add(-time.Minute), Chain: short.X509(), Key: short.Leaf().Key})
	opts := kit.Options()
	opts.OCITrustPolicy = kit.OCIDoc("p", kit.LevelFor("strict", map[string]string{"authenticity": "enforce", "expiry": "log", "authenticTimestamp": "log", "revocation": "log"}, false).SV(""),
		[]string{"ca:x"}, []string{"*"})
	v, err := verifier.NewVerifierWithOptions(mocks.NewTrustStore().Put("ca", "x", good.Root().Cert, short.Root().Cert), opts)
	if err != nil {
		t.Fatalf("harness: %v", err)
	}
	result := func(env []byte, format, typ string) (failed bool, msg string) {
		out, verr := v.Verify(context.Background(), desc, env, notation.VerifierVerifyOptions{ArtifactReference: kit.Reference(desc), SignatureMediaType: format})
		if out == nil {
			return true, fmt.Sprintf("nil outcome (%v)", verr)
		}
		for _, r := range out.VerificationResults {
			if string(r.Type) == typ {
				return r.Error != nil, fmt.Sprint(r.Error)
			}
		}
		return true, fmt.Sprintf("no %s result (%v)", typ, verr)
	}
	type probe struct {
		name, format, typ string
		env             []byte
	}
	probes := []probe{{"signature-expiry", envb.MTJWS, "expiry", envExpiry}, {"leaf-not-after", envb.MTCOSE, "authenticTimestamp", envCert}}
	observedFresh := map[string]bool{}
	for _, p := range probes {
		failed, _ := result(p.env, p.format, p.typ)
		observedFresh[p.name] = !failed && time.Now().Before(soon.Add(-300*time.Millisecond))
	}
	time.Sleep(time.Until(soon.Add(1200 * time.Millisecond)))
	for _, p := range probes {
		cl := []string{"moment-of-verification-crossing", "crossing=" + p.name}
		if !observedFresh[p.name] {
			cl = append(cl, "crossing-not-observed-valid-first")
		}
		rec.Case(cl, observedFresh[p.name], stats.Fingerprint("crossing", p.name), func() any { return p.name })
		failed, msg := result(p.env, p.format, p.typ)
		if !failed {
			rec.Failf(t, "C06:"+p.typ+":stale-moment-of-verification:"+p.name, p.name, "%s lay at %s; the verifier (used before that moment) still passes the %s validation at %s (%s)",
				p.name, soon.Format(time.RFC3339), p.typ, time.Now().Format(time.RFC3339Nano), msg)
		}
	}
}
