package c01

import (
	"bytes"
	"context"
	"io"
	"runtime"
	"fmt"
	"os"
	"path/filepath"
	"sync"
	"testing"
	"time"

	"github.com/notaryproject/notation-go"
	"github.com/notaryproject/notation-go/dir"
	"github.com/notaryproject/notation-go/verifier"
	"github.com/notaryproject/notation-go/verifier/truststore"
	"github.com/opencontainers/go-digest"
	ocispec "github.com/opencontainers/image-spec/specs-go/v1"

	"verifharness/internal/envb"
	"verifharness/internal/kit"
	"verifharness/internal/pki"
	"verifharness/internal/stats"
)

// TestC01_ConcurrentVerifications: a verification succeeds only for the artifact that was
// presented to THAT call - whatever other verifications the same verifier object is running.
// One verifier (OCI and blob policy, directory-backed trust store) serves eight goroutines; each
// presents descriptor j together with the validly signed envelope of artifact i (both formats,
// OCI and blob entry points). Success is expected exactly for i == j, and the outcome of a
// success must carry the payload of the presented artifact. Runs in one shard.
func TestC01_ConcurrentVerifications(t *testing.T) {
	rec := stats.New(t, "C01", rule)
	if s, n := stats.Shard(); s != 2%n {
		t.Skip("runs in one shard")
	}
	sA := getSigner("A", "EC-256")
	root, err := os.MkdirTemp("", "c01-conc-")
	if err != nil {
		t.Fatalf("harness: %v", err)
	}
	defer os.RemoveAll(root)
	d := filepath.Join(root, "truststore", "x509", "ca", "x")
	os.MkdirAll(d, 0o755)
	os.WriteFile(filepath.Join(d, "root.pem"), pki.PEM(sA.chain.Root().Cert), 0o644)
	opts := kit.Options()
	sv := kit.Level{Base: "strict"}.SV("")
	opts.OCITrustPolicy = kit.OCIDoc("p", sv, []string{"ca:x"}, []string{"*"})
	opts.BlobTrustPolicy = kit.BlobDoc("", sv, []string{"ca:x"}, []string{"*"})
	v, err := verifier.NewVerifierWithOptions(truststore.NewX509TrustStore(dir.NewSysFS(root)), opts)
	if err != nil {
		t.Fatalf("harness: %v", err)
	}
	const arts = 5
	var descs []ocispec.Descriptor
	envs := map[string][][]byte{}
	for i := 0; i < arts; i++ {
		ds := kit.Artifact(fmt.Sprintf("c01-conc-%d", i))
		ds.Size = int64(1000 + i) // payloads of equal length, differing in digest and one digit of the size
		descs = append(descs, ds)
		for _, f := range envb.Formats {
			envs[f] = append(envs[f], envb.Build(envb.Spec{Format: f, Payload: envb.PayloadFor(ds.MediaType, ds.Digest.String(), ds.Size, nil), ContentType: envb.PayloadType,
				Scheme: envb.SchemeX509, SigningTime: time.Now().Add(-time.Hour), Chain: sA.chain.X509(), Key: sA.chain.Leaf().Key}))
		}
	}
	const workers = 8
	rounds := 600
	if stats.Tier() == "thorough" {
		rounds = 4000
	}
	type bad struct{ key, msg string }
	var mu sync.Mutex
	var first *bad
	total, matching := 0, 0
	var wg sync.WaitGroup
	for w := 0; w < workers; w++ {
		w := w
		wg.Add(1)
		go func() {
			defer wg.Done()
			for r := 0; r < rounds; r++ {
				i := (w + r) % arts
				j := i
				if (w+r/arts)%3 != 0 {
					j = (i + 1 + (r/7)%(arts-1)) % arts
				}
				f := envb.Formats[(w+r/2)%2]
				blob := (w+r/3)%2 == 1
				site := "verifier.Verify"
				var out *notation.VerificationOutcome
				var verr error
				if blob {
					site = "verifier.VerifyBlob"
					out, verr = v.VerifyBlob(context.Background(), func(digest.Algorithm) (ocispec.Descriptor, error) { return descs[j], nil }, envs[f][i],
						notation.BlobVerifierVerifyOptions{SignatureMediaType: f})
				} else {
					out, verr = v.Verify(context.Background(), descs[j], envs[f][i], notation.VerifierVerifyOptions{ArtifactReference: kit.Reference(descs[j]), SignatureMediaType: f})
				}
				var b *bad
				switch {
				case i != j && verr == nil:
					b = &bad{"C01:concurrent:success-for-different-artifact:" + site, fmt.Sprintf("artifact %d was presented with the signature of artifact %d and the verification succeeded while other verifications were running", j, i)}
				case i == j && verr != nil:
					b = &bad{"C01:concurrent:spurious-failure:" + site, fmt.Sprintf("artifact %d presented with its own signature failed while other verifications were running: %v", i, verr)}
				case i == j && (out == nil || out.EnvelopeContent == nil):
					b = &bad{"C01:concurrent:success-without-outcome:" + site, "successful verification without envelope content in the outcome"}
				case i == j:
					if tgt, derr := envb.DecodeTarget(out.EnvelopeContent.Payload.Content); derr != nil || tgt.Digest != descs[j].Digest.String() || tgt.Size.String() != fmt.Sprint(descs[j].Size) {
						b = &bad{"C01:concurrent:outcome-of-another-call:" + site, fmt.Sprintf("the outcome of the verification of artifact %d carries the payload %s", j, out.EnvelopeContent.Payload.Content)}
					}
				}
				mu.Lock()
				total++
				if i == j {
					matching++
				}
				if b != nil && first == nil {
					first = b
				}
				stop := first != nil
				mu.Unlock()
				if stop {
					return
				}
			}
		}()
	}
	wg.Wait()
	// the blob API (notation.VerifyBlob digests the caller's reader): blobs of equal length, readers
	// that hand the processor to another goroutine after every Read, one and several processors
	blobs := make([][]byte, arts)
	blobEnvs := map[string][][]byte{}
	for i := range blobs {
		blobs[i] = bytes.Repeat([]byte{byte('A' + i)}, 2048)
		for _, f := range envb.Formats {
			blobEnvs[f] = append(blobEnvs[f], envb.Build(envb.Spec{Format: f, Payload: envb.PayloadFor("application/octet-stream", kit.OwnDigest("sha256", blobs[i]), int64(len(blobs[i])), nil), ContentType: envb.PayloadType,
				Scheme: envb.SchemeX509, SigningTime: time.Now().Add(-time.Hour), Chain: sA.chain.X509(), Key: sA.chain.Leaf().Key}))
		}
	}
	for _, procs := range []int{1, 4} {
		if first != nil {
			break
		}
		prev := runtime.GOMAXPROCS(procs)
		for w := 0; w < workers; w++ {
			w := w
			wg.Add(1)
			go func() {
				defer wg.Done()
				for r := 0; r < rounds; r++ {
					i := (w + r) % arts
					j := i
					if (w+r/arts)%2 == 1 {
						j = (i + 1 + (r/7)%(arts-1)) % arts
					}
					f := envb.Formats[(w+r/2)%2]
					_, _, verr := notation.VerifyBlob(context.Background(), v, &yieldReader{data: blobs[j], chunk: []int{4096, 512}[(r/5)%2]}, blobEnvs[f][i],
						notation.VerifyBlobOptions{BlobVerifierVerifyOptions: notation.BlobVerifierVerifyOptions{SignatureMediaType: f}})
					var b *bad
					switch {
					case i != j && verr == nil:
						b = &bad{"C01:concurrent:success-for-different-artifact:notation.VerifyBlob", fmt.Sprintf("blob %d was presented with the signature of blob %d and the verification succeeded while other blob verifications were running (%d processors)", j, i, procs)}
					case i == j && verr != nil:
						b = &bad{"C01:concurrent:spurious-failure:notation.VerifyBlob", fmt.Sprintf("blob %d presented with its own signature failed while other blob verifications were running (%d processors): %v", i, procs, verr)}
					}
					mu.Lock()
					total++
					if b != nil && first == nil {
						first = b
					}
					stop := first != nil
					mu.Unlock()
					if stop {
						return
					}
				}
			}()
		}
		wg.Wait()
		runtime.GOMAXPROCS(prev)
	}
	rec.Case([]string{"concurrent-verifications-one-verifier"}, true, stats.Fingerprint("c01-concurrent", workers, rounds), func() any {
		return map[string]any{"goroutines": workers, "verifications": total, "with_own_signature": matching}
	})
	rec.Add("count_concurrent_verifications", int64(total))
	if first != nil {
		rec.Failf(t, first.key, map[string]any{"goroutines": workers, "verifications_before_failure": total}, "%s", first.msg)
	}
}

// yieldReader is a plain io.Reader (no WriteTo) that hands the processor to another goroutine
// after every Read: the reader is the seam through which the harness owns the schedule.
type yieldReader struct {
	data  []byte
	off   int
	chunk int
}

func (y *yieldReader) Read(p []byte) (int, error) {
	if y.off >= len(y.data) {
		return 0, io.EOF
	}
	n := len(p)
	if n > y.chunk {
		n = y.chunk
	}
	n = copy(p[:n], y.data[y.off:])
	y.off += n
	runtime.Gosched()
	return n, nil
}
