package c01

import (
	"testing"

	"verifharness/internal/envb"
	"verifharness/internal/kit"
	"verifharness/internal/stats"
)

// fuzzOne decodes selector bytes into a configuration, verifies data as an envelope of the
// given format and applies the C01 oracle to a success.
func fuzzOne(t *testing.T, format string, sel []byte, data []byte) {
	if len(sel) < 4 {
		sel = append(sel, 0, 0, 0, 0)
	}
	maps := kit.AllMaps()
	keySpec := []string{"EC-256", "EC-384"}[int(sel[3])%2]
	c := &Case{Source: "fuzz", Format: format, KeySpec: keySpec, Envelope: data,
		Level:   kit.LevelFor([]string{"strict", "permissive", "audit"}[int(sel[0])%3], maps[int(sel[1])%len(maps)], false),
		Trusted: sel[2]&1 == 0, Identity: []string{"wildcard", "pinned", "pinned-other"}[int(sel[2]>>1)%3]}
	kind := []string{"oci", "blob"}[int(sel[2]>>3)%2]
	art := makeArtifact(kind, "x", map[string]string{"env": "prod"}, keySpec)
	c.Presented = Presented{Kind: kind, MediaType: art.mediaType, Digest: art.digest, Size: art.size, Blob: art.blob}
	switch int(sel[2]>>4) % 4 {
	case 1:
		c.Presented.Required = map[string]string{"env": "prod"}
	case 2:
		c.Presented.Required = map[string]string{"env": "dev"}
	case 3:
		if kind == "oci" {
			c.Presented.Size++
		} else {
			c.Presented.Blob = append(append([]byte{}, c.Presented.Blob...), 'z')
		}
	}
	if kind == "oci" {
		c.Entry = []string{"verifier.Verify", "notation.Verify"}[int(sel[0]>>4)%2]
	} else {
		c.Entry = []string{"verifier.VerifyBlob", "notation.VerifyBlob"}[int(sel[0]>>4)%2]
	}
	res, herr := execute(c, getSigner("A", keySpec))
	if herr != nil {
		t.Fatalf("harness: %v", herr)
	}
	if res.success {
		if res.outcome == nil {
			t.Fatalf(`VERIF-FAIL {"property":"C01","key":"C01:success-without-outcome:%s","message":"no error but nil outcome (fuzz)"}`, c.Entry)
		}
		if key, msg := oracle(c); key != "" {
			t.Fatalf(`VERIF-FAIL {"property":"C01","key":%q,"message":%q}`, key, msg)
		}
	}
}

func seedEnvelopes(format string) [][]byte {
	var out [][]byte
	for _, ks := range []string{"EC-256", "EC-384"} {
		for _, kind := range []string{"oci", "blob"} {
			art := makeArtifact(kind, "x", map[string]string{"env": "prod"}, ks)
			out = append(out, buildEnv(format, getSigner("A", ks), art.payload(), envb.PayloadType, false))
			other := makeArtifact(kind, "y", map[string]string{"env": "prod"}, ks)
			out = append(out, buildEnv(format, getSigner("A", ks), other.payload(), envb.PayloadType, false))
		}
	}
	return out
}

func FuzzC01_VerifyJWS(f *testing.F) {
	for i, e := range seedEnvelopes(envb.MTJWS) {
		f.Add([]byte{byte(i), byte(i * 7), byte(i * 16), byte(i / 4)}, e)
	}
	f.Fuzz(func(t *testing.T, sel []byte, data []byte) { fuzzOne(t, envb.MTJWS, sel, data) })
}

func FuzzC01_VerifyCOSE(f *testing.F) {
	for i, e := range seedEnvelopes(envb.MTCOSE) {
		f.Add([]byte{byte(i), byte(i * 7), byte(i * 16), byte(i / 4)}, e)
	}
	f.Fuzz(func(t *testing.T, sel []byte, data []byte) { fuzzOne(t, envb.MTCOSE, sel, data) })
}

// TestC01_FuzzSeeds runs the fuzz function over the seeds and all selector variations so
// that the quick tier covers the fuzz oracle deterministically.
func TestC01_FuzzSeeds(t *testing.T) {
	rec := stats.New(t, "C01", rule)
	shard, shards := stats.Shard()
	n := 0
	for _, format := range envb.Formats {
		for i, e := range seedEnvelopes(format) {
			for s := 0; s < 256; s++ {
				n++
				if n%shards != shard {
					continue
				}
				sel := []byte{byte(s), byte(s*5 + i), byte(s), byte(i / 4)}
				fuzzOne(t, format, sel, e)
				rec.Case([]string{"src=fuzz-seed"}, true, stats.Fingerprint("seed", format, i, s), nil)
			}
		}
	}
}
